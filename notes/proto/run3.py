import random, sys
sys.path.insert(0, '/verif/notes/proto')
from model import *
from run import mk_plan

# ---- F1: hasher panic at k-th call inside rehash_in_place, with and without drop glue
def f1(needs_drop, k_panic):
    plan = {k: k for k in range(200)}          # identity hasher, as in the real-code reproduction
    calls = [0]
    def hf(e):
        calls[0] += 1
        if armed[0] and calls[0] == k_panic: raise PanicCB()
        return plan[e[0]]
    armed = [False]
    t = Raw(16, 16)
    for k in range(28):
        res, idx = t.find_or_find_insert_slot(plan[k], lambda e: e[0] == k, hf); t.insert_in_slot(plan[k], idx, (k, 0, 0))
    for k in range(3, 18):
        idx = t.find_inner(plan[k], lambda e: e[0] == k); t.erase(idx); t.slots[idx] = None
    check_inv(t, lambda e: plan[e[0]])
    assert (t.items, t.gl) == (13, 0)
    armed[0] = True; calls[0] = 0
    try:
        t.find_or_find_insert_slot(plan[100], lambda e: e[0] == 100, hf, needs_drop=needs_drop)
        return "no panic"
    except PanicCB as p:
        try: check_inv(t, lambda e: plan[e[0]]); ok = "Inv holds"
        except AssertionError as e: ok = f"Inv FAILS ({e})"
        full = sum(1 for i in range(t.n) if is_full(t.ctrl[i])); dele = sum(1 for i in range(t.n) if t.ctrl[i] == DELETED)
        return f"items={t.items} full={full} deleted={dele} gl={t.gl} -> {ok}"
for nd in (True, False):
    print("needs_drop", nd, ":", f1(nd, 4))

# ---- C13 churn bound: insert/remove only, from new(); cap <= max(mincap, 4*peak+8)
worst = 0.0
for seed in range(1500):
    rng = random.Random(seed)
    W = rng.choice([4, 8, 16]); size = rng.choice([0, 1, 2, 8]); U = rng.choice([8, 32, 128, 512])
    plan = mk_plan(rng, rng.choice(['mixed', 'const0', 'seq', 'cluster', 'postag']), U)
    hf = lambda e: plan[e[0]]
    t = Raw(W, size); ref = set(); peak = 0
    mincap = t.cap_of(t.capacity_to_buckets(1) - 1)
    L = rng.choice([1, 2, 3, 6, 7, 13, 14, 15, 27, 29, 60])
    for _ in range(rng.choice([200, 1000, 3000])):
        k = rng.randrange(U); h = plan[k]
        if k in ref and (len(ref) >= L or rng.random() < 0.4):
            idx = t.find_inner(h, lambda e: e[0] == k); t.erase(idx); t.slots[idx] = None; ref.discard(k)
        elif len(ref) < L or k in ref:
            if rng.random() < 0.5:
                res, idx = t.find_or_find_insert_slot(h, lambda e: e[0] == k, hf)
                if res == 'err': t.insert_in_slot(h, idx, (k, 0, 0)); ref.add(k)
            elif k not in ref:
                t.insert(h, (k, 0, 0), hf); ref.add(k)
        peak = max(peak, len(ref))
        cap = t.cap_of(t.mask) if t.alloc else 0
        assert cap <= max(mincap, 4 * peak + 8), (seed, cap, peak, mincap)
        if peak: worst = max(worst, (cap if cap > mincap else 0) / peak)
print("churn bound holds on 1500 histories; worst cap/peak above minimum size:", round(worst, 2))
