import random, sys
sys.path.insert(0, '/verif/notes/proto')
from model import *

def mk_plan(rng, kind, U, mask_bits=12):
    if kind == 'mixed':  return {k: rng.getrandbits(64) for k in range(U)}
    if kind == 'const0': return {k: 0 for k in range(U)}
    if kind == 'constmax': return {k: M64 for k in range(U)}
    if kind == 'seq':    return {k: k for k in range(U)}
    if kind == 'cluster':
        c = [rng.getrandbits(mask_bits) for _ in range(rng.randint(1, 3))]
        return {k: rng.choice(c) | (rng.getrandbits(7) << 57) for k in range(U)}
    if kind == 'postag':
        P = [rng.getrandbits(mask_bits) for _ in range(rng.randint(1, 4))]; T = [rng.getrandbits(7) for _ in range(rng.randint(1, 3))]
        return {k: rng.choice(P) | (rng.choice(T) << 57) for k in range(U)}
    if kind == 'lsb':
        t = rng.getrandbits(7) & ~1
        return {k: rng.getrandbits(4) | ((t | (k & 1)) << 57) for k in range(U)}

def erase_windows_check(t, i):
    """DESIGN lemma 5: if erase writes EMPTY at i then every W-window containing i had another EMPTY."""
    n, W = t.n, t.W
    before = list(t.ctrl)
    t.erase(i)
    if t.ctrl[i] == EMPTY and n >= W:
        for s in range(i - W + 1, i + 1):
            win = [(s + j) % n for j in range(W)]
            assert any(before[j] == EMPTY for j in win if j != i), "erase_windows violated"

def scenario(seed, W, size, U, nops, kind, fp):
    rng = random.Random(seed)
    plan = mk_plan(rng, kind, U)
    hf = lambda e: plan[e[0]]
    t = Raw(W, size); ref = {}; peak = 0; ver = 0
    mincap = t.cap_of(t.capacity_to_buckets(1) - 1)
    live_target = rng.choice([2, 3, 5, 7, 10, 13, 20, 40, U])
    loopchk = lambda tt: rehash_loop_inv(tt, hf)
    for opn in range(nops):
        r = rng.random(); k = rng.randrange(U); h = plan[k]
        want_insert = len(ref) < live_target
        if r < 0.05:
            add = rng.choice([0, 1, 2, 5, 17, 100]); t.reserve(add, hf, check=loopchk); assert t.items + t.gl >= len(ref) + add
        elif r < 0.15:
            idx = t.find_inner(h, lambda e: e[0] == k, fp)
            assert (idx is not None) == (k in ref)
            if idx is not None: assert t.slots[idx] == (k, ref[k][0], ref[k][1])
        elif (r < 0.6 and want_insert) or r < 0.3:
            ver += 1
            if rng.random() < 0.5:      # HashMap::insert path
                res, idx = t.find_or_find_insert_slot(h, lambda e: e[0] == k, hf, fp, check=loopchk)
                if res == 'ok':
                    assert k in ref; kv = t.slots[idx]; t.slots[idx] = (kv[0], kv[1], ver); ref[k] = (ref[k][0], ver)
                else:
                    assert k not in ref; t.insert_in_slot(h, idx, (k, ver, ver)); ref[k] = (ver, ver)
            else:                       # entry().or_insert path: find, then RawTable::insert
                idx = t.find_inner(h, lambda e: e[0] == k, fp)
                assert (idx is not None) == (k in ref)
                if idx is None: t.insert(h, (k, ver, ver), hf, check=loopchk); ref[k] = (ver, ver)
        else:
            idx = t.find_inner(h, lambda e: e[0] == k, fp)
            assert (idx is not None) == (k in ref)
            if idx is not None:
                erase_windows_check(t, idx); t.slots[idx] = None; del ref[k]
        peak = max(peak, len(ref))
        check_inv(t, hf)
        assert t.items == len(ref)
        assert sorted(e[0] for e in t.slots if e is not None) == sorted(ref) if t.alloc else not ref
        # C13 bound (no explicit reserve ops counted: skip if any reserve(>1) was issued)
    return t, peak, mincap

def rehash_loop_inv(t, hf):
    """DESIGN lemma 8 loop invariant: every placed (FULL) element has all earlier probe windows entirely FULL."""
    for i in range(t.n):
        if is_full(t.ctrl[i]):
            assert t.slots[i] is not None
            h = hf(t.slots[i]); assert t.ctrl[i] == tag_full(h)
            assert reach(t, h, i, strong=True), "rehash loop invariant violated"
        elif t.ctrl[i] == DELETED: assert t.slots[i] is not None
        else: assert t.slots[i] is None

tot = dict()
N = int(sys.argv[1]) if (len(sys.argv) > 1 and __name__ == "__main__") else 0
for seed in range(N):
    rng = random.Random(seed * 7919 + 1)
    W = rng.choice([4, 8, 16]); size = rng.choice([0, 1, 2, 4, 8, 24])
    U = rng.choice([4, 8, 16, 32, 64, 200]); kind = rng.choice(['mixed', 'const0', 'constmax', 'seq', 'cluster', 'postag', 'lsb'])
    fp = (W != 16) and rng.random() < 0.7
    try:
        t, peak, mincap = scenario(seed, W, size, U, rng.choice([30, 100, 400]), kind, fp)
    except (AssertionError, Fault) as e:
        print("FAIL seed", seed, W, size, U, kind, fp, repr(e)); raise
    for k, v in t.stats.items(): tot[k] = tot.get(k, 0) + v
print("scenarios", N, "branch totals", tot)
