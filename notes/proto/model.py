# Throw-away prototype of hashbrown's RawTableInner (0.15.2) to validate the DESIGN's invariants.
import random, sys
EMPTY, DELETED = 0xFF, 0x80
M64 = (1 << 64) - 1
def is_full(c): return c & 0x80 == 0
def tag_full(h): return (h >> 57) & 0x7f
def tri(s): return s * (s + 1) // 2

class Fault(Exception): pass

class Raw:
    def __init__(self, W, size):
        self.W, self.size = W, size           # group width, element size (for min capacity)
        self.mask = 0; self.ctrl = [EMPTY] * W; self.slots = []; self.items = 0; self.gl = 0
        self.alloc = False
        self.stats = dict(resize=0, inplace=0, same=0, move=0, swap=0, fix=0, del_=0, emp=0, probe2=0, tomb_reuse=0)
    @property
    def n(self): return self.mask + 1
    def cap_of(self, mask): return mask if mask < 8 else ((mask + 1) // 8) * 7
    def capacity_to_buckets(self, cap):
        assert cap != 0
        if cap < 15:
            W, s = self.W, self.size
            mc = 14 if (W == 16 and s <= 1) else 7 if (W == 16 and s <= 3) else 7 if (W == 8 and s <= 1) else 3
            cap = max(mc, cap)
            return 4 if cap < 4 else 8 if cap < 8 else 16
        a = cap * 8
        if a > M64: return None
        a //= 7
        p = 1
        while p < a: p <<= 1
        return p
    # --- checked memory
    def rd(self, i):
        if not (0 <= i < len(self.ctrl)): raise Fault(f"ctrl read {i} of {len(self.ctrl)}")
        return self.ctrl[i]
    def wr(self, i, c):
        if not self.alloc: raise Fault("write to static singleton")
        if not (0 <= i < len(self.ctrl)): raise Fault(f"ctrl write {i}")
        self.ctrl[i] = c
    def set_ctrl(self, i, c):
        i2 = (((i - self.W) & M64) & self.mask) + self.W
        self.wr(i, c); self.wr(i2, c)
    def load(self, pos): return [self.rd(pos + j) for j in range(self.W)]
    # --- group ops (byte-wise spec; generic false positives optional)
    def match_tag(self, g, t, fp=False):
        r = [j for j, b in enumerate(g) if b == t]
        if fp and r:
            lo = r[0]
            r = sorted(set(r) | {j for j, b in enumerate(g) if j > lo and b == t ^ 1})
        return r
    def match_empty(self, g): return [j for j, b in enumerate(g) if b == EMPTY]
    def match_special(self, g): return [j for j, b in enumerate(g) if b & 0x80]
    # --- probing
    def probe_positions(self, h):
        pos = h & self.mask; stride = 0
        while True:
            yield pos
            if stride > self.mask: raise Fault("went past end of probe sequence")
            stride += self.W; pos = (pos + stride) & self.mask
    def fix_insert_slot(self, idx):
        if is_full(self.rd(idx)):
            assert self.mask < self.W
            self.stats['fix'] += 1
            sp = self.match_special(self.load(0))
            if not sp: raise Fault("unwrap_unchecked on None in fix_insert_slot")
            idx = sp[0]
            if idx >= self.n: raise Fault("fix_insert_slot returned out-of-table index")
        return idx
    def find_insert_slot(self, h):
        for k, pos in enumerate(self.probe_positions(h)):
            if k == 1: self.stats['probe2'] += 1
            sp = self.match_special(self.load(pos))
            if sp: return self.fix_insert_slot((pos + sp[0]) & self.mask)
    def find_inner(self, h, eq, fp=False):
        t = tag_full(h)
        for pos in self.probe_positions(h):
            g = self.load(pos)
            for j in self.match_tag(g, t, fp):
                idx = (pos + j) & self.mask
                if self.slot(idx) is None: raise Fault("eq on dead slot")
                if eq(self.slots[idx]): return idx
            if self.match_empty(g): return None
    def slot(self, i):
        if not (0 <= i < len(self.slots)): raise Fault(f"slot {i} of {len(self.slots)}")
        return self.slots[i]
    # --- mutation
    def erase(self, i):
        assert is_full(self.rd(i))
        ib = ((i - self.W) & M64) & self.mask
        eb = self.match_empty(self.load(ib)); ea = self.match_empty(self.load(i))
        lz = (self.W - 1 - eb[-1]) if eb else self.W
        tz = ea[0] if ea else self.W
        if lz + tz >= self.W: c = DELETED; self.stats['del_'] += 1
        else: self.gl += 1; c = EMPTY; self.stats['emp'] += 1
        self.set_ctrl(i, c); self.items -= 1
    def record_insert_at(self, i, old, h):
        self.gl -= 1 if old == EMPTY else 0
        if self.gl < 0: raise Fault("growth_left underflow")
        self.set_ctrl(i, tag_full(h)); self.items += 1
    def with_capacity(self, capacity):
        r = Raw(self.W, self.size); r.stats = self.stats
        if capacity == 0: return r
        b = self.capacity_to_buckets(capacity)
        r.mask = b - 1; r.ctrl = [EMPTY] * (b + self.W); r.slots = [None] * b; r.gl = r.cap_of(r.mask); r.alloc = True
        return r
    def adopt(self, o):
        self.mask, self.ctrl, self.slots, self.items, self.gl, self.alloc = o.mask, o.ctrl, o.slots, o.items, o.gl, o.alloc
    def resize(self, capacity, hasher):
        self.stats['resize'] += 1
        new = self.with_capacity(capacity)
        for i in range(self.n):
            if self.alloc and is_full(self.rd(i)):
                h = hasher(self.slots[i])
                ni = new.find_insert_slot(h)
                new.set_ctrl(ni, tag_full(h))
                if new.slots[ni] is not None: raise Fault("overwrite live slot in resize")
                new.slots[ni] = self.slots[i]
        new.gl -= self.items; new.items = self.items
        self.adopt(new)
    def rehash_in_place(self, hasher, needs_drop=True, check=None):
        self.stats['inplace'] += 1
        n, W = self.n, self.W
        for i in range(0, n, W):
            for j in range(W):
                c = self.rd(i + j)
                self.wr(i + j, EMPTY if c & 0x80 else DELETED)
        if n < W:
            for j in range(n): self.wr(W + j, self.rd(j))
        else:
            for j in range(W): self.wr(n + j, self.rd(j))
        try:
            for i in range(n):
                if self.rd(i) != DELETED: continue
                while True:
                    h = hasher(self.slots[i])
                    ni = self.find_insert_slot(h)
                    p0 = h & self.mask
                    pi = lambda x: ((x - p0) & self.mask) // W
                    if pi(i) == pi(ni):
                        self.set_ctrl(i, tag_full(h)); self.stats['same'] += 1; break
                    prev = self.rd(ni); self.set_ctrl(ni, tag_full(h))
                    if prev == EMPTY:
                        self.set_ctrl(i, EMPTY); self.slots[ni] = self.slots[i]; self.slots[i] = None
                        self.stats['move'] += 1; break
                    assert prev == DELETED
                    self.slots[i], self.slots[ni] = self.slots[ni], self.slots[i]; self.stats['swap'] += 1
                    if check: check(self)
                if check: check(self)
        except PanicCB:
            dropped = []
            if needs_drop:      # <- as in 0.15.2: the whole loop is under `if let Some(drop)`
                for i in range(n):
                    if self.rd(i) == DELETED:
                        self.set_ctrl(i, EMPTY); dropped.append(self.slots[i]); self.slots[i] = None; self.items -= 1
            self.gl = self.cap_of(self.mask) - self.items
            raise PanicCB(dropped)
        self.gl = self.cap_of(self.mask) - self.items
    def reserve(self, additional, hasher, **kw):
        if additional > self.gl:
            new_items = self.items + additional
            full = self.cap_of(self.mask)
            if new_items <= full // 2: self.rehash_in_place(hasher, **kw)
            else: self.resize(max(new_items, full + 1), hasher)
    def insert(self, h, e, hasher, **kw):            # RawTable::insert
        s = self.find_insert_slot(h); old = self.rd(s)
        if self.gl == 0 and old == EMPTY:
            self.reserve(1, hasher, **kw); s = self.find_insert_slot(h)
        self.insert_in_slot(h, s, e)
        return s
    def insert_in_slot(self, h, s, e):
        old = self.rd(s)
        if old == DELETED: self.stats['tomb_reuse'] += 1
        self.record_insert_at(s, old, h)
        if self.slots[s] is not None: raise Fault("overwrite live slot")
        self.slots[s] = e
    def find_or_find_insert_slot(self, h, eq, hasher, fp=False, **kw):
        self.reserve(1, hasher, **kw)
        t = tag_full(h); ins = None
        for pos in self.probe_positions(h):
            g = self.load(pos)
            for j in self.match_tag(g, t, fp):
                idx = (pos + j) & self.mask
                if self.slot(idx) is None: raise Fault("eq on dead slot")
                if eq(self.slots[idx]): return ('ok', idx)
            if ins is None:
                sp = self.match_special(g)
                if sp: ins = (pos + sp[0]) & self.mask
            if self.match_empty(g):
                if ins is None: raise Fault("unwrap_unchecked None insert_slot")
                return ('err', self.fix_insert_slot(ins))
    def remove(self, i):
        self.erase(i); e = self.slots[i]; self.slots[i] = None; return e

class PanicCB(Exception): pass

# ---------------- invariants from DESIGN §6
def check_inv(t, hashfn=None, lawful=True, pending_ok=False):
    n, W = t.n, t.W
    assert n & (n - 1) == 0
    if not t.alloc:
        assert t.mask == 0 and t.items == 0 and t.gl == 0 and t.ctrl == [EMPTY] * W; return
    assert len(t.ctrl) == n + W and len(t.slots) == n
    if n >= W:
        for j in range(W): assert t.ctrl[n + j] == t.ctrl[j], "mirror"
    else:
        for j in range(n, W): assert t.ctrl[j] == EMPTY, "pad"
        for j in range(n): assert t.ctrl[W + j] == t.ctrl[j], "mirror-small"
    full = sum(1 for i in range(n) if is_full(t.ctrl[i])); dele = sum(1 for i in range(n) if t.ctrl[i] == DELETED)
    assert all(c in (EMPTY, DELETED) or is_full(c) for c in t.ctrl)
    assert t.items == full, f"items {t.items} full {full}"
    assert t.gl + full + dele == t.cap_of(t.mask), "Count"
    assert sum(1 for i in range(n) if t.ctrl[i] == EMPTY) >= 1
    for i in range(n):
        assert (t.slots[i] is not None) == is_full(t.ctrl[i]), "Live"
    if n < W: assert dele == 0, "SmallClean"
    if lawful and hashfn:
        for i in range(n):
            if t.slots[i] is not None:
                h = hashfn(t.slots[i]); assert t.ctrl[i] == tag_full(h), "tag"
                assert reach(t, h, i), f"Reach fails slot {i}"

def window(t, h, s):
    n, W = t.n, t.W
    pos = ((h & t.mask) + W * tri(s)) & t.mask
    if n >= W: return [(pos + j) % n for j in range(W)], [t.ctrl[(pos + j) % n] for j in range(W)]
    idx = list(range(n)); return idx, [t.ctrl[j] for j in idx] + [EMPTY]
def reach(t, h, i, strong=False, special_ok=lambda c: False):
    steps = max(1, t.n // t.W)
    for s in range(steps):
        idx, by = window(t, h, s)
        if i in idx: return True
        if strong:
            if any(not is_full(c) for c in by): return False
        else:
            if EMPTY in by: return False
    return False
