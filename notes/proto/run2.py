import random, sys
sys.path.insert(0, '/verif/notes/proto')
from model import *
from run import mk_plan, erase_windows_check, rehash_loop_inv   # noqa (runs run.py's main with N=0 below)

def saturate(seed, W, size, kind, fp, rounds):
    rng = random.Random(seed)
    U = 4096
    plan = mk_plan(rng, kind, U, mask_bits=rng.choice([3, 5, 8]))
    hf = lambda e: plan[e[0]]
    t = Raw(W, size); ref = {}; fresh = iter(rng.sample(range(U), U)); ver = 0
    loopchk = lambda tt: rehash_loop_inv(tt, hf)
    target_cap = rng.choice([14, 28, 56, 112])
    def ins(k):
        nonlocal ver
        ver += 1; h = plan[k]
        if rng.random() < 0.5:
            res, idx = t.find_or_find_insert_slot(h, lambda e: e[0] == k, hf, fp, check=loopchk)
            assert res == 'err'; t.insert_in_slot(h, idx, (k, ver, ver))
        else:
            assert t.find_inner(h, lambda e: e[0] == k, fp) is None
            t.insert(h, (k, ver, ver), hf, check=loopchk)
        ref[k] = ver; check_inv(t, hf)
    def rem(k):
        idx = t.find_inner(plan[k], lambda e: e[0] == k, fp); assert idx is not None
        erase_windows_check(t, idx); t.slots[idx] = None; del ref[k]; check_inv(t, hf)
    # fill until the table has reached target capacity and growth_left == 0
    while not (t.alloc and t.cap_of(t.mask) >= target_cap and t.gl == 0): ins(next(fresh))
    for _ in range(rounds):
        keep = rng.randint(0, t.cap_of(t.mask) // 2 - 1)
        ks = list(ref); rng.shuffle(ks)
        for k in ks[keep:]: rem(k)
        b = t.mask
        # insert fresh keys until growth_left is consumed again
        for _ in range(3 * t.cap_of(t.mask)):
            ins(next(fresh))
            for k in rng.sample(list(ref), min(3, len(ref))):
                assert t.find_inner(plan[k], lambda e: e[0] == k, fp) is not None
            if t.gl == 0 and len(ref) > t.cap_of(t.mask) // 2: break
    return t

tot = {}
N = int(sys.argv[1]) if len(sys.argv) > 1 else 400
for seed in range(N):
    rng = random.Random(seed * 104729 + 5)
    W = rng.choice([4, 8, 16]); size = rng.choice([0, 1, 2, 8]); kind = rng.choice(['mixed', 'const0', 'seq', 'cluster', 'postag', 'lsb'])
    fp = (W != 16) and rng.random() < 0.7
    try: t = saturate(seed, W, size, kind, fp, rng.randint(1, 4))
    except (AssertionError, Fault) as e:
        print("FAIL seed", seed, W, size, kind, fp, repr(e)); raise
    for k, v in t.stats.items(): tot[k] = tot.get(k, 0) + v
print("saturate scenarios", N, tot)
