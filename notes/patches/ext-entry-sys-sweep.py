#!/usr/bin/env python3
"""Systematic fault sweep over every entry-style (op, chain) x (present/absent key) x table state
(unallocated, growth_left == 0, tombstones + in-place rehash, tombstones + grow, half full)
x panic class (hash/eq/drop) x k-th callback invocation.  (ext-entry agent's extra test tool.)

usage: HBV=<hbv binary> DRV=<hbdriver binary> ext-entry-sys-sweep.py <s|p> <drop: 1|0>
  s = SSE2 build of hbv (group width 16), p = portable build (--cfg miri, width 8).
Writes sys-<build><drop>-{base,sweep}.{ops,real,model} into the cwd and prints the number of differing lines.
"""
import subprocess, sys, re, os
build, drop = sys.argv[1], sys.argv[2]   # s|p, 1|0
HBV = os.environ.get('HBV', '/verif/.cache/target/debug/hbv')
W = int(subprocess.run([HBV, 'width'], capture_output=True, text=True).stdout.strip())
assert W == (8 if build == 'p' else 16), "hbv binary does not match the requested build"
DRV = os.environ.get('DRV', '/verif/lean/.lake/build/bin/hbdriver')
hdr = lambda id: f"scn {id} coll=map w={W} size=32 align=8 drop={drop} ids=1 lay=std"

echains = ["insert 9101 7", "or_insert 9101 7", "or_insert_with 9101 7", "or_insert_with_key 9101 7",
  "and_modify 55 or_insert 9101 7", "key", "drop", "occ_remove", "occ_remove_entry", "occ_insert 9101 7",
  "occ_get_mut 55", "replace_entry_with keep 55", "replace_entry_with remove 55",
  "and_replace_entry_with keep 55", "and_replace_entry_with remove 55", "vac_insert 9101 7",
  "vac_insert_entry 9101 7", "vac_into_key"]
refchains = ["insert 9101 7", "or_insert 9101 7", "or_insert_with 9101 7", "and_modify 55 or_insert 9101 7", "drop", "key"]
rustchains = ["insert 9101 7", "or_insert 9101 7", "occ_remove", "occ_insert 9101 7", "vac_insert 9101 7", "vac_insert_entry 9101 7", "drop"]
rawchains = ["insert 9100 9101 7", "or_insert 9100 9101 7", "vac_insert 9100 9101 7", "vac_insert_hashed 9100 9101 7",
  "vac_insert_with_hasher 9100 9101 7", "occ_remove", "occ_remove_entry", "occ_insert 9101 7", "occ_insert_key 9100",
  "and_modify 55", "replace_entry_with keep 55", "replace_entry_with remove 55", "drop"]

def variants(P, A, P2):
    """P = a present key, A = an absent key, P2 = another present key"""
    v = []
    for k in (P, A):
        for c in echains: v.append(f"entry {k} 9100 {c}")
        for c in refchains: v.append(f"entry_ref {k} 9100 {c}")
        for c in rustchains: v.append(f"rustc_entry {k} 9100 {c}")
        for m in ("raw_from_key", "raw_from_key_hashed", "raw_from_hash"):
            for c in rawchains: v.append(f"{m} {k} {c}")
        v.append(f"try_insert {k} 9100 9101 7")
        v.append(f"raw_get {k}"); v.append(f"raw_get_hash {k}"); v.append(f"index {k}")
    v.append(f"extend 3 {A} 9100 9101 7 {P} 9102 9103 8 {A} 9104 9105 9")
    v.append(f"extend 0")
    v.append(f"extend 5 {A} 9100 9101 7 {A+1} 9102 9103 8 {A+2} 9104 9105 9 {A+3} 9106 9107 9 {A+4} 9108 9109 9")
    v.append(f"from_iter 3 {A} 9100 9101 7 {P} 9102 9103 8 {A} 9104 9105 9")
    v.append(f"from_iter 0")
    v.append(f"from_iter 4 {A} 9100 9101 7 {A} 9102 9103 8 {P} 9104 9105 9 {P2} 9106 9107 9")
    for nm in ("get_many_mut", "get_many_key_value_mut"):
        v += [f"{nm}", f"{nm} {P}", f"{nm} {A}", f"{nm} {P} {A} {P2}", f"{nm} {P} {P2} {A} {P}", f"{nm} {A} {A} {P}", f"{nm} {P2} {P} {A} {A+1}"]
    v.append(f"insert_unique_unchecked {A} 9100 9101 7")
    for n in (0, 2, 100): v += [f"into_keys {n}", f"into_values {n}"]
    v.append("values_mut_set 77")
    return v

states = {}
# unallocated
states['empty'] = (["plan 0=1 1=2 9=3"], [], 1, 9, 0)
# 4 buckets, growth_left == 0: any vacant insertion resizes
states['full4'] = (["plan " + " ".join(f"{k}={k*0x9E3779B97F4A7C15 % 2**64}" for k in range(20))],
                   [f"insert {k} {10+k} {20+k} {100+k}" for k in (0, 1, 2)], 1, 9, 2)
# every key hashes to 0: one long run; fill 28 of 32 buckets, punch tombstones until items = 13
states['tomb'] = (["plan " + " ".join(f"{k}=0" for k in range(60))],
                  [f"insert {k} {100+k} {200+k} {300+k}" for k in range(28)] + [f"remove {k}" for k in range(2, 17)], 20, 40, 25)
# same but fewer removals: reserve(1) must grow
states['tombgrow'] = (["plan " + " ".join(f"{k}=0" for k in range(60))],
                  [f"insert {k} {100+k} {200+k} {300+k}" for k in range(28)] + [f"remove {k}" for k in range(2, 8)], 20, 40, 25)
# mixed hashes, 14/16 or 7/8
states['mid'] = (["plan " + " ".join(f"{k}={(k*0x9E3779B97F4A7C15 + (k<<57)) % 2**64}" for k in range(60))],
                  [f"insert {k} {100+k} {200+k} {300+k}" for k in range(11)] + ["remove 3", "remove 7"], 5, 40, 6)

def probes(P, A):
    return ["op a iter 0 iter", f"op a get {P}", f"op a get {A}", f"op a insert 58 800001 800002 5", "op a reserve 30", "op a clear", "op a nop", "op b nop"]

def run(path):
    real = subprocess.run([HBV, 'replay', path], capture_output=True, text=True).stdout
    return real

cnt_re = re.compile(r'h=(\d+) e=(\d+) c=(\d+) p=(\d+) a=(\d+) d=(\d+)$')
base = []
lines = []
for sn, (pre, ops, P, A, P2) in states.items():
    for i, v in enumerate(variants(P, A, P2)):
        id = f"{sn}-{i}"
        base.append((id, sn, v))
        lines += [hdr(id), "env pred=1"] + pre + [f"op a {o}" for o in ops] + ["op a nop", f"op a {v}"] + ["end"]
open(f'sys-{build}{drop}-base.ops', 'w').write("\n".join(lines) + "\n")
real = run(f'sys-{build}{drop}-base.ops').split("\n")
# per scenario: counters at the nop and after the op
out = {}
cur = None; obs = []
for l in real:
    if l.startswith('scn '):
        cur = l.split()[1]; obs = []
    elif l.startswith('end'):
        c0 = [int(x) for x in cnt_re.search(obs[-2]).groups()]
        c1 = [int(x) for x in cnt_re.search(obs[-1]).groups()]
        out[cur] = (c0, c1, obs[-1])
    elif l:
        obs.append(l)
lines = []
nscn = 0
for id, sn, v in base:
    pre, ops, P, A, P2 = states[sn]
    c0, c1, _ = out[id]
    for cls, ci in (("hpanic", 0), ("epanic", 1), ("dpanic", 5)):
        d = c1[ci] - c0[ci]
        ks = list(range(d)) if d <= 6 else sorted(set([0, 1, 2, d // 2, d - 2, d - 1]))
        for k in ks:
            sid = f"{id}-{cls}{k}"
            lines += [hdr(sid), "env pred=1"] + pre + [f"op a {o}" for o in ops] + [f"env {cls}={c0[ci]+k}", f"op a {v}", f"env {cls}=-"] + probes(P, A) + ["end"]
            nscn += 1
open(f'sys-{build}{drop}-sweep.ops', 'w').write("\n".join(lines) + "\n")
for nm in ('base', 'sweep'):
    p = f'sys-{build}{drop}-{nm}'
    open(p + '.real', 'w').write(run(p + '.ops'))
    open(p + '.model', 'w').write(subprocess.run([DRV], stdin=open(p + '.ops'), capture_output=True, text=True).stdout)
    a = open(p + '.real').read().split("\n"); b = open(p + '.model').read().split("\n")
    nd = sum(1 for x, y in zip(a, b) if x != y)
    print(p, "lines", len(a), len(b), "differing", nd, "oracle", sum('ORACLE-' in x for x in a), "fault", sum(('FAULT' in x or 'bad-op' in x or 'INV' in x) for x in b))
print("scenarios", len(base), nscn)
