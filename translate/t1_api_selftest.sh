#!/usr/bin/env bash
# Tie T1, call-shape tie of the API layer: mutation self-test for rust2lean (kinds `calls` / `impls` / `inventory`)
# + Hb.Proofs.GenEqApi.  Same conventions as t1_selftest.sh: scratch copies under /tmp only, removed on exit;
# one line per case:   case <name>: expected <pass|fail> got <pass|fail>;  exit status 0 iff all as expected.
#
#   REPO      hashbrown checkout           (default /repo)
#   LEAN_SRC  lean project to copy         (default /verif/lean)
#   PY        python interpreter           (default python3-vt, falls back to python3)
#   T1_VERBOSE=1  print the first error lines of every case
set -u
REPO="${REPO:-/repo}"
LEAN_SRC="${LEAN_SRC:-/verif/lean}"
HERE="$(cd "$(dirname "${BASH_SOURCE[0]}")" && pwd)"
PY="${PY:-python3-vt}"
command -v "$PY" >/dev/null 2>&1 || PY=python3

SCRATCH="$(mktemp -d /tmp/t1_api_selftest.XXXXXX)"
trap 'cd /; rm -rf "$SCRATCH"' EXIT
cp -r "$LEAN_SRC" "$SCRATCH/lean" || { echo "cannot copy $LEAN_SRC"; exit 2; }

apply_edit() {
  "$PY" - "$SCRATCH/repo/$1" "$2" "$3" <<'PYEOF'
import sys
path, old, new = sys.argv[1], sys.argv[2], sys.argv[3]
old = old.encode().decode("unicode_escape"); new = new.encode().decode("unicode_escape")
s = open(path, encoding="utf-8").read()
n = s.count(old)
if n != 1:
    sys.stderr.write("selftest: pattern %r occurs %d times in %s (expected 1)\n" % (old, n, path))
    sys.exit(3)
open(path, "w", encoding="utf-8").write(s.replace(old, new))
PYEOF
}
fresh_repo() { rm -rf "$SCRATCH/repo"; mkdir -p "$SCRATCH/repo"; cp -r "$REPO/src" "$SCRATCH/repo/src"; }

STATUS=0
run_case() {
  local name="$1" expected="$2" got log="$SCRATCH/$1.log"
  if "$PY" "$HERE/rust2lean.py" --repo "$SCRATCH/repo" --out "$SCRATCH/lean/Hb/Gen/Pure.lean" >"$log" 2>&1 \
     && (cd "$SCRATCH/lean" && lake build Hb.Proofs.GenEqApi) >>"$log" 2>&1; then got=pass; else got=fail; fi
  echo "case $name: expected $expected got $got"
  if [ "${T1_VERBOSE:-0}" = 1 ]; then grep -E "TRANSLATION ERROR|error:" "$log" | head -4 | sed 's/^/    /'; fi
  [ "$got" = "$expected" ] || STATUS=1
}
bad_case() { echo "case $1: expected $2 got error(edit-not-applicable)"; STATUS=1; }

MAP=src/map.rs; SET=src/set.rs; TABLE=src/table.rs; SERDE=src/external_trait_impls/serde.rs

fresh_repo
run_case baseline pass

# ---- harmless: comments, renamed parameters / locals, reflow, #[inline], where clause, closure block --------------
fresh_repo
{ apply_edit $MAP 'pub fn insert(&mut self, k: K, v: V) -> Option<V> {\n        let hash = make_hash::<K, S>(&self.hash_builder, &k);\n        match self.find_or_find_insert_slot(hash, &k) {\n            Ok(bucket) => Some(mem::replace(unsafe { &mut bucket.as_mut().1 }, v)),' \
    '#[inline]\n    pub fn insert(&mut self, key: K, v: V) -> Option<V> {\n        // hash once\n        let h = make_hash::<K, S>(&self.hash_builder, &key);\n        let k = key; let hash = h;\n        match self.find_or_find_insert_slot(hash, &k) {\n            /* present */ Ok(found) => Some(mem::replace(unsafe { &mut found.as_mut().1 }, v)),' \
  && apply_edit $SET 'self.len() <= other.len() && self.iter().all(|v| other.contains(v))' \
    'self.len() <= other.len()\n            && self\n                .iter()\n                .all(|candidate| {\n                    other.contains(candidate) // probe\n                })' ; } \
  && run_case api_rename_comment_reflow pass || bad_case api_rename_comment_reflow pass

# ---- semantic edits of thin wrappers: every one must break GenEqApi ---------------------------------------------
fresh_repo
apply_edit $SERDE 'values.insert(key, value);' 'values.entry(key).or_insert(value);' \
  && run_case api_serde_visit_map_entry_or_insert fail || bad_case api_serde_visit_map_entry_or_insert fail

fresh_repo
apply_edit $MAP '        self.table.clone_from(&source.table);\n\n        // Update hash_builder only if we successfully cloned all elements.\n        self.hash_builder.clone_from(&source.hash_builder);' \
                '        self.hash_builder.clone_from(&source.hash_builder);\n        self.table.clone_from(&source.table);' \
  && run_case api_clone_from_hasher_first fail || bad_case api_clone_from_hasher_first fail
# (same callee names: visible only through the receiver prefixes `table.` / `hash_builder.`)

fresh_repo
apply_edit src/external_trait_impls/rayon/helpers.rs 'list1.append(&mut list2);\n            list1' 'list2.append(&mut list1);\n            list2' \
  && run_case api_collect_reduce_swapped fail || bad_case api_collect_reduce_swapped fail
# (visible only through the positional parameter prefix `%0.` / `%1.`)

fresh_repo
apply_edit $SET 'let new = f(value);\n                assert!(value.equivalent(&new), "new value is not equivalent");\n                unsafe { self.map.table.insert_in_slot(hash, slot, (new, ())) }' \
                'let new = f(value);\n                let b = unsafe { self.map.table.insert_in_slot(hash, slot, (new, ())) };\n                assert!(value.equivalent(unsafe { &b.as_ref().0 }), "new value is not equivalent");\n                b' \
  && run_case api_get_or_insert_with_slot_before_assert fail || bad_case api_get_or_insert_with_slot_before_assert fail

fresh_repo
apply_edit $TABLE '        self.raw.reserve(additional, hasher)\n' '        if additional > self.capacity() - self.len() {\n            self.raw.reserve(additional, hasher)\n        }\n' \
  && run_case api_table_reserve_conditional fail || bad_case api_table_reserve_conditional fail

fresh_repo
apply_edit $SET 'self.retain(|item| rhs.contains(item));' 'if self.is_empty() { return; }\n        self.retain(|item| rhs.contains(item));' \
  && run_case api_bitand_assign_fast_path fail || bad_case api_bitand_assign_fast_path fail

fresh_repo
apply_edit $SET 'self.retain(|item| rhs.contains(item));' 'self.retain(|item| !rhs.contains(item));' \
  && run_case api_bitand_assign_negated fail || bad_case api_bitand_assign_negated fail

fresh_repo
apply_edit $MAP 'impl<K, V> ExactSizeIterator for Iter<'"'"'_, K, V> {' 'impl<K, V> DoubleEndedIterator for Iter<'"'"'_, K, V> {\n    fn next_back(&mut self) -> Option<Self::Item> { None }\n}\nimpl<K, V> ExactSizeIterator for Iter<'"'"'_, K, V> {' \
  && run_case api_new_trait_impl_on_iter fail || bad_case api_new_trait_impl_on_iter fail

fresh_repo
apply_edit $MAP '    fn size_hint(&self) -> (usize, Option<usize>) {\n        self.inner.size_hint()\n    }\n    #[cfg_attr(feature = "inline-more", inline)]\n    fn fold<B, F>(self, init: B, mut f: F) -> B\n    where\n        Self: Sized,\n        F: FnMut(B, Self::Item) -> B,\n    {\n        self.inner.fold(init, |acc, x| unsafe {\n            let (k, v) = x.as_ref();' \
                '    fn size_hint(&self) -> (usize, Option<usize>) {\n        self.inner.size_hint()\n    }\n    fn count(self) -> usize {\n        self.inner.len()\n    }\n    #[cfg_attr(feature = "inline-more", inline)]\n    fn fold<B, F>(self, init: B, mut f: F) -> B\n    where\n        Self: Sized,\n        F: FnMut(B, Self::Item) -> B,\n    {\n        self.inner.fold(init, |acc, x| unsafe {\n            let (k, v) = x.as_ref();' \
  && run_case api_new_count_override fail || bad_case api_new_count_override fail

fresh_repo
apply_edit src/external_trait_impls/rayon/map.rs 'pub fn par_values_mut(&mut self) -> ParValuesMut' 'pub fn par_values_mut(&self) -> ParValuesMut' \
  && run_case api_receiver_mut_to_shared fail || bad_case api_receiver_mut_to_shared fail

exit $STATUS
