#!/usr/bin/env python3
"""API-layer generator of rust2lean (tie T1): kinds `calls`, `impls`, `inventory` → Hb/Gen/Api.lean + api_items.json.

See /verif/notes/T1_NOTES.md, "Call-shape tie".  Items are located by file + scope chain + fn name, never by
line number.  Hand written; no third-party dependencies.
"""
import json
import os
import re

from rs_lex import TranslateError, tokenize, scan_items, Scope, Tok
from rs_calls import call_shape

LEAN_RESERVED_API = {
    "repeat", "next", "at", "from", "end", "show", "have", "by", "do", "then", "else", "fun", "let", "in", "with",
    "match", "if", "def", "theorem", "where", "open", "namespace", "section", "variable", "instance", "class",
    "structure", "inductive", "import", "export", "mutual", "universe", "deriving", "return", "for", "unless", "try",
    "catch", "finally", "Type", "Prop", "Sort", "set_option", "local", "private", "protected", "partial", "unsafe",
    "macro", "syntax", "notation", "infix", "prefix", "postfix", "attribute", "example", "axiom", "abbrev", "opaque",
    "using", "calc", "suffices", "obtain", "exact", "nomatch", "nofun", "some", "none", "true", "false", "max", "min",
    "id", "default", "this",
}
TEST_MOD = re.compile(r"^tests?(_|$)")


def trait_display(scope):
    """Normal form of the trait of an `impl Trait<..> for ..` scope: tokens joined, lifetimes dropped
    (`Extend<(&'a K, &'a V)>` ↦ `Extend<(&K,&V)>`, `Deserialize<'de>` ↦ `Deserialize`)."""
    toks = scope.trait_toks
    if toks is None:
        return None
    out, prev_word = [], False
    for t in toks:
        if t.kind == "life":
            continue
        word = t.kind in ("id", "int")
        if word and prev_word:
            out.append(" ")
        out.append(t.text)
        prev_word = word
    s = "".join(out)
    s = s.replace("<>", "")
    s = re.sub(r"<,+", "<", s)
    return s


def lean_component(s):
    s = s.replace("&", "ref")
    s = re.sub(r"[^A-Za-z0-9_]+", "_", s).strip("_")
    s = re.sub(r"__+", "_", s)
    if not s or s[0].isdigit():
        s = "x" + s
    return s


def scope_component(sc):
    if sc.kind == "impl":
        ty = {"": "", "&": "ref_", "&mut": "refmut_"}[sc.selfref] + lean_component(sc.name or "unknown")
        tr = trait_display(sc)
        return [ty] if tr is None else [ty, lean_component(tr)]
    return [lean_component(sc.name)]


def rust_path(ctx, name):
    """Human-readable function path: `map::<impl Deserialize for HashMap>::deserialize::<impl Visitor for MapVisitor>::visit_map`."""
    parts = []
    for sc in ctx:
        if sc.kind == "impl":
            tr = trait_display(sc)
            ty = (sc.selfref + " " if sc.selfref == "&mut" else sc.selfref) + (sc.name or "?")
            parts.append("<impl %s for %s>" % (tr, ty) if tr is not None else ty)
        else:
            parts.append(sc.name)
    return "::".join(parts + [name])


def lean_str_list(xs, indent="  ", width=118):
    for x in xs:
        if '"' in x or "\\" in x or "\n" in x:
            raise TranslateError("API tie: cannot emit string %r" % x)
    lines, cur = [], indent + "["
    for k, x in enumerate(xs):
        piece = '"%s"' % x + (", " if k + 1 < len(xs) else "")
        if len(cur) + len(piece) > width and cur.strip() not in ("[", ""):
            lines.append(cur.rstrip())
            cur = indent + " "
        cur += piece
    lines.append(cur.rstrip() + "]")
    return "\n".join(lines)


def lean_pair_list(xs, indent="  ", width=118):
    lines, cur = [], indent + "["
    for k, (a, b) in enumerate(xs):
        for x in (a, b):
            if '"' in x or "\\" in x or "\n" in x:
                raise TranslateError("API tie: cannot emit string %r" % x)
        piece = '("%s", "%s")' % (a, b) + (", " if k + 1 < len(xs) else "")
        if len(cur) + len(piece) > width and cur.strip() not in ("[", ""):
            lines.append(cur.rstrip())
            cur = indent + " "
        cur += piece
    lines.append(cur.rstrip() + "]")
    return "\n".join(lines)


class ApiFn:
    def __init__(self, ctx, fn):
        self.ctx = ctx      # full scope chain, nested `fn` scopes included
        self.fn = fn


class ApiGenerator:
    """api_files: [(key, relative path, Lean prefix)]"""

    def __init__(self, repo, api_files):
        self.repo = repo
        self.files = api_files
        self.cache = {}
        self.defs = []          # (lean name, lean type, lean value text, kind, meta)
        self.names = set()

    # -- discovery -----------------------------------------------------------------------------
    def load(self, key):
        if key in self.cache:
            return self.cache[key]
        path = [p for (k, p, _) in self.files if k == key][0]
        full = os.path.join(self.repo, path)
        try:
            src = open(full, encoding="utf-8").read()
        except OSError as ex:
            raise TranslateError("cannot read %s: %s" % (full, ex))
        items = scan_items(tokenize(src, path))
        fns, impls = [], []
        self._collect(items, [], fns, impls, path)
        self.cache[key] = (fns, impls)
        return self.cache[key]

    def _collect(self, items, outer, fns, impls, path):
        for ch in items.impls:
            if not self._is_test(outer + ch):
                impls.append(outer + ch)
        for fn in items.fns:
            ctx = outer + list(fn.ctx)
            if self._is_test(ctx):
                continue
            fns.append(ApiFn(ctx, fn))
            if fn.body is not None and any(t.kind == "id" and t.text in ("fn", "impl") for t in fn.body):
                # items nested in a function body (serde's visitor impls): scanned as a scope `fn <name>`
                body = list(fn.body) + [Tok("eof", "<eof>", fn.body[-1].line, 0)]
                try:
                    inner = scan_items(body)
                except TranslateError as ex:
                    raise TranslateError("fn %s (%s): scanning nested items: %s" % (fn.name, path, ex))
                self._collect(inner, ctx + [Scope("fn", fn.name)], fns, impls, path)

    @staticmethod
    def _is_test(ctx):
        return any(s.kind == "mod" and TEST_MOD.match(s.name) for s in ctx)

    # -- naming --------------------------------------------------------------------------------
    def lean_name(self, prefix, ctx, leaf):
        comps = [prefix]
        for sc in ctx:
            comps += scope_component(sc)
        comps.append(leaf)
        return ".".join(comps)

    @staticmethod
    def decl(name):
        return ".".join(("«%s»" % p) if p in LEAN_RESERVED_API else p for p in name.split("."))

    def add(self, name, ty, val, kind, meta):
        if name in self.names:
            raise TranslateError("API tie: duplicate item name %s" % name)
        flat = name.replace(".", "_")
        if flat in {n.replace(".", "_") for n in self.names}:
            raise TranslateError("API tie: item name %s collides after flattening" % name)
        self.names.add(name)
        self.defs.append((name, ty, val, kind, meta))

    # -- kinds ---------------------------------------------------------------------------------
    def emit_calls_file(self, key):
        """kind `calls` for every function with a body of one file (source order)."""
        path, prefix = [(p, x) for (k, p, x) in self.files if k == key][0]
        fns, _ = self.load(key)
        seen = {}
        names = []
        for af in fns:
            if af.fn.body is None:
                continue
            base = self.lean_name(prefix, af.ctx, af.fn.name)
            seen[base] = seen.get(base, 0) + 1
            # several definitions under the same scope chain (`#[cfg]` alternatives): numbered in source order
            name = base + ("_calls" if seen[base] == 1 else "_%d_calls" % seen[base])
            rp = rust_path(af.ctx, af.fn.name)
            where = "fn %s (%s)" % (rp, path)
            shape = call_shape(af.fn, where)
            self.add(name, "List String", lean_str_list(shape), "calls",
                     dict(file=path, fn=rp, kind="calls"))
            names.append(name)
        return names

    def emit_impls_file(self, key):
        """kind `impls` for every type of one file that has at least one `impl` block: the sorted list of
        (trait, method) pairs; inherent methods have trait "", a trait impl without methods has method ""."""
        path, prefix = [(p, x) for (k, p, x) in self.files if k == key][0]
        fns, impls = self.load(key)
        table = {}
        order = []
        for ch in impls:
            sc = ch[-1]
            if any(s.kind == "fn" for s in ch):
                tkey = tuple(c for s in ch[:-1] for c in scope_component(s)) + (lean_component(sc.name or "unknown"),)
            else:
                tkey = tuple(c for s in ch[:-1] if s.kind != "impl" for c in scope_component(s)) \
                    + (lean_component(sc.name or "unknown"),)
            if tkey not in table:
                table[tkey] = []
                order.append(tkey)
            tr = trait_display(sc)
            label = "" if tr is None else tr
            if sc.selfref:
                label += " for " + sc.selfref
            mine = [af.fn.name for af in fns if len(af.ctx) == len(ch) and af.ctx[-1] is sc]
            if not mine and tr is not None:
                table[tkey].append((label, ""))
            for m in mine:
                table[tkey].append((label, m))
        names = []
        for tkey in order:
            name = ".".join((prefix,) + tkey) + "_impls"
            self.add(name, "List (String × String)", lean_pair_list(sorted(table[tkey])), "impls",
                     dict(file=path, fn="impl blocks of " + "::".join(tkey), kind="impls"))
            names.append(name)
        return names

    def emit_inventory(self, key, names):
        path, prefix = [(p, x) for (k, p, x) in self.files if k == key][0]
        name = prefix + ".items"
        self.add(name, "List String", lean_str_list(sorted(names)), "inventory",
                 dict(file=path, fn="all generated items of the file", kind="inventory"))

    # -- explicit specs (files that are not covered wholesale) -----------------------------------
    def emit_calls_spec(self, sp):
        """dict(kind="calls", file=key, scope=None | ("impl", Type, Trait) | ("mod", name, None), fn=name):
        the function is located like the items of SPECS (innermost scope + name, exactly one definition with a body)."""
        key = sp["file"]
        path, prefix = [(p, x) for (k, p, x) in self.files if k == key][0]
        fns, _ = self.load(key)
        scope = sp.get("scope")

        def matches(af):
            if af.fn.name != sp["fn"] or af.fn.body is None:
                return False
            if scope is None:
                return len(af.ctx) == 0
            if not af.ctx:
                return False
            s = af.ctx[-1]
            return s.kind == scope[0] and s.name == scope[1] and (scope[0] != "impl" or s.trait == scope[2])
        hits = [af for af in fns if matches(af)]
        what = "fn %s%s (%s)" % ((scope[1] + "::") if scope else "", sp["fn"], path)
        if len(hits) != 1:
            raise TranslateError("%s: expected exactly one definition in %s, found %d" % (what, path, len(hits)))
        af = hits[0]
        name = self.lean_name(prefix, af.ctx, af.fn.name) + "_calls"
        rp = rust_path(af.ctx, af.fn.name)
        self.add(name, "List String", lean_str_list(call_shape(af.fn, "fn %s (%s)" % (rp, path))), "calls",
                 dict(file=path, fn=rp, kind="calls"))
        return name

    def emit_impls_spec(self, sp):
        """dict(kind="impls", file=key, type=Name): the (trait, method) pairs of the impl blocks of one type."""
        key = sp["file"]
        path, prefix = [(p, x) for (k, p, x) in self.files if k == key][0]
        fns, impls = self.load(key)
        pairs = []
        for ch in impls:
            sc = ch[-1]
            if sc.name != sp["type"]:
                continue
            tr = trait_display(sc)
            label = ("" if tr is None else tr) + ((" for " + sc.selfref) if sc.selfref else "")
            mine = [af.fn.name for af in fns if len(af.ctx) == len(ch) and af.ctx[-1] is sc]
            if not mine and tr is not None:
                pairs.append((label, ""))
            pairs += [(label, m) for m in mine]
        if not pairs:
            raise TranslateError("type %s (%s): no impl block found" % (sp["type"], path))
        name = prefix + "." + lean_component(sp["type"]) + "_impls"
        self.add(name, "List (String × String)", lean_pair_list(sorted(pairs)), "impls",
                 dict(file=path, fn="impl blocks of " + sp["type"], kind="impls"))
        return name

    def run(self, specs=(), whole_files=None):
        """whole_files: keys of the files covered wholesale (default: all of self.files that no spec names)."""
        spec_keys = {sp["file"] for sp in specs}
        for (key, path, prefix) in self.files:
            if key in spec_keys:
                names = []
                for sp in specs:
                    if sp["file"] == key:
                        names.append(self.emit_calls_spec(sp) if sp["kind"] == "calls" else self.emit_impls_spec(sp))
                self.emit_inventory(key, names)
                continue
            names = self.emit_calls_file(key)
            names += self.emit_impls_file(key)
            self.emit_inventory(key, names)

    # -- output --------------------------------------------------------------------------------
    def lean_text(self):
        hdr = [
            "/-",
            "AUTOGENERATED by /verif/translate/rust2lean.py (rs_api.py, rs_calls.py) from the hashbrown Rust sources — DO NOT EDIT.",
            "Call-shape tie of the API layer: for every function outside the test modules the list of its callee names in",
            "source order (`*_calls`), for every type the sorted (trait, method) pairs it implements (`*_impls`), per file the",
            "inventory of generated items (`<File>.items`).  Expected values: Hb/Proofs/GenEqApi.lean (literal snapshot).",
            "Sources: " + ", ".join(p for (_, p, _) in self.files),
            "-/",
            "namespace Hb.Gen.Api",
            "",
        ]
        body = []
        for (name, ty, val, kind, meta) in self.defs:
            body.append("/-- %s: `%s` (%s) -/\ndef %s : %s :=\n%s" % (kind, meta["fn"], meta["file"], self.decl(name), ty, val))
        return "\n".join(hdr) + "\n" + "\n\n".join(body) + "\n\nend Hb.Gen.Api\n"

    def json_text(self):
        d = {}
        for (name, ty, val, kind, meta) in self.defs:
            d[name] = dict(meta, theorem="api_" + name.replace(".", "_"))
        return json.dumps(d, indent=1, sort_keys=True) + "\n"
