#!/usr/bin/env python3
"""c16_corpus.py -- compile the C16 obligation corpus against the hashbrown rlib built from --repo.

  python3 /verif/translate/c16_corpus.py --repo /repo --out <summary.json>
          [--corpus /verif/harness/c16] [--target-dir /verif/.cache/c16-target] [--jobs 16]

Each `*.rs` in the corpus starts with `// expect: ok` or `// expect: CODE[|CODE...]`
(CODE = rustc error code, or LIFETIME for the code-less "lifetime may not live long enough"),
optionally followed by `// expect-msg: <python regex>` that must match one of the error messages.
A rejecting program is "as expected" only if it is rejected, *every* error it produces has an
expected code, and the expect-msg (if any) matches.  Writes
  {"programs": N, "as_expected": M, "unexpected": [{"file", "expected", "got", "stderr_head"}], ...}
and exits 0 iff N == M (and N > 0).
"""
import argparse
import concurrent.futures as cf
import glob
import json
import os
import re
import subprocess
import sys
import time

FEATURES = "rayon,serde,raw-entry,rustc-internal-api"


def build_rlib(repo, target):
    cmd = ["cargo", "build", "--offline", "--lib", "--features", FEATURES,
           "--manifest-path", os.path.join(repo, "Cargo.toml"), "--target-dir", target]
    p = subprocess.run(cmd, stdout=subprocess.PIPE, stderr=subprocess.STDOUT, text=True)
    if p.returncode != 0:
        sys.stderr.write(p.stdout)
        sys.exit("c16_corpus: cargo build failed")
    deps = os.path.join(target, "debug", "deps")

    def newest(pat):
        xs = sorted(glob.glob(os.path.join(deps, pat)), key=os.path.getmtime)
        if not xs:
            sys.exit("c16_corpus: %s not found in %s" % (pat, deps))
        return xs[-1]
    # the artifact cargo just (re)linked; stale hashes of other feature sets may sit next to it
    hb = os.path.join(target, "debug", "libhashbrown.rlib")
    if not os.path.exists(hb):
        hb = newest("libhashbrown-*.rlib")
    return deps, {"hashbrown": hb, "allocator_api2": newest("liballocator_api2-*.rlib"),
                  "rayon": newest("librayon-*.rlib")}, " ".join(cmd)


def parse_header(path):
    exp, msg = None, None
    with open(path) as f:
        for line in f:
            if not line.startswith("//"):
                break
            m = re.match(r"//\s*expect:\s*(\S+)", line)
            if m and exp is None:
                exp = m.group(1)
            m = re.match(r"//\s*expect-msg:\s*(.+?)\s*$", line)
            if m:
                msg = m.group(1)
    return exp, msg


def run_one(args):
    path, deps, externs, outdir = args
    exp, msg = parse_header(path)
    base = os.path.basename(path)
    if exp is None:
        return dict(file=base, expected="(no expect header)", got="-", ok=False, stderr_head="")
    out = os.path.join(outdir, base[:-3] + ".rmeta")
    cmd = ["rustc", "--edition", "2021", "--crate-type", "lib", "--emit=metadata", "--error-format=json",
           "--crate-name", "c16_prog", "-L", "dependency=" + deps]
    for k, v in externs.items():
        cmd += ["--extern", "%s=%s" % (k, v)]
    cmd += ["-o", out, path]
    p = subprocess.run(cmd, stdout=subprocess.PIPE, stderr=subprocess.PIPE, text=True)
    codes, msgs, rendered = [], [], []
    for line in p.stderr.splitlines():
        if not line.startswith("{"):
            rendered.append(line)
            continue
        try:
            j = json.loads(line)
        except ValueError:
            continue
        if j.get("level") != "error":
            continue
        m = j.get("message", "")
        if m.startswith("aborting due to"):
            continue
        c = j["code"]["code"] if j.get("code") else None
        if c is None:
            c = "LIFETIME" if "lifetime may not live long enough" in m else "NOCODE"
        codes.append(c)
        msgs.append(m)
        rendered.append(j.get("rendered") or m)
    try:
        os.remove(out)
    except OSError:
        pass
    if p.returncode == 0:
        got = "ok"
    else:
        got = "|".join(sorted(set(codes))) or "rustc-exit-%d" % p.returncode
    if exp == "ok":
        ok = p.returncode == 0
    else:
        want = set(exp.split("|"))
        ok = p.returncode != 0 and bool(codes) and set(codes) <= want
        if ok and msg:
            ok = any(re.search(msg, m) for m in msgs)
            if not ok:
                got += " (expect-msg not matched)"
    return dict(file=base, expected=exp, got=got, ok=ok,
                stderr_head="\n".join(rendered)[:1200] if not ok else "")


def main():
    ap = argparse.ArgumentParser()
    ap.add_argument("--repo", default="/repo")
    ap.add_argument("--out", required=True)
    ap.add_argument("--corpus", default="/verif/harness/c16")
    ap.add_argument("--target-dir", default="/verif/.cache/c16-target")
    ap.add_argument("--jobs", type=int, default=16)
    a = ap.parse_args()
    t0 = time.time()
    deps, externs, build_cmd = build_rlib(os.path.abspath(a.repo), a.target_dir)
    t1 = time.time()
    outdir = os.path.join(a.target_dir, "c16-out")
    os.makedirs(outdir, exist_ok=True)
    files = sorted(glob.glob(os.path.join(a.corpus, "*.rs")))
    with cf.ThreadPoolExecutor(max_workers=a.jobs) as ex:
        res = list(ex.map(run_one, [(f, deps, externs, outdir) for f in files]))
    bad = [dict(file=r["file"], expected=r["expected"], got=r["got"], stderr_head=r["stderr_head"])
           for r in res if not r["ok"]]
    fam = {}
    for r in res:
        k = r["file"].split("__")[0]
        fam.setdefault(k, [0, 0])
        fam[k][0] += 1
        fam[k][1] += 1 if r["ok"] else 0
    summary = dict(programs=len(res), as_expected=sum(1 for r in res if r["ok"]), unexpected=bad,
                   expected_ok=sum(1 for r in res if r["expected"] == "ok"),
                   expected_reject=sum(1 for r in res if r["expected"] != "ok"),
                   families={k: dict(programs=v[0], as_expected=v[1]) for k, v in sorted(fam.items())},
                   repo=os.path.abspath(a.repo), build=build_cmd,
                   rlib=externs["hashbrown"], seconds_build=round(t1 - t0, 1),
                   seconds_compile=round(time.time() - t1, 1))
    os.makedirs(os.path.dirname(os.path.abspath(a.out)), exist_ok=True)
    with open(a.out, "w") as f:
        json.dump(summary, f, indent=1)
    print("c16_corpus: %d programs, %d as expected, %d unexpected  (build %.1fs, compile %.1fs) -> %s"
          % (summary["programs"], summary["as_expected"], len(bad), t1 - t0, time.time() - t1, a.out))
    for b in bad[:40]:
        print("  UNEXPECTED %-70s expected %-8s got %s" % (b["file"], b["expected"], b["got"]))
    sys.exit(0 if res and not bad else 1)


if __name__ == "__main__":
    main()
