#!/usr/bin/env python3
"""Call-shape extraction for rust2lean (tie T1, API layer).  See /verif/notes/T1_NOTES.md, "Call-shape tie".

`call_shape(fn_item, where)` turns the token list of a function body into the list of its callee names IN SOURCE
ORDER, in a normal form that ignores receivers, arguments, operators, types, comments, whitespace and the names of
locals.  The walker is a token-level structural scanner (no expression parser: the API layer uses all of Rust's
expression syntax), it only has to know where patterns, types and nested items are (they are skipped) and where
closures, `match` arms, `if` branches and loops begin and end (they are bracketed by markers).

Hand written; no third-party dependencies.
"""
from rs_lex import TranslateError, Tok, OPEN, skip_balanced, skip_generics, split_top

# Macros whose invocation is dropped together with its arguments (checked only in debug builds).
SKIP_MACROS = {"debug_assert", "debug_assert_eq", "debug_assert_ne"}
# Path calls that are dropped (the arguments are still traversed): hashbrown's branch hints, identity on `bool`.
STOP_CALLS = {"likely", "unlikely"}
# Leading path segments that only say where a name is imported from (`core::mem::replace` = `mem::replace`).
ROOT_SEGS = {"crate", "super", "self", "core", "std", "alloc"}

KEYWORDS = {"as", "break", "const", "continue", "crate", "dyn", "else", "enum", "extern", "fn", "for", "if",
            "impl", "in", "let", "loop", "match", "mod", "move", "mut", "pub", "ref", "return", "static", "struct",
            "trait", "type", "unsafe", "use", "where", "while", "async", "await", "box"}
CLOSERS = (")", "]", "}")


def _is(t, text):
    return t.kind == "punct" and t.text == text


def _kw(t, text):
    return t.kind == "id" and t.text == text


def binders_of(toks):
    """Names bound by a pattern (token list): lower-case identifiers that are not path segments, not
    constructor / macro names and not the field name of a `field: pat` struct-pattern entry."""
    out = set()
    for i, t in enumerate(toks):
        if t.kind != "id" or t.text in KEYWORDS or t.text in ("_", "true", "false"):
            continue
        if not (t.text[0].islower() or t.text[0] == "_"):
            continue
        nxt = toks[i + 1] if i + 1 < len(toks) else None
        prv = toks[i - 1] if i > 0 else None
        if nxt is not None and nxt.kind == "punct" and nxt.text in ("::", "(", "{", "!", ":"):
            continue
        if prv is not None and _is(prv, "::"):
            continue
        out.add(t.text)
    return out


def receiver_of(params):
    """Normal form of the receiver of a method: `(self)`, `(&self)`, `(&mut self)`, `(self: ..)` or `()`."""
    parts = split_top(list(params))
    if not parts:
        return "()"
    p = [t for t in parts[0] if t.kind != "life"]
    texts = [t.text for t in p]
    if "self" not in texts[:3]:
        return "()"
    if ":" in texts:
        return "(self: ..)"
    if texts[0] == "&":
        return "(&mut self)" if "mut" in texts else "(&self)"
    return "(self)"          # `self` and `mut self` are the same receiver


class CallWalker:
    def __init__(self, where):
        self.where = where
        self.ev = []            # ("s", text) final string | ("p", name) single-segment path call (resolved at the end)
        self.binders = set()
        self.param_of = {}      # name currently bound to a parameter -> "$i" (fn parameter i, `self` not counted) /
                                # "%i" (parameter i of the enclosing closure); shadowed by let / pattern bindings

    def shadow(self, names):
        for n in names:
            self.param_of.pop(n, None)

    def receiver_prefix(self, toks, i):
        """toks[i] is the `.` of a method call: the receiver as a rename-insensitive prefix — the field chain if it is
        rooted at `self` (`self.table.find(` ↦ `table.`), `$i.` / `%i.` (+ field chain) if it is rooted at a parameter
        of the function / of the enclosing closure, nothing for any other receiver (locals, call results)."""
        j, chain = i - 1, []
        while j >= 1 and toks[j].kind in ("id", "int") and _is(toks[j - 1], "."):
            chain.insert(0, toks[j].text)
            j -= 2
        if j < 0 or toks[j].kind != "id" or (j >= 1 and toks[j - 1].kind == "punct" and toks[j - 1].text in (".", "::")):
            return ""
        root = toks[j].text
        if root == "self":
            return "".join(c + "." for c in chain)
        if root in self.param_of:
            return "".join(c + "." for c in [self.param_of[root]] + chain)
        return ""

    # -- helpers -------------------------------------------------------------------------------
    def err(self, what, t):
        raise TranslateError("%s: call-shape scanner: %s (token '%s', source line %d)" % (self.where, what, t.text, t.line))

    def mark(self, s):
        self.ev.append(("s", s))

    def scan(self, toks, i, hi, stops, stop_on_close=False, kw=None):
        """First index j in [i, hi) at bracket depth 0 (relative to i) whose token is a punctuation in `stops`
        (or the keyword `kw`); bracket groups and turbofish generics are skipped.  Returns hi if there is none
        (or, with stop_on_close, the index of an unmatched closing bracket)."""
        while i < hi:
            t = toks[i]
            if t.kind == "punct":
                if t.text in stops:
                    return i
                if t.text in OPEN:
                    i = skip_balanced(toks, i)
                    continue
                if t.text in CLOSERS:
                    if stop_on_close:
                        return i
                    self.err("unbalanced bracket", t)
                if t.text == "::" and i + 1 < hi and _is(toks[i + 1], "<"):
                    i = skip_generics(toks, i + 1)
                    continue
                if t.text == "|" and "," in stops and self.expr_start(toks[i - 1] if i > 0 else None):
                    i += 1              # parameter list of a nested closure: its commas do not end the expression
                    while i < hi and not _is(toks[i], "|"):
                        i = skip_balanced(toks, i) if (toks[i].kind == "punct" and toks[i].text in OPEN) else i + 1
                    i += 1
                    continue
            elif kw is not None and t.kind == "id" and t.text == kw:
                return i
            i += 1
        return hi

    def block_open(self, toks, i, hi):
        """Index of the `{` that opens the block of `if COND {` / `match SCRUT {` / `for .. in EXPR {`
        (an `unsafe { .. }` block inside the head expression is skipped)."""
        while True:
            j = self.scan(toks, i, hi, ("{",))
            if j >= hi:
                self.err("expected `{`", toks[min(i, hi - 1)])
            if j > 0 and _kw(toks[j - 1], "unsafe"):
                i = skip_balanced(toks, j)
                continue
            return j

    @staticmethod
    def expr_start(prev):
        """True if a `|` / `||` after token `prev` starts a closure (rather than being a binary operator)."""
        if prev is None:
            return True
        if prev.kind == "id":
            return prev.text in KEYWORDS
        if prev.kind == "punct":
            return prev.text not in (")", "]", "}", "?")
        return False

    # -- the walker ----------------------------------------------------------------------------
    def walk(self, toks, lo, hi):
        i = lo
        while i < hi:
            t = toks[i]
            prev = toks[i - 1] if i > lo else None
            if t.kind == "punct":
                i = self.punct(toks, i, hi, t, prev)
            elif t.kind == "id":
                i = self.ident(toks, i, hi, t, prev)
            else:
                i += 1

    def punct(self, toks, i, hi, t, prev):
        x = t.text
        if x == "#" and i + 1 < hi and (_is(toks[i + 1], "[") or (_is(toks[i + 1], "!") and _is(toks[i + 2], "["))):
            j = i + 1 if _is(toks[i + 1], "[") else i + 2
            return skip_balanced(toks, j)
        if x in ("|", "||") and self.expr_start(prev):
            return self.closure(toks, i, hi)
        if x == "." and i + 1 < hi and toks[i + 1].kind == "id":
            j = i + 2
            if j + 1 < hi and _is(toks[j], "::") and _is(toks[j + 1], "<"):
                j = skip_generics(toks, j + 1)
            if j < hi and _is(toks[j], "("):
                self.mark(self.receiver_prefix(toks, i) + toks[i + 1].text)
                return j            # the argument list is traversed by the main loop
            return i + 2            # field access
        if x == ")" and i + 1 < hi and _is(toks[i + 1], "("):
            self.mark("(call)")     # call of a parenthesised expression: `(self.f)(x)`
            return i + 1
        if x == "<":
            if self.expr_start(prev):
                # qualified path `<T as Trait>::name(..)`
                j = skip_generics(toks, i)
                if j + 1 < hi and _is(toks[j], "::") and toks[j + 1].kind == "id":
                    segs, j = self.path(toks, j + 1, hi)
                    if j < hi and _is(toks[j], "("):
                        self.mark("<_>::" + "::".join(segs))
                return j
            self.mark("<")
            return i + 1
        if x == ">":
            if t.joint and i + 1 < hi and _is(toks[i + 1], "="):
                self.mark(">=")
                return i + 2
            if t.joint and i + 1 < hi and _is(toks[i + 1], ">"):
                return i + 2        # shift
            self.mark(">")
            return i + 1
        if x in ("==", "!=", "<=", "&&", "!"):
            self.mark(x)
            return i + 1
        if x == "||":               # (a closure `|| ..` was handled above)
            self.mark(x)
            return i + 1
        return i + 1

    def path(self, toks, i, hi):
        """toks[i] is an identifier: the path starting there (turbofish dropped) and the index after it."""
        segs = [toks[i].text]
        j = i + 1
        while j + 1 < hi and _is(toks[j], "::"):
            if _is(toks[j + 1], "<"):
                j = skip_generics(toks, j + 1)
            elif toks[j + 1].kind == "id":
                segs.append(toks[j + 1].text)
                j += 2
            else:
                break
        return segs, j

    @staticmethod
    def norm_path(segs):
        segs = list(segs)
        while len(segs) > 1 and segs[0] in ROOT_SEGS:
            segs = segs[1:]
        return segs

    def ident(self, toks, i, hi, t, prev):
        x = t.text
        if prev is not None and (_is(prev, ".") or _is(prev, "::")):
            return i + 1
        if x in KEYWORDS and x not in ("crate", "self", "super"):
            return self.keyword(toks, i, hi, t, prev)
        segs, j = self.path(toks, i, hi)
        nxt = toks[j] if j < hi else None
        if nxt is not None and _is(nxt, "!") and j + 1 < hi and toks[j + 1].kind == "punct" and toks[j + 1].text in OPEN:
            if segs[-1] in SKIP_MACROS:
                return skip_balanced(toks, j + 1)
            self.mark("::".join(self.norm_path(segs)) + "!")
            return j + 1            # the arguments are traversed as an expression
        if nxt is not None and _is(nxt, "("):
            segs = self.norm_path(segs)
            if len(segs) == 1:
                if segs[0] not in STOP_CALLS:
                    self.ev.append(("p", segs[0]))
            else:
                self.mark("::".join(segs))
            return j
        if len(segs) == 1:
            if x == "None":
                self.mark("None")
            return j
        if segs[-1][0].islower() and not (nxt is not None and _is(nxt, "{")):
            # a function passed by name: `.map(Vec::len)`, `.reduce(LinkedList::new, ..)`
            self.mark("&" + "::".join(self.norm_path(segs)))
        return j

    def keyword(self, toks, i, hi, t, prev):
        x = t.text
        if x == "if":
            return self.if_(toks, i, hi)
        if x == "match":
            return self.match_(toks, i, hi)
        if x == "while":
            return self.while_(toks, i, hi)
        if x == "for":
            if i + 1 < hi and _is(toks[i + 1], "<"):
                return skip_generics(toks, i + 1)
            return self.for_(toks, i, hi)
        if x == "loop":
            if not (i + 1 < hi and _is(toks[i + 1], "{")):
                self.err("expected `{` after `loop`", t)
            k = skip_balanced(toks, i + 1)
            self.mark("loop{")
            self.walk(toks, i + 2, k - 1)
            self.mark("}")
            return k
        if x == "let" or (x in ("const", "static") and i + 2 < hi and toks[i + 1].kind == "id"
                          and _is(toks[i + 2], ":")):
            j = self.scan(toks, i + 1, hi, ("=", ";", ":"))
            names = binders_of(toks[i + 1:j])
            self.binders |= names
            if j < hi and _is(toks[j], ":"):
                j = self.scan(toks, j + 1, hi, ("=", ";"))      # the type annotation is skipped
            if j < hi and _is(toks[j], "="):
                e = self.scan(toks, j + 1, hi, (";",), stop_on_close=True)
                self.walk(toks, j + 1, e)       # the initialiser still sees the outer bindings
                j = e
            self.shadow(names)                  # from here on the names are plain locals
            return j
        if x in ("return", "break", "continue"):
            self.mark(x)
            return i + 1
        if x in ("fn", "impl", "enum", "trait", "mod", "struct", "use", "type", "extern"):
            if x == "fn" and i + 1 < hi and _is(toks[i + 1], "("):
                return i + 1        # `fn(..) -> ..` pointer type
            return self.skip_item(toks, i, hi, x)
        if x == "as":
            return self.skip_cast_type(toks, i + 1, hi)
        return i + 1

    def skip_cast_type(self, toks, i, hi):
        """`expr as TYPE`: the type (pointer / reference prefixes, a path with generics) is skipped."""
        while i < hi and (toks[i].kind == "life" or (toks[i].kind == "punct" and toks[i].text in ("*", "&"))
                          or (toks[i].kind == "id" and toks[i].text in ("const", "mut", "dyn"))):
            i += 1
        if i < hi and toks[i].kind == "punct" and toks[i].text in ("(", "["):
            return skip_balanced(toks, i)
        if i < hi and _is(toks[i], "<"):
            i = skip_generics(toks, i)
            if i < hi and _is(toks[i], "::"):
                i += 1
        while i < hi and toks[i].kind == "id":
            i += 1
            if i < hi and _is(toks[i], "<"):
                i = skip_generics(toks, i)
            if i + 1 < hi and _is(toks[i], "::") and (toks[i + 1].kind == "id" or _is(toks[i + 1], "<")):
                i += 1
                if _is(toks[i], "<"):
                    i = skip_generics(toks, i)
                    if i + 1 < hi and _is(toks[i], "::"):
                        i += 1
                continue
            break
        return i

    def skip_item(self, toks, i, hi, kw):
        """A nested item inside a function body (`fn`, `struct`, `impl`, `use`, ..) is not part of the body's
        call sequence: it is skipped (nested functions are separate items of the inventory)."""
        j = i + 1
        if kw in ("use", "type"):
            j = self.scan(toks, j, hi, (";",))
            return j + 1
        if kw == "extern" and not (j < hi and toks[j].kind == "str"):
            return i + 1
        while j < hi:
            tt = toks[j]
            if _is(tt, "{"):
                return skip_balanced(toks, j)
            if _is(tt, ";"):
                return j + 1
            if tt.kind == "punct" and tt.text in ("(", "["):
                j = skip_balanced(toks, j)
                continue
            j += 1
        self.err("unterminated nested item", toks[i])

    def closure(self, toks, i, hi):
        saved = dict(self.param_of)
        if _is(toks[i], "||"):
            j = i + 1
        else:
            j = i + 1
            while j < hi and not _is(toks[j], "|"):
                if toks[j].kind == "punct" and toks[j].text in OPEN:
                    j = skip_balanced(toks, j)
                else:
                    j += 1
            if j >= hi:
                self.err("unterminated closure parameter list", toks[i])
            for idx, part in enumerate(split_top(toks[i + 1:j])):
                cut = len(part)
                for k, pt in enumerate(part):
                    if _is(pt, ":"):
                        cut = k
                        break
                names = binders_of(part[:cut])
                self.binders |= names
                for n in names:
                    self.param_of[n] = "%%%d" % idx
            j += 1
        if j < hi and _is(toks[j], "->"):
            j = self.scan(toks, j + 1, hi, ("{",))
        self.mark("|{")
        if j < hi and _is(toks[j], "{"):
            k = skip_balanced(toks, j)
            self.walk(toks, j + 1, k - 1)
        else:
            k = self.scan(toks, j, hi, (",", ";"), stop_on_close=True)
            self.walk(toks, j, k)
        self.mark("}|")
        self.param_of = saved
        return k

    def if_(self, toks, i, hi):
        j = i + 1
        names = set()
        if j < hi and _kw(toks[j], "let"):
            e = self.scan(toks, j + 1, hi, ("=",))
            names = binders_of(toks[j + 1:e])
            self.binders |= names
            j = e + 1
        b = self.block_open(toks, j, hi)
        self.walk(toks, j, b)
        self.mark("if{")
        k = skip_balanced(toks, b)
        saved = dict(self.param_of)
        self.shadow(names)
        self.walk(toks, b + 1, k - 1)
        self.param_of = saved
        if k < hi and _kw(toks[k], "else"):
            self.mark("}else{")
            if k + 1 < hi and _kw(toks[k + 1], "if"):
                k = self.if_(toks, k + 1, hi)
            elif k + 1 < hi and _is(toks[k + 1], "{"):
                k2 = skip_balanced(toks, k + 1)
                self.walk(toks, k + 2, k2 - 1)
                k = k2
            else:
                self.err("expected `{` or `if` after `else`", toks[k])
        self.mark("}")
        return k

    def while_(self, toks, i, hi):
        j = i + 1
        names = set()
        if j < hi and _kw(toks[j], "let"):
            e = self.scan(toks, j + 1, hi, ("=",))
            names = binders_of(toks[j + 1:e])
            self.binders |= names
            j = e + 1
        b = self.block_open(toks, j, hi)
        self.mark("while{")
        self.walk(toks, j, b)
        self.mark("=>")
        k = skip_balanced(toks, b)
        saved = dict(self.param_of)
        self.shadow(names)
        self.walk(toks, b + 1, k - 1)
        self.param_of = saved
        self.mark("}")
        return k

    def for_(self, toks, i, hi):
        e = self.scan(toks, i + 1, hi, (), kw="in")
        if e >= hi:
            self.err("`for` without `in`", toks[i])
        names = binders_of(toks[i + 1:e])
        self.binders |= names
        b = self.block_open(toks, e + 1, hi)
        self.walk(toks, e + 1, b)
        self.mark("for{")
        k = skip_balanced(toks, b)
        saved = dict(self.param_of)
        self.shadow(names)
        self.walk(toks, b + 1, k - 1)
        self.param_of = saved
        self.mark("}")
        return k

    def match_(self, toks, i, hi):
        b = self.block_open(toks, i + 1, hi)
        self.walk(toks, i + 1, b)
        self.mark("match{")
        k = skip_balanced(toks, b)
        j, end = b + 1, k - 1
        while j < end:
            if _is(toks[j], "#") and _is(toks[j + 1], "["):
                j = skip_balanced(toks, j + 1)
                continue
            a = self.scan(toks, j, end, ("=>",))
            if a >= end:
                self.err("match arm without `=>`", toks[j])
            g = self.scan(toks, j, a, (), kw="if")
            names = binders_of(toks[j:g])
            self.binders |= names
            saved = dict(self.param_of)
            self.shadow(names)
            if g < a:
                self.walk(toks, g + 1, a)
            self.mark("=>")
            s = a + 1
            if s < end and _is(toks[s], "{"):
                e = skip_balanced(toks, s)
                self.walk(toks, s + 1, e - 1)
                j = e
                if j < end and _is(toks[j], ","):
                    j += 1
            else:
                e = self.scan(toks, s, end, (",",))
                self.walk(toks, s, e)
                j = e + 1
            self.param_of = saved
        self.mark("}")
        return k

    # -- result --------------------------------------------------------------------------------
    def result(self):
        out = []
        for (k, s) in self.ev:
            if k == "p" and s in self.binders:
                out.append("(local)")       # call of a closure held in a parameter / local: `f(k, v)`
            else:
                out.append(s)
        return out


def call_shape(fn, where):
    """fn: rs_lex.FnItem with a body.  Returns the call-shape list (first element: the receiver)."""
    w = CallWalker(where)
    idx = 0
    for part in split_top(list(fn.params)):
        cut = len(part)
        for k, pt in enumerate(part):
            if _is(pt, ":"):
                cut = k
                break
        names = binders_of(part[:cut])
        if "self" in [t.text for t in part[:cut] if t.kind == "id"]:
            continue            # the receiver is element 0 of the list, not a numbered parameter
        w.binders |= names
        for n in names:
            w.param_of[n] = "$%d" % idx
        idx += 1
    toks = list(fn.body) + [Tok("eof", "<eof>", fn.body[-1].line if fn.body else fn.line, 0)]
    w.walk(toks, 0, len(toks) - 1)
    return [receiver_of(fn.params)] + w.result()
