#!/usr/bin/env python3
"""AST -> Lean translation for rust2lean (tie T1).  See /verif/notes/T1_NOTES.md."""
from rs_lex import TranslateError
from rs_parse import parse_expr_text

LEAN_RESERVED = {
    "repeat", "next", "at", "from", "end", "show", "have", "by", "do", "then", "else", "fun",
    "let", "in", "with", "match", "if", "def", "theorem", "where", "open", "namespace", "section",
    "variable", "instance", "class", "structure", "inductive", "import", "export", "mutual",
    "universe", "deriving", "return", "for", "unless", "try", "catch", "finally", "Type", "Prop",
    "Sort", "set_option", "local", "private", "protected", "partial", "unsafe", "macro", "syntax",
    "notation", "infix", "prefix", "postfix", "attribute", "example", "axiom", "abbrev", "opaque",
    "using", "calc", "suffices", "obtain", "exact", "nomatch", "nofun", "some", "none", "true",
    "false", "max", "min", "id", "default", "this",
}
CTX_RESERVED = {"bits", "w", "W", "BITMASK_STRIDE", "BITMASK_MASK", "BITMASK_ITER_MASK", "self_", "T_size", "T_align"}

NAT_WIDTH = {"usize": "bits", "isize": "bits", "u64": "64", "i64": "64", "u32": "32", "i32": "32",
             "u16": "16", "i16": "16", "u8": "8", "i8": "8"}
# `T::SIZE` / `T::ALIGN`: `mem::size_of::<T>()` / `mem::align_of::<T>()` of the element type parameter `T` of
# raw/mod.rs (pointer arithmetic on `*mut T` / `NonNull<T>` is arithmetic on abstract addresses in units of `T_size`)
CTX_ORDER = ["bits", "Group::WIDTH", "T::SIZE", "T::ALIGN", "BITMASK_STRIDE", "BITMASK_MASK", "BITMASK_ITER_MASK"]
CTX_LEAN = {"bits": ("bits", "Nat"), "Group::WIDTH": ("W", "Nat"), "BITMASK_STRIDE": ("BITMASK_STRIDE", "Nat"),
            "BITMASK_MASK": ("BITMASK_MASK", "BitVec w"), "BITMASK_ITER_MASK": ("BITMASK_ITER_MASK", "BitVec w"),
            "T::SIZE": ("T_size", "Nat"), "T::ALIGN": ("T_align", "Nat")}
CTX_RTYPE = {"bits": "usize", "Group::WIDTH": "usize", "BITMASK_STRIDE": "usize",
             "BITMASK_MASK": "BitMaskWord", "BITMASK_ITER_MASK": "BitMaskWord",
             "T::SIZE": "usize", "T::ALIGN": "usize"}

# Target assumptions used to resolve `cfg!(...)` (documented in T1_NOTES.md).
CFG_FACTS = {'target_arch="arm"': False}

ARITH = {"+": "+", "-": "-", "*": "*", "/": "/", "%": "%", "&": "&&&", "|": "|||", "^": "^^^"}
CMP = {"<": "<", ">": ">", "<=": "≤", ">=": "≥"}


def lean_ident(name):
    if name in LEAN_RESERVED or name in CTX_RESERVED or name.startswith("rs_") or name.endswith("__"):
        return name + "_"
    return name


def lean_decl_name(dotted):
    return ".".join(("«%s»" % p) if p in LEAN_RESERVED else p for p in dotted.split("."))


def I(n):
    return "  " * n


class FileCfg:
    def __init__(self, key, path, prefix="", bv_types=(), bv_width=None, paths=None, abstractions=(), elem_param=None):
        self.key = key
        self.elem_param = elem_param       # name of the element type parameter (`T` in raw/mod.rs) or None
        self.path = path
        self.prefix = prefix
        self.bv_types = set(bv_types)
        self.bv_width = bv_width           # Lean expr for the word width, e.g. 'w' or '64'
        self.paths = paths or {}           # 'A::B' -> ('ctx', key) | ('prelude', leanExpr, rustType)
        self.abstractions = [(parse_expr_text(p), n, t) for (p, n, t) in abstractions]


class World:
    """Everything that is shared between function translations."""

    def __init__(self):
        self.structs = {}    # name -> [(field, rust type name)]      (named-field structs we emit)
        self.struct_all = {}  # name -> [every field name of the Rust struct]  (only for `only=` views)
        self.newtypes = {}   # name -> inner rust type (normalized)
        self.fns = {}        # (SelfType|None, name) -> dict(lean, ctx, abs, ret, has_self, file)
        self.consts = {}     # (filekey|None, 'A::B') -> (lean name, rust type)


class FnTranslator:
    def __init__(self, world, fcfg, where, self_type=None, self_kind=None, abstractions=()):
        self.w = world
        self.f = fcfg
        self.where = where
        self.self_type = self_type
        self.self_kind = self_kind
        self.abstractions = [(parse_expr_text(p), n, t) for (p, n, t) in abstractions] + fcfg.abstractions
        self.ctx_used = set()
        self.abs_used = []
        self.scopes = [{}]
        self.binds = []
        self.no_try = 0
        self.fresh = 0
        self.ret_mode = "plain"     # plain | mut_unit | mut_value
        self.self_used = False
        self.params_used = set()

    # -- errors / env ------------------------------------------------------------------
    def err(self, msg):
        raise TranslateError("%s: %s" % (self.where, msg))

    def lookup(self, name):
        for sc in reversed(self.scopes):
            if name in sc:
                return sc[name]
        return None

    def bind(self, name, rty, kind="local"):
        ln = lean_ident(name)
        self.scopes[-1][name] = (ln, rty, kind)
        return ln

    def gensym(self, base):
        self.fresh += 1
        return "%s%d__" % (base, self.fresh)

    # -- types -------------------------------------------------------------------------
    def norm_type(self, ty):
        """type AST -> normalized: str | ('Option', t) | ('tuple', (..)) | None"""
        if ty is None:
            return None
        if ty[0] == "ty":
            name = ty[1][-1]
            if name == "Self":
                if self.self_type is None:
                    self.err("`Self` outside impl")
                return self.self_type
            if name == "Option" and len(ty[2]) == 1:
                return ("Option", self.norm_type(ty[2][0]))
            if name == "NonNull" and len(ty[2]) == 1:
                return ("ptr", self.norm_type(ty[2][0]))
            return name
        if ty[0] == "tytuple":
            return ("tuple", tuple(self.norm_type(t) for t in ty[1]))
        if ty[0] == "tyref":
            return self.norm_type(ty[1])
        if ty[0] == "typtr":
            return ("ptr", self.norm_type(ty[1]))
        return None

    def resolve_newtype(self, t):
        seen = 0
        while isinstance(t, str) and t in self.w.newtypes and seen < 8:
            t = self.w.newtypes[t]
            seen += 1
        return t

    def tclass(self, t):
        """normalized rust type -> ('bv', width) | ('nat', width) | ('bool',) | None"""
        t = self.resolve_newtype(t)
        if isinstance(t, tuple) and t[0] == "ptr":
            return ("ptr", t[1])
        if not isinstance(t, str):
            return None
        if t in self.f.bv_types:
            return ("bv", self.f.bv_width)
        if t in NAT_WIDTH:
            return ("nat", NAT_WIDTH[t])
        if t == "bool":
            return ("bool",)
        return None

    def lean_type(self, t):
        t0 = t
        t = self.resolve_newtype(t)
        if isinstance(t, tuple):
            if t[0] == "Option":
                return "(Option %s)" % self.lean_type(t[1])
            if t[0] == "ptr":
                return "Nat"          # an abstract address
            if t[0] == "tuple":
                if not t[1]:
                    return "Unit"
                return "(" + " × ".join(self.lean_type(x) for x in t[1]) + ")"
        if isinstance(t, str):
            c = self.tclass(t)
            if c:
                if c[0] == "bv":
                    return "(BitVec %s)" % c[1]
                if c[0] == "nat":
                    if c[1] == "bits":
                        pass
                    return "Nat"
                return "Bool"
            if t in self.w.structs:
                return t
            if t == "Layout":
                return "RsLayout"
        self.err("type `%s` has no Lean counterpart" % (t0,))

    def use_ctx(self, key):
        if key == "w":
            return "w"
        self.ctx_used.add(key)
        return CTX_LEAN[key][0]

    def width(self, w):
        if w == "bits":
            return self.use_ctx("bits")
        return w

    # -- static types --------------------------------------------------------------------
    def stype(self, e):
        for (pat, name, rty) in self.abstractions:
            if e == pat:
                return rty
        k = e[0]
        if k == "bool":
            return "bool"
        if k == "path":
            segs = e[1]
            if len(segs) == 1:
                if segs[0] == "self":
                    return self.self_type
                v = self.lookup(segs[0])
                if v:
                    return v[1]
            r = self.resolve_path(segs, probe=True)
            return r[1] if r else None
        if k == "un":
            return self.stype(e[2])
        if k == "bin":
            if e[1] in ("==", "!=", "<", ">", "<=", ">=", "&&", "||"):
                return "bool"
            if e[1] in ("<<", ">>"):
                return self.stype(e[2])
            return self.stype(e[2]) or self.stype(e[3])
        if k == "cast":
            return self.norm_type(e[2])
        if k == "try":
            t = self.stype(e[1])
            return t[1] if isinstance(t, tuple) and t[0] == "Option" else None
        if k == "field":
            bt = self.stype(e[1])
            if isinstance(bt, str):
                if bt in self.w.newtypes and e[2] == "0":
                    return self.w.newtypes[bt]
                if bt in self.w.structs:
                    for (fn, ft) in self.w.structs[bt]:
                        if fn == e[2]:
                            return ft
            return None
        if k == "mcall":
            rt = self.stype(e[1])
            g = self.w.fns.get((rt, e[2])) if isinstance(rt, str) else None
            if g:
                return g["ret"]
            if e[2] in ("checked_mul", "checked_add", "checked_sub"):
                return ("Option", rt) if rt else None
            if e[2] in ("wrapping_sub", "wrapping_add", "wrapping_mul", "next_power_of_two", "max", "min",
                        "swap_bytes", "to_le"):
                return rt
            if e[2] in ("trailing_zeros", "leading_zeros"):
                return "u32"
            if e[2] == "unwrap_or":
                return rt[1] if isinstance(rt, tuple) and rt[0] == "Option" else None
            if e[2] == "get":
                return rt
            if isinstance(rt, tuple) and rt[0] == "ptr":
                if e[2] in ("as_ptr", "sub", "add", "wrapping_sub", "wrapping_add"):
                    return rt
                if e[2] == "cast":
                    return ("ptr", None)          # pointee chosen by the context
                if e[2] == "offset_from":
                    return "isize"
            return None
        if k == "call":
            f = e[1]
            if f[0] == "path":
                segs = f[1]
                if len(segs) == 1 and segs[0] in self.w.newtypes:
                    return segs[0]
                if len(segs) == 1 and segs[0] == "Some" and len(e[2]) == 1:
                    t = self.stype(e[2][0])
                    return ("Option", t) if t else None
                g = self.find_fn(segs)
                if g:
                    return g["ret"]
                j = "::".join(segs)
                if j in ("likely", "unlikely") and len(e[2]) == 1:
                    return self.stype(e[2][0])
                if j == "usize::from" and len(e[2]) == 1:
                    return "usize"
                if j in ("cmp::min", "cmp::max", "core::cmp::min", "core::cmp::max", "usize::max", "usize::min"):
                    return self.stype(e[2][0]) or self.stype(e[2][1])
                if j in ("mem::size_of", "core::mem::size_of"):
                    return "usize"
                if segs[-1] == "from_ne_bytes":
                    return segs[0]
                if segs[-1] == "new" and segs[0].startswith("NonZero"):
                    return ("Option", segs[0])
                if segs[-1] == "new_unchecked" and segs[0].startswith("NonZero"):
                    return segs[0]
                if j == "NonNull::new_unchecked" and len(e[2]) == 1:
                    return self.stype(e[2][0])
                if j == "invalid_mut" and len(e[2]) == 1:
                    return ("ptr", None)
                if j in ("mem::align_of", "core::mem::align_of"):
                    return "usize"
            return None
        if k == "if":
            t = self.stype(e[2]) if e[2][0] == "block" else None
            if (t is None or t == ("ptr", None)) and e[3] is not None:
                t = self.stype(e[3]) or t
            return t
        if k == "block":
            # the tail may mention locals of the block: those are unknown here and give None
            return self.stype(e[2]) if e[2] is not None else None
        return None

    def class_of(self, exprs, expect=None):
        for e in exprs:
            c = self.tclass(self.stype(e))
            if c:
                return c
        if expect is not None:
            return self.tclass(expect)
        return None

    # -- path / fn resolution ---------------------------------------------------------
    def resolve_path(self, segs, probe=False):
        """-> (lean expr, rust type) or None"""
        segs = tuple(self.self_type if (s == "Self" and self.self_type) else s for s in segs)
        j = "::".join(segs)
        for key in ((self.f.key, j), (None, j)):
            if key in self.w.consts:
                return self.w.consts[key]
        r = self.f.paths.get(j)
        if r:
            if r[0] == "ctx":
                if probe:
                    return (CTX_LEAN[r[1]][0], CTX_RTYPE[r[1]])
                return (self.use_ctx(r[1]), CTX_RTYPE[r[1]])
            if r[0] == "ctxexpr":
                # an expression over a context parameter, e.g. `T::IS_ZERO_SIZED` = `(T_size == 0)`
                nm = CTX_LEAN[r[1]][0] if probe else self.use_ctx(r[1])
                return (r[2].replace("{ctx}", nm), r[3])
            if r[0] == "prelude":
                expr = r[1]
                if "{bits}" in expr:
                    expr = expr.replace("{bits}", "bits" if probe else self.use_ctx("bits"))
                return (expr, r[2])
        return None

    def find_fn(self, segs):
        segs = tuple(self.self_type if (s == "Self" and self.self_type) else s for s in segs)
        if len(segs) == 1:
            return self.w.fns.get((None, segs[0]))
        if len(segs) == 2:
            return self.w.fns.get((segs[0], segs[1]))
        return None

    def gen_call(self, g, recv, args):
        parts = [g["lean"]]
        for c in g["ctx"]:
            if c == "bits":
                parts.append(self.use_ctx("bits"))
            else:
                parts.append(self.tr_expr(("path", tuple(c.split("::")), None)))
        for (pat, name, rty) in g["abs"]:
            parts.append(self.tr_expr(pat))
        if g["has_self"]:
            if recv is None:
                self.err("call of method `%s` without receiver" % g["lean"])
            parts.append(recv)
        elif recv is not None and not g["opaque_self"]:
            self.err("receiver passed to non-method `%s`" % g["lean"])
        if len(args) != g["nparams"]:
            self.err("call of `%s` with %d arguments (expected %d)" % (g["lean"], len(args), g["nparams"]))
        parts.extend(args)
        return "(" + " ".join(parts) + ")"

    # -- expressions --------------------------------------------------------------------
    def tr_expr(self, e, expect=None):
        for (pat, name, rty) in self.abstractions:
            if e == pat:
                if name is None:
                    return "()"
                if name not in [a[1] for a in self.abs_used]:
                    self.abs_used.append((pat, name, rty))
                return name
        k = e[0]
        m = getattr(self, "x_" + k, None)
        if m is None:
            self.err("unsupported expression form `%s`" % k)
        return m(e, expect)

    def x_lit(self, e, expect):
        return str(e[1])

    def x_bool(self, e, expect):
        return "true" if e[1] else "false"

    def x_path(self, e, expect):
        segs = e[1]
        if e[2] is not None:
            self.err("generic arguments on path `%s` are not supported here" % "::".join(segs))
        if len(segs) == 1:
            n = segs[0]
            if n == "self":
                if self.self_type is None or (self.self_type not in self.w.structs and self.self_type not in self.w.newtypes):
                    self.err("use of `self` of opaque type (only abstracted `self.<field>` reads are allowed)")
                self.self_used = True
                return "self_"
            v = self.lookup(n)
            if v:
                if v[2] == "param":
                    self.params_used.add(n)
                return v[0]
            if n == "None":
                return "none"
        r = self.resolve_path(segs)
        if r:
            return r[0]
        self.err("unknown name `%s`" % "::".join(segs))

    def x_un(self, e, expect):
        op, a = e[1], e[2]
        if op == "-":
            self.err("unary minus is not supported (token '-')")
        # op == '!'
        if a[0] == "bool" or (a[0] == "bin" and a[1] in ("==", "!=", "<", ">", "<=", ">=", "&&", "||")) \
                or self.stype(a) == "bool":
            return "(!%s)" % self.tr_expr(a)
        c = self.class_of([a], expect)
        if c is None:
            self.err("cannot determine the integer type of the operand of `!`")
        if c[0] == "bv":
            return "(~~~%s)" % self.tr_expr(a, expect)
        if c[0] == "nat":
            return "(rs_not %s %s)" % (self.width(c[1]), self.tr_expr(a, expect))
        self.err("`!` on unsupported type")

    def x_bin(self, e, expect):
        op, a, b = e[1], e[2], e[3]
        if op in ("&&", "||"):
            return "(%s %s %s)" % (self.tr_expr(a), op, self.tr_expr(b))
        if op in ("==", "!=", "<", ">", "<=", ">="):
            ta = self.stype(a) or self.stype(b)
            la, lb = self.tr_expr(a, ta), self.tr_expr(b, ta)
            if op in ("==", "!="):
                return "(%s %s %s)" % (la, op, lb)
            return "(decide (%s %s %s))" % (la, CMP[op], lb)
        if op in ("<<", ">>"):
            c = self.class_of([a], expect)
            la, lb = self.tr_expr(a, expect), self.tr_expr(b)
            if op == ">>":
                return "(%s >>> %s)" % (la, lb)
            if c is None:
                self.err("cannot determine the integer type of the left operand of `<<`")
            if c[0] == "bv":
                return "(%s <<< %s)" % (la, lb)
            return "(rs_shl %s %s %s)" % (self.width(c[1]), la, lb)
        if op in ARITH:
            t = self.stype(a) or self.stype(b) or expect
            return "(%s %s %s)" % (self.tr_expr(a, t), ARITH[op], self.tr_expr(b, t))
        self.err("unsupported binary operator `%s`" % op)

    def x_cast(self, e, expect):
        src = self.class_of([e[1]])
        tgt_t = self.norm_type(e[2])
        tgt = self.tclass(tgt_t)
        if tgt is None or tgt[0] == "bool":
            self.err("cast to unsupported type `%s`" % (tgt_t,))
        inner = self.tr_expr(e[1], tgt_t if src is None else None)
        if src is None:
            src = tgt       # untyped literal: takes the target type
        if src[0] == "bool":
            self.err("cast from bool is not supported")
        if src[0] == "ptr":
            # `p as usize`: the address itself
            if tgt != ("nat", "bits"):
                self.err("cast of a pointer to `%s` (only `as usize` is supported)" % (tgt_t,))
            return inner
        if src[0] == "nat" and tgt[0] == "nat":
            return "(rs_cast %s %s)" % (self.width(tgt[1]), inner)
        if src[0] == "bv" and tgt[0] == "bv":
            return "(BitVec.setWidth %s %s)" % (tgt[1], inner)
        if src[0] == "bv" and tgt[0] == "nat":
            return "(rs_cast %s (BitVec.toNat %s))" % (self.width(tgt[1]), inner)
        return "(BitVec.ofNat %s %s)" % (tgt[1], inner)

    def x_try(self, e, expect):
        if self.no_try:
            self.err("`?` is only supported in straight-line code of the function body (token '?')")
        inner = self.tr_expr(e[1])
        v = self.gensym("q")
        self.binds.append((v, inner))
        return v

    def x_field(self, e, expect):
        bt = self.stype(e[1])
        if isinstance(bt, str) and bt in self.w.newtypes:
            if e[2] != "0":
                self.err("field `.%s` on newtype `%s`" % (e[2], bt))
            return self.tr_expr(e[1])
        if isinstance(bt, str) and bt in self.w.structs:
            if e[2] not in [f for f, _ in self.w.structs[bt]]:
                self.err("struct `%s` has no field `%s`" % (bt, e[2]))
            return "%s.%s" % (self.atom(self.tr_expr(e[1])), e[2])
        self.err("field access `.%s` on a value of unknown/opaque type" % e[2])

    @staticmethod
    def atom(s):
        return s

    def x_mcall(self, e, expect):
        recv, name, targs, args = e[1], e[2], e[3], e[4]
        if targs is not None:
            self.err("method `%s` with generic arguments is not supported" % name)
        rt = self.stype(recv)
        g = self.w.fns.get((rt, name)) if isinstance(rt, str) else None
        if g:
            la = [self.tr_expr(a) for a in args]
            if g["has_self"]:
                return self.gen_call(g, self.tr_expr(recv), la)
            if g["opaque_self"] and recv == ("path", ("self",), None):
                return self.gen_call(g, None, la)
            self.err("method `%s` cannot be called on this receiver" % name)
        if isinstance(rt, tuple) and rt[0] == "ptr":
            return self.ptr_method(recv, rt, name, args)
        c = self.class_of([recv] + list(args), expect)
        rt_res = self.resolve_newtype(rt)
        n = len(args)
        if name in ("checked_mul", "checked_add", "checked_sub") and n == 1:
            if not c or c[0] != "nat":
                self.err("`%s` on a receiver that is not a known unsigned integer" % name)
            return "(rs_%s %s %s %s)" % (name, self.width(c[1]), self.tr_expr(recv), self.tr_expr(args[0], rt))
        if name in ("wrapping_sub", "wrapping_add", "wrapping_mul") and n == 1:
            if not c:
                self.err("`%s`: cannot determine integer type of the receiver" % name)
            la, lb = self.tr_expr(recv, rt), self.tr_expr(args[0], rt)
            if c[0] == "bv":
                return "(%s %s %s)" % (la, {"wrapping_sub": "-", "wrapping_add": "+", "wrapping_mul": "*"}[name], lb)
            return "(rs_%s %s %s %s)" % (name, self.width(c[1]), la, lb)
        if name == "next_power_of_two" and n == 0 and c and c[0] == "nat":
            return "(rs_next_power_of_two %s)" % self.tr_expr(recv)
        if name in ("max", "min") and n == 1 and c and c[0] == "nat":
            return "(rs_%s %s %s)" % (name, self.tr_expr(recv, rt), self.tr_expr(args[0], rt))
        if name == "unwrap_or" and n == 1 and isinstance(rt, tuple) and rt[0] == "Option":
            return "(rs_unwrap_or %s %s)" % (self.tr_expr(recv), self.tr_expr(args[0], rt[1]))
        if name in ("trailing_zeros", "leading_zeros", "swap_bytes", "to_le") and n == 0 and c and c[0] == "bv":
            return "(rs_%s %s)" % (name, self.tr_expr(recv))
        if name == "get" and n == 0 and isinstance(rt_res, str) and rt_res.startswith("NonZero"):
            return self.tr_expr(recv)
        self.err("unsupported method call `.%s(..)` (receiver type %s)" % (name, rt))

    def pointee_size(self, rt, what):
        """size of the pointee of a pointer type in the units of the address model: `T` -> T_size, `u8` -> 1"""
        el = rt[1]
        if el is not None and el == self.f.elem_param:
            return self.use_ctx("T::SIZE")
        if el == "u8":
            return None
        self.err("%s on a pointer whose pointee type (%s) is not the element type parameter or `u8`" % (what, el))

    def ptr_method(self, recv, rt, name, args):
        """methods of `NonNull<X>` / `*mut X` / `*const X` on abstract addresses (X = the element type
        parameter, scaled by `T_size`, or `u8`, unscaled): unchecked `sub` is truncated, `add` exact
        (overflow-freedom / in-bounds-ness is outside T1), the `wrapping_*` forms wrap at `2^bits`."""
        n = len(args)
        if name == "as_ptr" and n == 0:
            return self.tr_expr(recv)
        if name == "cast" and n == 0:
            return self.tr_expr(recv)
        if name in ("sub", "add", "wrapping_sub", "wrapping_add") and n == 1:
            sz = self.pointee_size(rt, "`.%s(..)`" % name)
            p, k = self.tr_expr(recv), self.tr_expr(args[0], "usize")
            off = k if sz is None else "(%s * %s)" % (k, sz)
            if name == "sub":
                return "(%s - %s)" % (p, off)
            if name == "add":
                return "(%s + %s)" % (p, off)
            return "(rs_%s %s %s %s)" % (name, self.use_ctx("bits"), p, off)
        if name == "offset_from" and n == 1:
            ot = self.stype(args[0])
            if not (isinstance(ot, tuple) and ot[0] == "ptr" and ot[1] == rt[1]):
                self.err("`.offset_from(..)` between pointers of different / unknown pointee types")
            sz = self.pointee_size(rt, "`.offset_from(..)`")
            d = "(%s - %s)" % (self.tr_expr(recv), self.tr_expr(args[0]))
            return d if sz is None else "(%s / %s)" % (d, sz)
        self.err("unsupported pointer method `.%s(..)` (receiver type %s)" % (name, rt))

    def x_call(self, e, expect):
        f, args = e[1], e[2]
        if f[0] != "path":
            self.err("call of a non-path expression")
        segs, targs = f[1], f[2]
        j = "::".join(segs)
        if len(segs) == 1:
            v = self.lookup(segs[0])
            if v:
                if v[2] != "closure":
                    self.err("call of non-closure local `%s`" % segs[0])
                return "(%s %s)" % (v[0], " ".join(self.tr_expr(a) for a in args))
            if segs[0] == "Some" and len(args) == 1:
                exp = expect[1] if isinstance(expect, tuple) and expect[0] == "Option" else None
                return "(some %s)" % self.tr_expr(args[0], exp)
            if segs[0] in self.w.newtypes and len(args) == 1:
                return self.tr_expr(args[0], self.w.newtypes[segs[0]])
        if j in ("likely", "unlikely") and len(args) == 1 and targs is None:
            # branch-prediction hints of hashbrown's `util` module: the identity on `bool`
            if self.stype(args[0]) != "bool":
                self.err("`%s(..)` on an argument that is not known to be a bool" % j)
            return self.tr_expr(args[0], "bool")
        if j == "usize::from" and len(args) == 1 and targs is None:
            if self.stype(args[0]) != "bool":
                self.err("`usize::from(..)` is only supported on a bool argument")
            return "(if %s then 1 else 0)" % self.tr_expr(args[0], "bool")
        g = self.find_fn(segs)
        if g and targs is None:
            if g["has_self"]:
                self.err("path call of method `%s`" % j)
            return self.gen_call(g, None, [self.tr_expr(a) for a in args])
        if j in ("cmp::min", "cmp::max", "core::cmp::min", "core::cmp::max", "usize::max", "usize::min") \
                and len(args) == 2 and targs is None:
            t = self.stype(args[0]) or self.stype(args[1])
            c = self.tclass(t)
            if not c or c[0] != "nat":
                self.err("`%s` on arguments that are not known unsigned integers" % j)
            return "(rs_%s %s %s)" % (segs[-1], self.tr_expr(args[0], t), self.tr_expr(args[1], t))
        if j == "invalid_mut" and len(args) == 1 and targs is None:
            # `util::invalid_mut(addr)`: the pointer with address `addr`
            return self.tr_expr(args[0], "usize")
        if j == "NonNull::new_unchecked" and len(args) == 1 and targs is None:
            at = self.stype(args[0])
            if not (isinstance(at, tuple) and at[0] == "ptr"):
                self.err("`NonNull::new_unchecked(..)` on an argument that is not known to be a pointer")
            return self.tr_expr(args[0])
        if j in ("mem::align_of", "core::mem::align_of") and not args and targs and len(targs) == 1 \
                and self.f.elem_param is not None and self.norm_type(targs[0]) == self.f.elem_param:
            return self.use_ctx("T::ALIGN")
        if j in ("mem::size_of", "core::mem::size_of") and not args and targs and len(targs) == 1 \
                and self.f.elem_param is not None and self.norm_type(targs[0]) == self.f.elem_param:
            return self.use_ctx("T::SIZE")
        if j in ("mem::size_of", "core::mem::size_of") and not args and targs and len(targs) == 1:
            t = self.norm_type(targs[0])
            c = self.tclass(t)
            if isinstance(t, str) and c and c[0] == "nat":
                return "(rs_size_of_uint %s)" % self.width(c[1])
            if isinstance(t, str) and c and c[0] == "bv":
                return "(rs_size_of_uint %s)" % c[1]
            self.err("`size_of::<%s>()` is not supported" % (t,))
        if segs[-1] == "from_ne_bytes" and len(segs) == 2 and len(args) == 1 and segs[0] in self.f.bv_types:
            return "(rs_from_ne_bytes %s %s)" % (self.f.bv_width, self.tr_expr(args[0]))
        if len(segs) == 2 and segs[0].startswith("NonZero") and segs[0] in self.f.bv_types and len(args) == 1:
            if segs[1] == "new":
                return "(rs_nonzero_new %s)" % self.tr_expr(args[0])
            if segs[1] == "new_unchecked":
                return self.tr_expr(args[0])
        if j == "Layout::from_size_align_unchecked" and len(args) == 2:
            return "(rs_layout_from_size_align_unchecked %s %s)" % tuple(self.tr_expr(a) for a in args)
        self.err("unsupported call `%s(..)`" % j)

    def x_tuple(self, e, expect):
        if not e[1]:
            return "()"
        return "(" + ", ".join(self.tr_expr(a) for a in e[1]) + ")"

    def x_repeat(self, e, expect):
        return "(List.replicate %s %s)" % (self.tr_expr(e[2]), self.tr_expr(e[1]))

    def x_array(self, e, expect):
        return "[" + ", ".join(self.tr_expr(a) for a in e[1]) + "]"

    def x_macro(self, e, expect):
        if e[1] == "cfg":
            key = "".join(e[2])
            if key not in CFG_FACTS:
                self.err("cfg!(%s): no target assumption recorded for this predicate" % key)
            return "true" if CFG_FACTS[key] else "false"
        self.err("unsupported macro `%s!`" % e[1])

    def x_struct(self, e, expect):
        name = e[1][-1]
        if name == "Self":
            name = self.self_type
        if name not in self.w.structs:
            self.err("struct literal of unknown struct `%s`" % name)
        want = [f for f, _ in self.w.structs[name]]
        got = [f for f, _ in e[2]]
        # a view (`only=`) of a Rust struct: the literal must name every field of the RUST struct, the
        # initializers of the fields outside the view are not translated
        if sorted(self.w.struct_all.get(name, want)) != sorted(got):
            self.err("struct literal `%s` fields %s do not match definition %s" % (name, got, self.w.struct_all.get(name, want)))
        ftypes = dict(self.w.structs[name])
        fs = ", ".join("%s := %s" % (f, self.tr_expr(v, ftypes[f])) for f, v in e[2] if f in ftypes)
        return "({ %s } : %s)" % (fs, name)

    def x_closure(self, e, expect):
        self.scopes.append({})
        self.no_try += 1
        ps = []
        for (pat, ty) in e[1]:
            if pat[0] != "p_id" or ty is None:
                self.err("closure parameters must be `name: type`")
            nt = self.norm_type(ty)
            ps.append("(%s : %s)" % (self.bind(pat[1], nt), self.lean_type(nt)))
        body = self.tr_expr(e[2])
        self.no_try -= 1
        self.scopes.pop()
        if not ps:
            self.err("closures without parameters are not supported")
        return "(fun %s => %s)" % (" ".join(ps), body)

    def x_if(self, e, expect):
        if e[3] is None:
            self.err("`if` without `else` used as a value")
        self.no_try += 1
        c = self.tr_expr(e[1])
        a = self.tr_expr(e[2], expect)
        b = self.tr_expr(e[3], expect)
        self.no_try -= 1
        return "(if %s then %s else %s)" % (c, a, b)

    @staticmethod
    def if_mutates(e):
        """value `if` one of whose branch blocks contains an assignment statement (shallow)"""
        def blk(b):
            if b is None:
                return False
            if b[0] == "if":
                return FnTranslator.if_mutates(b)
            return b[0] == "block" and any(s[0] == "semi" and s[1][0] == "assign" for s in b[1])
        return e[0] == "if" and (blk(e[2]) or blk(e[3]))

    def x_if_mut(self, e, expect):
        """`if c { self.f op= ..; v1 } else { v2 }` used as a value in a `&mut self` body:
        a pair `(value, self_)`."""
        if e[3] is None:
            self.err("`if` without `else` used as a value")
        self.no_try += 1
        c = self.tr_expr(e[1])
        a = self.x_block_mut(e[2], expect)
        b = self.x_if_mut(e[3], expect) if e[3][0] == "if" else self.x_block_mut(e[3], expect)
        self.no_try -= 1
        return "(if %s then %s else %s)" % (c, a, b)

    def x_block_mut(self, blk, expect):
        stmts, tail = blk[1], blk[2]
        if tail is None:
            self.err("block used as a value has no tail expression")
        self.scopes.append({})
        parts = []
        for s in stmts:
            if s[0] == "skipmacro":
                continue
            if s[0] in ("let", "const"):
                parts.extend(self.let_lines(s))
                continue
            if s[0] == "semi" and s[1][0] == "assign":
                parts.append(self.assign_line(s[1]))
                continue
            self.err("statement form `%s` is not supported inside a value block" % (s[1][0] if s[0] == "semi" else s[0]))
        t = self.tr_expr(tail, expect)
        self.scopes.pop()
        return "(" + "; ".join(parts + ["(%s, self_)" % t]) + ")"

    def x_iflet(self, e, expect):
        pat, scrut, blk, els = e[1], e[2], e[3], e[4]
        if els is None:
            self.err("`if let` without `else` used as a value")
        v = self.some_pat(pat)
        self.no_try += 1
        s = self.tr_expr(scrut)
        st = self.stype(scrut)
        self.scopes.append({})
        ln = self.bind(v, st[1] if isinstance(st, tuple) and st[0] == "Option" else None) if v else "_"
        a = self.tr_expr(blk, expect)
        self.scopes.pop()
        b = self.tr_expr(els, expect)
        self.no_try -= 1
        return "(match %s with | some %s => %s | none => %s)" % (s, ln, a, b)

    def some_pat(self, pat):
        if pat[0] == "p_ts" and pat[1] == ("Some",) and len(pat[2]) == 1:
            p = pat[2][0]
            if p[0] == "p_id":
                return p[1]
            if p[0] == "p_wild":
                return None
        self.err("only `Some(name)` patterns are supported in `if let`")

    def x_block(self, e, expect):
        stmts, tail = e[1], e[2]
        if tail is None:
            self.err("block used as a value has no tail expression")
        self.scopes.append({})
        self.no_try += 1
        parts = []
        for s in stmts:
            if s[0] == "skipmacro":
                continue
            if s[0] in ("let", "const"):
                parts.extend(self.let_lines(s))
                continue
            self.err("statement form `%s` is not supported inside a value block" % (s[1][0] if s[0] == "semi" else s[0]))
        t = self.tr_expr(tail, expect)
        self.no_try -= 1
        self.scopes.pop()
        if not parts:
            return t
        return "(" + "; ".join(parts + [t]) + ")"

    def x_match(self, e, expect):
        scrut, arms = e[1], e[2]
        self.no_try += 1
        try:
            if self.is_option_match(arms):
                s = self.tr_expr(scrut)
                st = self.stype(scrut)
                out = []
                for (pat, guard, body) in arms:
                    if guard is not None:
                        self.err("match guards are not supported")
                    self.scopes.append({})
                    if pat[0] == "p_ts":
                        v = self.some_pat(pat)
                        ln = self.bind(v, st[1] if isinstance(st, tuple) and st[0] == "Option" else None) if v else "_"
                        out.append("| some %s => %s" % (ln, self.tr_expr(body, expect)))
                    else:
                        out.append("| none => %s" % self.tr_expr(body, expect))
                    self.scopes.pop()
                return "(match %s with %s)" % (s, " ".join(out))
            comps = list(scrut[1]) if scrut[0] == "tuple" else [scrut]
            names, lets = [], []
            for c in comps:
                nm = self.gensym("m")
                lets.append("let %s := %s" % (nm, self.tr_expr(c)))
                names.append(nm)
            chain = self.int_match_chain(names, scrut[0] == "tuple", arms, lambda b: self.tr_expr(b, expect))
            return "(" + "; ".join(lets + [chain]) + ")"
        finally:
            self.no_try -= 1

    @staticmethod
    def is_option_match(arms):
        def isopt(p):
            return (p[0] == "p_ts" and p[1] == ("Some",)) or (p[0] == "p_path" and p[1] == ("None",))
        return len(arms) == 2 and all(isopt(a[0]) for a in arms) and {a[0][0] for a in arms} == {"p_ts", "p_path"}

    def pat_cond(self, name, pat):
        """-> Lean Bool expr or None (irrefutable)"""
        if pat[0] == "p_wild":
            return None
        if pat[0] == "p_lit":
            return "(%s == %d)" % (name, pat[1])
        if pat[0] == "p_range":
            return "(decide (%d ≤ %s) && decide (%s ≤ %d))" % (pat[1], name, name, pat[2])
        self.err("unsupported pattern form `%s` in integer match" % pat[0])

    def int_match_chain(self, names, is_tuple, arms, tr_body):
        out = ""
        closed = 0
        for idx, (pat, guard, body) in enumerate(arms):
            if guard is not None:
                self.err("match guards are not supported")
            if is_tuple and pat[0] == "p_tuple":
                if len(pat[1]) != len(names):
                    self.err("tuple pattern arity mismatch")
                conds = [self.pat_cond(n, p) for n, p in zip(names, pat[1])]
            elif pat[0] == "p_wild":
                conds = []
            elif not is_tuple:
                conds = [self.pat_cond(names[0], pat)]
            else:
                self.err("unsupported pattern form `%s` in tuple match" % pat[0])
            conds = [c for c in conds if c is not None]
            if not conds:
                if idx != len(arms) - 1:
                    self.err("irrefutable match arm is not the last arm")
                out += tr_body(body)
                return out + ")" * closed
            cond = conds[0] if len(conds) == 1 else "(" + " && ".join(conds) + ")"
            out += "(if %s then %s else " % (cond, tr_body(body))
            closed += 1
        self.err("match without a final irrefutable (`_`) arm cannot be translated")

    # -- statements -----------------------------------------------------------------------
    def let_lines(self, s):
        """('let', pat, ty, e) | ('const', name, ty, e) -> list of 'let x := e' strings (binds new vars)."""
        if s[0] == "const":
            t = self.norm_type(s[2])
            rhs = self.tr_expr(s[3], t)
            return ["let %s := %s" % (self.bind(s[1], t), rhs)]
        pat, ty, e = s[1], s[2], s[3]
        t = self.norm_type(ty) if ty is not None else self.stype(e)
        if pat[0] == "p_id":
            if e[0] == "closure":
                rhs = self.tr_expr(e)
                return ["let %s := %s" % (self.bind(pat[1], None, "closure"), rhs)]
            if self.if_mutates(e):
                rhs = self.x_if_mut(e, t)
                return ["let (%s, self_) := %s" % (self.bind(pat[1], t), rhs)]
            rhs = self.tr_expr(e, t)
            return ["let %s := %s" % (self.bind(pat[1], t), rhs)]
        if pat[0] == "p_wild":
            rhs = self.tr_expr(e, t)
            return ["let _ := %s" % rhs]
        if pat[0] == "p_struct":
            name = pat[1][-1]
            if name == "Self":
                name = self.self_type
            if name not in self.w.structs:
                self.err("destructuring of unknown struct `%s`" % name)
            ftypes = dict(self.w.structs[name])
            if sorted(f for f, _ in pat[2]) != sorted(ftypes):
                self.err("struct pattern `%s` must name every field exactly once" % name)
            rhs = self.tr_expr(e)
            tmp = self.gensym("s")
            out = ["let %s : %s := %s" % (tmp, name, rhs)]
            for (f, p) in pat[2]:
                if p[0] != "p_id":
                    self.err("nested patterns in struct destructuring are not supported")
                out.append("let %s := %s.%s" % (self.bind(p[1], ftypes[f]), tmp, f))
            return out
        if pat[0] == "p_tuple":
            rhs = self.tr_expr(e)
            names = []
            tt = t[1] if isinstance(t, tuple) and t[0] == "tuple" and len(t[1]) == len(pat[1]) else [None] * len(pat[1])
            for p, pt in zip(pat[1], tt):
                if p[0] == "p_id":
                    names.append(self.bind(p[1], pt))
                elif p[0] == "p_wild":
                    names.append("_")
                else:
                    self.err("nested patterns in tuple destructuring are not supported")
            return ["let (%s) := %s" % (", ".join(names), rhs)]
        self.err("unsupported `let` pattern form `%s`" % pat[0])

    def ret(self, v):
        if self.ret_mode == "mut_value":
            return "(%s, self_)" % v
        if self.ret_mode == "mut_unit":
            return "self_"
        return v

    def ret_none(self):
        if self.ret_kind_option is False:
            self.err("`?` in a function that does not return Option")
        return self.ret("none")

    def with_binds(self, ind, cont):
        binds, self.binds = self.binds, []
        return self._wb(binds, ind, cont)

    def _wb(self, binds, ind, cont):
        if not binds:
            return cont(ind)
        (v, o) = binds[0]
        none = self.ret_none()
        return [I(ind) + "match %s with" % o, I(ind) + "| none => %s" % none, I(ind) + "| some %s =>" % v] + \
            self._wb(binds[1:], ind + 1, cont)

    @staticmethod
    def diverges(blk):
        """block always ends in `return`"""
        if blk is None:
            return False
        if blk[0] == "block":
            stmts, tail = blk[1], blk[2]
            if tail is not None:
                return tail[0] == "return" or (tail[0] == "if" and tail[3] is not None and
                                               FnTranslator.diverges(tail[2]) and FnTranslator.diverges(tail[3]))
            if stmts and stmts[-1][0] == "semi":
                x = stmts[-1][1]
                return x[0] == "return" or (x[0] == "if" and x[3] is not None and
                                            FnTranslator.diverges(x[2]) and FnTranslator.diverges(x[3]))
            return False
        if blk[0] == "if":
            return blk[3] is not None and FnTranslator.diverges(blk[2]) and FnTranslator.diverges(blk[3])
        return False

    def tr_tail_block(self, blk, ind):
        self.scopes.append({})
        lines = self.tr_stmts(list(blk[1]), blk[2], ind)
        self.scopes.pop()
        return lines

    def tr_stmts(self, stmts, tail, ind):
        if not stmts:
            return self.tr_tail_expr(tail, ind)
        s, rest = stmts[0], stmts[1:]
        if s[0] == "skipmacro":
            return self.tr_stmts(rest, tail, ind)
        if s[0] in ("let", "const"):
            self.binds = []
            # translate rhs first (collects `?` binds), then continue under the binds
            saved_scope = dict(self.scopes[-1])
            lets = self.let_lines(s)
            new_scope = self.scopes[-1]
            self.scopes[-1] = saved_scope     # binds' own expressions were already rendered

            def cont(i):
                self.scopes[-1] = new_scope
                return [I(i) + l for l in lets] + self.tr_stmts(rest, tail, i)
            return self.with_binds(ind, cont)
        if s[0] == "semi":
            x = s[1]
            if x[0] == "return":
                if rest or tail is not None:
                    self.err("code after `return`")
                return self.tr_tail_expr(x[1], ind)
            if x[0] == "assign":
                return self.tr_assign(x, rest, tail, ind)
            if x[0] == "if" and x[3] is None and self.diverges(x[2]):
                self.binds = []
                c = self.tr_expr(x[1])

                def cont(i):
                    a = self.tr_tail_block(x[2], i + 1)
                    b = self.tr_stmts(rest, tail, i + 1)
                    return [I(i) + "if %s then" % c] + a + [I(i) + "else"] + b
                return self.with_binds(ind, cont)
            if x[0] in ("if", "iflet", "match", "block") and not rest and tail is None:
                return self.tr_tail_expr(x, ind)
            self.err("expression statement `%s` is not supported (side effects are not modelled)" % x[0])
        self.err("unsupported statement `%s`" % s[0])

    def tr_assign(self, x, rest, tail, ind):
        self.binds = []
        line = self.assign_line(x)
        return self.with_binds(ind, lambda i: [I(i) + line] + self.tr_stmts(rest, tail, i))

    def assign_line(self, x):
        op, lhs, rhs = x[1], x[2], x[3]
        val = rhs if op == "=" else ("bin", op[:-1], lhs, rhs)
        if lhs[0] == "field" and lhs[1] == ("path", ("self",), None):
            if self.self_kind not in ("&mut self", "mut self"):
                self.err("assignment to `self.%s` but the receiver is not `&mut self`" % lhs[2])
            st = self.self_type
            if st in self.w.newtypes and lhs[2] == "0":
                v = self.tr_expr(val, self.w.newtypes[st])
                line = "let self_ := %s" % v
            elif st in self.w.structs and lhs[2] in dict(self.w.structs[st]):
                v = self.tr_expr(val, dict(self.w.structs[st])[lhs[2]])
                line = "let self_ := { self_ with %s := %s }" % (lhs[2], v)
            else:
                self.err("assignment to field `%s` of opaque `self`" % lhs[2])
            self.self_used = True
        elif lhs[0] == "path" and len(lhs[1]) == 1 and self.lookup(lhs[1][0]):
            nm = lhs[1][0]
            old = self.lookup(nm)
            v = self.tr_expr(val, old[1])
            line = "let %s := %s" % (self.bind(nm, old[1], old[2] if old[2] != "param" else "local"), v)
        else:
            self.err("unsupported assignment target")
        return line

    def tr_tail_expr(self, tail, ind):
        if tail is None:
            if self.ret_mode == "mut_unit":
                return [I(ind) + "self_"]
            if self.ret_unit:
                return [I(ind) + "()"]
            self.err("function body ends without a value")
        k = tail[0]
        if k == "return":
            return self.tr_tail_expr(tail[1], ind)
        if k == "block":
            return self.tr_tail_block(tail, ind)
        if k == "if":
            if tail[3] is None:
                self.err("`if` without `else` in tail position")
            self.binds = []
            c = self.tr_expr(tail[1])

            def cont(i):
                a = self.tr_tail_block(tail[2], i + 1)
                els = tail[3]
                b = self.tr_tail_expr(els, i + 1)
                return [I(i) + "if %s then" % c] + a + [I(i) + "else"] + b
            return self.with_binds(ind, cont)
        if k == "iflet":
            if tail[4] is None:
                self.err("`if let` without `else` in tail position")
            v = self.some_pat(tail[1])
            self.binds = []
            s = self.tr_expr(tail[2])
            st = self.stype(tail[2])

            def cont(i):
                self.scopes.append({})
                ln = self.bind(v, st[1] if isinstance(st, tuple) and st[0] == "Option" else None) if v else "_"
                a = self.tr_tail_block(tail[3], i + 1)
                self.scopes.pop()
                b = self.tr_tail_expr(tail[4], i + 1)
                return [I(i) + "match %s with" % s, I(i) + "| some %s =>" % ln] + a + [I(i) + "| none =>"] + b
            return self.with_binds(ind, cont)
        if k == "match" and self.is_option_match(tail[2]):
            self.binds = []
            s = self.tr_expr(tail[1])
            st = self.stype(tail[1])

            def cont(i):
                out = [I(i) + "match %s with" % s]
                for (pat, guard, body) in tail[2]:
                    if guard is not None:
                        self.err("match guards are not supported")
                    self.scopes.append({})
                    if pat[0] == "p_ts":
                        v = self.some_pat(pat)
                        ln = self.bind(v, st[1] if isinstance(st, tuple) and st[0] == "Option" else None) if v else "_"
                        out.append(I(i) + "| some %s =>" % ln)
                    else:
                        out.append(I(i) + "| none =>")
                    out.extend(self.tr_tail_expr(body, i + 1))
                    self.scopes.pop()
                return out
            return self.with_binds(ind, cont)
        self.binds = []
        v = self.tr_expr(tail, self.ret_type)
        return self.with_binds(ind, lambda i: [I(i) + self.ret(v)])
