#!/usr/bin/env python3
"""rust2lean — tie T1 of the hashbrown verification framework.

Regenerates Lean definitions (namespace Hb.Gen) of hashbrown's pure integer/bit functions
from the *current* Rust source text.

usage: python3-vt rust2lean.py --repo /repo --out /verif/lean/Hb/Gen/Pure.lean [--list] [--check]
                              [--out-api .../Api.lean] [--out-api-json .../api_items.json] [--no-api]
                              [--snapshot-geneq-api .../GenEqApi.lean]

Besides Pure.lean the run writes the call-shape tie of the API layer (kinds `calls`, `impls`, `inventory`;
rs_api.py / rs_calls.py): `Api.lean` and `api_items.json` NEXT TO the file given by --out (override with
--out-api / --out-api-json, suppress with --no-api).

Anything in a translated body that is outside the accepted subset is a hard error
(exit status 2, message naming the function and the offending token).
"""
import argparse
import os
import sys

sys.path.insert(0, os.path.dirname(os.path.abspath(__file__)))
from rs_lex import TranslateError, tokenize, scan_items, join, Tok  # noqa: E402
from rs_parse import parse_body, parse_params, parse_type_toks, parse_expr_toks  # noqa: E402
from rs_trans import FileCfg, World, FnTranslator, CTX_ORDER, CTX_LEAN, lean_decl_name, lean_ident, I  # noqa: E402
from rs_api import ApiGenerator  # noqa: E402

# ----------------------------------------------------------------------------------------
# Configuration: which files, how names in them resolve, which items to translate.
# ----------------------------------------------------------------------------------------
FILES = [
    FileCfg("tag", "src/control/tag.rs"),
    FileCfg("raw", "src/raw/mod.rs",
            paths={"Group::WIDTH": ("ctx", "Group::WIDTH"),
                   "isize::MAX": ("prelude", "(rs_isize_max {bits})", "isize"),
                   "usize::MAX": ("prelude", "(rs_usize_max {bits})", "usize"),
                   # the element type parameter `T` of `Bucket<T>` / `RawTable<T, A>` / `RawIterRange<T>`:
                   # `T::IS_ZERO_SIZED` (`SizedTypeProperties`) is `mem::size_of::<T>() == 0`
                   "T::IS_ZERO_SIZED": ("ctxexpr", "T::SIZE", "({ctx} == 0)", "bool"),
                   "T::SIZE": ("ctx", "T::SIZE"), "T::ALIGN": ("ctx", "T::ALIGN")},
            elem_param="T",
            abstractions=[("self.bucket_mask", "bucket_mask", "usize"),
                          ("self.items", "items", "usize"),
                          ("self.growth_left", "growth_left", "usize"),
                          # the same three fields seen from `RawTable<T, A>` (`self.table : RawTableInner`)
                          ("self.table.bucket_mask", "bucket_mask", "usize"),
                          ("self.table.items", "items", "usize"),
                          ("self.table.growth_left", "growth_left", "usize")]),
    FileCfg("serde", "src/external_trait_impls/serde.rs"),
    FileCfg("map", "src/map.rs"),
    FileCfg("bitmask", "src/control/bitmask.rs",
            bv_types=["BitMaskWord", "NonZeroBitMaskWord"], bv_width="w",
            paths={"BITMASK_STRIDE": ("ctx", "BITMASK_STRIDE"),
                   "BITMASK_MASK": ("ctx", "BITMASK_MASK"),
                   "BITMASK_ITER_MASK": ("ctx", "BITMASK_ITER_MASK")}),
    # Target assumption for generic.rs: GroupWord = u64 (the cfg_if! branch for 64-bit targets).
    FileCfg("generic", "src/control/group/generic.rs", prefix="Generic.",
            bv_types=["GroupWord", "BitMaskWord", "NonZeroGroupWord", "NonZeroBitMaskWord", "u64"],
            bv_width="64"),
    FileCfg("sse2", "src/control/group/sse2.rs", prefix="Sse2.",
            bv_types=["BitMaskWord", "u16"], bv_width="16"),
]

# Call-shape tie of the API layer (T1_NOTES.md, "Call-shape tie"): (key, file, Lean name prefix).  For each file
# EVERY function with a body outside the test modules (`mod test*`), also the ones nested in function bodies,
# gets a `calls` item, every type with an `impl` block an `impls` item, the file an `inventory` item
# (`<Prefix>.items`).  Output: Hb/Gen/Api.lean (namespace Hb.Gen.Api) + Hb/Gen/api_items.json; the expected
# values are the literal lists of Hb/Proofs/GenEqApi.lean.
API_FILES = [
    ("map", "src/map.rs", "Map"),
    ("set", "src/set.rs", "Set"),
    ("table", "src/table.rs", "Table"),
    ("raw_entry", "src/raw_entry.rs", "RawEntry"),
    ("rustc_entry", "src/rustc_entry.rs", "RustcEntry"),
    ("serde", "src/external_trait_impls/serde.rs", "Serde"),
    ("rayon_helpers", "src/external_trait_impls/rayon/helpers.rs", "RayonHelpers"),
    ("rayon_map", "src/external_trait_impls/rayon/map.rs", "RayonMap"),
    ("rayon_raw", "src/external_trait_impls/rayon/raw.rs", "RayonRaw"),
    ("rayon_set", "src/external_trait_impls/rayon/set.rs", "RayonSet"),
    ("rayon_table", "src/external_trait_impls/rayon/table.rs", "RayonTable"),
]

IMPL = lambda name, trait=None: ("impl", name, trait)  # noqa: E731
MOD = lambda name: ("mod", name, None)                # noqa: E731

# Explicit `calls` / `impls` specs for a file that is NOT covered wholesale: the engines of src/raw/mod.rs the API
# layer funnels into (iterators behind `Drain` / `IntoIter` / `ExtractIf`, the entry / get_many primitives).  Located like
# the items of SPECS: innermost scope + fn name, exactly one definition with a body.
API_SPEC_FILES = [("rawapi", "src/raw/mod.rs", "Raw")]
_RT = ["erase", "remove", "remove_entry", "clear", "insert", "insert_entry", "replace_bucket_with",
       "find_or_find_insert_slot", "insert_in_slot", "find", "get", "get_mut", "get_many_mut",
       "get_many_unchecked_mut", "get_many_mut_buckets", "drain", "drain_iter_from"]
API_SPECS = (
    [dict(kind="calls", file="rawapi", scope=IMPL("RawTable"), fn=f) for f in _RT]
    + [dict(kind="calls", file="rawapi", scope=IMPL("RawIter"), fn="drop_elements"),
       dict(kind="calls", file="rawapi", scope=IMPL("RawIter", "Iterator"), fn="next"),
       dict(kind="calls", file="rawapi", scope=IMPL("RawIter", "Iterator"), fn="size_hint"),
       dict(kind="calls", file="rawapi", scope=IMPL("RawIter", "Iterator"), fn="fold"),
       dict(kind="calls", file="rawapi", scope=IMPL("RawIntoIter", "Iterator"), fn="next"),
       dict(kind="calls", file="rawapi", scope=IMPL("RawIntoIter", "Iterator"), fn="size_hint"),
       dict(kind="calls", file="rawapi", scope=IMPL("RawDrain", "Iterator"), fn="next"),
       dict(kind="calls", file="rawapi", scope=IMPL("RawDrain", "Iterator"), fn="size_hint"),
       dict(kind="calls", file="rawapi", scope=IMPL("RawDrain", "Drop"), fn="drop"),
       dict(kind="calls", file="rawapi", scope=IMPL("RawExtractIf"), fn="next"),
       dict(kind="impls", file="rawapi", type="RawIter"),
       dict(kind="impls", file="rawapi", type="RawIntoIter"),
       dict(kind="impls", file="rawapi", type="RawDrain"),
       dict(kind="impls", file="rawapi", type="RawExtractIf")]
)

# abstractions of the pointer specs: the control-byte pointer of the table, the two pointers of a `RawIterRange`
PTR_INNER = [("self.ctrl", "ctrl", ("ptr", "u8"))]
PTR_TABLE = [("self.table.ctrl", "ctrl", ("ptr", "u8"))]
PTR_RANGE = [("self.data", "data", "Bucket"), ("self.next_ctrl", "next_ctrl", ("ptr", "u8"))]

# kind: struct | newtype | const | fn            (whole items)
#       let | ifcond | call | mcall | assign | field   (one expression extracted from an effectful fn body)
#       frag                                     (a statement suffix as a transformer of the book-keeping fields)
#       writes                                   (the list of field assignments of a fn body)
SPECS = [
    # ---- control/tag.rs
    dict(kind="newtype", file="tag", name="Tag"),
    dict(kind="const", file="tag", scope=IMPL("Tag"), name="EMPTY", glob=True),
    dict(kind="const", file="tag", scope=IMPL("Tag"), name="DELETED", glob=True),
    dict(kind="fn", file="tag", scope=IMPL("Tag"), fn="is_full"),
    dict(kind="fn", file="tag", scope=IMPL("Tag"), fn="is_special"),
    dict(kind="fn", file="tag", scope=IMPL("Tag"), fn="special_is_empty"),
    dict(kind="fn", file="tag", scope=IMPL("Tag"), fn="full"),
    # ---- raw/mod.rs
    dict(kind="struct", file="raw", name="ProbeSeq"),
    dict(kind="struct", file="raw", name="TableLayout"),
    dict(kind="fn", file="raw", scope=None, fn="h1"),
    dict(kind="fn", file="raw", scope=IMPL("ProbeSeq"), fn="move_next"),
    dict(kind="fn", file="raw", scope=None, fn="capacity_to_buckets"),
    dict(kind="fn", file="raw", scope=None, fn="bucket_mask_to_capacity"),
    dict(kind="fn", file="raw", scope=IMPL("TableLayout"), fn="new",
         abstractions=[("Layout::new::<T>()", None, None),
                       ("layout.size()", "size", "usize"),
                       ("layout.align()", "align", "usize")]),
    dict(kind="fn", file="raw", scope=IMPL("TableLayout"), fn="calculate_layout_for"),
    dict(kind="fn", file="raw", scope=IMPL("RawTableInner"), fn="probe_seq"),
    dict(kind="fn", file="raw", scope=IMPL("RawTableInner"), fn="is_in_same_group"),
    dict(kind="let", file="raw", scope=IMPL("RawTableInner"), fn="set_ctrl", var="index2", ret="usize"),
    dict(kind="let", file="raw", scope=IMPL("RawTableInner"), fn="erase", var="index_before", ret="usize"),
    dict(kind="let", file="raw", scope=IMPL("RawTableInner"), fn="reserve_rehash_inner", var="new_items",
         ret=("Option", "usize"), unwrap_or_return=True),
    dict(kind="let", file="raw", scope=IMPL("RawTableInner"), fn="reserve_rehash_inner", var="full_capacity", ret="usize"),
    dict(kind="ifcond", file="raw", scope=IMPL("RawTableInner"), fn="reserve_rehash_inner", name="in_place_cond",
         ret="bool", locals=[("new_items", "usize"), ("full_capacity", "usize")]),
    dict(kind="call", file="raw", scope=IMPL("RawTableInner"), fn="reserve_rehash_inner", name="new_capacity",
         path="usize::max", ret="usize", locals=[("new_items", "usize"), ("full_capacity", "usize")]),
    # ---- raw/mod.rs: decision expressions and book-keeping assignments (extraction kinds)
    # accessors (whole bodies; `self.table.<field>` / `self.<field>` are abstraction parameters)
    dict(kind="fn", file="raw", scope=IMPL("RawTable"), fn="capacity"),
    dict(kind="fn", file="raw", scope=IMPL("RawTable"), fn="len"),
    dict(kind="fn", file="raw", scope=IMPL("RawTable"), fn="is_empty"),
    dict(kind="fn", file="raw", scope=IMPL("RawTable"), fn="buckets"),
    dict(kind="fn", file="raw", scope=IMPL("RawTableInner"), fn="buckets"),
    dict(kind="fn", file="raw", scope=IMPL("RawTableInner"), fn="num_ctrl_bytes"),
    dict(kind="fn", file="raw", scope=IMPL("RawTableInner"), fn="is_empty_singleton"),
    # reserve / try_reserve / insert
    dict(kind="ifcond", file="raw", scope=IMPL("RawTable"), fn="reserve", name="cond", ret="bool"),
    dict(kind="writes", file="raw", scope=IMPL("RawTable"), fn="reserve"),
    dict(kind="ifcond", file="raw", scope=IMPL("RawTable"), fn="try_reserve", name="cond", ret="bool"),
    dict(kind="writes", file="raw", scope=IMPL("RawTable"), fn="try_reserve"),
    dict(kind="ifcond", file="raw", scope=IMPL("RawTable"), fn="insert", name="grow_cond", ret="bool", depth="any",
         locals=[("old_ctrl", "Tag")]),
    dict(kind="writes", file="raw", scope=IMPL("RawTable"), fn="insert"),
    # record_item_insert_at (whole body as a transformer of the book-keeping fields, `set_ctrl_hash` dropped)
    dict(kind="struct", file="raw", name="RawTableInner", only=["bucket_mask", "items", "growth_left"],
         **{"as": "RawTableInnerBook"}),
    dict(kind="frag", file="raw", scope=IMPL("RawTableInner"), fn="record_item_insert_at", name="book",
         book="RawTableInnerBook", skip=[("self", "set_ctrl_hash")]),
    dict(kind="assign", file="raw", scope=IMPL("RawTableInner"), fn="record_item_insert_at", place="self.growth_left",
         name="growth_left", ret="usize"),
    dict(kind="assign", file="raw", scope=IMPL("RawTableInner"), fn="record_item_insert_at", place="self.items",
         name="items", ret="usize"),
    dict(kind="writes", file="raw", scope=IMPL("RawTableInner"), fn="record_item_insert_at"),
    # erase
    # (the statements after `let empty_after = ..;`: EMPTY/DELETED decision with the two bit-mask queries as
    #  parameters `lz`, `tz`, the `growth_left` / `items` updates in their branches; `set_ctrl` dropped)
    dict(kind="frag", file="raw", scope=IMPL("RawTableInner"), fn="erase", name="tail", book="RawTableInnerBook",
         after_let="empty_after", skip=[("self", "set_ctrl")], out=["ctrl"],
         abstractions=[("empty_before.leading_zeros()", "lz", "usize"),
                       ("empty_after.trailing_zeros()", "tz", "usize")]),
    dict(kind="assign", file="raw", scope=IMPL("RawTableInner"), fn="erase", place="self.growth_left",
         name="growth_left", ret="usize"),
    dict(kind="assign", file="raw", scope=IMPL("RawTableInner"), fn="erase", place="self.items",
         name="items", ret="usize"),
    dict(kind="writes", file="raw", scope=IMPL("RawTableInner"), fn="erase"),
    # rehash_in_place: growth_left recomputation in the unwind guard and after the loop
    dict(kind="assign", file="raw", scope=IMPL("RawTableInner"), fn="rehash_in_place", place="self_.growth_left",
         name="guard_growth_left", ret="usize",
         abstractions=[("self_.bucket_mask", "bucket_mask", "usize"), ("self_.items", "items", "usize")]),
    dict(kind="assign", file="raw", scope=IMPL("RawTableInner"), fn="rehash_in_place", place="self_.items",
         name="guard_items", ret="usize",
         abstractions=[("self_.items", "items", "usize")]),
    dict(kind="assign", file="raw", scope=IMPL("RawTableInner"), fn="rehash_in_place", place="guard.growth_left",
         name="growth_left", ret="usize",
         abstractions=[("guard.bucket_mask", "bucket_mask", "usize"), ("guard.items", "items", "usize")]),
    dict(kind="writes", file="raw", scope=IMPL("RawTableInner"), fn="rehash_in_place"),
    # clear_no_drop / clear / RawDrain::drop
    dict(kind="assign", file="raw", scope=IMPL("RawTableInner"), fn="clear_no_drop", place="self.items",
         name="items", ret="usize"),
    dict(kind="assign", file="raw", scope=IMPL("RawTableInner"), fn="clear_no_drop", place="self.growth_left",
         name="growth_left", ret="usize"),
    dict(kind="ifcond", file="raw", scope=IMPL("RawTableInner"), fn="clear_no_drop", name="fill_cond", ret="bool"),
    dict(kind="writes", file="raw", scope=IMPL("RawTableInner"), fn="clear_no_drop"),
    dict(kind="writes", file="raw", scope=IMPL("RawTable"), fn="clear_no_drop"),
    dict(kind="ifcond", file="raw", scope=IMPL("RawTable"), fn="clear", name="fast_cond", ret="bool"),
    dict(kind="writes", file="raw", scope=IMPL("RawTable"), fn="clear"),
    dict(kind="writes", file="raw", scope=IMPL("RawDrain", "Drop"), fn="drop"),
    # shrink_to
    dict(kind="let", file="raw", scope=IMPL("RawTable"), fn="shrink_to", var="min_size", ret="usize"),
    dict(kind="ifcond", file="raw", scope=IMPL("RawTable"), fn="shrink_to", name="drop_cond", ret="bool", nth=0, of=2),
    dict(kind="call", file="raw", scope=IMPL("RawTable"), fn="shrink_to", name="min_buckets", path="capacity_to_buckets",
         ret=("Option", "usize"), abstractions=[("Self::TABLE_LAYOUT", "table_layout", "TableLayout")]),
    dict(kind="ifcond", file="raw", scope=IMPL("RawTable"), fn="shrink_to", name="shrink_cond", ret="bool", nth=1, of=2,
         locals=[("min_buckets", "usize")]),
    dict(kind="ifcond", file="raw", scope=IMPL("RawTable"), fn="shrink_to", name="empty_cond", ret="bool", depth="any",
         nth=2, of=4),
    dict(kind="writes", file="raw", scope=IMPL("RawTable"), fn="shrink_to"),
    # clone_from / clone_from_impl
    dict(kind="ifcond", file="raw", scope=IMPL("RawTable", "Clone"), fn="clone_from", name="singleton_cond", ret="bool",
         depth="any", nth=0, of=3,
         abstractions=[("source.table.is_empty_singleton()", "source_is_empty_singleton", "bool")]),
    dict(kind="ifcond", file="raw", scope=IMPL("RawTable", "Clone"), fn="clone_from", name="realloc_cond", ret="bool",
         depth="any", nth=1, of=3,
         abstractions=[("self_.buckets()", "self_buckets", "usize"), ("source.buckets()", "source_buckets", "usize")]),
    dict(kind="writes", file="raw", scope=IMPL("RawTable", "Clone"), fn="clone_from"),
    dict(kind="assign", file="raw", scope=IMPL("RawTable"), fn="clone_from_impl", place="self.table.items",
         name="items", ret="usize", abstractions=[("source.table.items", "source_items", "usize")]),
    dict(kind="assign", file="raw", scope=IMPL("RawTable"), fn="clone_from_impl", place="self.table.growth_left",
         name="growth_left", ret="usize", abstractions=[("source.table.growth_left", "source_growth_left", "usize")]),
    dict(kind="writes", file="raw", scope=IMPL("RawTable"), fn="clone_from_impl"),
    # replace_bucket_with
    dict(kind="let", file="raw", scope=IMPL("RawTable"), fn="replace_bucket_with", var="old_growth_left", ret="usize"),
    dict(kind="assign", file="raw", scope=IMPL("RawTable"), fn="replace_bucket_with", place="self.table.growth_left",
         name="growth_left", ret="usize", locals=[("old_growth_left", "usize")]),
    dict(kind="assign", file="raw", scope=IMPL("RawTable"), fn="replace_bucket_with", place="self.table.items",
         name="items", ret="usize"),
    dict(kind="writes", file="raw", scope=IMPL("RawTable"), fn="replace_bucket_with"),
    # fallible_with_capacity / resize_inner
    dict(kind="ifcond", file="raw", scope=IMPL("RawTableInner"), fn="fallible_with_capacity", name="new_cond", ret="bool"),
    dict(kind="call", file="raw", scope=IMPL("RawTableInner"), fn="fallible_with_capacity", name="buckets",
         path="capacity_to_buckets", ret=("Option", "usize")),
    dict(kind="assign", file="raw", scope=IMPL("RawTableInner"), fn="resize_inner", place="new_table.growth_left",
         name="growth_left", ret="usize", abstractions=[("new_table.growth_left", "new_growth_left", "usize")]),
    dict(kind="assign", file="raw", scope=IMPL("RawTableInner"), fn="resize_inner", place="new_table.items",
         name="items", ret="usize"),
    dict(kind="writes", file="raw", scope=IMPL("RawTableInner"), fn="resize_inner"),
    # new / new_uninitialized: initial book-keeping of the `Self { .. }` literal
    dict(kind="field", file="raw", scope=IMPL("RawTableInner"), fn="new", lit="Self", field="bucket_mask",
         name="bucket_mask", ret="usize"),
    dict(kind="field", file="raw", scope=IMPL("RawTableInner"), fn="new", lit="Self", field="items",
         name="items", ret="usize"),
    dict(kind="field", file="raw", scope=IMPL("RawTableInner"), fn="new", lit="Self", field="growth_left",
         name="growth_left", ret="usize"),
    dict(kind="field", file="raw", scope=IMPL("RawTableInner"), fn="new_uninitialized", lit="Self", field="bucket_mask",
         name="bucket_mask", ret="usize"),
    dict(kind="field", file="raw", scope=IMPL("RawTableInner"), fn="new_uninitialized", lit="Self", field="items",
         name="items", ret="usize"),
    dict(kind="field", file="raw", scope=IMPL("RawTableInner"), fn="new_uninitialized", lit="Self", field="growth_left",
         name="growth_left", ret="usize"),
    # probing: insert-slot fallback condition and the bucket index expressions
    dict(kind="ifcond", file="raw", scope=IMPL("RawTableInner"), fn="fix_insert_slot", name="cond", ret="bool",
         abstractions=[("self.is_bucket_full(index)", "is_bucket_full", "bool")]),
    dict(kind="call", file="raw", scope=IMPL("RawTableInner"), fn="find_insert_slot_in_group", name="index", path="Some",
         ret=("Option", "usize"), abstractions=[("bit.unwrap()", "bit", "usize")]),
    dict(kind="let", file="raw", scope=IMPL("RawTableInner"), fn="find_inner", var="index", ret="usize", depth="any",
         locals=[("probe_seq", "ProbeSeq"), ("bit", "usize")]),
    dict(kind="let", file="raw", scope=IMPL("RawTableInner"), fn="find_or_find_insert_slot_inner", var="index", ret="usize",
         depth="any", locals=[("probe_seq", "ProbeSeq"), ("bit", "usize")]),
    # ---- raw/mod.rs: the `Bucket<T>` pointer encoding and the data pointer of `RawIterRange` as arithmetic over
    # abstract addresses (pointers ↦ `Nat`, `T_size` = `mem::size_of::<T>()`, `T_align` = `mem::align_of::<T>()`;
    # model: Hb/Model/BucketPtr.lean)
    dict(kind="struct", file="raw", name="Bucket"),
    dict(kind="fn", file="raw", scope=None, fn="offset_from"),
    dict(kind="fn", file="raw", scope=IMPL("Bucket"), fn="from_base_index"),
    dict(kind="fn", file="raw", scope=IMPL("Bucket"), fn="to_base_index"),
    dict(kind="fn", file="raw", scope=IMPL("Bucket"), fn="as_ptr"),
    dict(kind="fn", file="raw", scope=IMPL("Bucket"), fn="as_non_null"),
    dict(kind="fn", file="raw", scope=IMPL("Bucket"), fn="next_n"),
    dict(kind="fn", file="raw", scope=IMPL("Bucket", "Clone"), fn="clone"),
    dict(kind="fn", file="raw", scope=IMPL("RawTableInner"), fn="data_end", abstractions=PTR_INNER),
    dict(kind="fn", file="raw", scope=IMPL("RawTableInner"), fn="bucket", abstractions=PTR_INNER),
    dict(kind="fn", file="raw", scope=IMPL("RawTableInner"), fn="bucket_ptr", abstractions=PTR_INNER),
    dict(kind="let", file="raw", scope=IMPL("RawTableInner"), fn="iter", var="data", ret="Bucket", abstractions=PTR_INNER),
    dict(kind="call", file="raw", scope=IMPL("RawTableInner"), fn="iter", path="RawIterRange::new", name="range_data",
         arg=1, nargs=3, ret="Bucket", locals=[("data", "Bucket")]),
    dict(kind="fn", file="raw", scope=IMPL("RawTable"), fn="data_end", abstractions=PTR_TABLE),
    dict(kind="fn", file="raw", scope=IMPL("RawTable"), fn="bucket", abstractions=PTR_TABLE),
    dict(kind="fn", file="raw", scope=IMPL("RawTable"), fn="bucket_index", abstractions=PTR_TABLE),
    dict(kind="call", file="raw", scope=IMPL("RawTable"), fn="into_allocation", path="NonNull::new_unchecked",
         name="start", ret=("ptr", "u8"), locals=[("ctrl_offset", "usize")],
         abstractions=PTR_TABLE + [("self.table.buckets()", "buckets", "usize")]),
    # RawIterRange: the `data` / `next_ctrl` pointers (a view of the struct without `current_group` and `end`)
    dict(kind="struct", file="raw", name="RawIterRange", only=["data", "next_ctrl"]),
    dict(kind="struct", file="raw", name="RawIter"),
    dict(kind="field", file="raw", scope=IMPL("RawIterRange"), fn="new", lit="Self", field="data", name="data", ret="Bucket"),
    dict(kind="let", file="raw", scope=IMPL("RawIterRange"), fn="new", var="next_ctrl", ret=("ptr", "u8")),
    dict(kind="mcall", file="raw", scope=IMPL("RawIterRange"), fn="next_impl", recv="self.data", method="next_n",
         nth=0, of=2, name="yield", ret="Bucket", locals=[("index", "usize")], abstractions=PTR_RANGE),
    dict(kind="assign", file="raw", scope=IMPL("RawIterRange"), fn="next_impl", place="self.data", name="data",
         ret="Bucket", abstractions=PTR_RANGE),
    dict(kind="assign", file="raw", scope=IMPL("RawIterRange"), fn="next_impl", place="self.next_ctrl", name="next_ctrl",
         ret=("ptr", "u8"), abstractions=PTR_RANGE),
    dict(kind="let", file="raw", scope=IMPL("RawIterRange"), fn="fold_impl", var="bucket", ret="Bucket", depth="any",
         locals=[("index", "usize")], abstractions=PTR_RANGE),
    dict(kind="assign", file="raw", scope=IMPL("RawIterRange"), fn="fold_impl", place="self.data", name="data",
         ret="Bucket", abstractions=PTR_RANGE),
    dict(kind="assign", file="raw", scope=IMPL("RawIterRange"), fn="fold_impl", place="self.next_ctrl", name="next_ctrl",
         ret=("ptr", "u8"), abstractions=PTR_RANGE),
    dict(kind="let", file="raw", scope=IMPL("RawIterRange"), fn="split", var="mid", ret="usize", depth="any",
         locals=[("len", "usize")]),
    dict(kind="call", file="raw", scope=IMPL("RawIterRange"), fn="split", path="Self::new", name="tail_ctrl",
         arg=0, nargs=3, ret=("ptr", "u8"), locals=[("mid", "usize")], abstractions=PTR_RANGE),
    dict(kind="call", file="raw", scope=IMPL("RawIterRange"), fn="split", path="Self::new", name="tail_data",
         arg=1, nargs=3, ret="Bucket", locals=[("mid", "usize")], abstractions=PTR_RANGE),
    dict(kind="fn", file="raw", scope=IMPL("RawIterRange", "Clone"), fn="clone"),
    dict(kind="fn", file="raw", scope=IMPL("RawIter", "Clone"), fn="clone"),
    # ---- serde.rs / map.rs
    dict(kind="fn", file="serde", scope=MOD("size_hint"), fn="cautious"),
    dict(kind="let", file="map", scope=IMPL("HashMap", "Extend<(K,V)>"), fn="extend", var="reserve", ret="usize",
         abstractions=[("self.is_empty()", "is_empty", "bool"),
                       ("iter.size_hint().0", "hint", "usize")]),
    dict(kind="let", file="map", scope=IMPL("HashMap", "Extend<(K,V)>"), fn="extend_reserve", var="reserve", ret="usize",
         abstractions=[("self.is_empty()", "is_empty", "bool")]),
    # ---- control/bitmask.rs   (generic in the word width `w`)
    dict(kind="newtype", file="bitmask", name="BitMask"),
    dict(kind="newtype", file="bitmask", name="BitMaskIter"),
    dict(kind="fn", file="bitmask", scope=IMPL("BitMask"), fn="invert"),
    dict(kind="fn", file="bitmask", scope=IMPL("BitMask"), fn="remove_lowest_bit"),
    dict(kind="fn", file="bitmask", scope=IMPL("BitMask"), fn="any_bit_set"),
    dict(kind="fn", file="bitmask", scope=IMPL("BitMask"), fn="nonzero_trailing_zeros"),
    dict(kind="fn", file="bitmask", scope=IMPL("BitMask"), fn="lowest_set_bit"),
    dict(kind="fn", file="bitmask", scope=IMPL("BitMask"), fn="trailing_zeros"),
    dict(kind="fn", file="bitmask", scope=IMPL("BitMask"), fn="leading_zeros"),
    dict(kind="fn", file="bitmask", scope=IMPL("BitMaskIter", "Iterator"), fn="next"),
    # ---- control/group/generic.rs
    dict(kind="newtype", file="generic", name="Group"),
    dict(kind="const", file="generic", scope=IMPL("Group"), name="WIDTH",
         abstractions=[("mem::size_of::<Self>()", "(rs_size_of_uint 64)", "usize")], literal_abs=True),
    dict(kind="const", file="generic", scope=None, name="BITMASK_STRIDE"),
    dict(kind="const", file="generic", scope=None, name="BITMASK_MASK"),
    dict(kind="const", file="generic", scope=None, name="BITMASK_ITER_MASK"),
    dict(kind="fn", file="generic", scope=None, fn="repeat"),
    dict(kind="fn", file="generic", scope=IMPL("Group"), fn="match_tag"),
    dict(kind="fn", file="generic", scope=IMPL("Group"), fn="match_empty"),
    dict(kind="fn", file="generic", scope=IMPL("Group"), fn="match_empty_or_deleted"),
    dict(kind="fn", file="generic", scope=IMPL("Group"), fn="match_full"),
    dict(kind="fn", file="generic", scope=IMPL("Group"), fn="convert_special_to_empty_and_full_to_deleted"),
    # ---- control/group/sse2.rs (constants only)
    dict(kind="const", file="sse2", scope=None, name="BITMASK_STRIDE"),
    dict(kind="const", file="sse2", scope=None, name="BITMASK_MASK"),
    dict(kind="const", file="sse2", scope=None, name="BITMASK_ITER_MASK"),
]


# ----------------------------------------------------------------------------------------
def scope_matches(ctx, scope):
    """ctx: list of rs_lex.Scope (outermost first); scope: None | (kind, name, trait)"""
    if scope is None:
        return len(ctx) == 0
    if not ctx:
        return False
    s = ctx[-1]
    if s.kind != scope[0] or s.name != scope[1]:
        return False
    if scope[0] == "impl":
        return s.trait == scope[2]
    return True


def describe(scope, name):
    if scope is None:
        return name
    if scope[2]:
        return "<%s as %s>::%s" % (scope[1], scope[2], name)
    return "%s::%s" % (scope[1], name)


def unique(cands, what, fcfg):
    if len(cands) != 1:
        raise TranslateError("%s: expected exactly one definition in %s, found %d" % (what, fcfg.path, len(cands)))
    return cands[0]


class Generator:
    def __init__(self, repo):
        self.repo = repo
        self.world = World()
        self.files = {f.key: f for f in FILES}
        self.items = {}
        self.out = []
        self.summary = []

    def load(self, key):
        if key not in self.items:
            f = self.files[key]
            path = os.path.join(self.repo, f.path)
            try:
                src = open(path, encoding="utf-8").read()
            except OSError as ex:
                raise TranslateError("cannot read %s: %s" % (path, ex))
            self.items[key] = scan_items(tokenize(src, f.path))
        return self.items[key]

    # -- per-kind emitters ---------------------------------------------------------------
    def emit_struct(self, sp):
        f = self.files[sp["file"]]
        st = unique([s for s in self.load(f.key).structs if s.name == sp["name"] and s.named],
                    "struct " + sp["name"], f)
        tr = FnTranslator(self.world, f, "struct " + sp["name"])
        fields = []
        only = sp.get("only")         # book-keeping view: only these fields (all must exist), emitted as `as`
        if only is not None:
            have = [fname for (fname, _) in st.fields]
            for x in only:
                if x not in have:
                    raise TranslateError("struct %s: no field `%s` in %s" % (sp["name"], x, f.path))
        for (fname, tytoks) in st.fields:
            if only is not None and fname not in only:
                continue
            t = tr.norm_type(parse_type_toks(tytoks, "struct %s field %s" % (sp["name"], fname)))
            fields.append((fname, t))
        lean_struct = sp.get("as", sp["name"])
        self.world.structs[lean_struct] = fields
        if only is not None:
            self.world.struct_all[lean_struct] = [fname for (fname, _) in st.fields]
            sp = dict(sp, name=lean_struct)
        lines = ["structure %s where" % sp["name"]]
        for (fname, t) in fields:
            lines.append("  %s : %s" % (fname, tr.lean_type(t)))
        lines.append("deriving DecidableEq, Repr")
        self.out.append("\n".join(lines))
        self.summary.append("structure " + sp["name"])

    def emit_newtype(self, sp):
        f = self.files[sp["file"]]
        st = unique([s for s in self.load(f.key).structs if s.name == sp["name"] and not s.named],
                    "struct " + sp["name"], f)
        if len(st.fields) != 1:
            raise TranslateError("struct %s: expected a single-field tuple struct" % sp["name"])
        tr = FnTranslator(self.world, f, "struct " + sp["name"])
        t = tr.norm_type(parse_type_toks(st.fields[0], "struct " + sp["name"]))
        if t is None:
            raise TranslateError("struct %s: unsupported field type" % sp["name"])
        self.world.newtypes[sp["name"]] = t

    def lean_name(self, f, scope, name):
        parts = f.prefix
        if scope is not None:
            parts += scope[1] + "."
        return parts + name

    def emit_const(self, sp):
        f = self.files[sp["file"]]
        where = "const " + describe(sp["scope"], sp["name"]) + " (" + f.path + ")"
        c = unique([c for c in self.load(f.key).consts if c.name == sp["name"] and scope_matches(c.ctx, sp["scope"])],
                   where, f)
        self_type = sp["scope"][1] if sp["scope"] and sp["scope"][0] == "impl" else None
        tr = FnTranslator(self.world, f, where, self_type=self_type)
        if sp.get("literal_abs"):
            from rs_parse import parse_expr_text
            tr.abstractions = [(parse_expr_text(p), n, t) for (p, n, t) in sp["abstractions"]] + tr.abstractions
        t = tr.norm_type(parse_type_toks(c.ty, where))
        e = parse_expr_toks(c.expr, where)
        tr.no_try = 1
        body = tr.tr_expr(e, t)
        if tr.ctx_used - set():
            extra = [k for k in CTX_ORDER if k in tr.ctx_used]
        else:
            extra = []
        lname = self.lean_name(f, sp["scope"], sp["name"])
        binders = "".join(" (%s : %s)" % CTX_LEAN[k] for k in extra)
        if extra:
            raise TranslateError("%s: constant depends on context parameters %s" % (where, extra))
        self.out.append("def %s%s : %s :=\n  %s" % (lean_decl_name(lname), binders, tr.lean_type(t), body))
        rpath = (sp["scope"][1] + "::" if sp["scope"] else "") + sp["name"]
        self.world.consts[(None if sp.get("glob") else f.key, rpath)] = (lean_decl_name(lname), t)
        self.summary.append("def " + lname)

    def find_fn(self, sp):
        f = self.files[sp["file"]]
        where = "fn " + describe(sp["scope"], sp["fn"]) + " (" + f.path + ")"
        fn = unique([x for x in self.load(f.key).fns if x.name == sp["fn"] and scope_matches(x.ctx, sp["scope"])
                     and x.body is not None], where, f)
        return f, where, fn

    def emit_fn(self, sp):
        f, where, fn = self.find_fn(sp)
        self_type = sp["scope"][1] if sp["scope"] and sp["scope"][0] == "impl" else None
        self_kind, params = parse_params(fn.params, where)
        tr = FnTranslator(self.world, f, where, self_type=self_type, self_kind=self_kind,
                          abstractions=sp.get("abstractions", ()))
        opaque_self = self_type is not None and self_type not in self.world.structs \
            and self_type not in self.world.newtypes
        # parameters
        pbinders = []
        for (pat, ty) in params:
            if pat[0] != "p_id":
                raise TranslateError("%s: parameter patterns other than plain names are not supported" % where)
            t = tr.norm_type(ty)
            ln = tr.bind(pat[1], t, "param")
            pbinders.append((ln, t))
        # return type
        ret_t = tr.norm_type(parse_type_toks(fn.ret, where)) if fn.ret else ("tuple", ())
        ret_unit = ret_t == ("tuple", ())
        tr.ret_unit = ret_unit
        tr.ret_type = ret_t
        tr.ret_kind_option = isinstance(ret_t, tuple) and ret_t[0] == "Option"
        mut_self = self_kind == "&mut self" and not opaque_self
        if mut_self:
            tr.ret_mode = "mut_unit" if ret_unit else "mut_value"
        body = parse_body(fn.body, where)
        lines = tr.tr_stmts(list(body[1]), body[2], 1)
        # signature
        has_self = self_kind is not None and not opaque_self
        if self_kind is not None and opaque_self and tr.self_used:
            raise TranslateError("%s: uses `self` of opaque type %s" % (where, self_type))
        binders = []
        if f.bv_width == "w":
            binders.append("{w : Nat}")
        ctx = [k for k in CTX_ORDER if k in tr.ctx_used]
        for k in ctx:
            binders.append("(%s : %s)" % CTX_LEAN[k])
        self.sort_abs(tr)
        for (pat, name, rty) in tr.abs_used:
            binders.append("(%s : %s)" % (name, tr.lean_type(rty)))
        if has_self:
            binders.append("(self_ : %s)" % tr.lean_type(self_type))
        for (ln, t) in pbinders:
            binders.append("(%s : %s)" % (ln, tr.lean_type(t)))
        if mut_self:
            lret = tr.lean_type(self_type) if ret_unit else "(%s × %s)" % (tr.lean_type(ret_t), tr.lean_type(self_type))
        else:
            lret = tr.lean_type(ret_t)
        lname = self.lean_name(f, sp["scope"], sp["fn"])
        self.out.append("def %s %s : %s :=\n%s" % (lean_decl_name(lname), " ".join(binders), lret, "\n".join(lines)))
        self.world.fns[(self_type, sp["fn"])] = dict(
            lean=lean_decl_name(lname), ctx=ctx, abs=list(tr.abs_used), ret=ret_t if not mut_self else None,
            has_self=has_self, opaque_self=opaque_self and self_kind is not None, nparams=len(pbinders), file=f.key)
        self.summary.append("def " + lname)

    def emit_let(self, sp):
        """Extract `let <var> = <expr>;` from the body of a function and emit it as a def."""
        f, where, fn = self.find_fn(sp)
        where = where + " [let %s]" % sp["var"]
        toks = fn.body
        anyd = sp.get("depth") == "any"      # default: only statements at brace depth 0 of the body
        depth, hits, i = 0, [], 0
        while i < len(toks):
            t = toks[i]
            if t.kind == "punct" and t.text in "([{":
                depth += 1
            elif t.kind == "punct" and t.text in ")]}":
                depth -= 1
            elif (depth == 0 or anyd) and t.kind == "id" and t.text == "let":
                j = i + 1
                if toks[j].kind == "id" and toks[j].text == "mut":
                    j += 1
                if toks[j].kind == "id" and toks[j].text == sp["var"] and toks[j + 1].text in ("=", ":"):
                    k = j + 1
                    while toks[k].text != "=":
                        k += 1
                    start, d = k + 1, 0
                    k = start
                    while True:
                        if k >= len(toks):
                            raise TranslateError("%s: unterminated let" % where)
                        tt = toks[k]
                        if tt.kind == "punct" and tt.text in "([{":
                            d += 1
                        elif tt.kind == "punct" and tt.text in ")]}":
                            d -= 1
                        elif tt.kind == "punct" and tt.text == ";" and d == 0:
                            break
                        k += 1
                    hits.append(toks[start:k])
                    i = k
            i += 1
        expr_toks = unique(hits, where, f)
        self._emit_extracted(sp, f, where, fn, expr_toks, sp["fn"] + "_" + sp.get("name", sp["var"]))

    def emit_ifcond(self, sp):
        """Extract the condition of the unique top-level `if` statement of a function body."""
        f, where, fn = self.find_fn(sp)
        anyd = sp.get("depth") == "any"
        nth, of = sp.get("nth"), sp.get("of")
        where = where + (" [if condition #%d of %d, %s]" % (nth, of, "any depth" if anyd else "depth 0")
                         if nth is not None else
                         " [%s if condition]" % ("the unique" if anyd else "top-level"))
        toks = fn.body
        depth, hits, i = 0, [], 0
        while i < len(toks):
            t = toks[i]
            if t.kind == "punct" and t.text in "([{":
                depth += 1
            elif t.kind == "punct" and t.text in ")]}":
                depth -= 1
            elif (depth == 0 or anyd) and t.kind == "id" and t.text == "if" \
                    and not (i > 0 and toks[i - 1].text == "else") \
                    and not (toks[i + 1].kind == "id" and toks[i + 1].text == "let"):
                k, d = i + 1, 0
                while True:
                    if k >= len(toks):
                        raise TranslateError("%s: unterminated if" % where)
                    tt = toks[k]
                    if tt.kind == "punct" and tt.text == "{" and d == 0:
                        break
                    if tt.kind == "punct" and tt.text in "([{":
                        d += 1
                    elif tt.kind == "punct" and tt.text in ")]}":
                        d -= 1
                    k += 1
                hits.append(toks[i + 1:k])
                if not anyd:
                    i = k - 1
            i += 1
        if nth is not None:
            # the n-th (0-based, source order) of exactly `of` plain `if`s (`else if` and `if let` are
            # not counted): adding or removing an `if` is a translation error, not a silent re-numbering
            if len(hits) != of:
                raise TranslateError("%s: expected %d `if` statements in %s, found %d" % (where, of, f.path, len(hits)))
            hit = hits[nth]
        else:
            hit = unique(hits, where, f)
        self._emit_extracted(sp, f, where, fn, hit, sp["fn"] + "_" + sp["name"])

    # -- assignments ------------------------------------------------------------------------
    @staticmethod
    def _assign_sites(toks):
        """All assignment statements `<place> <op>= <expr>` whose place is a field chain (`a.b.c`,
        at least one `.`), at any depth: [(place token list, op text, rhs token list)].
        `let` bindings, named macro arguments and comparison operators are not assignments."""
        from rs_parse import ASSIGN_OPS
        out = []
        for i, t in enumerate(toks):
            if t.kind != "punct" or t.text not in ASSIGN_OPS:
                continue
            j = i
            while j > 0 and (toks[j - 1].kind in ("id", "int", "float") or
                             (toks[j - 1].kind == "punct" and toks[j - 1].text == ".")):
                j -= 1
            place = toks[j:i]
            if not place or place[0].kind != "id" or not any(x.text == "." for x in place):
                continue
            if place[0].text in ("let", "mut", "const", "static", "if", "while", "return", "else", "in", "match"):
                continue
            k, d = i + 1, 0
            while k < len(toks):
                tt = toks[k]
                if tt.kind == "punct" and tt.text in "([{":
                    d += 1
                elif tt.kind == "punct" and tt.text in ")]}":
                    if d == 0:
                        break
                    d -= 1
                elif tt.kind == "punct" and tt.text == ";" and d == 0:
                    break
                k += 1
            out.append((place, t.text, toks[i + 1:k]))
        return out

    def emit_assign(self, sp):
        """Extract the unique assignment statement `<place> = e` / `<place> op= e` (any depth) to the
        field chain `place` and emit the NEW value of the place: `e`, resp. `<place> op e` (the old
        value is the abstraction parameter configured for `place`)."""
        f, where, fn = self.find_fn(sp)
        where = where + " [assignment to %s]" % sp["place"]
        want = [x.text for x in tokenize(sp["place"])[:-1]]
        hits = [h for h in self._assign_sites(fn.body) if [x.text for x in h[0]] == want]
        place, op, rhs = unique(hits, where, f)
        if not rhs:
            raise TranslateError("%s: empty right-hand side" % where)
        if op == "=":
            expr_toks = list(rhs)
        else:
            lp = Tok("punct", "(", rhs[0].line, 0)
            rp = Tok("punct", ")", rhs[-1].line, 0)
            expr_toks = list(place) + [Tok("punct", op[:-1], rhs[0].line, 0), lp] + list(rhs) + [rp]
        self._emit_extracted(sp, f, where, fn, expr_toks, sp["fn"] + "_" + sp["name"])

    def emit_writes(self, sp):
        """The list of all field assignments (`place op`) in a function body, in source order, as a
        Lean `List String`: a frame statement (which book-keeping fields the function writes itself)."""
        f, where, fn = self.find_fn(sp)
        sites = self._assign_sites(fn.body)
        items = ["%s %s" % (join(pl), op) for (pl, op, _) in sites]
        lname = self.lean_name(f, sp["scope"], sp["fn"] + "_writes")
        self.out.append("def %s : List String :=\n  [%s]" % (lean_decl_name(lname), ", ".join('"%s"' % x for x in items)))
        self.summary.append("def " + lname)

    def emit_call(self, sp):
        """Extract the unique call `<path>(...)` (e.g. `usize::max(..)`) occurring in a function body."""
        f, where, fn = self.find_fn(sp)
        where = where + " [call %s(..)]" % sp["path"]
        pat = [x.text for x in tokenize(sp["path"])[:-1]]
        toks = fn.body
        hits = []
        for i in range(len(toks) - len(pat)):
            if [x.text for x in toks[i:i + len(pat)]] == pat and toks[i + len(pat)].text == "(" \
                    and not (i > 0 and toks[i - 1].text in ("::", ".")):
                k, d = i + len(pat), 0
                while True:
                    tt = toks[k]
                    if tt.kind == "punct" and tt.text in "([{":
                        d += 1
                    elif tt.kind == "punct" and tt.text in ")]}":
                        d -= 1
                        if d == 0:
                            break
                    k += 1
                    if k >= len(toks):
                        raise TranslateError("%s: unterminated call" % where)
                hits.append(toks[i:k + 1])
        hit = unique(hits, where, f)
        if sp.get("arg") is not None:
            # only the `arg`-th argument (0-based) of the call; the number of arguments is part of the spec
            from rs_lex import split_top
            args = [a for a in split_top(hit[len(pat) + 1:-1]) if a]
            if len(args) != sp["nargs"]:
                raise TranslateError("%s: expected %d arguments, found %d" % (where, sp["nargs"], len(args)))
            where = where + " [argument %d]" % sp["arg"]
            hit = args[sp["arg"]]
        self._emit_extracted(sp, f, where, fn, hit, sp["fn"] + "_" + sp["name"])

    def emit_mcall(self, sp):
        """Extract a method call `<recv>.<method>(..)` (receiver given as a field chain, e.g. `self.data`)
        from a function body: the unique one, or with `nth=i, of=n` the i-th (source order) of exactly n.
        A longer chain `<recv>.<method>(..).more(..)` is cut after the first call."""
        f, where, fn = self.find_fn(sp)
        nth, of = sp.get("nth"), sp.get("of")
        where = where + " [method call %s.%s(..)%s]" % (sp["recv"], sp["method"],
                                                        " #%d of %d" % (nth, of) if nth is not None else "")
        pat = [x.text for x in tokenize(sp["recv"])[:-1]] + [".", sp["method"]]
        toks = fn.body
        hits = []
        for i in range(len(toks) - len(pat)):
            if [x.text for x in toks[i:i + len(pat)]] == pat and toks[i + len(pat)].text == "(" \
                    and not (i > 0 and toks[i - 1].text in ("::", ".")):
                k, d = i + len(pat), 0
                while True:
                    tt = toks[k]
                    if tt.kind == "punct" and tt.text in "([{":
                        d += 1
                    elif tt.kind == "punct" and tt.text in ")]}":
                        d -= 1
                        if d == 0:
                            break
                    k += 1
                    if k >= len(toks):
                        raise TranslateError("%s: unterminated call" % where)
                hits.append(toks[i:k + 1])
        if nth is not None:
            if len(hits) != of:
                raise TranslateError("%s: expected %d such calls in %s, found %d" % (where, of, f.path, len(hits)))
            hit = hits[nth]
        else:
            hit = unique(hits, where, f)
        self._emit_extracted(sp, f, where, fn, hit, sp["fn"] + "_" + sp["name"])

    @staticmethod
    def sort_abs(tr):
        """Abstraction parameters in configuration order (spec-level first, then file-level), so that
        the signature does not depend on the order in which the source mentions them."""
        order = [a[1] for a in tr.abstractions]
        tr.abs_used.sort(key=lambda a: order.index(a[1]))

    def _emit_extracted(self, sp, f, where, fn, expr_toks, suffix):
        e = parse_expr_toks(expr_toks, where)
        if sp.get("unwrap_or_return"):
            # `match <scrutinee> { Some(v) => v, None => return .. }`: emit the Option scrutinee
            ok = e[0] == "match" and len(e[2]) == 2
            if ok:
                arms = {a[0][0]: a for a in e[2]}
                some, none = arms.get("p_ts"), arms.get("p_path")
                ok = bool(some and none) and some[1] is None and none[1] is None \
                    and some[0][1] == ("Some",) and len(some[0][2]) == 1 and some[0][2][0][0] == "p_id" \
                    and some[2] == ("path", (some[0][2][0][1],), None) \
                    and none[0][1] == ("None",) and none[2][0] == "return"
            if not ok:
                raise TranslateError("%s: expected `match e { Some(v) => v, None => return .. }`" % where)
            e = e[1]
        self_type = sp["scope"][1] if sp["scope"] and sp["scope"][0] == "impl" else None
        self_kind, params = parse_params(fn.params, where)
        tr = FnTranslator(self.world, f, where, self_type=self_type, self_kind=self_kind,
                          abstractions=sp.get("abstractions", ()))
        plist = []
        for (pat, ty) in params:
            if pat[0] != "p_id":
                continue
            t = tr.norm_type(ty)
            plist.append((pat[1], tr.bind(pat[1], t, "param"), t))
        # locals of the enclosing function that the extracted expression may mention: they become
        # parameters of the emitted def (declared, with their Rust types, in the spec)
        for (ln_, lt_) in sp.get("locals", ()):
            plist = [p for p in plist if p[0] != ln_]
            plist.append((ln_, tr.bind(ln_, lt_, "param"), lt_))
        ret_t = sp["ret"]
        tr.no_try = 1
        body = tr.tr_expr(e, ret_t)
        binders = []
        ctx = [k for k in CTX_ORDER if k in tr.ctx_used]
        for k in ctx:
            binders.append("(%s : %s)" % CTX_LEAN[k])
        self.sort_abs(tr)
        for (pat, name, rty) in tr.abs_used:
            binders.append("(%s : %s)" % (name, tr.lean_type(rty)))
        for (rn, ln, t) in plist:
            if rn in tr.params_used:
                binders.append("(%s : %s)" % (ln, tr.lean_type(t)))
        lname = self.lean_name(f, sp["scope"], suffix)
        self.out.append("def %s%s : %s :=\n  %s" % (lean_decl_name(lname), "".join(" " + b for b in binders),
                                                  tr.lean_type(ret_t), body))
        self.summary.append("def " + lname)

    def emit_frag(self, sp):
        """A suffix (or the whole) of the statement list of a `&mut self` method as a state transformer over
        the book-keeping view `sp["book"]` of `self` (a generated structure with a subset of the fields):
        the statements after the unique depth-0 `let <after_let> = ..;`, with the opaque statement-level
        calls `skip` (each must occur exactly once) dropped; result `(out.., self_)`."""
        f, where, fn = self.find_fn(sp)
        where = where + " [fragment %s]" % sp["name"]
        book = sp["book"]
        if book not in self.world.structs:
            raise TranslateError("%s: book-keeping structure %s has not been generated" % (where, book))
        self_kind, params = parse_params(fn.params, where)
        if self_kind != "&mut self":
            raise TranslateError("%s: receiver is `%s`, expected `&mut self`" % (where, self_kind))
        tr = FnTranslator(self.world, f, where, self_type=book, self_kind=self_kind,
                          abstractions=sp.get("abstractions", ()))
        bookfields = [x for x, _ in self.world.structs[book]]
        tr.abstractions = [a for a in tr.abstractions
                           if not (a[0][0] == "field" and a[0][1] == ("path", ("self",), None) and a[0][2] in bookfields)]
        plist = []
        for (pat, ty) in params:
            if pat[0] != "p_id":
                continue
            t = tr.norm_type(ty)
            plist.append((pat[1], tr.bind(pat[1], t, "param"), t))
        for (ln_, lt_) in sp.get("locals", ()):
            plist = [p for p in plist if p[0] != ln_]
            plist.append((ln_, tr.bind(ln_, lt_, "param"), lt_))
        body = parse_body(fn.body, where)
        stmts, tail = list(body[1]), body[2]
        if tail is not None:
            raise TranslateError("%s: the function body has a tail expression" % where)
        after = sp.get("after_let")
        if after is not None:
            idx = [i for i, st in enumerate(stmts) if st[0] == "let" and st[1] == ("p_id", after)]
            if len(idx) != 1:
                raise TranslateError("%s: expected exactly one top-level `let %s = ..;`, found %d" % (where, after, len(idx)))
            stmts = stmts[idx[0] + 1:]
        for (recv, meth) in sp.get("skip", ()):
            hit = [i for i, st in enumerate(stmts) if st[0] == "semi" and st[1][0] == "mcall"
                   and st[1][1] == ("path", (recv,), None) and st[1][2] == meth]
            if len(hit) != 1:
                raise TranslateError("%s: expected exactly one statement `%s.%s(..);`, found %d" % (where, recv, meth, len(hit)))
            del stmts[hit[0]]
        outs = [("path", (o,), None) for o in sp.get("out", ())]
        selfp = ("path", ("self",), None)
        syn_tail = ("tuple", tuple(outs) + (selfp,)) if outs else selfp
        tr.ret_unit = False
        tr.ret_type = None
        tr.ret_kind_option = False
        lines = tr.tr_stmts(stmts, syn_tail, 1)
        out_types = []
        for o in sp.get("out", ()):
            v = tr.lookup(o)
            if v is None or v[1] is None:
                raise TranslateError("%s: cannot determine the type of the output local `%s`" % (where, o))
            out_types.append(tr.lean_type(v[1]))
        binders = []
        for k in [k for k in CTX_ORDER if k in tr.ctx_used]:
            binders.append("(%s : %s)" % CTX_LEAN[k])
        self.sort_abs(tr)
        for (pat, name, rty) in tr.abs_used:
            binders.append("(%s : %s)" % (name, tr.lean_type(rty)))
        binders.append("(self_ : %s)" % book)
        for (rn, ln, t) in plist:
            if rn in tr.params_used:
                binders.append("(%s : %s)" % (ln, tr.lean_type(t)))
        lret = "(" + " × ".join(out_types + [book]) + ")" if out_types else book
        lname = self.lean_name(f, sp["scope"], sp["fn"] + "_" + sp["name"])
        self.out.append("def %s %s : %s :=\n%s" % (lean_decl_name(lname), " ".join(binders), lret, "\n".join(lines)))
        self.summary.append("def " + lname)

    def emit_field(self, sp):
        """Extract the initializer of field `field` in the unique struct literal `<lit> { .. }` (e.g.
        `Self { .. }`) of a function body."""
        f, where, fn = self.find_fn(sp)
        where = where + " [field %s of the `%s { .. }` literal]" % (sp["field"], sp["lit"])
        from rs_lex import skip_balanced, split_top
        pat = [x.text for x in tokenize(sp["lit"])[:-1]]
        toks = fn.body
        hits = []
        for i in range(len(toks) - len(pat)):
            if [x.text for x in toks[i:i + len(pat)]] == pat and toks[i + len(pat)].text == "{" \
                    and not (i > 0 and toks[i - 1].text in ("::", ".")):
                j = i + len(pat)
                k = skip_balanced(toks + [Tok("eof", "<eof>", toks[-1].line, 0)], j)
                hits.append(toks[j + 1:k - 1])
        inner = unique(hits, where, f)
        inits = []
        for part in split_top(inner):
            if len(part) >= 1 and part[0].kind == "id" and part[0].text == sp["field"]:
                if len(part) == 1:
                    inits.append(part)            # shorthand `field`
                elif part[1].text == ":":
                    inits.append(part[2:])
        self._emit_extracted(sp, f, where, fn, unique(inits, where, f), sp["fn"] + "_" + sp["name"])

    def run(self):
        for sp in SPECS:
            getattr(self, "emit_" + sp["kind"])(sp)
        hdr = [
            "/-",
            "AUTOGENERATED by /verif/translate/rust2lean.py from the hashbrown Rust sources — DO NOT EDIT.",
            "Regenerated (and overwritten) on every run of the T1 tie; the equality proofs against the",
            "hand-written model are in Hb/Proofs/GenEq.lean.",
            "Sources: " + ", ".join(f.path for f in FILES),
            "-/",
            "import Hb.Gen.Prelude",
            "set_option linter.unusedVariables false",
            "namespace Hb.Gen",
            "",
        ]
        return "\n".join(hdr) + "\n" + "\n\n".join(self.out) + "\n\nend Hb.Gen\n"


def main():
    ap = argparse.ArgumentParser()
    ap.add_argument("--repo", required=True)
    ap.add_argument("--out", required=True)
    ap.add_argument("--list", action="store_true", help="print the generated declaration names")
    ap.add_argument("--check", action="store_true",
                    help="do not write; exit 1 if the files at --out / --out-api differ from what would be generated")
    ap.add_argument("--out-api", help="call-shape tie output (default: Api.lean next to --out)")
    ap.add_argument("--out-api-json", help="item -> source map (default: api_items.json next to --out)")
    ap.add_argument("--no-api", action="store_true", help="do not generate the call-shape tie of the API layer")
    ap.add_argument("--snapshot-geneq-api", metavar="PATH",
                    help="additionally write a fresh Hb/Proofs/GenEqApi.lean whose expected lists are the lists "
                         "of THIS tree (only for re-recording the snapshot of an accepted tree)")
    a = ap.parse_args()
    outdir = os.path.dirname(os.path.abspath(a.out))
    out_api = a.out_api or os.path.join(outdir, "Api.lean")
    out_json = a.out_api_json or os.path.join(outdir, "api_items.json")
    try:
        g = Generator(a.repo)
        text = g.run()
        outputs = [(a.out, text)]
        api = None
        if not a.no_api:
            api = ApiGenerator(a.repo, API_FILES + API_SPEC_FILES)
            api.run(API_SPECS)
            outputs += [(out_api, api.lean_text()), (out_json, api.json_text())]
    except TranslateError as ex:
        sys.stderr.write("rust2lean: TRANSLATION ERROR: %s\n" % ex)
        sys.exit(2)
    if a.check:
        stale = False
        for (path, txt) in outputs:
            try:
                cur = open(path, encoding="utf-8").read()
            except OSError:
                cur = None
            if cur != txt:
                sys.stderr.write("rust2lean: %s is out of date with respect to %s\n" % (path, a.repo))
                stale = True
        sys.exit(1 if stale else 0)
    for (path, txt) in outputs:
        os.makedirs(os.path.dirname(os.path.abspath(path)), exist_ok=True)
        with open(path, "w", encoding="utf-8") as fh:
            fh.write(txt)
    if a.snapshot_geneq_api and api is not None:
        from api_model_map import geneq_api_text
        with open(a.snapshot_geneq_api, "w", encoding="utf-8") as fh:
            fh.write(geneq_api_text(api))
    if a.list:
        print("\n".join(g.summary))
        if api is not None:
            print("\n".join("def Api." + d[0] for d in api.defs))
    sys.exit(0)


if __name__ == "__main__":
    main()
