#!/usr/bin/env python3
"""rust2lean — tie T1 of the hashbrown verification framework.

Regenerates Lean definitions (namespace Hb.Gen) of hashbrown's pure integer/bit functions
from the *current* Rust source text.

usage: python3-vt rust2lean.py --repo /repo --out /verif/lean/Hb/Gen/Pure.lean [--list] [--check]

Anything in a translated body that is outside the accepted subset is a hard error
(exit status 2, message naming the function and the offending token).
"""
import argparse
import os
import sys

sys.path.insert(0, os.path.dirname(os.path.abspath(__file__)))
from rs_lex import TranslateError, tokenize, scan_items, join, Tok  # noqa: E402
from rs_parse import parse_body, parse_params, parse_type_toks, parse_expr_toks  # noqa: E402
from rs_trans import FileCfg, World, FnTranslator, CTX_ORDER, CTX_LEAN, lean_decl_name, lean_ident, I  # noqa: E402

# ----------------------------------------------------------------------------------------
# Configuration: which files, how names in them resolve, which items to translate.
# ----------------------------------------------------------------------------------------
FILES = [
    FileCfg("tag", "src/control/tag.rs"),
    FileCfg("raw", "src/raw/mod.rs",
            paths={"Group::WIDTH": ("ctx", "Group::WIDTH"),
                   "isize::MAX": ("prelude", "(rs_isize_max {bits})", "isize"),
                   "usize::MAX": ("prelude", "(rs_usize_max {bits})", "usize")},
            abstractions=[("self.bucket_mask", "bucket_mask", "usize"),
                          ("self.items", "items", "usize")]),
    FileCfg("serde", "src/external_trait_impls/serde.rs"),
    FileCfg("map", "src/map.rs"),
    FileCfg("bitmask", "src/control/bitmask.rs",
            bv_types=["BitMaskWord", "NonZeroBitMaskWord"], bv_width="w",
            paths={"BITMASK_STRIDE": ("ctx", "BITMASK_STRIDE"),
                   "BITMASK_MASK": ("ctx", "BITMASK_MASK"),
                   "BITMASK_ITER_MASK": ("ctx", "BITMASK_ITER_MASK")}),
    # Target assumption for generic.rs: GroupWord = u64 (the cfg_if! branch for 64-bit targets).
    FileCfg("generic", "src/control/group/generic.rs", prefix="Generic.",
            bv_types=["GroupWord", "BitMaskWord", "NonZeroGroupWord", "NonZeroBitMaskWord", "u64"],
            bv_width="64"),
    FileCfg("sse2", "src/control/group/sse2.rs", prefix="Sse2.",
            bv_types=["BitMaskWord", "u16"], bv_width="16"),
]

IMPL = lambda name, trait=None: ("impl", name, trait)  # noqa: E731
MOD = lambda name: ("mod", name, None)                # noqa: E731

# kind: struct | newtype | const | fn | let
SPECS = [
    # ---- control/tag.rs
    dict(kind="newtype", file="tag", name="Tag"),
    dict(kind="const", file="tag", scope=IMPL("Tag"), name="EMPTY", glob=True),
    dict(kind="const", file="tag", scope=IMPL("Tag"), name="DELETED", glob=True),
    dict(kind="fn", file="tag", scope=IMPL("Tag"), fn="is_full"),
    dict(kind="fn", file="tag", scope=IMPL("Tag"), fn="is_special"),
    dict(kind="fn", file="tag", scope=IMPL("Tag"), fn="special_is_empty"),
    dict(kind="fn", file="tag", scope=IMPL("Tag"), fn="full"),
    # ---- raw/mod.rs
    dict(kind="struct", file="raw", name="ProbeSeq"),
    dict(kind="struct", file="raw", name="TableLayout"),
    dict(kind="fn", file="raw", scope=None, fn="h1"),
    dict(kind="fn", file="raw", scope=IMPL("ProbeSeq"), fn="move_next"),
    dict(kind="fn", file="raw", scope=None, fn="capacity_to_buckets"),
    dict(kind="fn", file="raw", scope=None, fn="bucket_mask_to_capacity"),
    dict(kind="fn", file="raw", scope=IMPL("TableLayout"), fn="new",
         abstractions=[("Layout::new::<T>()", None, None),
                       ("layout.size()", "size", "usize"),
                       ("layout.align()", "align", "usize")]),
    dict(kind="fn", file="raw", scope=IMPL("TableLayout"), fn="calculate_layout_for"),
    dict(kind="fn", file="raw", scope=IMPL("RawTableInner"), fn="probe_seq"),
    dict(kind="fn", file="raw", scope=IMPL("RawTableInner"), fn="is_in_same_group"),
    dict(kind="let", file="raw", scope=IMPL("RawTableInner"), fn="set_ctrl", var="index2", ret="usize"),
    dict(kind="let", file="raw", scope=IMPL("RawTableInner"), fn="erase", var="index_before", ret="usize"),
    dict(kind="let", file="raw", scope=IMPL("RawTableInner"), fn="reserve_rehash_inner", var="new_items",
         ret=("Option", "usize"), unwrap_or_return=True),
    dict(kind="let", file="raw", scope=IMPL("RawTableInner"), fn="reserve_rehash_inner", var="full_capacity", ret="usize"),
    dict(kind="ifcond", file="raw", scope=IMPL("RawTableInner"), fn="reserve_rehash_inner", name="in_place_cond",
         ret="bool", locals=[("new_items", "usize"), ("full_capacity", "usize")]),
    dict(kind="call", file="raw", scope=IMPL("RawTableInner"), fn="reserve_rehash_inner", name="new_capacity",
         path="usize::max", ret="usize", locals=[("new_items", "usize"), ("full_capacity", "usize")]),
    # ---- serde.rs / map.rs
    dict(kind="fn", file="serde", scope=MOD("size_hint"), fn="cautious"),
    dict(kind="let", file="map", scope=IMPL("HashMap", "Extend<(K,V)>"), fn="extend", var="reserve", ret="usize",
         abstractions=[("self.is_empty()", "is_empty", "bool"),
                       ("iter.size_hint().0", "hint", "usize")]),
    # ---- control/bitmask.rs   (generic in the word width `w`)
    dict(kind="newtype", file="bitmask", name="BitMask"),
    dict(kind="newtype", file="bitmask", name="BitMaskIter"),
    dict(kind="fn", file="bitmask", scope=IMPL("BitMask"), fn="invert"),
    dict(kind="fn", file="bitmask", scope=IMPL("BitMask"), fn="remove_lowest_bit"),
    dict(kind="fn", file="bitmask", scope=IMPL("BitMask"), fn="any_bit_set"),
    dict(kind="fn", file="bitmask", scope=IMPL("BitMask"), fn="nonzero_trailing_zeros"),
    dict(kind="fn", file="bitmask", scope=IMPL("BitMask"), fn="lowest_set_bit"),
    dict(kind="fn", file="bitmask", scope=IMPL("BitMask"), fn="trailing_zeros"),
    dict(kind="fn", file="bitmask", scope=IMPL("BitMask"), fn="leading_zeros"),
    dict(kind="fn", file="bitmask", scope=IMPL("BitMaskIter", "Iterator"), fn="next"),
    # ---- control/group/generic.rs
    dict(kind="newtype", file="generic", name="Group"),
    dict(kind="const", file="generic", scope=IMPL("Group"), name="WIDTH",
         abstractions=[("mem::size_of::<Self>()", "(rs_size_of_uint 64)", "usize")], literal_abs=True),
    dict(kind="const", file="generic", scope=None, name="BITMASK_STRIDE"),
    dict(kind="const", file="generic", scope=None, name="BITMASK_MASK"),
    dict(kind="const", file="generic", scope=None, name="BITMASK_ITER_MASK"),
    dict(kind="fn", file="generic", scope=None, fn="repeat"),
    dict(kind="fn", file="generic", scope=IMPL("Group"), fn="match_tag"),
    dict(kind="fn", file="generic", scope=IMPL("Group"), fn="match_empty"),
    dict(kind="fn", file="generic", scope=IMPL("Group"), fn="match_empty_or_deleted"),
    dict(kind="fn", file="generic", scope=IMPL("Group"), fn="match_full"),
    dict(kind="fn", file="generic", scope=IMPL("Group"), fn="convert_special_to_empty_and_full_to_deleted"),
    # ---- control/group/sse2.rs (constants only)
    dict(kind="const", file="sse2", scope=None, name="BITMASK_STRIDE"),
    dict(kind="const", file="sse2", scope=None, name="BITMASK_MASK"),
    dict(kind="const", file="sse2", scope=None, name="BITMASK_ITER_MASK"),
]


# ----------------------------------------------------------------------------------------
def scope_matches(ctx, scope):
    """ctx: list of rs_lex.Scope (outermost first); scope: None | (kind, name, trait)"""
    if scope is None:
        return len(ctx) == 0
    if not ctx:
        return False
    s = ctx[-1]
    if s.kind != scope[0] or s.name != scope[1]:
        return False
    if scope[0] == "impl":
        return s.trait == scope[2]
    return True


def describe(scope, name):
    if scope is None:
        return name
    if scope[2]:
        return "<%s as %s>::%s" % (scope[1], scope[2], name)
    return "%s::%s" % (scope[1], name)


def unique(cands, what, fcfg):
    if len(cands) != 1:
        raise TranslateError("%s: expected exactly one definition in %s, found %d" % (what, fcfg.path, len(cands)))
    return cands[0]


class Generator:
    def __init__(self, repo):
        self.repo = repo
        self.world = World()
        self.files = {f.key: f for f in FILES}
        self.items = {}
        self.out = []
        self.summary = []

    def load(self, key):
        if key not in self.items:
            f = self.files[key]
            path = os.path.join(self.repo, f.path)
            try:
                src = open(path, encoding="utf-8").read()
            except OSError as ex:
                raise TranslateError("cannot read %s: %s" % (path, ex))
            self.items[key] = scan_items(tokenize(src, f.path))
        return self.items[key]

    # -- per-kind emitters ---------------------------------------------------------------
    def emit_struct(self, sp):
        f = self.files[sp["file"]]
        st = unique([s for s in self.load(f.key).structs if s.name == sp["name"] and s.named],
                    "struct " + sp["name"], f)
        tr = FnTranslator(self.world, f, "struct " + sp["name"])
        fields = []
        for (fname, tytoks) in st.fields:
            t = tr.norm_type(parse_type_toks(tytoks, "struct %s field %s" % (sp["name"], fname)))
            fields.append((fname, t))
        self.world.structs[sp["name"]] = fields
        lines = ["structure %s where" % sp["name"]]
        for (fname, t) in fields:
            lines.append("  %s : %s" % (fname, tr.lean_type(t)))
        lines.append("deriving DecidableEq, Repr")
        self.out.append("\n".join(lines))
        self.summary.append("structure " + sp["name"])

    def emit_newtype(self, sp):
        f = self.files[sp["file"]]
        st = unique([s for s in self.load(f.key).structs if s.name == sp["name"] and not s.named],
                    "struct " + sp["name"], f)
        if len(st.fields) != 1:
            raise TranslateError("struct %s: expected a single-field tuple struct" % sp["name"])
        tr = FnTranslator(self.world, f, "struct " + sp["name"])
        t = tr.norm_type(parse_type_toks(st.fields[0], "struct " + sp["name"]))
        if t is None:
            raise TranslateError("struct %s: unsupported field type" % sp["name"])
        self.world.newtypes[sp["name"]] = t

    def lean_name(self, f, scope, name):
        parts = f.prefix
        if scope is not None:
            parts += scope[1] + "."
        return parts + name

    def emit_const(self, sp):
        f = self.files[sp["file"]]
        where = "const " + describe(sp["scope"], sp["name"]) + " (" + f.path + ")"
        c = unique([c for c in self.load(f.key).consts if c.name == sp["name"] and scope_matches(c.ctx, sp["scope"])],
                   where, f)
        self_type = sp["scope"][1] if sp["scope"] and sp["scope"][0] == "impl" else None
        tr = FnTranslator(self.world, f, where, self_type=self_type)
        if sp.get("literal_abs"):
            from rs_parse import parse_expr_text
            tr.abstractions = [(parse_expr_text(p), n, t) for (p, n, t) in sp["abstractions"]] + tr.abstractions
        t = tr.norm_type(parse_type_toks(c.ty, where))
        e = parse_expr_toks(c.expr, where)
        tr.no_try = 1
        body = tr.tr_expr(e, t)
        if tr.ctx_used - set():
            extra = [k for k in CTX_ORDER if k in tr.ctx_used]
        else:
            extra = []
        lname = self.lean_name(f, sp["scope"], sp["name"])
        binders = "".join(" (%s : %s)" % CTX_LEAN[k] for k in extra)
        if extra:
            raise TranslateError("%s: constant depends on context parameters %s" % (where, extra))
        self.out.append("def %s%s : %s :=\n  %s" % (lean_decl_name(lname), binders, tr.lean_type(t), body))
        rpath = (sp["scope"][1] + "::" if sp["scope"] else "") + sp["name"]
        self.world.consts[(None if sp.get("glob") else f.key, rpath)] = (lean_decl_name(lname), t)
        self.summary.append("def " + lname)

    def find_fn(self, sp):
        f = self.files[sp["file"]]
        where = "fn " + describe(sp["scope"], sp["fn"]) + " (" + f.path + ")"
        fn = unique([x for x in self.load(f.key).fns if x.name == sp["fn"] and scope_matches(x.ctx, sp["scope"])
                     and x.body is not None], where, f)
        return f, where, fn

    def emit_fn(self, sp):
        f, where, fn = self.find_fn(sp)
        self_type = sp["scope"][1] if sp["scope"] and sp["scope"][0] == "impl" else None
        self_kind, params = parse_params(fn.params, where)
        tr = FnTranslator(self.world, f, where, self_type=self_type, self_kind=self_kind,
                          abstractions=sp.get("abstractions", ()))
        opaque_self = self_type is not None and self_type not in self.world.structs \
            and self_type not in self.world.newtypes
        # parameters
        pbinders = []
        for (pat, ty) in params:
            if pat[0] != "p_id":
                raise TranslateError("%s: parameter patterns other than plain names are not supported" % where)
            t = tr.norm_type(ty)
            ln = tr.bind(pat[1], t, "param")
            pbinders.append((ln, t))
        # return type
        ret_t = tr.norm_type(parse_type_toks(fn.ret, where)) if fn.ret else ("tuple", ())
        ret_unit = ret_t == ("tuple", ())
        tr.ret_unit = ret_unit
        tr.ret_type = ret_t
        tr.ret_kind_option = isinstance(ret_t, tuple) and ret_t[0] == "Option"
        mut_self = self_kind == "&mut self" and not opaque_self
        if mut_self:
            tr.ret_mode = "mut_unit" if ret_unit else "mut_value"
        body = parse_body(fn.body, where)
        lines = tr.tr_stmts(list(body[1]), body[2], 1)
        # signature
        has_self = self_kind is not None and not opaque_self
        if self_kind is not None and opaque_self and tr.self_used:
            raise TranslateError("%s: uses `self` of opaque type %s" % (where, self_type))
        binders = []
        if f.bv_width == "w":
            binders.append("{w : Nat}")
        ctx = [k for k in CTX_ORDER if k in tr.ctx_used]
        for k in ctx:
            binders.append("(%s : %s)" % CTX_LEAN[k])
        for (pat, name, rty) in tr.abs_used:
            binders.append("(%s : %s)" % (name, tr.lean_type(rty)))
        if has_self:
            binders.append("(self_ : %s)" % tr.lean_type(self_type))
        for (ln, t) in pbinders:
            binders.append("(%s : %s)" % (ln, tr.lean_type(t)))
        if mut_self:
            lret = tr.lean_type(self_type) if ret_unit else "(%s × %s)" % (tr.lean_type(ret_t), tr.lean_type(self_type))
        else:
            lret = tr.lean_type(ret_t)
        lname = self.lean_name(f, sp["scope"], sp["fn"])
        self.out.append("def %s %s : %s :=\n%s" % (lean_decl_name(lname), " ".join(binders), lret, "\n".join(lines)))
        self.world.fns[(self_type, sp["fn"])] = dict(
            lean=lean_decl_name(lname), ctx=ctx, abs=list(tr.abs_used), ret=ret_t if not mut_self else None,
            has_self=has_self, opaque_self=opaque_self and self_kind is not None, nparams=len(pbinders), file=f.key)
        self.summary.append("def " + lname)

    def emit_let(self, sp):
        """Extract `let <var> = <expr>;` from the body of a function and emit it as a def."""
        f, where, fn = self.find_fn(sp)
        where = where + " [let %s]" % sp["var"]
        toks = fn.body
        depth, hits, i = 0, [], 0
        while i < len(toks):
            t = toks[i]
            if t.kind == "punct" and t.text in "([{":
                depth += 1
            elif t.kind == "punct" and t.text in ")]}":
                depth -= 1
            elif depth == 0 and t.kind == "id" and t.text == "let":
                j = i + 1
                if toks[j].kind == "id" and toks[j].text == "mut":
                    j += 1
                if toks[j].kind == "id" and toks[j].text == sp["var"] and toks[j + 1].text in ("=", ":"):
                    k = j + 1
                    while toks[k].text != "=":
                        k += 1
                    start, d = k + 1, 0
                    k = start
                    while True:
                        if k >= len(toks):
                            raise TranslateError("%s: unterminated let" % where)
                        tt = toks[k]
                        if tt.kind == "punct" and tt.text in "([{":
                            d += 1
                        elif tt.kind == "punct" and tt.text in ")]}":
                            d -= 1
                        elif tt.kind == "punct" and tt.text == ";" and d == 0:
                            break
                        k += 1
                    hits.append(toks[start:k])
                    i = k
            i += 1
        expr_toks = unique(hits, where, f)
        self._emit_extracted(sp, f, where, fn, expr_toks, sp["fn"] + "_" + sp["var"])

    def emit_ifcond(self, sp):
        """Extract the condition of the unique top-level `if` statement of a function body."""
        f, where, fn = self.find_fn(sp)
        where = where + " [top-level if condition]"
        toks = fn.body
        depth, hits, i = 0, [], 0
        while i < len(toks):
            t = toks[i]
            if t.kind == "punct" and t.text in "([{":
                depth += 1
            elif t.kind == "punct" and t.text in ")]}":
                depth -= 1
            elif depth == 0 and t.kind == "id" and t.text == "if" and not (i > 0 and toks[i - 1].text == "else"):
                k, d = i + 1, 0
                while True:
                    if k >= len(toks):
                        raise TranslateError("%s: unterminated if" % where)
                    tt = toks[k]
                    if tt.kind == "punct" and tt.text == "{" and d == 0:
                        break
                    if tt.kind == "punct" and tt.text in "([{":
                        d += 1
                    elif tt.kind == "punct" and tt.text in ")]}":
                        d -= 1
                    k += 1
                hits.append(toks[i + 1:k])
                i = k - 1
            i += 1
        self._emit_extracted(sp, f, where, fn, unique(hits, where, f), sp["fn"] + "_" + sp["name"])

    def emit_call(self, sp):
        """Extract the unique call `<path>(...)` (e.g. `usize::max(..)`) occurring in a function body."""
        f, where, fn = self.find_fn(sp)
        where = where + " [call %s(..)]" % sp["path"]
        pat = [x.text for x in tokenize(sp["path"])[:-1]]
        toks = fn.body
        hits = []
        for i in range(len(toks) - len(pat)):
            if [x.text for x in toks[i:i + len(pat)]] == pat and toks[i + len(pat)].text == "(" \
                    and not (i > 0 and toks[i - 1].text in ("::", ".")):
                k, d = i + len(pat), 0
                while True:
                    tt = toks[k]
                    if tt.kind == "punct" and tt.text in "([{":
                        d += 1
                    elif tt.kind == "punct" and tt.text in ")]}":
                        d -= 1
                        if d == 0:
                            break
                    k += 1
                    if k >= len(toks):
                        raise TranslateError("%s: unterminated call" % where)
                hits.append(toks[i:k + 1])
        self._emit_extracted(sp, f, where, fn, unique(hits, where, f), sp["fn"] + "_" + sp["name"])

    def _emit_extracted(self, sp, f, where, fn, expr_toks, suffix):
        e = parse_expr_toks(expr_toks, where)
        if sp.get("unwrap_or_return"):
            # `match <scrutinee> { Some(v) => v, None => return .. }`: emit the Option scrutinee
            ok = e[0] == "match" and len(e[2]) == 2
            if ok:
                arms = {a[0][0]: a for a in e[2]}
                some, none = arms.get("p_ts"), arms.get("p_path")
                ok = bool(some and none) and some[1] is None and none[1] is None \
                    and some[0][1] == ("Some",) and len(some[0][2]) == 1 and some[0][2][0][0] == "p_id" \
                    and some[2] == ("path", (some[0][2][0][1],), None) \
                    and none[0][1] == ("None",) and none[2][0] == "return"
            if not ok:
                raise TranslateError("%s: expected `match e { Some(v) => v, None => return .. }`" % where)
            e = e[1]
        self_type = sp["scope"][1] if sp["scope"] and sp["scope"][0] == "impl" else None
        self_kind, params = parse_params(fn.params, where)
        tr = FnTranslator(self.world, f, where, self_type=self_type, self_kind=self_kind,
                          abstractions=sp.get("abstractions", ()))
        plist = []
        for (pat, ty) in params:
            if pat[0] != "p_id":
                continue
            t = tr.norm_type(ty)
            plist.append((pat[1], tr.bind(pat[1], t, "param"), t))
        # locals of the enclosing function that the extracted expression may mention: they become
        # parameters of the emitted def (declared, with their Rust types, in the spec)
        for (ln_, lt_) in sp.get("locals", ()):
            plist = [p for p in plist if p[0] != ln_]
            plist.append((ln_, tr.bind(ln_, lt_, "param"), lt_))
        ret_t = sp["ret"]
        tr.no_try = 1
        body = tr.tr_expr(e, ret_t)
        binders = []
        ctx = [k for k in CTX_ORDER if k in tr.ctx_used]
        for k in ctx:
            binders.append("(%s : %s)" % CTX_LEAN[k])
        for (pat, name, rty) in tr.abs_used:
            binders.append("(%s : %s)" % (name, tr.lean_type(rty)))
        for (rn, ln, t) in plist:
            if rn in tr.params_used:
                binders.append("(%s : %s)" % (ln, tr.lean_type(t)))
        lname = self.lean_name(f, sp["scope"], suffix)
        self.out.append("def %s %s : %s :=\n  %s" % (lean_decl_name(lname), " ".join(binders), tr.lean_type(ret_t), body))
        self.summary.append("def " + lname)

    def run(self):
        for sp in SPECS:
            getattr(self, "emit_" + sp["kind"])(sp)
        hdr = [
            "/-",
            "AUTOGENERATED by /verif/translate/rust2lean.py from the hashbrown Rust sources — DO NOT EDIT.",
            "Regenerated (and overwritten) on every run of the T1 tie; the equality proofs against the",
            "hand-written model are in Hb/Proofs/GenEq.lean.",
            "Sources: " + ", ".join(f.path for f in FILES),
            "-/",
            "import Hb.Gen.Prelude",
            "set_option linter.unusedVariables false",
            "namespace Hb.Gen",
            "",
        ]
        return "\n".join(hdr) + "\n" + "\n\n".join(self.out) + "\n\nend Hb.Gen\n"


def main():
    ap = argparse.ArgumentParser()
    ap.add_argument("--repo", required=True)
    ap.add_argument("--out", required=True)
    ap.add_argument("--list", action="store_true", help="print the generated declaration names")
    ap.add_argument("--check", action="store_true",
                    help="do not write; exit 1 if the file at --out differs from what would be generated")
    a = ap.parse_args()
    try:
        g = Generator(a.repo)
        text = g.run()
    except TranslateError as ex:
        sys.stderr.write("rust2lean: TRANSLATION ERROR: %s\n" % ex)
        sys.exit(2)
    if a.check:
        try:
            cur = open(a.out, encoding="utf-8").read()
        except OSError:
            cur = None
        if cur != text:
            sys.stderr.write("rust2lean: %s is out of date with respect to %s\n" % (a.out, a.repo))
            sys.exit(1)
        sys.exit(0)
    os.makedirs(os.path.dirname(os.path.abspath(a.out)), exist_ok=True)
    with open(a.out, "w", encoding="utf-8") as fh:
        fh.write(text)
    if a.list:
        print("\n".join(g.summary))
    sys.exit(0)


if __name__ == "__main__":
    main()
