#!/usr/bin/env python3
"""c16_search.py -- property C16 (borrow lifetimes): failing-input search.

  python3 /verif/translate/c16_search.py --repo <repo> --target-dir <dir> --out <summary.json> [--all]
          [--json-cache DIR] [--json FILE] [--programs-dir DIR] [--jobs 16]

When `lake build Hb.Props.C16` breaks at `borrows_tied` / `mut_reborrow_tied` / `no_mut_from_shared`
this turns the violated row of `Hb.Gen.methods` into a concrete program that rustc accepts although
it would have to reject it if the method obeyed the rule.

 1. loads the rustdoc JSON of <repo> with the functions of rustdoc2lean.py (same cargo command,
    own cache dir) and recomputes the `methods` table (`collect_methods`);
 2. recomputes the three Lean predicates per row and lists the violating methods;
 3. for every violating method (with --all: for every method of the table) synthesises *generic*
    obligation programs straight from the JSON signature -- no value construction, the receiver and
    every argument come in as parameters of `fn obligation<...>(x: &mut Ty<..>, a0: .., ...)`:

      reborrow   `let r = x.m(a..); let y = &mut *x; hold(&r); hold(&y);`      (&self / &mut self)
                 rejected (E0499/E0502) iff `r` keeps the receiver borrow alive
      twice      `let r1 = x.m(a..); let r2 = x.m(b..); hold(&r1); hold(&r2);` (&mut self)
                 accepted = two live results of a `&mut self` method (two `&mut` to one element)
      shared2    the same through `x: &Ty` for a `&self` method; rustc always accepts; it is the
                 failing input of `no_mut_from_shared` when the result carries `&mut`
      lt<i>      only if the return type has >= 2 distinct lifetimes: the return type is spelled out
                 with lifetime i := 'p ('p outlived by every lifetime in scope, so it outlasts the
                 body), the others `'_`; `&mut *x` afterwards is rejected iff lifetime i is tied to
                 the receiver borrow
      escape / escape<i>
                 (every receiver form) can lifetime i of the result be `'static` although no input
                 is?  `is_static(&r)` with every type parameter `: 'static` (one lifetime), or the
                 spelled-out return type with lifetime i := 'static (>= 2 lifetimes).  Accepted iff
                 the lifetime is free / 'static, i.e. exactly a `borrows_tied` violation.

    The expectation of each program is computed from the row's `lifetimeSources` only (the rule is
    not consulted): receiver-tied sources -> reject, everything else as described above.
 4. compiles them with c16_corpus.run_one against the rlib c16_corpus.build_rlib builds from <repo>
    (same flags, same --target-dir layout) and writes the summary:

      {"violating": [...], "programs": N,
       "accepted_but_must_reject": [{"type","method","rule","kind","file","program"}],
       "rejected": [...], "accepted": [...], "mismatches": [...], "not_synthesised": [...],
       "no_failing_input": [...], "suspicious": [...], ...}

    accepted_but_must_reject = programs of *violating* methods that rustc accepts and that a method
    obeying the violated rule would make it reject: the concrete failing inputs.
    mismatches = programs whose verdict differs from the expectation although the lifetime in
    question violates no rule (generator bug, or something a human has to look at).
    suspicious = `twice` programs rustc accepts for methods that violate no rule (the rules only see
    a syntactic `&mut` in the return type; `fn iter_mut(&mut self) -> IterMut<'a, T>` is invisible
    to them).

Exit status 0 whenever the summary was written.  Only the python standard library is used.
"""
import argparse
import concurrent.futures as cf
import hashlib
import json
import os
import re
import sys
import time

sys.path.insert(0, os.path.dirname(os.path.abspath(__file__)))
import rustdoc2lean as R   # noqa: E402
import c16_corpus as C     # noqa: E402

# ---- the Lean side, restated (Hb/Props/C16.lean) ------------------------------------------------
TIED_SOURCES = ["elided-receiver", "receiver", "self-type", "arg", "elided-arg",
                "outlived-by-receiver", "outlived-by-self-type", "outlived-by-arg"]
MUT_OK = ["elided-receiver", "receiver"]
# sources for which a live result keeps the receiver reborrow alive (for the expectation only)
RECV_TIED = ["elided-receiver", "receiver", "outlived-by-receiver"]

# error codes that count as "rustc rejects the program because of the borrow / lifetime it was asked
# about"; anything else (E0277, E0282, E0433, E0310 ...) means the program itself is defective
BORROW_CODES = ["E0499", "E0502", "E0503", "E0505", "E0506", "E0521", "LIFETIME"]
ESCAPE_CODES = ["E0521", "LIFETIME"]


def violations(m):
    """[(rule, [indices of offending lifetimes])] for one row of `methods`, as C16.lean states them."""
    out = []
    srcs = m["lifetimeSources"]
    bad = [i for i, s in enumerate(srcs) if s not in TIED_SOURCES]
    if bad or len(srcs) != len(m["returnLifetimes"]):
        out.append(("borrows_tied", bad))
    if m["receiver"] in ("&self", "&mut self") and m["retMut"]:
        bad = [i for i, s in enumerate(srcs) if s not in MUT_OK]
        if bad:
            out.append(("mut_reborrow_tied", bad))
    if m["receiver"] == "&self" and m["retMut"]:
        out.append(("no_mut_from_shared", list(range(len(srcs)))))
    return out


# ---- public names ---------------------------------------------------------------------------------

class Unsupported(Exception):
    pass


STD_PRIVATE = [  # (private module prefix, public prefix): definition path -> nameable path
    (r"^core::ops::(function|range|deref|drop|index|arith|bit|control_flow|try_trait|coroutine)::", "core::ops::"),
    (r"^core::iter::(traits|adapters|sources)::\w+::", "core::iter::"),
    (r"^core::iter::(traits|adapters|sources)::", "core::iter::"),
    (r"^core::slice::iter::", "core::slice::"),
    (r"^core::str::(iter|traits|pattern)::", "core::str::"),
    (r"^core::fmt::(builders|rt)::", "core::fmt::"),
    (r"^core::hash::sip::", "core::hash::"),
    (r"^alloc::collections::(\w+)::(map|set)::", r"alloc::collections::\1::"),
    (r"^std::collections::hash::(map|set)::", r"std::collections::hash_\1::"),
    (r"^allocator_api2::stable::alloc::global::", "allocator_api2::alloc::"),
    (r"^allocator_api2::stable::alloc::", "allocator_api2::alloc::"),
    (r"^allocator_api2::stable::", "allocator_api2::"),
]


class Names:
    """item id -> a path that names the item from a downstream crate."""

    def __init__(self, crate, types, extern_names):
        self.c = crate
        self.extern_names = set(extern_names)
        self.local = {}
        for name, i, _ in types:                       # the names the Lean tables use
            self.local.setdefault(i, "hashbrown::" + name)
        self._walk_root()

    def _walk_root(self):
        c = self.c
        todo = [(c.d["root"], "hashbrown")]
        seen = set()
        while todo:                                    # breadth first: shortest public path wins
            nxt = []
            for mid, prefix in todo:
                if mid in seen:
                    continue
                seen.add(mid)
                m = c.item(mid)
                if m is None or "module" not in m["inner"]:
                    continue
                for j in m["inner"]["module"]["items"]:
                    it = c.item(j)
                    if it is None or it["visibility"] != "public":
                        continue
                    k = next(iter(it["inner"]))
                    if k == "use":
                        u = it["inner"]["use"]
                        if u.get("id") is None:
                            continue
                        tgt = c.item(u["id"])
                        if u["is_glob"]:
                            if tgt is not None and "module" in tgt["inner"]:
                                nxt.append((u["id"], prefix))
                            continue
                        if tgt is not None and "module" in tgt["inner"]:
                            nxt.append((u["id"], prefix + "::" + u["name"]))
                        else:
                            self.local.setdefault(u["id"], prefix + "::" + u["name"])
                    elif k == "module":
                        nxt.append((j, prefix + "::" + it["name"]))
                    elif k in ("struct", "enum", "union", "trait", "type_alias", "trait_alias"):
                        self.local.setdefault(j, prefix + "::" + it["name"])
            todo = nxt

    def path(self, p):
        i = p["id"]
        if i in self.local:
            return self.local[i]
        e = self.c.d["paths"].get(str(i))
        if e is None:
            raise Unsupported("no `paths` entry for %r (id %s)" % (p.get("path"), i))
        full = "::".join(e["path"])
        if e["crate_id"] == 0:
            raise Unsupported("%s is not reachable through a public path of hashbrown" % full)
        root = e["path"][0]
        if root not in ("core", "alloc", "std") and root not in self.extern_names:
            raise Unsupported("%s lives in crate `%s`, which the programs cannot name "
                              "(not re-exported by hashbrown, not an --extern)" % (full, root))
        for pat, rep in STD_PRIVATE:
            full2 = re.sub(pat, rep, full)
            if full2 != full:
                return full2
        return full


# ---- rendering rustdoc-json types as Rust source -------------------------------------------------

class Rend:
    """Renders types / bounds / generics of one method as source text for a downstream crate.

    `self_ty`  : text substituted for `Self`
    `lt`       : function applied to every lifetime occurrence that names a region of the *item*
                 (not bound by a `for<..>`, not elided inside `Fn(..)` sugar / `fn(..)` pointers --
                 the same occurrences rustdoc2lean.lifetimes_in reports, in the same sense);
                 gets the name ("'_" for elided) and returns the text to print ("" = leave elided)."""

    def __init__(self, names, self_ty=None, lt=None):
        self.n = names
        self.self_ty = self_ty
        self.lt = lt

    def with_lt(self, lt):
        return Rend(self.n, self.self_ty, lt)

    def _lt(self, name, bound, hr, in_ref):
        if name is not None and name != "'_" and name in bound:
            return name
        if (name is None or name == "'_") and hr:
            return "" if in_ref else "'_"
        if self.lt is not None:
            s = self.lt("'_" if name is None else name)
            if s is not None:
                return s if (s or in_ref) else "'_"
        return ("" if in_ref else "'_") if name is None else name

    def ty(self, t, bound=frozenset(), hr=False):
        if t is None:
            return "()"
        if not isinstance(t, dict) or len(t) != 1:
            raise Unsupported("type shape %s" % json.dumps(t)[:80])
        (k, v), = t.items()
        if k == "generic":
            if v == "Self":
                if self.self_ty is None:
                    raise Unsupported("`Self` outside an impl")
                return self.self_ty
            return v
        if k == "primitive":
            return v
        if k == "resolved_path":
            return self.n.path(v) + self.args(v.get("args"), bound, hr)
        if k == "borrowed_ref":
            l = self._lt(v["lifetime"], bound, hr, True)
            inner = self.ty(v["type"], bound, hr)
            if next(iter(v["type"])) in ("dyn_trait", "impl_trait"):
                inner = "(" + inner + ")"
            return "&" + (l + " " if l else "") + ("mut " if v["is_mutable"] else "") + inner
        if k == "raw_pointer":
            return "*" + ("mut " if v["is_mutable"] else "const ") + self.ty(v["type"], bound, hr)
        if k == "tuple":
            xs = [self.ty(x, bound, hr) for x in v]
            return "(" + ", ".join(xs) + ("," if len(xs) == 1 else "") + ")"
        if k == "slice":
            return "[" + self.ty(v, bound, hr) + "]"
        if k == "array":
            n = str(v["len"])
            if not re.match(r"^(\w+|\{.*\})$", n):
                n = "{ " + n + " }"
            return "[" + self.ty(v["type"], bound, hr) + "; " + n + "]"
        if k == "qualified_path":
            if not v.get("trait"):
                raise Unsupported("inherent associated type %s" % v.get("name"))
            tr = v["trait"]
            return ("<" + self.ty(v["self_type"], bound, hr) + " as " + self.n.path(tr)
                    + self.args(tr.get("args"), bound, hr) + ">::" + v["name"]
                    + self.args(v.get("args"), bound, hr))
        if k == "impl_trait":
            return "impl " + " + ".join(self.bound(b, bound, hr) for b in v)
        if k == "dyn_trait":
            xs = []
            for tr in v["traits"]:
                ps = [p["name"] for p in tr.get("generic_params", [])]
                b2 = bound | set(ps)
                xs.append(("for<%s> " % ", ".join(ps) if ps else "") + self.n.path(tr["trait"])
                          + self.args(tr["trait"].get("args"), b2, hr))
            if v.get("lifetime"):
                xs.append(self._lt(v["lifetime"], bound, hr, False))
            return "dyn " + " + ".join(xs)
        if k == "function_pointer":
            if v.get("header", {}).get("abi", "Rust") != "Rust" or v.get("header", {}).get("is_unsafe"):
                raise Unsupported("non-plain fn pointer type")
            ps = [p["name"] for p in v.get("generic_params", [])]
            b2 = bound | set(ps)
            s = ("for<%s> " % ", ".join(ps) if ps else "") + "fn(" + ", ".join(
                self.ty(x, b2, True) for _, x in v["sig"]["inputs"]) + ")"
            if v["sig"].get("output") is not None:
                s += " -> " + self.ty(v["sig"]["output"], b2, True)
            return s
        if k == "infer":
            return "_"
        raise Unsupported("type kind `%s`" % k)

    def args(self, a, bound=frozenset(), hr=False):
        if not a:
            return ""
        if "angle_bracketed" in a:
            xs = []
            for g in a["angle_bracketed"]["args"]:
                if isinstance(g, str):
                    xs.append("_")
                elif "lifetime" in g:
                    xs.append(self._lt(g["lifetime"], bound, hr, False))
                elif "type" in g:
                    xs.append(self.ty(g["type"], bound, hr))
                elif "const" in g:
                    e = g["const"].get("value") or g["const"].get("expr")
                    if e is None:
                        raise Unsupported("const generic argument without expression")
                    xs.append(e if re.match(r"^-?\w+$", str(e)) else "{ %s }" % e)
                else:
                    raise Unsupported("generic argument %s" % json.dumps(g)[:60])
            for c in a["angle_bracketed"].get("constraints", []):
                b = c.get("binding", {})
                nm = c["name"] + self.args(c.get("args"), bound, hr)
                if "equality" in b and isinstance(b["equality"], dict) and "type" in b["equality"]:
                    xs.append(nm + " = " + self.ty(b["equality"]["type"], bound, hr))
                elif isinstance(b.get("constraint"), list):
                    xs.append(nm + ": " + " + ".join(self.bound(x, bound, hr) for x in b["constraint"]))
                else:
                    raise Unsupported("associated item constraint %s" % json.dumps(c)[:80])
            return "<" + ", ".join(xs) + ">" if xs else ""
        if "parenthesized" in a:
            p = a["parenthesized"]
            s = "(" + ", ".join(self.ty(x, bound, True) for x in p["inputs"]) + ")"
            if p.get("output") is not None:
                s += " -> " + self.ty(p["output"], bound, True)
            return s
        raise Unsupported("generic args %s" % json.dumps(a)[:60])

    def bound(self, b, bound=frozenset(), hr=False):
        if "trait_bound" in b:
            tb = b["trait_bound"]
            mod = tb.get("modifier", "none")
            if mod not in ("none", "maybe"):
                raise Unsupported("trait bound modifier `%s`" % mod)
            ps = []
            for p in tb.get("generic_params", []):
                if "lifetime" not in p["kind"] or p["kind"]["lifetime"]["outlives"]:
                    raise Unsupported("non-lifetime / bounded `for<..>` binder")
                ps.append(p["name"])
            b2 = bound | set(ps)
            return (("for<%s> " % ", ".join(ps)) if ps else "") + ("?" if mod == "maybe" else "") \
                + self.n.path(tb["trait"]) + self.args(tb["trait"].get("args"), b2, hr)
        if "outlives" in b:
            return self._lt(b["outlives"], bound, hr, False)
        raise Unsupported("bound %s" % json.dumps(b)[:60])

    def generics(self, g, extra_type_bound=None):
        """-> (declarations [(sort, text)], where-predicates [text]); synthetic (`impl Trait`
        argument) parameters are skipped, defaults dropped."""
        decl, where = [], []
        for p in g["params"]:
            (k, v), = p["kind"].items()
            if k == "lifetime":
                decl.append((0, p["name"] + (": " + " + ".join(v["outlives"]) if v["outlives"] else "")))
            elif k == "type":
                if v.get("is_synthetic"):
                    continue
                bs = [self.bound(b) for b in v["bounds"]]
                if extra_type_bound:
                    bs.append(extra_type_bound)
                decl.append((1, p["name"] + (": " + " + ".join(bs) if bs else "")))
            elif k == "const":
                decl.append((2, "const %s: %s" % (p["name"], self.ty(v["type"]))))
            else:
                raise Unsupported("generic parameter kind `%s`" % k)
        for w in g["where_predicates"]:
            if "bound_predicate" in w:
                bp = w["bound_predicate"]
                ps = []
                for p in bp.get("generic_params", []):
                    if "lifetime" not in p["kind"] or p["kind"]["lifetime"]["outlives"]:
                        raise Unsupported("non-lifetime / bounded `for<..>` binder")
                    ps.append(p["name"])
                b2 = frozenset(ps)
                if not bp["bounds"]:
                    continue
                where.append((("for<%s> " % ", ".join(ps)) if ps else "") + self.ty(bp["type"], b2)
                             + ": " + " + ".join(self.bound(b, b2) for b in bp["bounds"]))
            elif "lifetime_predicate" in w:
                lp = w["lifetime_predicate"]
                if lp["outlives"]:
                    where.append(lp["lifetime"] + ": " + " + ".join(lp["outlives"]))
            else:
                raise Unsupported("where-predicate %s" % next(iter(w)))
        return decl, where


# ---- joining the rows of `methods` with their rustdoc items --------------------------------------

def method_items(crate, types):
    """Same walk as rustdoc2lean.collect_methods; key -> [(impl, method item)]."""
    out = {}
    for name, i, kind in types:
        body = crate.item(i)["inner"][kind]
        for j in body["impls"]:
            imi = crate.item(j)
            if imi is None:
                continue
            im = imi["inner"]["impl"]
            if im["trait"] is not None:
                continue
            for mid in im["items"]:
                mi = crate.item(mid)
                if mi is None or mi["visibility"] != "public" or "function" not in mi["inner"]:
                    continue
                sig = mi["inner"]["function"]["sig"]
                if sig.get("output") is None:
                    continue
                key = (name, mi["name"], R.receiver_of(sig)[0], R.render_type(sig["output"]))
                out.setdefault(key, []).append((im, mi))
    return out


def lifetime_names(*gens):
    s = set()
    for g in gens:
        for p in g["params"]:
            if "lifetime" in p["kind"]:
                s.add(p["name"])
    return s


def fresh(base, taken):
    n, k = base, 0
    while n in taken:
        n = "%s%d" % (base, k)
        k += 1
    taken.add(n)
    return n


PRELUDE = """#![allow(unused, dead_code, deprecated, unused_unsafe, unused_must_use, clippy::all)]
extern crate alloc;
fn hold<T: ?Sized>(_: &T) {}
fn is_static<T: ?Sized + 'static>(_: &T) {}
"""


class Synth:
    """Builds the obligation programs of one method."""

    def __init__(self, names, row, im, mi):
        self.names, self.row, self.im, self.mi = names, row, im, mi
        self.fn = mi["inner"]["function"]
        self.sig = self.fn["sig"]
        self.recv = row["receiver"]
        if self.recv not in ("&self", "&mut self", "self", "none"):
            raise Unsupported("receiver form `%s`" % self.recv)
        if self.sig.get("is_c_variadic"):
            raise Unsupported("C-variadic")
        h = self.fn.get("header", {})
        if h.get("is_async"):
            raise Unsupported("async fn")
        self.unsafe = bool(h.get("is_unsafe"))
        base = Rend(names)
        self.self_ty = base.ty(im["for"])
        self.r = Rend(names, self.self_ty)
        taken = lifetime_names(im["generics"], self.fn["generics"])
        tnames = {p["name"] for g in (im["generics"], self.fn["generics"]) for p in g["params"]}
        for bad in ("x", "r", "y", "r1", "r2", "hold", "is_static", "obligation"):
            if bad in tnames:
                raise Unsupported("generic parameter named `%s` collides with the template" % bad)
        # receiver lifetime: the declared `'a` itself when the receiver is `&'a self` / `&'a mut self`
        # with `'a` a generic of the method or of the impl (so that bounds like `Q: 'a` keep their
        # meaning and `impl<'a> T<'a> { fn f(&'a mut self) }` stays callable), a fresh one otherwise
        self.lx = None
        if self.recv in ("&self", "&mut self"):
            rl = self.sig["inputs"][0][1]["borrowed_ref"]["lifetime"]
            if rl is not None and rl != "'_" and rl in lifetime_names(im["generics"], self.fn["generics"]):
                self.lx = rl
            else:
                self.lx = fresh("'x", taken)
        self.lp = fresh("'p", taken)
        self.all_lts = sorted(lifetime_names(im["generics"], self.fn["generics"]) | ({self.lx} if self.lx else set()))
        self.args = [(nm, t) for nm, t in self.sig["inputs"] if nm != "self"]
        if self.recv != "none" and (not self.sig["inputs"] or self.sig["inputs"][0][0] != "self"):
            raise Unsupported("receiver not first")
        # explicit generic arguments for the call: every non-synthetic type / const parameter
        tf = []
        for p in self.fn["generics"]["params"]:
            (k, v), = p["kind"].items()
            if k == "type" and not v.get("is_synthetic"):
                tf.append(p["name"])
            elif k == "const":
                tf.append("{ %s }" % p["name"])
        self.turbofish = "::<" + ", ".join(tf) + ">" if tf else ""
        self.uniq = row["returnLifetimes"]
        self.srcs = row["lifetimeSources"]

    # -- pieces
    def header(self, static, extra_lts=(), extra_where=(), recv_shared=False, sets=("a",)):
        d1, w1 = self.r.generics(self.im["generics"], "'static" if static else None)
        d2, w2 = self.r.generics(self.fn["generics"], "'static" if static else None)
        decl = [(0, l) for l in extra_lts]
        if self.lx and not any(re.match(re.escape(self.lx) + r"\b", t) for s, t in d1 + d2 if s == 0):
            decl.append((0, self.lx))
        decl += d1 + d2
        decl.sort(key=lambda x: x[0])       # lifetimes, types, consts (stable)
        params = []
        if self.recv in ("&self", "&mut self"):
            params.append("x: &%s %s%s" % (self.lx, "" if recv_shared else "mut ", self.self_ty))
        elif self.recv == "self":
            params.append("x: " + self.self_ty)
        for s in sets:
            for n, (_, t) in enumerate(self.args):
                params.append("%s%d: %s" % (s, n, self.r.ty(t)))
        where = list(extra_where) + w1 + w2
        s = "fn obligation<%s>(%s)" % (", ".join(t for _, t in decl), ", ".join(params))
        if where:
            s += "\nwhere\n" + "".join("    %s,\n" % w for w in where)
        else:
            s += " "
        return s

    def call(self, s="a"):
        a = ", ".join("%s%d" % (s, n) for n in range(len(self.args)))
        if self.recv == "none":
            e = "<%s>::%s%s(%s)" % (self.self_ty, self.mi["name"], self.turbofish, a)
        else:
            e = "x.%s%s(%s)" % (self.mi["name"], self.turbofish, a)
        return "unsafe { %s }" % e if self.unsafe else e

    def ret_with(self, target, repl):
        """Return type with every occurrence of lifetime `target` ('_ = the elided ones) printed as
        `repl` and every other lifetime inferred."""
        def lt(name):
            return repl if name == target else "'_"
        out = self.sig["output"]
        if '"impl_trait"' in json.dumps(out):
            raise Unsupported("return type contains `impl Trait`; cannot be spelled out")
        return self.r.with_lt(lt).ty(out)

    def doc(self, kind, what):
        m = self.row
        return ("// C16 failing-input search: %s::%s (%s) -> %s\n// lifetimes %s from %s; kind `%s`: %s\n"
                % (m["typeName"], m["methodName"], m["receiver"], m["returnType"].replace("\n", " "),
                   m["returnLifetimes"], m["lifetimeSources"], kind, what))

    # -- programs: [(kind, lifetime index or None, expect 'reject'|'accept', reject codes, text)]
    def programs(self):
        out, skipped = [], []
        recv_tied_any = any(s in RECV_TIED for s in self.srcs)

        def add(kind, idx, expect, codes, build):
            try:
                out.append((kind, idx, expect, codes, build()))
            except Unsupported as e:
                skipped.append((kind, str(e)))

        if self.recv in ("&self", "&mut self"):
            exp = "reject" if recv_tied_any else "accept"
            add("reborrow", None, exp, BORROW_CODES, lambda: (
                self.doc("reborrow", "`&mut *x` while the result is alive must conflict iff the result is tied to the receiver borrow")
                + PRELUDE + self.header(False) + "{\n    let r = %s;\n    let y = &mut *x;\n    hold(&r);\n    hold(&y);\n}\nfn main() {}\n" % self.call()))
            if self.recv == "&mut self":
                add("twice", None, exp, BORROW_CODES, lambda: (
                    self.doc("twice", "two live results of a `&mut self` method must conflict iff tied to the receiver borrow")
                    + PRELUDE + self.header(False, sets=("a", "b")) + "{\n    let r1 = %s;\n    let r2 = %s;\n    hold(&r1);\n    hold(&r2);\n}\nfn main() {}\n" % (self.call("a"), self.call("b"))))
            else:
                add("shared2", None, "accept", BORROW_CODES, lambda: (
                    self.doc("shared2", "two live results through a shared receiver (always accepted; unsound iff the results carry `&mut`)")
                    + PRELUDE + self.header(False, recv_shared=True, sets=("a", "b")) + "{\n    let r1 = %s;\n    let r2 = %s;\n    hold(&r1);\n    hold(&r2);\n}\nfn main() {}\n" % (self.call("a"), self.call("b"))))
            if len(self.uniq) >= 2:
                for i, (lt, src) in enumerate(zip(self.uniq, self.srcs)):
                    add("lt%d" % i, i, "reject" if src in RECV_TIED else "accept", BORROW_CODES,
                        lambda lt=lt: (
                            self.doc("lt", "return lifetime %s spelled as %s (outlasts the body); `&mut *x` afterwards conflicts iff it is tied to the receiver borrow" % (lt, self.lp))
                            + PRELUDE + self.header(False, extra_lts=[self.lp],
                                                    extra_where=["%s: %s" % (l, self.lp) for l in self.all_lts])
                            + "{\n    let r: %s = %s;\n    drop(r);\n    let y = &mut *x;\n    hold(&y);\n}\nfn main() {}\n"
                            % (self.ret_with(lt, self.lp), self.call())))
        # escape: one per distinct return lifetime
        if len(self.uniq) == 1:
            add("escape", 0, "reject" if self.srcs[0] in TIED_SOURCES else "accept", ESCAPE_CODES, lambda: (
                self.doc("escape", "the result must not be `'static` (no input is)")
                + PRELUDE + self.header(True) + "{\n    let r = %s;\n    is_static(&r);\n}\nfn main() {}\n" % self.call()))
        else:
            for i, (lt, src) in enumerate(zip(self.uniq, self.srcs)):
                add("escape%d" % i, i, "reject" if src in TIED_SOURCES else "accept", ESCAPE_CODES,
                    lambda lt=lt: (
                        self.doc("escape", "return lifetime %s must not be `'static` (no input is)" % lt)
                        + PRELUDE + self.header(True) + "{\n    let r: %s = %s;\n    hold(&r);\n}\nfn main() {}\n"
                        % (self.ret_with(lt, "'static"), self.call())))
        return out, skipped


def must_reject_rules(kind, idx, viol):
    """Rules (of the method's violations) under which a conforming method would make this program
    be rejected -- i.e. for which an accepted program is a failing input."""
    rules = []
    for rule, bad in viol:
        if rule == "borrows_tied" and kind.startswith("escape") and idx in bad:
            rules.append(rule)
        elif rule == "mut_reborrow_tied" and (kind in ("reborrow", "twice") or (kind.startswith("lt") and idx in bad)):
            rules.append(rule)
        elif rule == "no_mut_from_shared" and kind == "shared2":
            rules.append(rule)
    return rules


def main():
    ap = argparse.ArgumentParser(description=__doc__.split("\n\n")[0])
    ap.add_argument("--repo", default="/repo")
    ap.add_argument("--target-dir", default="/verif/.cache/c16-target")
    ap.add_argument("--out", required=True)
    ap.add_argument("--all", action="store_true", help="programs for every method, not only the violating ones")
    ap.add_argument("--json-cache", default=None, help="cargo --target-dir for the rustdoc run "
                    "(default /verif/.cache/rustdoc/<repo-hash>-c16search)")
    ap.add_argument("--json", default=None, help="use this rustdoc json instead of running cargo rustdoc")
    ap.add_argument("--programs-dir", default=None, help="where the .rs files go (default <out minus .json>.programs)")
    ap.add_argument("--jobs", type=int, default=16)
    a = ap.parse_args()
    t0 = time.time()
    repo = os.path.abspath(a.repo)
    if a.json:
        jpath, jcmd = a.json, "(pre-built json %s)" % a.json
    else:
        cache = a.json_cache or os.path.join(
            "/verif/.cache/rustdoc", hashlib.sha1(repo.encode()).hexdigest()[:10] + "-c16search")
        jpath, jcmd = R.run_rustdoc(repo, cache)
    crate = R.Crate(jpath)
    types = crate.public_types()
    rows = R.collect_methods(crate, types)
    items = method_items(crate, types)
    t1 = time.time()

    violating, vmap = [], {}
    for m in rows:
        v = violations(m)
        if v:
            vmap[id(m)] = v
            violating.append(dict(type=m["typeName"], method=m["methodName"], receiver=m["receiver"],
                                  rules=[r for r, _ in v], returnType=m["returnType"],
                                  returnLifetimes=m["returnLifetimes"], sources=m["lifetimeSources"],
                                  returnsMutRef=m["retMut"]))

    deps, externs, build_cmd = C.build_rlib(repo, a.target_dir)
    t2 = time.time()
    names = Names(crate, types, externs.keys())

    pdir = a.programs_dir or (re.sub(r"\.json$", "", os.path.abspath(a.out)) + ".programs")
    os.makedirs(pdir, exist_ok=True)
    for f in os.listdir(pdir):
        if f.endswith(".rs"):
            os.remove(os.path.join(pdir, f))

    progs, not_syn, per_method = [], [], {}
    for m in rows:
        if not a.all and id(m) not in vmap:
            continue
        key = (m["typeName"], m["methodName"], m["receiver"], m["returnType"])
        ident = dict(type=m["typeName"], method=m["methodName"], receiver=m["receiver"])
        cands = items.get(key, [])
        if len(cands) != 1 or sum(1 for x in rows if (x["typeName"], x["methodName"], x["receiver"], x["returnType"]) == key) != 1:
            not_syn.append(dict(ident, kind="*", reason="row matches %d rustdoc items; cannot tell them apart" % len(cands)))
            continue
        im, mi = cands[0]
        try:
            sy = Synth(names, m, im, mi)
            ps, skipped = sy.programs()
        except Unsupported as e:
            not_syn.append(dict(ident, kind="*", reason="unsupported: %s" % e))
            continue
        for kind, why in skipped:
            not_syn.append(dict(ident, kind=kind, reason="unsupported: %s" % why))
        stem = re.sub(r"\W+", "_", "%s__%s__%s" % (m["typeName"].replace("::", "."), m["methodName"],
                                                 {"&self": "ref", "&mut self": "mut", "self": "val"}.get(m["receiver"], "fn")))
        for kind, idx, expect, codes, text in ps:
            fn = os.path.join(pdir, "%s__%s.rs" % (stem, kind))
            with open(fn, "w") as f:
                f.write("// expect: %s\n" % ("ok" if expect == "accept" else "|".join(codes)) + text)
            progs.append(dict(row=m, kind=kind, idx=idx, expect=expect, codes=codes, file=fn,
                              text=text, ident=ident))
        per_method[id(m)] = len(ps)

    outdir = os.path.join(a.target_dir, "c16-search-out")
    os.makedirs(outdir, exist_ok=True)
    with cf.ThreadPoolExecutor(max_workers=a.jobs) as ex:
        res = list(ex.map(C.run_one, [(p["file"], deps, externs, outdir) for p in progs]))
    t3 = time.time()

    failing, rejected, accepted, mismatches, suspicious = [], [], [], [], []
    found = set()
    compiled = 0
    for p, r in zip(progs, res):
        m = p["row"]
        got = r["got"]
        gcodes = set(got.split("|")) if got != "ok" else set()
        brief = dict(p["ident"], kind=p["kind"], file=p["file"], expected=p["expect"], got=got)
        if got != "ok" and not (gcodes and gcodes <= set(p["codes"])):
            # neither accepted nor a borrow / lifetime verdict: the program itself is wrong
            not_syn.append(dict(p["ident"], kind=p["kind"], file=p["file"],
                                reason="program does not compile for an unrelated reason (%s): %s"
                                % (got, (r.get("stderr_head") or "")[:600])))
            continue
        compiled += 1
        verdict = "accept" if got == "ok" else "reject"
        (accepted if verdict == "accept" else rejected).append(brief)
        rules = must_reject_rules(p["kind"], p["idx"], vmap.get(id(m), []))
        if rules:
            if verdict == "accept":
                found.add(id(m))
                failing.append(dict(type=m["typeName"], method=m["methodName"], receiver=m["receiver"],
                                    rule="+".join(rules), kind=p["kind"], file=p["file"],
                                    sources=m["lifetimeSources"], program=p["text"]))
        elif p["kind"] == "twice" and verdict == "accept":
            # no rule is violated (returnsMutRef is syntactic: `IterMut<'a, T>` shows no `&mut`), the
            # verdict is the expected one, but two results of one `&mut self` method are alive at once
            suspicious.append(dict(brief, sources=m["lifetimeSources"], returnType=m["returnType"],
                                   note="two live results of a `&mut self` method and no C16 rule objects; "
                                        "check by hand that the result cannot mutate through the receiver",
                                   program=p["text"]))
        elif verdict != p["expect"]:
            mismatches.append(dict(brief, sources=m["lifetimeSources"], stderr_head=r.get("stderr_head", ""),
                                   program=p["text"]))
    no_input = [dict(type=m["typeName"], method=m["methodName"], receiver=m["receiver"],
                     rules=[r for r, _ in vmap[id(m)]]) for m in rows if id(m) in vmap and id(m) not in found]
    methods_with_prog = len({(p["ident"]["type"], p["ident"]["method"], p["ident"]["receiver"], p["row"]["returnType"])
                             for p, r in zip(progs, res)
                             if r["got"] == "ok" or set(r["got"].split("|")) <= set(p["codes"])})
    summary = dict(violating=violating, programs=compiled, accepted_but_must_reject=failing,
                   rejected=rejected, accepted=accepted, mismatches=mismatches, not_synthesised=not_syn,
                   suspicious=suspicious,
                   no_failing_input=no_input,
                   methods=len(rows), methods_considered=len(rows) if a.all else len(vmap),
                   methods_with_programs=methods_with_prog,
                   programs_by_kind=_by_kind(progs, res),
                   repo=repo, rustdoc=jcmd, build=build_cmd, rlib=externs["hashbrown"], programs_dir=pdir,
                   seconds=dict(rustdoc=round(t1 - t0, 1), build=round(t2 - t1, 1),
                                compile=round(t3 - t2, 1), total=round(time.time() - t0, 1)))
    os.makedirs(os.path.dirname(os.path.abspath(a.out)), exist_ok=True)
    with open(a.out, "w") as f:
        json.dump(summary, f, indent=1)
    print("c16_search: %d methods, %d violating; %d programs compiled for %d methods (%d rejected, %d accepted), "
          "%d failing inputs, %d mismatches, %d not synthesised  (rustdoc %.1fs, build %.1fs, compile %.1fs) -> %s"
          % (len(rows), len(violating), compiled, methods_with_prog, len(rejected), len(accepted), len(failing),
             len(mismatches), len(not_syn), t1 - t0, t2 - t1, t3 - t2, a.out))
    for v in violating:
        print("  VIOLATING %s::%s (%s) %s sources %s" % (v["type"], v["method"], v["receiver"], "+".join(v["rules"]), v["sources"]))
    for f_ in failing:
        print("  FAILING INPUT %s::%s [%s] rule %s: rustc accepts %s" % (f_["type"], f_["method"], f_["kind"], f_["rule"], f_["file"]))
    for n in no_input:
        print("  no failing input for %s::%s (%s)" % (n["type"], n["method"], "+".join(n["rules"])))
    for sp in suspicious[:40]:
        print("  SUSPICIOUS (no rule violated) %s::%s -> %s: two live results of a `&mut self` method  %s"
              % (sp["type"], sp["method"], sp["returnType"], sp["file"]))
    for mm in mismatches[:40]:
        print("  MISMATCH %s::%s [%s] expected %s got %s  %s" % (mm["type"], mm["method"], mm["kind"], mm["expected"], mm["got"], mm["file"]))
    for n in not_syn[:40]:
        print("  not synthesised %s::%s [%s]: %s" % (n["type"], n["method"], n["kind"], n["reason"].split("\n")[0][:160]))
    sys.exit(0)


def _by_kind(progs, res):
    d = {}
    for p, r in zip(progs, res):
        k = re.sub(r"\d+$", "", p["kind"])
        e = d.setdefault(k, dict(programs=0, accepted=0, rejected=0, other_error=0))
        e["programs"] += 1
        if r["got"] == "ok":
            e["accepted"] += 1
        elif set(r["got"].split("|")) <= set(p["codes"]):
            e["rejected"] += 1
        else:
            e["other_error"] += 1
    return d


if __name__ == "__main__":
    main()
