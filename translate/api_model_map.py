#!/usr/bin/env python3
"""Which model function mirrors which API-layer item (documentation of Hb/Proofs/GenEqApi.lean) and the
snapshot writer `geneq_api_text` used by `rust2lean.py --snapshot-geneq-api`.

MODEL_MAP: ordered (regex on the item name, text); the first match wins.  The text names the model function(s)
of /verif/lean/Hb/Model/*.lean whose steps follow the call sequence of the item.  This table is documentation
only; the expected lists written into GenEqApi.lean are the lists of the tree the snapshot is taken from.
"""
import re

A = "Hb/Model/Api.lean"
E = "Hb/Model/Entry.lean"
S = "Hb/Model/Set.lean"
T = "Hb/Model/Table.lean"
SD = "Hb/Model/Serde.lean"
P = "Hb/Model/Par.lean"
PC = "Hb/Model/ParCollect.lean"
IW = "Hb/Model/IterWrap.lean"

MODEL_MAP = [
    # ---- inventories / impl lists
    (r"\.items$", "inventory: every function / impl block of the file outside the test modules has an item; a NEW function "
                  "(helper, `nth`/`count`/`last` override, ..) or a removed one changes this list"),
    (r"^Map\.(Iter|IterMut|Keys|Values|ValuesMut)_impls$", "`Hb.IW.MapIter` / `MapIterMut` / `Keys` / `Values` / `ValuesMut` (" + IW + "): exactly `next`, `size_hint`, `fold`, `len` "
     "(+ `clone`, `default`) are overridden; every other `Iterator` method is the std default built on `next`"),
    (r"^Map\.(IntoIter|IntoKeys|IntoValues|Drain)_impls$", "`Hb.IW.Own` (kinds of " + IW + "): `next`, `size_hint`, `fold`, `len` (+ `default`) overridden, everything else = std default on `next`"),
    (r"^Map\.ExtractIf_impls$", "`Hb.Map.extractNext` (" + A + "): only `next` and `size_hint`; no `fold` override"),
    (r"^Set\.(Iter|IntoIter|Drain)_impls$", "`Hb.IW.SetIter` / `Hb.IW.Own` (" + IW + ")"),
    (r"^Set\.(Intersection|Difference|SymmetricDifference|Union)_impls$", "`Hb.Set.lazyOp` over `intersectionSteps` / `differenceSteps` / `symmetricDifferenceSteps` / `unionSteps` (" + S + "): `next`, `size_hint`, `fold`, `clone` only"),
    (r"^Table\.(Iter|IterMut|IterHash|IterHashMut|IntoIter|Drain|ExtractIf)_impls$", "`Hb.IW.TableIter` / `TableIterMut` / `Own` (" + IW + "), `Hb.Table.iterHash` (" + T + ")"),
    (r"_impls$", "impl inventory of the type (trait `\"\"` = inherent methods; method `\"\"` = marker impl without methods)"),
    # ---- raw/mod.rs (explicit specs): the engines behind the API layer
    (r"^Raw\.RawExtractIf\.next_calls$", "`Hb.Map.extractNext` (" + A + "): `for item in &mut self.iter` — the iterator ITSELF advances, also when `None` is returned or the predicate unwinds — predicate, `true` ⇒ `remove(item)`"),
    (r"^Raw\.RawDrain\.Drop\.drop_calls$", "`Hb.Map.drain` (" + A + ") / `Hb.IW.RawOwn.dropDrain` (" + IW + "): remaining elements dropped, `clear_no_drop`, table moved back (T1 `gen_RawDrain_drop_writes_eq`)"),
    (r"^Raw\.RawDrain\.", "`Hb.Map.takeLoop` (" + A + ") / `Hb.IW.RawOwn.next` (" + IW + "): raw `next` + `read`"),
    (r"^Raw\.RawIntoIter\.", "`Hb.Map.takeLoop` / `intoIter` (" + A + "), `Hb.IW.RawOwn` (" + IW + "): raw `next` + `read`"),
    (r"^Raw\.RawIter\.Iterator\.next_calls$", "`Hb.RawIter.next` (Hb/Model/Iter.lean): `items == 0` ⇒ `None`, else `next_impl`"),
    (r"^Raw\.RawIter\.Iterator\.fold_calls$", "`Hb.RawIter.fold` / `RawIterRange.foldImpl` (Hb/Model/Iter.lean)"),
    (r"^Raw\.RawIter\.drop_elements_calls$", "`Hb.Map.iterDropLoop` / `iterDropElements` (" + A + ")"),
    (r"^Raw\.RawTable\.(remove|erase)_calls$", "`Hb.removeAt` / `Hb.erase` (Hb/Model/Raw.lean): `erase_no_drop` + `read` / `drop`"),
    (r"^Raw\.RawTable\.remove_entry_calls$", "`Hb.Map.removeEntry` (" + A + "): `find`, then `remove`"),
    (r"^Raw\.RawTable\.clear_calls$", "`Hb.clear` (Hb/Model/Raw.lean; T1 `gen_RawTable_clear_fast_cond_eq`): `is_empty` ⇒ return, else guard(`clear_no_drop`) + `drop_elements`"),
    (r"^Raw\.RawTable\.insert_calls$", "`Hb.rawInsert` (Hb/Model/Raw.lean; T1 `gen_RawTable_insert_grow_cond_eq`): slot, grow only if `growth_left == 0 && special_is_empty`, `insert_in_slot`"),
    (r"^Raw\.RawTable\.insert_in_slot_calls$", "`Hb.insertInSlot` (Hb/Model/Raw.lean): `record_item_insert_at` then the write"),
    (r"^Raw\.RawTable\.find_or_find_insert_slot_calls$", "`Hb.findOrFindInsertSlot` (Hb/Model/Raw.lean): `reserve(1)` BEFORE the search"),
    (r"^Raw\.RawTable\.(find|get|get_mut)_calls$", "`Hb.find` (Hb/Model/Raw.lean) + bucket projection"),
    (r"^Raw\.RawTable\.replace_bucket_with_calls$", "`Hb.replaceBucketWith` (Hb/Model/Raw.lean; T1 `gen_RawTable_replace_bucket_with_eq`): `remove`, closure, `Some` ⇒ control byte and element written back"),
    (r"^Raw\.RawTable\.get_many_mut_calls$", "`Hb.Table.getManyMut` (" + T + ") / `Hb.Map.getManyMut` (" + E + "): look-ups first, then the pairwise duplicate scan that panics"),
    (r"^Raw\.RawTable\.get_many_(unchecked_mut|mut_buckets)_calls$", "`Hb.Table.getManyLoop` (" + T + "): one `find` per request, in request order"),
    (r"^Raw\.RawTable\.drain(_iter_from)?_calls$", "`Hb.Map.drain` (" + A + "): the table is moved out (`mem::replace` with an empty one) for the drain's lifetime"),
    # ---- map.rs: free functions
    (r"^Map\.make_hash(_2)?_calls$", "`Hb.Map.makeHash` (" + A + "): one `Hash` call of the key (`_2`: the `nightly` variant using `hash_one`)"),
    (r"^Map\.(make_hasher|equivalent_key|equivalent)_calls$", "the closures handed to `RawTable`: re-hash callback `Env.hash` / equality callback `Env.eq` of `Hb.find`, `Hb.findOrFindInsertSlot`, `Hb.reserve` (Hb/Model/Raw.lean)"),
    (r"^Map\.assert_covariance", "compile-time variance check, no run-time behaviour (no model function)"),
    # ---- map.rs: HashMap
    (r"^Map\.HashMap\.insert_calls$", "`Hb.Map.insert` (" + A + "): `makeHash`, `findOrFindInsertSlot` (its `reserve(1)` included), `Ok` ⇒ value replaced in place (`mem::replace`), `Err` ⇒ `insertInSlot`"),
    (r"^Map\.HashMap\.find_or_find_insert_slot_calls$", "`Hb.findOrFindInsertSlot` (Hb/Model/Raw.lean) with the key-equality and re-hash callbacks, as used by `Hb.Map.insert` and `Hb.Set.search`"),
    (r"^Map\.HashMap\.try_insert_calls$", "`Hb.Map.tryInsert` (" + E + "): `entry`, Occupied ⇒ `Err`, Vacant ⇒ `insert`"),
    (r"^Map\.HashMap\.insert_unique_unchecked_calls$", "`Hb.Map.insertUniqueUnchecked` (" + E + "): hash + `RawTable::insert`, NO look-up"),
    (r"^Map\.HashMap\.get_inner(_mut)?_calls$", "`Hb.Map.getInner` (" + A + "): `is_empty` short cut (no hashing), else `makeHash` + `find`"),
    (r"^Map\.HashMap\.(get|get_key_value|contains_key|get_mut|get_key_value_mut)_calls$", "`Hb.Map.get` / `getMut` (" + A + "): projection of `getInner`"),
    (r"^Map\.HashMap\.remove_entry_calls$", "`Hb.Map.removeEntry` (" + A + "): `makeHash`, `find`, `removeAt` (no `is_empty` short cut)"),
    (r"^Map\.HashMap\.remove_calls$", "`Hb.Map.remove` (" + A + "): `removeEntry`, key dropped, value returned"),
    (r"^Map\.HashMap\.entry_calls$", "`Hb.Map.entryLook` / `Hb.Map.entry` (" + E + "): hash, `find` — NO `reserve`, no `is_empty` short cut; Occupied drops the key at the end"),
    (r"^Map\.HashMap\.entry_ref_calls$", "`Hb.Map.entryRef` (" + E + "): hash, `find`; no key object until a vacant entry converts `&Q`"),
    (r"^Map\.HashMap\.retain_calls$", "`Hb.Map.retainLoop` (" + A + "): raw `iter`, per bucket predicate once, `false` ⇒ `erase` (drop in place)"),
    (r"^Map\.HashMap\.extract_if_calls$", "`Hb.Map.extractIf` (" + A + "): only builds the lazy iterator (raw `iter`); the work is in `ExtractIf::next`"),
    (r"^Map\.HashMap\.drain_calls$", "`Hb.Map.drain` (" + A + "): `RawTable::drain`"),
    (r"^Map\.HashMap\.clear_calls$", "`Hb.clear` (Hb/Model/Raw.lean)"),
    (r"^Map\.HashMap\.reserve_calls$", "`Hb.Map.reserve` = `Hb.reserve` (" + A + "): unconditional forward of `additional` with the re-hash callback"),
    (r"^Map\.HashMap\.try_reserve_calls$", "`Hb.Map.tryReserve` = `Hb.tryReserve` (" + A + "): unconditional forward"),
    (r"^Map\.HashMap\.shrink_to(_fit)?_calls$", "`Hb.shrinkTo` (Hb/Model/Raw.lean) (`shrink_to_fit` = `shrink_to(0)`)"),
    (r"^Map\.HashMap\.Clone\.clone_calls$", "`Hb.Map.cloneTable` (" + A + "): hasher clone and table clone"),
    (r"^Map\.HashMap\.Clone\.clone_from_calls$", "`Hb.Map.cloneFrom` (" + A + "): TABLE first, hasher only after all elements were cloned"),
    (r"^Map\.HashMap\.PartialEq\.eq_calls$", "`Hb.Map.mapEq` / `eqLoop` (" + A + "): `len` compared first, then `all` over `self` with `other.get(key)` and value `==`"),
    (r"^Map\.HashMap\.Extend_K_V\.extend_calls$", "`Hb.Map.extend` / `insertMany` (" + E + "): `extendReserve` (is_empty ⇒ hint, else (hint+1)/2; T1 `gen_HashMap_extend_reserve_eq`), `reserve`, `insert` per pair"),
    (r"^Map\.HashMap\.Extend_.*extend_calls$", "`Hb.Map.extend` (" + E + "): forwards to the owning `Extend<(K, V)>` impl with copied pairs"),
    (r"^Map\.HashMap\.Extend_.*extend_one_calls$", "`Hb.Map.insert` (" + A + ") (nightly `extend_one`)"),
    (r"^Map\.HashMap\.Extend_.*extend_reserve_calls$", "`Hb.extendReserve` (T1 `gen_HashMap_extend_reserve_reserve_eq`) then `reserve` (nightly)"),
    (r"^Map\.HashMap\.FromIterator.*from_iter_calls$", "`Hb.Map.fromIter` (" + E + "): `with_capacity(size_hint().0)`, then `insert` per pair (look-up kept)"),
    (r"^Map\.HashMap\.get_many(_key_value)?(_unchecked)?_mut_calls$", "`Hb.Map.getManyMut` (" + E + "): forwards to `get_many_mut_inner` / `get_many_unchecked_mut_inner`, projection only"),
    (r"^Map\.HashMap\.get_many_mut_inner_calls$", "`Hb.Map.getManyMut` (" + E + "): `hashAll` (`build_hashes_inner`), then the CHECKED `RawTable::get_many_mut` (`findAll` + `hasDup` panic)"),
    (r"^Map\.HashMap\.get_many_unchecked_mut_inner_calls$", "`Hb.Map.findAll` (" + E + ") without the duplicate check (unsafe API)"),
    (r"^Map\.HashMap\.build_hashes_inner_calls$", "`Hb.Map.hashAll` (" + E + "): one `make_hash` per requested key, in request order"),
    (r"^Map\.HashMap\.Index.*index_calls$", "`Hb.Map.index` (" + E + "): `get` + `expect`"),
    (r"^Map\.HashMap\.(into_keys|into_values)_calls$", "`Hb.Map.intoKeys` / `intoValues` (" + E + ")"),
    (r"^Map\.(ref_|refmut_)?HashMap\.IntoIterator\.into_iter_calls$", "`Hb.Map.intoIter` (" + A + ") / `Hb.IW.MapIter.new` / `MapIterMut.new` (" + IW + ")"),
    (r"^Map\.HashMap\.(iter|iter_mut|keys|values|values_mut)_calls$", "`Hb.IW.MapIter.new` / `MapIterMut.new` / `Keys.new` / `Values.new` / `ValuesMut.new` (" + IW + ")"),
    (r"^Map\.HashMap\.(len|is_empty|capacity|raw_capacity)_calls$", "`Raw.items` / `Raw.capacity` / `Raw.buckets` (T1 `gen_RawTable_len_eq`, `gen_RawTable_capacity_eq`, `gen_RawTable_buckets_eq`)"),
    # ---- map.rs: entries
    (r"^Map\.Entry\.insert_calls$", "`Hb.Map.entry` chain `insert` (" + E + "): Occupied ⇒ `OccupiedEntry::insert` (value replaced), Vacant ⇒ `insert_entry`"),
    (r"^Map\.Entry\.or_insert(_with|_with_key)?_calls$", "`Hb.Map.chainOcc` / `chainVac` (" + E + "), panicking closure: `Hb.Map.entryOrInsertWithPanic` (Hb/Model/EntryPanic.lean): Occupied ⇒ `into_mut`, Vacant ⇒ closure THEN `insert`"),
    (r"^Map\.Entry\.or_default_calls$", "`Hb.Map.chainVac` (" + E + ") with `Default::default()`"),
    (r"^Map\.Entry\.and_modify_calls$", "`Hb.Map.chainOcc` (" + E + "), `entryAndModifyPanic` (Hb/Model/EntryPanic.lean): closure on `get_mut`, entry re-wrapped"),
    (r"^Map\.Entry\.and_replace_entry_with_calls$", "`Hb.Map.chainOcc` (" + E + "): Occupied ⇒ `OccupiedEntry::replace_entry_with`, Vacant unchanged"),
    (r"^Map\.OccupiedEntry\.replace_entry_with_calls$", "`Hb.replaceBucketWith` (Hb/Model/Raw.lean; T1 `gen_RawTable_replace_bucket_with_eq`), `Hb.Map.entryReplacePanic` (Hb/Model/EntryPanic.lean): goes through `RawTable::replace_bucket_with`"),
    (r"^Map\.OccupiedEntry\.(remove|remove_entry)_calls$", "`Hb.Map.chainOcc` remove (" + E + "): `RawTable::remove(bucket)`"),
    (r"^Map\.OccupiedEntry\.insert_calls$", "`Hb.Map.chainOcc` insert (" + E + "): `mem::replace` through `get_mut`"),
    (r"^Map\.OccupiedEntry\.(get|get_mut|into_mut|key)_calls$", "`Hb.Map.chainOcc` (" + E + "): bucket projection `as_ref` / `as_mut` only"),
    (r"^Map\.VacantEntry\.(insert|insert_entry)_calls$", "`Hb.Map.insOwned` / `chainVac` (" + E + "): `RawTable::insert(hash, (k, v), hasher)` (its own `reserve(1)`)"),
    (r"^Map\.EntryRef\.", "`Hb.Map.entryRef` chain (" + E + "), as `Entry`"),
    (r"^Map\.VacantEntryRef\.(insert|insert_entry)_calls$", "`Hb.Map.entryRef` (" + E + "): `&Q → K` (`into`) right before `RawTable::insert`"),
    # ---- map.rs: iterators
    (r"^Map\.Iter\.Iterator\.", "`Hb.IW.MapIter.next` / `sizeHint` / `fold` (" + IW + "): forward to the raw iterator, `as_ref` per bucket"),
    (r"^Map\.IterMut\.Iterator\.", "`Hb.IW.MapIterMut.next` / `sizeHint` / `fold` (" + IW + "): forward to the raw iterator, `as_mut` per bucket; `fold` has NO fast path"),
    (r"^Map\.Keys\.Iterator\.", "`Hb.IW.Keys.*` (" + IW + "): `Iter` + key projection"),
    (r"^Map\.Values\.Iterator\.", "`Hb.IW.Values.*` (" + IW + "): `Iter` + value projection"),
    (r"^Map\.ValuesMut\.Iterator\.", "`Hb.IW.ValuesMut.*` (" + IW + "): `IterMut` + value projection"),
    (r"^Map\.IntoIter\.Iterator\.", "`Hb.IW.Own.next` / `sizeHint` / `fold` (" + IW + "), `Hb.Map.intoIter` (" + A + "): plain forward to `RawIntoIter`"),
    (r"^Map\.IntoKeys\.Iterator\.", "`Hb.Map.intoKeys` (" + E + "), `Hb.IW.Own` (" + IW + "): owning `next`/`fold` + `.map(|(k, _)| k)` — the value half is dropped by every step"),
    (r"^Map\.IntoValues\.Iterator\.", "`Hb.Map.intoValuesLoop` (" + E + "), `Hb.IW.Own` (" + IW + "): owning `next`/`fold` + `.map(|(_, v)| v)`"),
    (r"^Map\.Drain\.Iterator\.", "`Hb.Map.drain` (" + A + "), `Hb.IW.Own` (" + IW + "): plain forward to `RawDrain`"),
    (r"^Map\.ExtractIf\.Iterator\.next_calls$", "`Hb.Map.extractNext` (" + A + "): `RawExtractIf::next` with the user predicate"),
    (r"\.ExactSizeIterator\.len_calls$", "`len` of the wrapped iterator (`Hb.IW.*.len`, " + IW + ")"),
    (r"\.Iterator\.size_hint_calls$", "`size_hint` of the wrapped iterator (`Hb.IW.*.sizeHint`, " + IW + ")"),
    (r"\.Clone\.clone_calls$", "`clone` of the wrapped value (`Hb.IW.*.clone`, " + IW + " / `cloneTable`)"),
    (r"\.Default\.default_calls$", "`Default::default()` of the wrapped value (`Hb.IW.*.default`, " + IW + ")"),
    # ---- set.rs
    (r"^Set\.HashSet\.insert_calls$", "`Hb.Set.insert` (" + S + "): `map.insert(value, ()).is_none()`"),
    (r"^Set\.HashSet\.replace_calls$", "`Hb.Set.replace` (" + S + "): `search`, found ⇒ `mem::replace` of the stored KEY, else `insert_in_slot`"),
    (r"^Set\.HashSet\.get_or_insert_calls$", "`Hb.Set.getOrInsert` (" + S + "): `search`, absent ⇒ `insert_in_slot`"),
    (r"^Set\.HashSet\.get_or_insert_with_calls$", "`Hb.Set.getOrInsertWith` (" + S + "), `getOrInsertWithPanic` (Hb/Model/SetPanic.lean): closure, `assert!(value.equivalent(&new))` BEFORE `insert_in_slot`"),
    (r"^Set\.HashSet\.take_calls$", "`Hb.Set.take` (" + S + "): `map.remove_entry`"),
    (r"^Set\.HashSet\.remove_calls$", "`Hb.Set.remove` (" + S + "): `map.remove(..).is_some()`"),
    (r"^Set\.HashSet\.contains_calls$", "`Hb.Set.contains` / `containsIn` (" + S + "): `map.contains_key`"),
    (r"^Set\.HashSet\.get_calls$", "`Hb.Set.get` (" + S + "): `map.get_key_value`"),
    (r"^Set\.HashSet\.entry_calls$", "`Hb.Set.entryFind` (" + S + "): `map.entry`, re-wrapped"),
    (r"^Set\.HashSet\.retain_calls$", "`Hb.Set.retain` (" + S + "): `map.retain(|k, _| f(k))`"),
    (r"^Set\.HashSet\.extract_if_calls$", "`Hb.Set.extractIf` (" + S + ")"),
    (r"^Set\.HashSet\.drain_calls$", "`Hb.Set.drain` (" + S + ")"),
    (r"^Set\.HashSet\.is_subset_calls$", "`Hb.Set.isSubset` (" + S + "): `self.len() <= other.len() && self.iter().all(|v| other.contains(v))`"),
    (r"^Set\.HashSet\.is_superset_calls$", "`Hb.Set.isSuperset` (" + S + ") = `other.is_subset(self)`"),
    (r"^Set\.HashSet\.is_disjoint_calls$", "`Hb.Set.isDisjoint` (" + S + "): `self.intersection(other).next().is_none()`"),
    (r"^Set\.HashSet\.PartialEq\.eq_calls$", "`Hb.Set.setEq` (" + S + "): `len` compared first, then `all` + `contains`"),
    (r"^Set\.HashSet\.Extend_.*extend", "`Hb.Map.extend` (" + E + ") through `map.extend(iter.map(|k| (k, ())))`"),
    (r"^Set\.HashSet\.FromIterator.*from_iter_calls$", "`Hb.Map.fromIter` (" + E + "): empty set + `extend`"),
    (r"^Set\.HashSet\.(union|intersection|difference|symmetric_difference)_calls$", "`Hb.Set.union` / `intersection` / `difference` / `symmetricDifference` with `smallerLarger` (" + S + "): which set is iterated and which is probed"),
    (r"^Set\.ref_HashSet\.BitOr", "`Hb.Set.bitor` (" + S + "): `union(..).cloned().collect()`"),
    (r"^Set\.ref_HashSet\.BitAnd", "`Hb.Set.bitand` (" + S + "): `intersection(..).cloned().collect()`"),
    (r"^Set\.ref_HashSet\.BitXor", "`Hb.Set.bitxor` (" + S + "): `symmetric_difference(..).cloned().collect()`"),
    (r"^Set\.ref_HashSet\.Sub", "`Hb.Set.sub` (" + S + "): `difference(..).cloned().collect()`"),
    (r"^Set\.HashSet\.BitOrAssign", "`Hb.Set.bitorAssign` (" + S + "): per item of `rhs`: `!contains` ⇒ `insert(item.clone())`"),
    (r"^Set\.HashSet\.BitAndAssign", "`Hb.Set.bitandAssign` (" + S + "): `retain(|item| rhs.contains(item))` unconditionally"),
    (r"^Set\.HashSet\.BitXorAssign", "`Hb.Set.bitxorAssign` (" + S + "): per item: hash, `find_or_find_insert_slot`, found ⇒ `remove(bucket)`, else `insert_in_slot(clone)`"),
    (r"^Set\.HashSet\.SubAssign", "`Hb.Set.subAssign` (" + S + "): `rhs.len() < self.len()` ⇒ `remove` per item of `rhs`, else `retain(!rhs.contains)`"),
    (r"^Set\.(Intersection|Difference)\.Iterator\.(next|fold)_calls$", "`Hb.Set.intersectionSteps` / `differenceSteps` (" + S + "): next of the iterated set, one `contains` probe per candidate"),
    (r"^Set\.Difference\.Iterator\.size_hint_calls$", "`Hb.Set.differenceHint` (" + S + "): lower bound `len.saturating_sub(other.len())`"),
    (r"^Set\.(SymmetricDifference|Union)\.Iterator\.", "`Hb.Set.symmetricDifferenceSteps` / `unionSteps` (" + S + "): forward to the `Chain`"),
    (r"^Set\.Iter\.Iterator\.", "`Hb.IW.SetIter.*` (" + IW + "): forward to `Keys`"),
    (r"^Set\.(IntoIter|Drain)\.Iterator\.", "`Hb.Set.intoIter` / `drain` (" + S + "), `Hb.IW.Own` (" + IW + "): map iterator + `(k, ())` projection"),
    (r"^Set\.ExtractIf\.Iterator\.next_calls$", "`Hb.Set.extractIf` (" + S + "): `RawExtractIf::next` with `|&mut (ref k, ())| f(k)`"),
    (r"^Set\.Entry\.(insert|or_insert)_calls$", "`Hb.Set.entryInsert` / `entryOrInsert` (" + S + ")"),
    (r"^Set\.OccupiedEntry\.remove_calls$", "`Hb.Set.entryRemove` (" + S + ")"),
    (r"^Set\.VacantEntry\.insert_calls$", "`Hb.Set.vacantInsert` (" + S + ")"),
    (r"^Set\.HashSet\.(reserve|try_reserve|shrink_to|shrink_to_fit|clear|len|is_empty|capacity)_calls$", "plain forward to the `HashMap` method of the same name (see `Map.HashMap.*`)"),
    (r"^Set\.HashSet\.Clone\.clone_from_calls$", "`Hb.Set.cloneFrom` (" + S + ") = `map.clone_from`"),
    (r"^Set\.assert_covariance", "compile-time variance check, no run-time behaviour (no model function)"),
    # ---- table.rs
    (r"^Table\.HashTable\.find(_mut)?_calls$", "`Hb.Table.findElem` / `findMut` (" + T + "): `RawTable::get` / `get_mut`, no `is_empty` short cut"),
    (r"^Table\.HashTable\.find_entry_calls$", "`Hb.Table.findEntryRemove` (" + T + "): `RawTable::find`, `Ok(OccupiedEntry)` / `Err(AbsentEntry)`"),
    (r"^Table\.HashTable\.entry_calls$", "`Hb.Table.entry` (" + T + "): `find_or_find_insert_slot` (`reserve(1)` BEFORE the search)"),
    (r"^Table\.HashTable\.insert_unique_calls$", "`Hb.Table.insertUnique` (" + T + ") = `RawTable::insert`"),
    (r"^Table\.HashTable\.reserve_calls$", "`Hb.reserve` (Hb/Model/Raw.lean; T1 `gen_RawTable_reserve_cond_eq`): `additional` forwarded UNCHANGED"),
    (r"^Table\.HashTable\.try_reserve_calls$", "`Hb.tryReserve` (Hb/Model/Raw.lean): `additional` forwarded unchanged"),
    (r"^Table\.HashTable\.shrink_to(_fit)?_calls$", "`Hb.shrinkTo` (Hb/Model/Raw.lean) (`shrink_to_fit` = `shrink_to(len)`)"),
    (r"^Table\.HashTable\.retain_calls$", "`Hb.Map.retainLoop` (" + A + ", shared by `stepH` of Hb/Model/TableOpsH.lean): raw `iter`, predicate once per bucket, `erase`; nothing after the loop"),
    (r"^Table\.HashTable\.extract_if_calls$", "`Hb.Map.extractIf` (" + A + ")"),
    (r"^Table\.HashTable\.drain_calls$", "`Hb.Map.drain` (" + A + ")"),
    (r"^Table\.HashTable\.clear_calls$", "`Hb.clear` (Hb/Model/Raw.lean)"),
    (r"^Table\.HashTable\.get_many_mut_calls$", "`Hb.Table.getManyMut` (" + T + "): straight to the CHECKED `RawTable::get_many_mut` (`getManyLoop` + `hasDup`), no pre-check, no ZST fast path"),
    (r"^Table\.HashTable\.get_many_unchecked_mut_calls$", "`Hb.Table.getManyLoop` (" + T + ") without the duplicate check (unsafe API)"),
    (r"^Table\.HashTable\.iter_hash(_mut)?_calls$", "`Hb.Table.iterHash` (" + T + ")"),
    (r"^Table\.HashTable\.Clone\.clone_calls$", "`Hb.Table.cloneFrom` (" + T + "): only `clone` is implemented (`clone_from` = std default)"),
    (r"^Table\.Entry\.insert_calls$", "`Hb.Table.entryInsert` (" + T + "): Occupied ⇒ `*get_mut() = new`, Vacant ⇒ `insert`"),
    (r"^Table\.Entry\.or_insert(_with)?_calls$", "`Hb.Table.entryOrInsert` (" + T + ")"),
    (r"^Table\.Entry\.and_modify_calls$", "`Hb.Table.entryAndModify` (" + T + ")"),
    (r"^Table\.OccupiedEntry\.remove_calls$", "`Hb.Table.findEntryRemove` (" + T + "): `RawTable::remove(bucket)` and nothing else"),
    (r"^Table\.OccupiedEntry\.(get|get_mut|into_mut)_calls$", "bucket projection `as_ref` / `as_mut` (`Hb.Table.findMut`, " + T + ")"),
    (r"^Table\.VacantEntry\.insert_calls$", "`Hb.Table.entryInsert` (" + T + "): `insert_in_slot` (the `reserve(1)` already happened in `entry`)"),
    (r"^Table\.(Iter|IterHash)\.Iterator\.", "`Hb.IW.TableIter.*` (" + IW + ") / `Hb.Table.iterHash` (" + T + "): raw iterator + `as_ref`"),
    (r"^Table\.(IterMut|IterHashMut)\.Iterator\.", "`Hb.IW.TableIterMut.*` (" + IW + "): raw iterator + `as_mut`"),
    (r"^Table\.(IntoIter|Drain)\.Iterator\.", "`Hb.IW.Own` (" + IW + "): plain forward"),
    (r"^Table\.ExtractIf\.Iterator\.next_calls$", "`Hb.Map.extractNext` (" + A + ")"),
    # ---- raw_entry.rs
    (r"^RawEntry\.RawEntryBuilder(Mut)?\.(from_key|from_key_hashed_nocheck|from_hash|search)_calls$", "`Hb.Map.rawLook` / `rawEntry` / `rawGet` (" + E + "): `from_key` hashes, `from_key_hashed_nocheck` / `from_hash` use the caller's hash; `search` = `RawTable::find` / `get`"),
    (r"^RawEntry\.RawEntryMut\.insert_calls$", "`Hb.Map.rawEntry` chain insert (" + E + "): Occupied ⇒ VALUE replaced only (the key passed in is dropped), Vacant ⇒ `insert_entry`"),
    (r"^RawEntry\.RawEntryMut\.", "`Hb.Map.rawEntry` chain (`RawChain`, " + E + ")"),
    (r"^RawEntry\.RawOccupiedEntryMut\.replace_entry_with_calls$", "`Hb.replaceBucketWith` (Hb/Model/Raw.lean), `Hb.Map.rawReplacePanic` (Hb/Model/EntryPanic.lean): goes through `RawTable::replace_bucket_with`"),
    (r"^RawEntry\.RawOccupiedEntryMut\.", "`Hb.Map.rawEntry` chain on an occupied entry (" + E + "): bucket projections, `mem::replace`, `RawTable::remove`"),
    (r"^RawEntry\.RawVacantEntryMut\.", "`Hb.Map.rawEntry` vacant insert (" + E + "): `RawTable::insert(hash, (k, v), hasher)` with the map's hasher (or the caller's in `insert_with_hasher`)"),
    # ---- rustc_entry.rs
    (r"^RustcEntry\.HashMap\.rustc_entry_calls$", "`Hb.Map.rustcLook` / `rustcEntry` (" + E + "): hash, `find`, Vacant ⇒ UNCONDITIONAL `reserve(1)`"),
    (r"^RustcEntry\.RustcVacantEntry\.(insert|insert_entry)_calls$", "`Hb.Map.insNoGrow` (" + E + "): `insert_no_grow` (room was reserved by `rustc_entry`)"),
    (r"^RustcEntry\.", "`Hb.Map.rustcEntry` chain (" + E + "), as `Entry`"),
    # ---- serde.rs
    (r"^Serde\.size_hint\.cautious_calls$", "`Hb.cautious` (T1 `gen_size_hint_cautious_eq`)"),
    (r"^Serde\..*visit_map_calls$", "`Hb.Serde.visitMap` / `visitMapGen` / `feed` (" + SD + "): `with_capacity(cautious(size_hint))`, then `while let Some(..) = next_entry()? { values.insert(k, v) }` — `insert`, so a later duplicate key wins"),
    (r"^Serde\..*deserialize\.SeqVisitor\.Visitor\.visit_seq_calls$", "`Hb.Serde.visitSeq` (" + SD + "): `with_capacity(cautious(size_hint))`, then `insert` per element"),
    (r"^Serde\..*deserialize_in_place\.SeqInPlaceVisitor\.Visitor\.visit_seq_calls$", "`Hb.Serde.deserializeInPlace` (" + SD + "): `clear`, `reserve(cautious(size_hint))`, THEN the first `next_element`; `insert` per element (with look-up)"),
    (r"^Serde\..*serialize_calls$", "`Hb.Serde.serialize` (" + SD + "): `collect_map(self)` / `collect_seq(self)`"),
    (r"^Serde\..*deserialize(_in_place)?_calls$", "`Hb.Serde.deserAssign` (" + SD + "): hands the visitor to `deserialize_map` / `deserialize_seq`"),
    # ---- rayon
    (r"^RayonHelpers\.collect_calls$", "`Hb.ParCollect.collect` / `collectTree` (" + PC + "): per-leaf `Vec`, `reduce` appends the RIGHT list to the LEFT one; `len` = sum of the `Vec::len`"),
    (r"^Rayon(Map|Set)\.extend_calls$", "`Hb.ParCollect.parExtendList` / `parReserve` / `extendChunks` (" + PC + "): `collect`, reserve `len` or `(len+1)/2`, sequential `extend` per chunk"),
    (r"^Rayon(Map|Set)\..*par_extend_calls$", "`Hb.ParCollect.parExtend` / `setParExtend` (" + PC + ")"),
    (r"^Rayon(Map|Set)\..*from_par_iter_calls$", "`Hb.ParCollect.fromParIter` (" + PC + "): `default()` + `par_extend` (look-up kept)"),
    (r"^RayonMap\.HashMap\.par_eq_calls$", "`Hb.ParCollect.parMapEq` / `parEqLeaves` (" + PC + "): `len ==` first, then `all` over `self` with `other.get`"),
    (r"^RayonSet\.HashSet\.par_eq_calls$", "`Hb.ParCollect.parSetEq` (" + PC + ")"),
    (r"^RayonSet\.HashSet\.par_is_subset_calls$", "`Hb.ParCollect.parIsSubset` (" + PC + ")"),
    (r"^RayonSet\.HashSet\.par_is_superset_calls$", "`Hb.ParCollect.parIsSuperset` (" + PC + ")"),
    (r"^RayonSet\.HashSet\.par_is_disjoint_calls$", "`Hb.ParCollect.parIsDisjoint` (" + PC + "): always iterates `self`"),
    (r"^RayonSet\.Par(Difference|Intersection)\.", "`Hb.ParCollect.parDifference` / `parIntersection` (" + PC + "): `a.par_iter().filter(..)`"),
    (r"^RayonSet\.ParUnion\.", "`Hb.ParCollect.parUnion` (" + PC + "): larger set chained with `smaller.par_difference(larger)`"),
    (r"^RayonSet\.ParSymmetricDifference\.", "`Hb.ParCollect.parSymmetricDifference` (" + PC + ")"),
    (r"^RayonRaw\.ParIterProducer\.UnindexedProducer\.split_calls$", "`Hb.Par.splitLeaves` / `Tree` (" + P + "): `RawIterRange::split` (T1 `gen_RawIterRange_split_mid_eq`, `gen_RawIterRange_split_tail_eq`)"),
    (r"^RayonRaw\.ParIterProducer\.UnindexedProducer\.fold_with_calls$", "`Hb.Par.consumeAll` (" + P + "): `folder.consume_iter(self.iter)`"),
    (r"^RayonRaw\.ParDrainProducer\.UnindexedProducer\.split_calls$", "`Hb.Par.DTree` (" + P + "): clone of the range, `split`, `mem::forget(self)`"),
    (r"^RayonRaw\.ParDrainProducer\.UnindexedProducer\.fold_with_calls$", "`Hb.Par.drainLeaf` (" + P + "): per item `consume(read)` THEN `full()` check; `mem::forget(self)` after the loop saw `None`"),
    (r"^RayonRaw\.ParDrainProducer\.Drop\.drop_calls$", "`Hb.Par.drainLeaf` / `takeSlots` (" + P + "): remaining items dropped in place if `needs_drop`"),
    (r"^RayonRaw\.RawParDrain\.ParallelIterator\.drive_unindexed_calls$", "`Hb.Par.drainLeaves` / `drainFinal` (" + P + "): guard running `clear_no_drop`, `mem::forget(self)`, bridge"),
    (r"^RayonRaw\.RawParDrain\.Drop\.drop_calls$", "`Hb.Par.drainFinal` (" + P + "): an undriven drain clears the table"),
    (r"^RayonRaw\.RawIntoParIter\.ParallelIterator\.drive_unindexed_calls$", "`Hb.Par.drainLeaves` (" + P + ") with the allocation freed by the guard"),
    (r"^Rayon", "parallel iterator adaptor: forwards to the raw parallel iterator (`Hb.Par.leaves`, " + P + ") with a per-item projection"),
    (r"Debug\.fmt_calls$|Display\.fmt_calls$", "formatting only (no model function)"),
]
DEFAULT_DOC = "constructor / accessor / plain forwarder (no dedicated model function; the callee is tied by its own item or by T1 `GenEq`)"

FILE_TITLES = {}


def doc_for(name):
    for (pat, text) in MODEL_MAP:
        if re.search(pat, name):
            return text
    return DEFAULT_DOC


def geneq_api_text(api):
    """A fresh Hb/Proofs/GenEqApi.lean for the tree `api` (rs_api.ApiGenerator, already run) was generated from."""
    out = [
        "/-",
        "Tie T1, call-shape tie of the API layer — `Hb/Gen/Api.lean` (regenerated by /verif/translate/rust2lean.py on every",
        "run from src/map.rs, src/set.rs, src/table.rs, src/raw_entry.rs, src/rustc_entry.rs,",
        "src/external_trait_impls/serde.rs, src/external_trait_impls/rayon/*.rs) against a LITERAL SNAPSHOT of the accepted",
        "tree (hashbrown 0.15.2).  For every function: the callee names of its body in source order (receiver kind first;",
        "closures `|{ }|`, `match{ => }`, `if{ }else{ }`, `for{ }`/`while{ => }`/`loop{ }`, `return`/`break`/`continue`,",
        "comparison / boolean operators are markers; a method call carries the rename-insensitive part of its receiver:",
        "`table.` = field chain from `self`, `$i.` = i-th parameter of the function, `%i.` = i-th parameter of the enclosing",
        "closure; arguments, types, names of locals and parameters, comments are ignored).",
        "For every type: the sorted (trait, method) pairs of its impl blocks.  Per file: the inventory of items.",
        "",
        "The doc comment of a theorem names the model function (Hb/Model/*.lean) whose steps mirror that call sequence.",
        "A behaviour-changing edit of a thin wrapper (other callee, other order, call moved into / out of a branch or a",
        "closure, new fast path, new override, removed impl) changes the generated list and the `rfl` below fails.",
        "The expected lists are literal values: never regenerate this file from a tree that has not been accepted",
        "(`rust2lean.py --snapshot-geneq-api` exists for re-recording after an accepted upstream change).",
        "-/",
        "import Hb.Gen.Api",
        "namespace Hb.GenEqApi",
        "open Hb",
        "",
    ]
    cur = None
    inv = []
    for (name, ty, val, kind, meta) in api.defs:
        if meta["file"] != cur:
            cur = meta["file"]
            out.append("/-! ### `%s` -/\n" % cur)
        thm = "api_" + name.replace(".", "_")
        doc = "`%s` (%s) — %s" % (meta["fn"], kind, doc_for(name))
        out.append("/-- %s. -/" % doc.rstrip("."))
        out.append("theorem %s :\n    Gen.Api.%s =\n%s := by rfl\n" % (thm, api.decl(name), val))
        if kind == "inventory":
            inv.append(thm)
    for thm in inv:
        out.append("#print axioms %s" % thm)
    out.append("\nend Hb.GenEqApi\n")
    return "\n".join(out)
