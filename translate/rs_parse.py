#!/usr/bin/env python3
"""Recursive-descent / Pratt parser for the Rust expression+statement subset accepted by
rust2lean.  Anything outside the subset raises TranslateError naming the offending token."""
from rs_lex import Tok, TranslateError, skip_balanced, tokenize

# AST nodes are tuples; first component is the tag.
#   ('lit', int)  ('bool', b)  ('path', (seg,...), targs|None)
#   ('un', op, e) ('bin', op, a, b) ('cast', e, ty) ('try', e) ('field', e, name)
#   ('mcall', recv, name, targs|None, (args...)) ('call', f, (args...))
#   ('tuple', (es...)) ('repeat', e, n) ('array', (es...))
#   ('if', cond, block, else|None) ('iflet', pat, e, block, else|None)
#   ('match', scrut, ((pat, guard|None, expr), ...))
#   ('block', (stmts...), tail|None)          -- `unsafe { }` is parsed to a plain block
#   ('closure', ((pat, ty|None), ...), body)
#   ('struct', path, ((field, expr), ...))
#   ('macro', name, token-texts)  ('return', e|None) ('assign', op, lhs, rhs)
# statements:
#   ('let', pat, ty|None, expr) ('expr', e) ('semi', e) ('const', name, ty, e) ('skipmacro', name)
# patterns:
#   ('p_wild',) ('p_id', name) ('p_lit', int) ('p_range', lo, hi) ('p_tuple', (ps...))
#   ('p_ts', path, (ps...)) ('p_path', path) ('p_struct', path, ((field, pat), ...))
# types:
#   ('ty', (segs...), (args...)) ('tytuple', (tys...)) ('tyref', ty) ('typtr', ty) ('tyarr', ty, n) ('tyraw', text)

BINOPS = {
    "*": 11, "/": 11, "%": 11,
    "+": 10, "-": 10,
    "<<": 9, ">>": 9,
    "&": 8, "^": 7, "|": 6,
    "==": 5, "!=": 5, "<": 5, ">": 5, "<=": 5, ">=": 5,
    "&&": 4, "||": 3,
}
ASSIGN_OPS = {"=", "+=", "-=", "*=", "/=", "%=", "&=", "|=", "^=", "<<=", ">>="}
SKIPPED_MACROS = {"debug_assert", "debug_assert_eq", "debug_assert_ne"}
BLOCKLIKE = {"if", "match", "unsafe", "loop", "while", "for"}


class Parser:
    def __init__(self, toks, where):
        self.toks = list(toks)
        if not self.toks or self.toks[-1].kind != "eof":
            line = self.toks[-1].line if self.toks else 0
            self.toks.append(Tok("eof", "<end>", line, 0))
        self.i = 0
        self.where = where

    # -- helpers -------------------------------------------------------------------
    def err(self, msg, tok=None):
        tok = tok or self.peek()
        raise TranslateError("%s: %s (token %r, source line %d)" % (self.where, msg, tok.text, tok.line))

    def peek(self, k=0):
        j = min(self.i + k, len(self.toks) - 1)
        return self.toks[j]

    def at(self, text, k=0):
        t = self.peek(k)
        return t.kind in ("punct", "id") and t.text == text

    def eat(self, text):
        if self.at(text):
            self.i += 1
            return True
        return False

    def expect(self, text):
        if not self.eat(text):
            self.err("expected %r" % text)

    def ident(self):
        t = self.peek()
        if t.kind != "id":
            self.err("expected identifier")
        self.i += 1
        return t.text

    def at_end(self):
        return self.peek().kind == "eof"

    # -- operators with split '>' --------------------------------------------------
    def peek_binop(self):
        """Return (op, ntoks) for a binary/assign operator at the cursor, else None."""
        t = self.peek()
        if t.kind != "punct":
            return None
        if t.text == ">":
            n1 = self.peek(1)
            if t.joint and n1.kind == "punct" and n1.pos == t.pos + 1:
                if n1.text == ">":
                    n2 = self.peek(2)
                    if n1.joint and n2.kind == "punct" and n2.text == "=" and n2.pos == n1.pos + 1:
                        return (">>=", 3)
                    return (">>", 2)
                if n1.text == "=":
                    return (">=", 2)
                if n1.text == "==":      # '>' '==' cannot happen in valid Rust
                    return (">", 1)
            return (">", 1)
        if t.text in BINOPS or t.text in ASSIGN_OPS:
            return (t.text, 1)
        return None

    # -- types ---------------------------------------------------------------------
    def parse_type(self):
        t = self.peek()
        if self.eat("&"):
            if self.peek().kind == "life":
                self.i += 1
            self.eat("mut")
            return ("tyref", self.parse_type())
        if self.at("*") and (self.at("mut", 1) or self.at("const", 1)):
            # raw pointer `*mut T` / `*const T` (tie T1: an abstract address, see rs_trans `("ptr", pointee)`)
            self.i += 2
            return ("typtr", self.parse_type())
        if self.eat("("):
            tys = []
            while not self.at(")"):
                tys.append(self.parse_type())
                if not self.eat(","):
                    break
            self.expect(")")
            return ("tytuple", tuple(tys))
        if self.eat("["):
            ty = self.parse_type()
            n = None
            if self.eat(";"):
                n = self.parse_expr()
            self.expect("]")
            return ("tyarr", ty, n)
        if t.kind == "id" and t.text not in ("dyn", "impl", "fn", "unsafe", "extern"):
            segs = [self.ident()]
            args = ()
            while True:
                if self.at("::") and self.peek(1).kind == "id":
                    self.i += 1
                    segs.append(self.ident())
                    continue
                if self.at("<") or (self.at("::") and self.at("<", 1)):
                    self.eat("::")
                    self.expect("<")
                    a = []
                    while not self.at(">"):
                        if self.peek().kind == "life":
                            self.i += 1
                        else:
                            a.append(self.parse_type())
                        if not self.eat(","):
                            break
                    self.expect(">")
                    args = tuple(a)
                    continue
                break
            return ("ty", tuple(segs), args)
        self.err("unsupported type syntax")

    # -- patterns ------------------------------------------------------------------
    def parse_pat(self):
        t = self.peek()
        if t.kind == "id" and t.text == "_":
            self.i += 1
            return ("p_wild",)
        if t.kind == "int":
            self.i += 1
            lo = t.val
            if self.eat("..="):
                hi = self.peek()
                if hi.kind != "int":
                    self.err("range pattern needs integer upper bound")
                self.i += 1
                return ("p_range", lo, hi.val)
            if self.at("..") or self.at("..."):
                self.err("only inclusive `a..=b` range patterns are supported")
            return ("p_lit", lo)
        if self.eat("("):
            ps = []
            while not self.at(")"):
                ps.append(self.parse_pat())
                if not self.eat(","):
                    break
            self.expect(")")
            return ("p_tuple", tuple(ps))
        if t.kind == "id":
            if t.text in ("ref", "box"):
                self.err("unsupported pattern")
            if t.text == "mut":
                self.i += 1
                return ("p_id", self.ident())
            segs = [self.ident()]
            while self.at("::") and self.peek(1).kind == "id":
                self.i += 1
                segs.append(self.ident())
            path = tuple(segs)
            if self.eat("("):
                ps = []
                while not self.at(")"):
                    ps.append(self.parse_pat())
                    if not self.eat(","):
                        break
                self.expect(")")
                return ("p_ts", path, tuple(ps))
            if self.at("{"):
                self.i += 1
                fs = []
                while not self.at("}"):
                    if self.at(".."):
                        self.err("`..` in struct patterns is not supported")
                    self.eat("mut")
                    f = self.ident()
                    if self.eat(":"):
                        fs.append((f, self.parse_pat()))
                    else:
                        fs.append((f, ("p_id", f)))
                    if not self.eat(","):
                        break
                self.expect("}")
                return ("p_struct", path, tuple(fs))
            if len(path) == 1 and path[0][0].islower():
                if self.at("@"):
                    self.err("`@` patterns are not supported")
                return ("p_id", path[0])
            return ("p_path", path)
        self.err("unsupported pattern")

    # -- expressions ---------------------------------------------------------------
    def parse_expr(self, minbp=0, no_struct=False):
        lhs = self.parse_unary(no_struct)
        while True:
            if self.at("as"):
                if 12 < minbp:
                    break
                self.i += 1
                lhs = ("cast", lhs, self.parse_type())
                continue
            op = self.peek_binop()
            if op is None:
                break
            op, n = op
            if op in ASSIGN_OPS:
                if 1 < minbp:
                    break
                self.i += n
                rhs = self.parse_expr(1, no_struct)
                lhs = ("assign", op, lhs, rhs)
                continue
            bp = BINOPS[op]
            if bp < minbp:
                break
            self.i += n
            rhs = self.parse_expr(bp + 1, no_struct)
            if bp == 5:
                nxt = self.peek_binop()
                if nxt and nxt[0] in BINOPS and BINOPS[nxt[0]] == 5:
                    self.err("chained comparison operators")
            lhs = ("bin", op, lhs, rhs)
        if self.at("..") or self.at("..="):
            self.err("range expressions are not supported")
        return lhs

    def parse_unary(self, no_struct):
        t = self.peek()
        if t.kind == "punct" and t.text in ("!", "-"):
            self.i += 1
            return ("un", t.text, self.parse_unary_operand(no_struct))
        if t.kind == "punct" and t.text in ("*", "&", "&&"):
            self.err("reference/dereference expressions are not supported")
        return self.parse_postfix(no_struct)

    def parse_unary_operand(self, no_struct):
        # unary binds tighter than `as` and every binary operator
        return self.parse_unary(no_struct)

    def parse_args(self):
        self.expect("(")
        args = []
        while not self.at(")"):
            args.append(self.parse_expr())
            if not self.eat(","):
                break
        self.expect(")")
        return tuple(args)

    def parse_turbofish(self):
        self.expect("<")
        a = []
        while not self.at(">"):
            if self.peek().kind == "life":
                self.i += 1
            else:
                a.append(self.parse_type())
            if not self.eat(","):
                break
        self.expect(">")
        return tuple(a)

    def parse_postfix(self, no_struct):
        e = self.parse_primary(no_struct)
        while True:
            if self.eat("?"):
                e = ("try", e)
                continue
            if self.at("("):
                e = ("call", e, self.parse_args())
                continue
            if self.at("["):
                self.err("index expressions are not supported")
            if self.at("."):
                nt = self.peek(1)
                if nt.kind == "int":
                    self.i += 2
                    e = ("field", e, str(nt.val))
                    continue
                if nt.kind == "float":       # `x.0.0` lexes as float "0.0"
                    self.i += 2
                    a, b = nt.text.split(".")
                    e = ("field", ("field", e, a), b)
                    continue
                if nt.kind == "id":
                    self.i += 2
                    name = nt.text
                    if name == "await":
                        self.err("`.await` is not supported", nt)
                    targs = None
                    if self.at("::"):
                        self.i += 1
                        targs = self.parse_turbofish()
                    if self.at("("):
                        e = ("mcall", e, name, targs, self.parse_args())
                    else:
                        if targs is not None:
                            self.err("turbofish without call")
                        e = ("field", e, name)
                    continue
                self.err("unexpected token after '.'", nt)
            break
        return e

    def parse_block(self):
        """'{' stmts '}' -> ('block', stmts, tail)"""
        self.expect("{")
        stmts, tail = self.parse_stmts("}")
        self.expect("}")
        return ("block", tuple(stmts), tail)

    def parse_primary(self, no_struct):
        t = self.peek()
        if t.kind == "int":
            self.i += 1
            return ("lit", t.val)
        if t.kind in ("float", "str", "char", "life"):
            self.err("%s literals are not supported" % t.kind)
        if t.kind == "punct":
            if t.text == "(":
                self.i += 1
                if self.eat(")"):
                    return ("tuple", ())
                e = self.parse_expr()
                if self.eat(")"):
                    return e
                es = [e]
                while self.eat(","):
                    if self.at(")"):
                        break
                    es.append(self.parse_expr())
                self.expect(")")
                return ("tuple", tuple(es))
            if t.text == "[":
                self.i += 1
                if self.eat("]"):
                    return ("array", ())
                e = self.parse_expr()
                if self.eat(";"):
                    n = self.parse_expr()
                    self.expect("]")
                    return ("repeat", e, n)
                es = [e]
                while self.eat(","):
                    if self.at("]"):
                        break
                    es.append(self.parse_expr())
                self.expect("]")
                return ("array", tuple(es))
            if t.text == "{":
                return self.parse_block()
            if t.text in ("|", "||"):
                return self.parse_closure()
            self.err("unexpected token in expression")
        if t.kind != "id":
            self.err("unexpected token in expression")
        kw = t.text
        if kw in ("true", "false"):
            self.i += 1
            return ("bool", kw == "true")
        if kw == "if":
            return self.parse_if()
        if kw == "match":
            return self.parse_match()
        if kw == "unsafe":
            self.i += 1
            return self.parse_block()
        if kw == "move" and (self.at("|", 1) or self.at("||", 1)):
            self.i += 1
            return self.parse_closure()
        if kw == "return":
            self.i += 1
            if self.at(";") or self.at("}") or self.at(",") or self.at_end():
                return ("return", None)
            return ("return", self.parse_expr())
        if kw in ("loop", "while", "for", "break", "continue", "async", "let", "const", "static",
                  "fn", "struct", "enum", "impl", "use", "mod", "trait", "type", "yield", "dyn"):
            self.err("`%s` is not supported inside translated bodies" % kw)
        # path
        segs = [self.ident()]
        targs = None
        while self.at("::"):
            if self.at("<", 1):
                self.i += 1
                targs = self.parse_turbofish()
                continue
            if self.peek(1).kind == "id":
                self.i += 1
                segs.append(self.ident())
                targs = None if targs is None else targs
                continue
            self.err("unexpected token in path", self.peek(1))
        path = ("path", tuple(segs), targs)
        if self.at("!"):
            # macro invocation
            nt = self.peek(1)
            if nt.kind == "punct" and nt.text in ("(", "[", "{"):
                self.i += 1
                j = skip_balanced(self.toks, self.i)
                inner = self.toks[self.i + 1:j - 1]
                self.i = j
                return ("macro", "::".join(segs), tuple(x.text for x in inner))
        if self.at("{") and not no_struct and segs[-1][0].isupper():
            self.i += 1
            fs = []
            while not self.at("}"):
                if self.at(".."):
                    self.err("struct update syntax `..base` is not supported")
                f = self.ident()
                if self.eat(":"):
                    fs.append((f, self.parse_expr()))
                else:
                    fs.append((f, ("path", (f,), None)))
                if not self.eat(","):
                    break
            self.expect("}")
            return ("struct", tuple(segs), tuple(fs))
        return path

    def parse_closure(self):
        params = []
        if self.eat("||"):
            pass
        else:
            self.expect("|")
            while not self.at("|"):
                p = self.parse_pat()
                ty = None
                if self.eat(":"):
                    ty = self.parse_type()
                params.append((p, ty))
                if not self.eat(","):
                    break
            self.expect("|")
        if self.at("->"):
            self.err("closures with explicit return types are not supported")
        body = self.parse_expr()
        return ("closure", tuple(params), body)

    def parse_if(self):
        self.expect("if")
        if self.at("let"):
            self.i += 1
            pat = self.parse_pat()
            self.expect("=")
            e = self.parse_expr(no_struct=True)
            if self.at("&&"):
                self.err("let-chains are not supported")
            blk = self.parse_block()
            els = self.parse_else()
            return ("iflet", pat, e, blk, els)
        cond = self.parse_expr(no_struct=True)
        blk = self.parse_block()
        els = self.parse_else()
        return ("if", cond, blk, els)

    def parse_else(self):
        if self.eat("else"):
            if self.at("if"):
                return self.parse_if()
            return self.parse_block()
        return None

    def parse_match(self):
        self.expect("match")
        scrut = self.parse_expr(no_struct=True)
        self.expect("{")
        arms = []
        while not self.at("}"):
            pat = self.parse_pat()
            if self.at("|"):
                self.err("or-patterns are not supported")
            guard = None
            if self.eat("if"):
                guard = self.parse_expr()
            self.expect("=>")
            body = self.parse_expr()
            arms.append((pat, guard, body))
            if not self.eat(","):
                if body[0] in ("block", "if", "iflet", "match") and not self.at("}"):
                    continue
                break
        self.expect("}")
        return ("match", scrut, tuple(arms))

    # -- statements ----------------------------------------------------------------
    def parse_stmts(self, closer):
        """Parse statements until `closer` (or eof if closer is None)."""
        stmts, tail = [], None

        def done():
            return self.at_end() if closer is None else self.at(closer)

        while not done():
            if self.at_end():
                self.err("unexpected end of body")
            if tail is not None:
                self.err("expression without `;` is followed by more code")
            t = self.peek()
            if self.eat(";"):
                continue
            if t.kind == "punct" and t.text == "#":
                self.err("attributes inside translated bodies are not supported")
            if self.at("let"):
                self.i += 1
                pat = self.parse_pat()
                ty = None
                if self.eat(":"):
                    ty = self.parse_type()
                if not self.eat("="):
                    self.err("`let` without initializer is not supported")
                e = self.parse_expr()
                if self.at("else"):
                    self.err("let-else is not supported")
                self.expect(";")
                stmts.append(("let", pat, ty, e))
                continue
            if self.at("const") and self.peek(1).kind == "id" and self.at(":", 2):
                self.i += 1
                name = self.ident()
                self.expect(":")
                ty = self.parse_type()
                self.expect("=")
                e = self.parse_expr()
                self.expect(";")
                stmts.append(("const", name, ty, e))
                continue
            e = self.parse_expr()
            if e[0] == "macro" and e[1] in SKIPPED_MACROS:
                self.eat(";")
                stmts.append(("skipmacro", e[1]))
                continue
            if self.eat(";"):
                stmts.append(("semi", e))
                continue
            if done():
                tail = e
                continue
            if e[0] in ("if", "iflet", "match", "block"):
                stmts.append(("semi", e))    # block-like expression statement
                continue
            self.err("expected `;` or end of block")
        return stmts, tail


def parse_body(toks, where):
    p = Parser(toks, where)
    stmts, tail = p.parse_stmts(None)
    return ("block", tuple(stmts), tail)


def parse_expr_text(text, where="<pattern>"):
    p = Parser(tokenize(text), where)
    e = p.parse_expr()
    if not p.at_end():
        p.err("trailing tokens in expression")
    return e


def parse_expr_toks(toks, where):
    p = Parser(toks, where)
    e = p.parse_expr()
    if not p.at_end():
        p.err("trailing tokens in expression")
    return e


def parse_type_toks(toks, where):
    p = Parser(toks, where)
    ty = p.parse_type()
    if not p.at_end():
        p.err("trailing tokens in type")
    return ty


def parse_params(toks, where):
    """fn parameter list -> (self_kind|None, [(pat, ty)])  self_kind in {'self','&self','&mut self'}"""
    p = Parser(toks, where)
    self_kind = None
    params = []
    first = True
    while not p.at_end():
        if first:
            j, amp, mut = 0, False, False
            if p.at("&"):
                amp, j = True, 1
                if p.peek(j).kind == "life":
                    j += 1
            if p.at("mut", j):
                mut = True
                j += 1
            if p.at("self", j) and not p.at(":", j + 1):
                p.i += j + 1
                self_kind = "&mut self" if (amp and mut) else ("&self" if amp else "self")
                first = False
                if not p.eat(","):
                    break
                continue
        first = False
        pat = p.parse_pat()
        p.expect(":")
        ty = p.parse_type_lenient()
        params.append((pat, ty))
        if not p.eat(","):
            break
    if not p.at_end():
        p.err("unexpected token in parameter list")
    return self_kind, params


def _parse_type_lenient(self):
    """Parse a type; if the syntax is outside the subset, swallow tokens up to the next
    top-level ',' and return ('tyraw', text).  Only used for parameter lists (a parameter
    of an unsupported type is an error only if the body actually uses it)."""
    start = self.i
    try:
        return self.parse_type()
    except TranslateError:
        self.i = start
        depth = 0
        out = []
        while not self.at_end():
            t = self.peek()
            if t.kind == "punct":
                if t.text in ("(", "[", "{"):
                    j = skip_balanced(self.toks, self.i)
                    out.extend(x.text for x in self.toks[self.i:j])
                    self.i = j
                    continue
                if t.text == "<":
                    depth += 1
                elif t.text == ">" and depth:
                    depth -= 1
                elif t.text == "," and depth == 0:
                    break
            out.append(t.text)
            self.i += 1
        return ("tyraw", " ".join(out))


Parser.parse_type_lenient = _parse_type_lenient
