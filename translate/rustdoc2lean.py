#!/usr/bin/env python3
"""rustdoc2lean.py -- property C16: compiler-derived Send/Sync and borrow tables.

  python3 /verif/translate/rustdoc2lean.py --repo /repo --out /verif/lean/Hb/Gen/Markers.lean
                                            [--json-cache DIR] [--json FILE] [--dump FILE]

Runs `cargo +nightly rustdoc ... --output-format json --document-private-items` on the working
tree under --repo (never writes into the repo: --target-dir is a cache dir under
/verif/.cache/rustdoc) and emits a Lean file (namespace Hb.Gen) with

  * publicTypes : every public struct/enum reachable through `hashbrown::hash_map`,
                  `hashbrown::hash_set`, `hashbrown::hash_table` (glob re-exports followed, rayon
                  sub-modules included), with its generic *type* parameters;
  * sendImpls / syncImpls : one record per `impl Send/Sync for T` the compiler knows --
                  synthesised auto-trait impls (`is_synthetic`) or manual `unsafe impl`s --
                  with the `Send`/`Sync` bounds it places on the type's parameters
                  (parameter names are normalised to the names used in the *type definition*,
                  by position in the impl's `for` type);  a type with no positive impl is
                  listed `negative := true`;
  * methods     : every public inherent method of those types whose return type mentions a
                  lifetime or a reference, with the receiver form and, for each lifetime in the
                  return type, where it comes from.

Anything the script cannot reduce to "<type parameter> : Send|Sync" is rendered verbatim into the
bounds list (e.g. ("Vec<K>", "Send")) -- that string is not a parameter name, so the Lean checks
fail *closed* and a human has to look.

Only the python standard library is used.
"""
import argparse
import hashlib
import json
import os
import subprocess
import sys

FEATURES = "rayon,serde,raw-entry,rustc-internal-api"
PUBLIC_MODULES = ["hash_map", "hash_set", "hash_table"]
SUPPORTED_FORMATS = range(37, 80)  # tested with 57


# --------------------------------------------------------------------------- cargo / json

def run_rustdoc(repo, cache_dir):
    os.makedirs(cache_dir, exist_ok=True)
    cmd = ["cargo", "+nightly", "rustdoc", "--offline", "--lib", "--features", FEATURES,
           "--manifest-path", os.path.join(repo, "Cargo.toml"), "--target-dir", cache_dir,
           "--", "-Z", "unstable-options", "--output-format", "json", "--document-private-items"]
    out = os.path.join(cache_dir, "doc", "hashbrown.json")
    if os.path.exists(out):
        os.remove(out)  # never read a stale answer
    p = subprocess.run(cmd, stdout=subprocess.PIPE, stderr=subprocess.STDOUT, text=True)
    if p.returncode != 0 or not os.path.exists(out):
        sys.stderr.write(p.stdout)
        sys.exit("rustdoc2lean: cargo rustdoc failed (exit %d)" % p.returncode)
    return out, " ".join(cmd)


# --------------------------------------------------------------------------- type rendering

def render_type(t):
    """Compact, deterministic rendering of a rustdoc-json Type (for diagnostics only)."""
    if t is None:
        return "()"
    if isinstance(t, str):
        return t
    (k, v), = t.items() if len(t) == 1 else (("?", t),)
    if k == "generic":
        return v
    if k == "primitive":
        return v
    if k == "resolved_path":
        return v["path"] + render_args(v.get("args"))
    if k == "borrowed_ref":
        lt = (v["lifetime"] + " ") if v["lifetime"] else ""
        return "&" + lt + ("mut " if v["is_mutable"] else "") + render_type(v["type"])
    if k == "raw_pointer":
        return "*" + ("mut " if v["is_mutable"] else "const ") + render_type(v["type"])
    if k == "tuple":
        return "(" + ", ".join(render_type(x) for x in v) + ")"
    if k == "slice":
        return "[" + render_type(v) + "]"
    if k == "array":
        return "[" + render_type(v["type"]) + "; " + str(v["len"]) + "]"
    if k == "qualified_path":
        return "<" + render_type(v["self_type"]) + " as " + (v["trait"]["path"] if v.get("trait") else "_") + ">::" + v["name"]
    if k == "impl_trait":
        return "impl " + " + ".join(render_bound(b) for b in v)
    if k == "dyn_trait":
        s = "dyn " + " + ".join(x["trait"]["path"] + render_args(x["trait"].get("args")) for x in v["traits"])
        if v.get("lifetime"):
            s += " + " + v["lifetime"]
        return s
    if k == "function_pointer":
        return "fn(..)"
    if k == "infer":
        return "_"
    return json.dumps(t, sort_keys=True)


def render_args(a):
    if not a:
        return ""
    if "angle_bracketed" in a:
        xs = []
        for g in a["angle_bracketed"]["args"]:
            if isinstance(g, str):
                xs.append("_")
            elif "lifetime" in g:
                xs.append(g["lifetime"])
            elif "type" in g:
                xs.append(render_type(g["type"]))
            elif "const" in g:
                xs.append(str(g["const"].get("expr", "_")))
            else:
                xs.append("?")
        return "<" + ", ".join(xs) + ">" if xs else ""
    if "parenthesized" in a:
        p = a["parenthesized"]
        s = "(" + ", ".join(render_type(x) for x in p["inputs"]) + ")"
        if p.get("output"):
            s += " -> " + render_type(p["output"])
        return s
    return "<..>"


def render_bound(b):
    if "trait_bound" in b:
        tb = b["trait_bound"]
        m = {"none": "", "maybe": "?", "maybe_const": "~const "}.get(tb.get("modifier", "none"), "")
        return m + tb["trait"]["path"] + render_args(tb["trait"].get("args"))
    if "outlives" in b:
        return b["outlives"]
    return "use<..>"


# --------------------------------------------------------------------------- lifetimes in a type

def lifetimes_in(t, out, bound=frozenset(), hr_ctx=False):
    """Append to `out` every lifetime occurrence in type `t`.

    Elided reference lifetimes and `'_` are reported as "'_".  Lifetimes bound by a `for<'x>`
    binder, and elided lifetimes inside `Fn(..) -> ..` sugar or `fn(..)` pointer types (which are
    higher-ranked, local to that signature), are *not* reported: they cannot name a borrow of the
    collection."""
    if t is None or isinstance(t, str):
        return

    def lt(name):
        if name is None or name == "'_":
            if not hr_ctx:
                out.append("'_")
        elif name not in bound:
            out.append(name)

    if not isinstance(t, dict) or len(t) != 1:
        return
    (k, v), = t.items()
    if k == "borrowed_ref":
        lt(v["lifetime"])
        lifetimes_in(v["type"], out, bound, hr_ctx)
    elif k == "resolved_path":
        args_lifetimes(v.get("args"), out, bound, hr_ctx)
    elif k in ("raw_pointer",):
        lifetimes_in(v["type"], out, bound, hr_ctx)
    elif k == "tuple":
        for x in v:
            lifetimes_in(x, out, bound, hr_ctx)
    elif k == "slice":
        lifetimes_in(v, out, bound, hr_ctx)
    elif k == "array":
        lifetimes_in(v["type"], out, bound, hr_ctx)
    elif k == "pat":
        lifetimes_in(v.get("type"), out, bound, hr_ctx)
    elif k == "qualified_path":
        lifetimes_in(v["self_type"], out, bound, hr_ctx)
        if v.get("trait"):
            args_lifetimes(v["trait"].get("args"), out, bound, hr_ctx)
        args_lifetimes(v.get("args"), out, bound, hr_ctx)
    elif k == "impl_trait":
        for b in v:
            bound_lifetimes(b, out, bound, hr_ctx)
    elif k == "dyn_trait":
        for tr in v["traits"]:
            b2 = bound | {p["name"] for p in tr.get("generic_params", [])}
            args_lifetimes(tr["trait"].get("args"), out, b2, hr_ctx)
        if v.get("lifetime"):
            lt(v["lifetime"])
    elif k == "function_pointer":
        b2 = bound | {p["name"] for p in v.get("generic_params", [])}
        for _, x in v["sig"]["inputs"]:
            lifetimes_in(x, out, b2, True)
        lifetimes_in(v["sig"].get("output"), out, b2, True)
    # generic / primitive / infer: nothing


def args_lifetimes(a, out, bound, hr_ctx):
    if not a:
        return
    if "angle_bracketed" in a:
        for g in a["angle_bracketed"]["args"]:
            if isinstance(g, str):
                continue
            if "lifetime" in g:
                n = g["lifetime"]
                if n == "'_":
                    if not hr_ctx:
                        out.append("'_")
                elif n not in bound:
                    out.append(n)
            elif "type" in g:
                lifetimes_in(g["type"], out, bound, hr_ctx)
        for c in a["angle_bracketed"].get("constraints", []):
            args_lifetimes(c.get("args"), out, bound, hr_ctx)
            b = c.get("binding", {})
            if "equality" in b and isinstance(b["equality"], dict) and "type" in b["equality"]:
                lifetimes_in(b["equality"]["type"], out, bound, hr_ctx)
            for bb in b.get("constraint", []) if isinstance(b.get("constraint"), list) else []:
                bound_lifetimes(bb, out, bound, hr_ctx)
    elif "parenthesized" in a:
        p = a["parenthesized"]
        for x in p["inputs"]:
            lifetimes_in(x, out, bound, True)
        lifetimes_in(p.get("output"), out, bound, True)


def bound_lifetimes(b, out, bound, hr_ctx):
    if "trait_bound" in b:
        tb = b["trait_bound"]
        b2 = bound | {p["name"] for p in tb.get("generic_params", [])}
        args_lifetimes(tb["trait"].get("args"), out, b2, hr_ctx)
    elif "outlives" in b:
        n = b["outlives"]
        if n == "'_":
            if not hr_ctx:
                out.append("'_")
        elif n not in bound:
            out.append(n)


def has_reference(t):
    s = json.dumps(t)
    return '"borrowed_ref"' in s


# --------------------------------------------------------------------------- crate walk

class Crate:
    def __init__(self, path):
        with open(path) as f:
            self.d = json.load(f)
        self.idx = self.d["index"]
        self.fmt = self.d.get("format_version")
        if self.fmt not in SUPPORTED_FORMATS:
            sys.exit("rustdoc2lean: unsupported rustdoc json format_version %r" % self.fmt)

    def item(self, i):
        return self.idx.get(str(i))

    def trait_is(self, tref, name):
        """Is `tref` (a Path) core::marker::<name>?"""
        if tref is None:
            return False
        p = self.d["paths"].get(str(tref["id"]))
        if p is not None:
            return p["path"][-1] == name and p["path"][0] in ("core", "std") and p["kind"] == "trait"
        return tref["path"].split("::")[-1] == name

    def public_types(self):
        root = self.item(self.d["root"])
        mods = {}
        for j in root["inner"]["module"]["items"]:
            it = self.item(j)
            if it and it["visibility"] == "public" and "module" in it["inner"] and it["name"] in PUBLIC_MODULES:
                mods[it["name"]] = j
        missing = [m for m in PUBLIC_MODULES if m not in mods]
        if missing:
            sys.exit("rustdoc2lean: public modules not found: %s" % missing)
        out = []
        for m in PUBLIC_MODULES:
            self._walk(mods[m], m + "::", out, set())
        # de-duplicate (a type could be reachable twice), keep first path
        seen, res = set(), []
        for name, i, kind in out:
            if name in seen:
                continue
            seen.add(name)
            res.append((name, i, kind))
        return res

    def _walk(self, mid, prefix, out, visiting):
        if mid in visiting:
            return
        visiting = visiting | {mid}
        m = self.item(mid)
        for j in m["inner"]["module"]["items"]:
            it = self.item(j)
            if it is None or it["visibility"] != "public":
                continue
            inner = it["inner"]
            k = next(iter(inner))
            if k == "use":
                u = inner["use"]
                tgt = self.item(u["id"]) if u.get("id") is not None else None
                if tgt is None:
                    continue  # external re-export (e.g. equivalent::Equivalent)
                tk = next(iter(tgt["inner"]))
                if u["is_glob"]:
                    if tk == "module":
                        self._walk(u["id"], prefix, out, visiting)
                elif tk in ("struct", "enum", "union"):
                    out.append((prefix + u["name"], u["id"], tk))
                elif tk == "module":
                    self._walk(u["id"], prefix + u["name"] + "::", out, visiting)
            elif k == "module":
                self._walk(j, prefix + it["name"] + "::", out, visiting)
            elif k in ("struct", "enum", "union"):
                out.append((prefix + it["name"], j, k))


def type_params(generics):
    return [p["name"] for p in generics["params"] if "type" in p["kind"]]


def all_params(generics):
    return [(p["name"], next(iter(p["kind"]))) for p in generics["params"]]


def marker_bounds(crate, im, def_generics):
    """Send/Sync bounds of an impl, with parameter names normalised to the type definition."""
    # positional renaming: impl's `for` type args -> definition's parameter names
    ren = {}
    extra = []
    for_t = im["for"]
    rp = for_t.get("resolved_path")
    defp = all_params(def_generics)
    if rp and rp.get("args") and "angle_bracketed" in rp["args"]:
        args = rp["args"]["angle_bracketed"]["args"]
        for pos, g in enumerate(args):
            if pos >= len(defp):
                break
            dname, dkind = defp[pos]
            if dkind != "type" or isinstance(g, str):
                continue
            if "type" in g and isinstance(g["type"], dict) and "generic" in g["type"]:
                ren.setdefault(g["type"]["generic"], dname)
            elif "type" in g:
                # impl only for a specific instantiation of this parameter
                extra.append((dname, "=" + render_type(g["type"])))
    res = []

    def add(tname, b):
        if "trait_bound" not in b:
            return
        tb = b["trait_bound"]
        if tb.get("modifier", "none") != "none":
            return
        for nm in ("Send", "Sync"):
            if crate.trait_is(tb["trait"], nm):
                res.append((tname, nm))

    g = im["generics"]
    for p in g["params"]:
        if "type" in p["kind"]:
            for b in p["kind"]["type"]["bounds"]:
                add(ren.get(p["name"], "?" + p["name"]), b)
    for w in g["where_predicates"]:
        if "bound_predicate" in w:
            bp = w["bound_predicate"]
            t = bp["type"]
            if isinstance(t, dict) and "generic" in t:
                tn = ren.get(t["generic"], "?" + t["generic"])
            else:
                tn = render_type(t)
            for b in bp["bounds"]:
                add(tn, b)
    # stable order, no duplicates
    out = []
    for x in res + extra:
        if x not in out:
            out.append(x)
    order = {n: i for i, n in enumerate(type_params(def_generics))}
    out.sort(key=lambda x: (order.get(x[0], 99), x[0], x[1]))
    return out


def collect_markers(crate, types):
    send, sync = [], []
    for name, i, kind in types:
        it = crate.item(i)
        body = it["inner"][kind]
        found = {"Send": [], "Sync": []}
        for j in body["impls"]:
            imi = crate.item(j)
            if imi is None:
                continue
            im = imi["inner"]["impl"]
            if im.get("blanket_impl") is not None:
                continue
            for nm in ("Send", "Sync"):
                if crate.trait_is(im["trait"], nm):
                    rec = dict(typeName=name, negative=bool(im["is_negative"]),
                               synthetic=bool(im["is_synthetic"]),
                               bounds=[] if im["is_negative"] else marker_bounds(crate, im, body["generics"]))
                    found[nm].append(rec)
        for nm, dst in (("Send", send), ("Sync", sync)):
            if not found[nm]:
                dst.append(dict(typeName=name, negative=True, synthetic=False, bounds=[]))
            else:
                dst.extend(found[nm])
    return send, sync


def receiver_of(sig, ):
    if not sig["inputs"] or sig["inputs"][0][0] != "self":
        return "none", None
    t = sig["inputs"][0][1]
    if t == {"generic": "Self"}:
        return "self", t
    if "borrowed_ref" in t and t["borrowed_ref"]["type"] == {"generic": "Self"}:
        return ("&mut self" if t["borrowed_ref"]["is_mutable"] else "&self"), t
    return "self: " + render_type(t), t


def outlives_upper_bounds(generics):
    """'b -> set of lifetimes 'x with a declared `'x: 'b` (so 'b is no longer than 'x)."""
    ub = {}
    for p in generics["params"]:
        if "lifetime" in p["kind"]:
            for o in p["kind"]["lifetime"]["outlives"]:
                ub.setdefault(o, set()).add(p["name"])          # 'p: 'o
    for w in generics["where_predicates"]:
        if "lifetime_predicate" in w:
            lp = w["lifetime_predicate"]
            for o in lp["outlives"]:
                ub.setdefault(o, set()).add(lp["lifetime"])
    return ub


def collect_methods(crate, types):
    res = []
    for name, i, kind in types:
        it = crate.item(i)
        body = it["inner"][kind]
        for j in body["impls"]:
            imi = crate.item(j)
            if imi is None:
                continue
            im = imi["inner"]["impl"]
            if im["trait"] is not None:
                continue
            self_lts = []
            lifetimes_in(im["for"], self_lts)
            self_lts = {x for x in self_lts if x != "'_"}
            impl_lt_params = {p["name"] for p in im["generics"]["params"] if "lifetime" in p["kind"]}
            for mid in im["items"]:
                mi = crate.item(mid)
                if mi is None or mi["visibility"] != "public" or "function" not in mi["inner"]:
                    continue
                fn = mi["inner"]["function"]
                sig = fn["sig"]
                out_t = sig.get("output")
                if out_t is None:
                    continue
                ret = []
                lifetimes_in(out_t, ret)
                if not ret and not has_reference(out_t):
                    continue
                recv, recv_t = receiver_of(sig)
                recv_lts = []
                if recv_t is not None:
                    lifetimes_in(recv_t, recv_lts)
                arg_lts, n_arg_positions = [], 0
                for an, at in sig["inputs"]:
                    if an == "self":
                        continue
                    tmp = []
                    lifetimes_in(at, tmp)
                    arg_lts += tmp
                n_in_positions = len(recv_lts) + len(arg_lts)
                meth_lt_params = {p["name"] for p in fn["generics"]["params"] if "lifetime" in p["kind"]}
                ub = outlives_upper_bounds(fn["generics"])
                for k2, v2 in outlives_upper_bounds(im["generics"]).items():
                    ub.setdefault(k2, set()).update(v2)
                # unique, in order of first appearance
                uniq = []
                for x in ret:
                    if x not in uniq:
                        uniq.append(x)

                def tied(lt, depth=0):
                    if lt in self_lts:
                        return "self-type"
                    if lt in recv_lts:
                        return "receiver"
                    if lt in arg_lts:
                        return "arg"
                    return None

                srcs = []
                for lt in uniq:
                    if lt == "'_":
                        if recv in ("&self", "&mut self") or (recv_t is not None and recv_lts):
                            srcs.append("elided-receiver")
                        elif recv == "self" and self_lts:
                            # `'_` in the return type of a by-value method cannot be elided from
                            # self; rustc would need exactly one input lifetime position
                            srcs.append("elided-arg" if n_in_positions == 1 else "free")
                        elif n_in_positions == 1:
                            srcs.append("elided-arg")
                        else:
                            srcs.append("free")
                    elif lt == "'static":
                        srcs.append("static")
                    else:
                        s = tied(lt)
                        if s is None:
                            # bounded above by a tied lifetime?  ('x: lt with 'x tied)
                            for x in sorted(ub.get(lt, ())):
                                if tied(x) is not None:
                                    s = "outlived-by-" + tied(x)
                                    break
                        if s is None:
                            s = "free-method" if lt in meth_lt_params else (
                                "free-impl" if lt in impl_lt_params else "free")
                        srcs.append(s)
                res.append(dict(typeName=name, methodName=mi["name"], receiver=recv,
                                returnLifetimes=uniq, lifetimeSources=srcs,
                                returnType=render_type(out_t),
                                retMut=('"is_mutable": true' in json.dumps(out_t))))
    res.sort(key=lambda r: (r["typeName"], r["methodName"], r["receiver"], r["returnType"]))
    return res


# --------------------------------------------------------------------------- Lean emission

def lstr(s):
    return '"' + s.replace("\\", "\\\\").replace('"', '\\"') + '"'


def lbool(b):
    return "true" if b else "false"


def llist(xs):
    return "[" + ", ".join(xs) + "]"


def emit(crate, types, send, sync, methods, cmdline, repo):
    L = []
    w = L.append
    w("/-")
    w("GENERATED by /verif/translate/rustdoc2lean.py -- DO NOT EDIT.")
    w("Source tree : %s   (hashbrown %s)" % (repo, crate.d.get("crate_version")))
    w("Produced by : %s" % cmdline)
    w("rustdoc json format_version %s.  Regenerated on every run; property C16 is proved over these" % crate.fmt)
    w("tables in Hb/Props/C16.lean against the hand-written requirement table Hb/Props/C16Req.lean.")
    w("-/")
    w("namespace Hb.Gen")
    w("")
    w("/-- One `impl Send for T` / `impl Sync for T` as the compiler sees it (synthesised auto-trait")
    w("impl or manual `unsafe impl`).  `bounds` lists every `Send`/`Sync` bound the impl places on a")
    w("generic parameter of `T` (names as in `T`'s definition).  `negative := true`: no positive impl. -/")
    w("structure MarkerImpl where")
    w("  typeName  : String")
    w("  negative  : Bool")
    w("  synthetic : Bool")
    w("  bounds    : List (String × String)")
    w("  deriving Repr, DecidableEq")
    w("")
    w("/-- A public inherent method whose return type mentions a lifetime or a reference.")
    w("`lifetimeSources[i]` says where `returnLifetimes[i]` comes from:")
    w("`elided-receiver` (a) | `receiver`, `self-type` (b) | `arg`, `elided-arg`, `outlived-by-*` (c) |")
    w("`static`, `free-method`, `free-impl`, `free` (d). -/")
    w("structure MethodSig where")
    w("  typeName        : String")
    w("  methodName      : String")
    w("  receiver        : String")
    w("  returnLifetimes : List String")
    w("  lifetimeSources : List String")
    w("  returnsMutRef   : Bool")
    w("  deriving Repr, DecidableEq")
    w("")
    w("/-- Every public struct/enum of hash_map / hash_set / hash_table (+ rayon), with its generic")
    w("type parameters in declaration order. -/")
    w("def publicTypes : List (String × List String) := [")
    rows = []
    for name, i, kind in types:
        g = crate.item(i)["inner"][kind]["generics"]
        rows.append("  (%s, %s)" % (lstr(name), llist(lstr(p) for p in type_params(g))))
    w(",\n".join(rows))
    w("]")
    w("")
    for nm, tbl in (("sendImpls", send), ("syncImpls", sync)):
        w("def %s : List MarkerImpl := [" % nm)
        rows = []
        for r in tbl:
            rows.append("  ⟨%s, %s, %s, %s⟩" % (
                lstr(r["typeName"]), lbool(r["negative"]), lbool(r["synthetic"]),
                llist("(%s, %s)" % (lstr(a), lstr(b)) for a, b in r["bounds"])))
        w(",\n".join(rows))
        w("]")
        w("")
    w("def methods : List MethodSig := [")
    for n, m in enumerate(methods):
        w("  ⟨%s, %s, %s, %s, %s, %s⟩%s  -- -> %s" % (
            lstr(m["typeName"]), lstr(m["methodName"]), lstr(m["receiver"]),
            llist(lstr(x) for x in m["returnLifetimes"]),
            llist(lstr(x) for x in m["lifetimeSources"]), lbool(m["retMut"]),
            "," if n + 1 < len(methods) else "",
            m["returnType"].replace("\n", " ")))
    w("]")
    w("")
    w("def numPublicTypes : Nat := %d" % len(types))
    w("def numMethods : Nat := %d" % len(methods))
    w("")
    w("end Hb.Gen")
    return "\n".join(L) + "\n"


def main():
    ap = argparse.ArgumentParser()
    ap.add_argument("--repo", default="/repo")
    ap.add_argument("--out", default="/verif/lean/Hb/Gen/Markers.lean")
    ap.add_argument("--json-cache", default=None,
                    help="cargo --target-dir for the rustdoc run (default: /verif/.cache/rustdoc/<repo-hash>)")
    ap.add_argument("--json", default=None, help="use this rustdoc json instead of running cargo")
    ap.add_argument("--dump", default=None, help="also write the extracted tables as json here")
    a = ap.parse_args()
    repo = os.path.abspath(a.repo)
    if a.json:
        path, cmdline = a.json, "(pre-built json %s)" % a.json
    else:
        cache = a.json_cache or os.path.join(
            "/verif/.cache/rustdoc", hashlib.sha1(repo.encode()).hexdigest()[:10])
        path, cmdline = run_rustdoc(repo, cache)
    crate = Crate(path)
    types = crate.public_types()
    send, sync = collect_markers(crate, types)
    methods = collect_methods(crate, types)
    text = emit(crate, types, send, sync, methods, cmdline, repo)
    os.makedirs(os.path.dirname(os.path.abspath(a.out)), exist_ok=True)
    tmp = a.out + ".tmp"
    with open(tmp, "w") as f:
        f.write(text)
    os.replace(tmp, a.out)
    if a.dump:
        with open(a.dump, "w") as f:
            json.dump(dict(types=[(n, k) for n, _, k in types], send=send, sync=sync, methods=methods), f, indent=1)
    print("rustdoc2lean: %d public types, %d Send records, %d Sync records, %d methods -> %s"
          % (len(types), len(send), len(sync), len(methods), a.out))


if __name__ == "__main__":
    main()
