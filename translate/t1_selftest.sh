#!/usr/bin/env bash
# Tie T1 self-test: mutation cases for rust2lean + Hb.Proofs.GenEq.
#
# Works only on scratch copies under /tmp (never edits $REPO or $LEAN_SRC) and removes them on exit.
# Prints one line per case:   case <name>: expected <pass|fail> got <pass|fail>
# Exit status 0 iff every case behaved as expected.
#
#   REPO      hashbrown checkout           (default /repo)
#   LEAN_SRC  lean project to copy         (default /verif/lean)
#   PY        python interpreter           (default python3-vt, falls back to python3)
#   T1_VERBOSE=1  keep and print the per-case logs
set -u
REPO="${REPO:-/repo}"
LEAN_SRC="${LEAN_SRC:-/verif/lean}"
HERE="$(cd "$(dirname "${BASH_SOURCE[0]}")" && pwd)"
PY="${PY:-python3-vt}"
command -v "$PY" >/dev/null 2>&1 || PY=python3

SCRATCH="$(mktemp -d /tmp/t1_selftest.XXXXXX)"
trap 'cd /; rm -rf "$SCRATCH"' EXIT

cp -r "$LEAN_SRC" "$SCRATCH/lean" || { echo "cannot copy $LEAN_SRC"; exit 2; }
mkdir -p "$SCRATCH/lean/Hb/Gen"

# apply_edit <file relative to repo> <python expression old> <python expression new>
# The old text must occur exactly once in the file (otherwise the case itself is broken).
apply_edit() {
  "$PY" - "$SCRATCH/repo/$1" "$2" "$3" <<'PYEOF'
import sys
path, old, new = sys.argv[1], sys.argv[2], sys.argv[3]
old = old.encode().decode("unicode_escape"); new = new.encode().decode("unicode_escape")
s = open(path, encoding="utf-8").read()
n = s.count(old)
if n != 1:
    sys.stderr.write("selftest: pattern %r occurs %d times in %s (expected 1)\n" % (old, n, path))
    sys.exit(3)
open(path, "w", encoding="utf-8").write(s.replace(old, new))
PYEOF
}

fresh_repo() {
  rm -rf "$SCRATCH/repo"
  mkdir -p "$SCRATCH/repo"
  cp -r "$REPO/src" "$SCRATCH/repo/src"
}

STATUS=0
# run_case <name> <expected pass|fail>     (edits were already applied to $SCRATCH/repo)
run_case() {
  local name="$1" expected="$2" got log="$SCRATCH/$1.log"
  if "$PY" "$HERE/rust2lean.py" --repo "$SCRATCH/repo" --out "$SCRATCH/lean/Hb/Gen/Pure.lean" >"$log" 2>&1 \
     && (cd "$SCRATCH/lean" && lake build Hb.Proofs.GenEq) >>"$log" 2>&1; then
    got=pass
  else
    got=fail
  fi
  echo "case $name: expected $expected got $got"
  if [ "${T1_VERBOSE:-0}" = 1 ]; then grep -E "TRANSLATION ERROR|error:" "$log" | head -5 | sed 's/^/    /'; fi
  [ "$got" = "$expected" ] || STATUS=1
}
bad_case() { echo "case $1: expected $2 got error(edit-not-applicable)"; STATUS=1; }

RAW=src/raw/mod.rs

# ---- baseline ------------------------------------------------------------------------
fresh_repo
run_case baseline pass

# ---- (a) comment / rename / reformat only -----------------------------------------------
fresh_repo
{ apply_edit $RAW 'let adjusted_cap = cap.checked_mul(8)? / 7;' '/* widened */ let adj /* renamed */ =\n        cap\n        .checked_mul( 8 ) ?   /   7 ; // same thing' \
  && apply_edit $RAW 'Some(adjusted_cap.next_power_of_two())' 'Some(adj.next_power_of_two())' \
  && apply_edit $RAW 'let min_cap = match (Group::WIDTH, table_layout.size) {' '// a new comment\n        let mc = match (Group::WIDTH, table_layout.size) {' \
  && apply_edit $RAW 'let cap = min_cap.max(cap);' 'let cap = mc.max(cap);' \
  && apply_edit $RAW 'fn capacity_to_buckets(cap: usize, table_layout: TableLayout) -> Option<usize> {' 'fn capacity_to_buckets(cap: usize,\n    table_layout: TableLayout) -> Option<usize>\n{ // reformatted' ; } \
  && run_case rename_comment_only pass || bad_case rename_comment_only pass

fresh_repo
{ apply_edit $RAW 'fn move_next(&mut self, bucket_mask: usize) {' 'fn move_next(&mut self, mask: usize) {' \
  && apply_edit $RAW 'self.pos &= bucket_mask;' 'self.pos &= mask; // renamed parameter' \
  && apply_edit $RAW 'let len = ctrl_offset.checked_add(buckets + Group::WIDTH)?;' 'let total_len = ctrl_offset.checked_add(buckets + Group::WIDTH)?;' \
  && apply_edit $RAW 'if len > isize::MAX as usize - (ctrl_align - 1) {' 'if total_len > isize::MAX as usize - (ctrl_align - 1) {' \
  && apply_edit $RAW 'unsafe { Layout::from_size_align_unchecked(len, ctrl_align) },' 'unsafe { Layout::from_size_align_unchecked(total_len, ctrl_align) },' \
  && apply_edit src/control/tag.rs 'let top7 = hash >> (MIN_HASH_LEN * 8 - 7);' 'let top_seven = hash >> (MIN_HASH_LEN * 8 - 7);' \
  && apply_edit src/control/tag.rs 'Tag((top7 & 0x7f) as u8)' 'Tag((top_seven & 0x7F) as u8)' \
  && apply_edit src/control/group/generic.rs 'let cmp = self.0 ^ repeat(tag);' 'let x = self.0 ^ repeat(tag);' \
  && apply_edit src/control/group/generic.rs 'BitMask((cmp.wrapping_sub(repeat(Tag(0x01))) & !cmp & repeat(Tag::DELETED)).to_le())' 'BitMask((x.wrapping_sub(repeat(Tag(1))) & !x & repeat(Tag::DELETED)).to_le())' ; } \
  && run_case rename_other_functions pass || bad_case rename_other_functions pass

# ---- (b) semantic edits: every one must break regeneration + GenEq --------------------------
fresh_repo
apply_edit $RAW 'if cap < 15 {' 'if cap < 16 {' && run_case cap_lt_15_to_16 fail || bad_case cap_lt_15_to_16 fail

fresh_repo
apply_edit $RAW 'cap.checked_mul(8)? / 7;' 'cap.checked_mul(8)? / 8;' && run_case div7_to_div8 fail || bad_case div7_to_div8 fail

fresh_repo
apply_edit $RAW '        if len > isize::MAX as usize - (ctrl_align - 1) {\n            return None;\n        }\n' '' \
  && run_case drop_isize_max_check fail || bad_case drop_isize_max_check fail

fresh_repo
apply_edit $RAW 'checked_add(ctrl_align - 1)?' 'checked_add(ctrl_align)?' \
  && run_case checked_add_ctrl_align fail || bad_case checked_add_ctrl_align fail

fresh_repo
apply_edit $RAW 'self.stride += Group::WIDTH;' 'self.stride += 1;' \
  && run_case stride_plus_1 fail || bad_case stride_plus_1 fail

fresh_repo
apply_edit src/control/tag.rs 'Tag((top7 & 0x7f) as u8)' 'Tag((top7 & 0x3f) as u8)' \
  && run_case tag_full_0x3f fail || bad_case tag_full_0x3f fail

fresh_repo
apply_edit src/external_trait_impls/serde.rs 'cmp::min(hint.unwrap_or(0), 4096)' 'cmp::min(hint.unwrap_or(0), 1 << 20)' \
  && run_case cautious_1_shl_20 fail || bad_case cautious_1_shl_20 fail

fresh_repo
apply_edit src/control/group/generic.rs 'repeat(Tag(0x01))' 'repeat(Tag(0x02))' \
  && run_case generic_match_tag_0x02 fail || bad_case generic_match_tag_0x02 fail

# ---- (c) decision expressions / book-keeping assignments of RawTable / RawTableInner ---------------
# harmless: comments / line breaks inside extracted expressions, `erase` restructured into the
# equivalent `let full_run = ..; if full_run < WIDTH {EMPTY-branch} else {DELETED-branch}`
fresh_repo
{ apply_edit $RAW 'self.table.items + self.table.growth_left' 'self.table.items /* live */ +\n            self.table.growth_left // spare' \
  && apply_edit $RAW 'if unlikely(additional > self.table.growth_left) {' 'if unlikely( additional > self.table.growth_left ) { // grow' \
  && apply_edit $RAW 'let ctrl = if empty_before.leading_zeros() + empty_after.trailing_zeros() >= Group::WIDTH {\n            Tag::DELETED\n        } else {\n            self.growth_left += 1;\n            Tag::EMPTY\n        };' 'let full_run = empty_before.leading_zeros() + empty_after.trailing_zeros();\n        let ctrl = if full_run < Group::WIDTH {\n            self.growth_left += 1;\n            Tag::EMPTY\n        } else {\n            Tag::DELETED\n        };' ; } \
  && run_case bookkeeping_reformat_and_erase_restructured pass || bad_case bookkeeping_reformat_and_erase_restructured pass

fresh_repo
apply_edit $RAW 'self.table.items + self.table.growth_left' 'bucket_mask_to_capacity(self.table.bucket_mask)' \
  && run_case capacity_from_mask fail || bad_case capacity_from_mask fail

fresh_repo
apply_edit $RAW 'if unlikely(additional > self.table.growth_left) {' 'if unlikely(additional >= self.table.growth_left) {' \
  && run_case reserve_ge fail || bad_case reserve_ge fail

fresh_repo
apply_edit $RAW 'if additional > self.table.growth_left {' 'if additional > self.table.growth_left + 1 {' \
  && run_case try_reserve_plus_1 fail || bad_case try_reserve_plus_1 fail

fresh_repo
apply_edit $RAW 'self.table.growth_left == 0 && old_ctrl.special_is_empty()' 'self.table.growth_left == 0 || old_ctrl.special_is_empty()' \
  && run_case insert_grow_or fail || bad_case insert_grow_or fail

fresh_repo
apply_edit $RAW 'self.growth_left -= usize::from(old_ctrl.special_is_empty());' 'self.growth_left -= 1;' \
  && run_case record_insert_always_dec fail || bad_case record_insert_always_dec fail

fresh_repo
apply_edit $RAW '>= Group::WIDTH {\n            Tag::DELETED' '< Group::WIDTH {\n            Tag::DELETED' \
  && run_case erase_branches_swapped fail || bad_case erase_branches_swapped fail

fresh_repo
apply_edit $RAW '        self.set_ctrl(index, ctrl);\n        self.items -= 1;' '        self.set_ctrl(index, ctrl);' \
  && run_case erase_no_items_dec fail || bad_case erase_no_items_dec fail

fresh_repo
apply_edit $RAW 'guard.growth_left = bucket_mask_to_capacity(guard.bucket_mask) - guard.items;' 'guard.growth_left = bucket_mask_to_capacity(guard.bucket_mask);' \
  && run_case rehash_growth_left_no_items fail || bad_case rehash_growth_left_no_items fail

fresh_repo
apply_edit $RAW '        self.items = 0;\n        self.growth_left = bucket_mask_to_capacity(self.bucket_mask);' '        self.growth_left = bucket_mask_to_capacity(self.bucket_mask) - self.items;\n        self.items = 0;' \
  && run_case clear_no_drop_minus_items fail || bad_case clear_no_drop_minus_items fail

fresh_repo
apply_edit $RAW '        if self.is_empty() {\n            // Special case empty table to avoid surprising O(capacity) time.\n            return;' '        if self.is_empty() {\n            self.table.growth_left = bucket_mask_to_capacity(self.table.bucket_mask);\n            return;' \
  && run_case clear_fast_path_writes fail || bad_case clear_fast_path_writes fail

fresh_repo
apply_edit $RAW 'let min_size = usize::max(self.table.items, min_size);' 'let min_size = usize::min(self.table.items, min_size);' \
  && run_case shrink_to_min fail || bad_case shrink_to_min fail

fresh_repo
apply_edit $RAW 'if min_buckets < self.buckets() {' 'if min_buckets <= self.buckets() {' \
  && run_case shrink_to_le fail || bad_case shrink_to_le fail

fresh_repo
apply_edit $RAW 'if self_.buckets() != source.buckets() {' 'if self_.buckets() < source.buckets() {' \
  && run_case clone_from_lt fail || bad_case clone_from_lt fail

fresh_repo
apply_edit $RAW '        new_table.growth_left -= self.items;\n' '' \
  && run_case resize_inner_no_growth_left_sub fail || bad_case resize_inner_no_growth_left_sub fail

fresh_repo
apply_edit $RAW 'Some((probe_seq.pos + bit.unwrap()) & self.bucket_mask)' 'Some(probe_seq.pos + bit.unwrap())' \
  && run_case insert_slot_index_unmasked fail || bad_case insert_slot_index_unmasked fail

fresh_repo
apply_edit $RAW 'growth_left: bucket_mask_to_capacity(buckets - 1),' 'growth_left: buckets - 1,' \
  && run_case new_uninitialized_growth_left fail || bad_case new_uninitialized_growth_left fail

fresh_repo
apply_edit $RAW '            self.table.clear_no_drop();\n\n            // Move the now empty table back' '            self.table.growth_left += self.table.items;\n            self.table.items = 0;\n\n            // Move the now empty table back' \
  && run_case drain_drop_inline_reset fail || bad_case drain_drop_inline_reset fail

# ---- (d) the `Bucket<T>` pointer encoding and the `RawIterRange` data pointer ---------------------
fresh_repo
{ apply_edit $RAW '            invalid_mut(self.ptr.as_ptr() as usize + offset)\n        } else {\n            self.ptr.as_ptr().sub(offset)\n        };\n        Self {\n            ptr: NonNull::new_unchecked(ptr),\n        }' '            invalid_mut(offset + self.ptr.as_ptr() as usize)\n        } else {\n            self.ptr\n                .as_ptr()\n                .sub(offset) /* towards lower addresses */\n        };\n        Self { ptr: NonNull::new_unchecked(ptr) }' \
  && apply_edit $RAW '            // this can not be UB\n            self.ptr.as_ptr() as usize - 1\n        } else {\n            offset_from(base.as_ptr(), self.ptr.as_ptr())\n        }' '            self.ptr.as_ptr() as usize - 1 // renamed nothing, comment moved\n        } else {\n            offset_from( base.as_ptr(), self.ptr.as_ptr() )\n        }' \
  && apply_edit $RAW '            invalid_mut(index + 1)' '            invalid_mut(1 + index)' \
  && apply_edit $RAW '                return Some(self.data.next_n(index));' '                // a comment\n                return Some(self.data.next_n( index ));' ; } \
  && run_case bucket_ptr_reformat_and_commute pass || bad_case bucket_ptr_reformat_and_commute pass

fresh_repo
apply_edit $RAW '            invalid_mut(self.ptr.as_ptr() as usize + offset)\n        } else {\n            self.ptr.as_ptr().sub(offset)\n        };\n        Self {\n            ptr: NonNull::new_unchecked(ptr),\n        }' '            invalid_mut(offset + 1)\n        } else {\n            self.ptr.as_ptr().sub(offset)\n        };\n        Self {\n            ptr: NonNull::new_unchecked(ptr),\n        }' \
  && run_case next_n_zst_forgets_start fail || bad_case next_n_zst_forgets_start fail

fresh_repo
apply_edit $RAW '            base.as_ptr().sub(index)' '            base.as_ptr().sub(index + 1)' \
  && run_case from_base_index_plus_1 fail || bad_case from_base_index_plus_1 fail

fresh_repo
apply_edit $RAW '            unsafe { self.ptr.as_ptr().sub(1) }' '            unsafe { self.ptr.as_ptr() }' \
  && run_case as_ptr_no_sub fail || bad_case as_ptr_no_sub fail

fresh_repo
apply_edit $RAW '            offset_from(base.as_ptr(), self.ptr.as_ptr())' '            offset_from(self.ptr.as_ptr(), base.as_ptr())' \
  && run_case to_base_index_operands_swapped fail || bad_case to_base_index_operands_swapped fail

fresh_repo
apply_edit $RAW '        base.sub((index + 1) * size_of)' '        base.sub(index * size_of)' \
  && run_case bucket_ptr_index_not_plus_1 fail || bad_case bucket_ptr_index_not_plus_1 fail

fresh_repo
apply_edit $RAW '            self.data = self.data.next_n(Group::WIDTH);\n            self.next_ctrl = self.next_ctrl.add(Group::WIDTH);\n        }\n    }\n\n    /// Fold' '            self.data = self.data.next_n(Group::WIDTH - 1);\n            self.next_ctrl = self.next_ctrl.add(Group::WIDTH);\n        }\n    }\n\n    /// Fold' \
  && run_case next_impl_data_width_minus_1 fail || bad_case next_impl_data_width_minus_1 fail

fresh_repo
apply_edit $RAW '                    self.data.next_n(Group::WIDTH).next_n(mid),\n                    len - mid,\n                );\n                debug_assert_eq!(' '                    self.data.next_n(mid),\n                    len - mid,\n                );\n                debug_assert_eq!(' \
  && run_case split_tail_data_one_group_early fail || bad_case split_tail_data_one_group_early fail

fresh_repo
apply_edit $RAW '            iter: self.iter.clone(),\n            items: self.items,' '            iter: unsafe { RawIterRange::new(self.iter.next_ctrl, self.iter.data.clone(), 0) },\n            items: self.items,' \
  && run_case raw_iter_clone_rebuilt fail || bad_case raw_iter_clone_rebuilt fail

fresh_repo
apply_edit $RAW 'unsafe { NonNull::new_unchecked(self.table.ctrl.as_ptr().sub(ctrl_offset).cast()) },' 'unsafe { NonNull::new_unchecked(self.data_end().as_ptr().sub(self.table.buckets()).cast()) },' \
  && run_case into_allocation_from_data_end fail || bad_case into_allocation_from_data_end fail

# ---- extra: unsupported syntax must be a hard translation error --------------------------------
fresh_repo
apply_edit $RAW 'let cap = min_cap.max(cap);' 'let cap = loop { break min_cap.max(cap); };' \
  && run_case unsupported_syntax_is_error fail || bad_case unsupported_syntax_is_error fail

exit $STATUS
