#!/usr/bin/env python3
"""Rust tokenizer + item scanner for rust2lean (tie T1).

Hand written; no third-party dependencies.  Comments are dropped by the tokenizer, so
comment/formatting edits cannot influence the translation.
"""
import re


class TranslateError(Exception):
    pass


class Tok:
    __slots__ = ("kind", "text", "line", "pos", "joint", "val")

    def __init__(self, kind, text, line, pos, joint=False, val=None):
        self.kind = kind      # id | int | str | char | life | punct | eof
        self.text = text
        self.line = line
        self.pos = pos
        self.joint = joint    # punct immediately followed by another punct char
        self.val = val        # int value for 'int'

    def __repr__(self):
        return "%s:%r@%d" % (self.kind, self.text, self.line)


PUNCT3 = ["<<=", "..=", "..."]
PUNCT2 = ["::", "->", "=>", "==", "!=", "<=", "&&", "||", "+=", "-=", "*=", "/=", "%=",
          "^=", "&=", "|=", "<<", ".."]
# NOTE: '>>', '>>=' and '>=' are never produced; '>' tokens carry a `joint` flag and the
# expression parser re-joins them.  This keeps nested generics `A<B<C>>` simple.
INT_SUFFIXES = ("usize", "isize", "u128", "i128", "u64", "i64", "u32", "i32", "u16", "i16", "u8", "i8")
IDENT_RE = re.compile(r"[A-Za-z_][A-Za-z0-9_]*")
INT_RE = re.compile(r"0x[0-9a-fA-F_]+|0b[01_]+|0o[0-7_]+|[0-9][0-9_]*")


def tokenize(src, fname="<src>"):
    toks = []
    i, n, line = 0, len(src), 1
    while i < n:
        c = src[i]
        if c == "\n":
            line += 1
            i += 1
            continue
        if c in " \t\r":
            i += 1
            continue
        if src.startswith("//", i):
            j = src.find("\n", i)
            i = n if j < 0 else j
            continue
        if src.startswith("/*", i):
            depth, j = 1, i + 2
            while j < n and depth:
                if src.startswith("/*", j):
                    depth += 1
                    j += 2
                elif src.startswith("*/", j):
                    depth -= 1
                    j += 2
                else:
                    if src[j] == "\n":
                        line += 1
                    j += 1
            if depth:
                raise TranslateError("%s:%d: unterminated block comment" % (fname, line))
            i = j
            continue
        # raw strings / byte strings
        m = re.match(r'b?r(#*)"', src[i:i + 40])
        if m:
            hashes = m.group(1)
            end = src.find('"' + hashes, i + m.end())
            if end < 0:
                raise TranslateError("%s:%d: unterminated raw string" % (fname, line))
            text = src[i:end + 1 + len(hashes)]
            toks.append(Tok("str", text, line, i))
            line += text.count("\n")
            i = end + 1 + len(hashes)
            continue
        if c == '"' or (c == "b" and i + 1 < n and src[i + 1] == '"'):
            j = i + (2 if c == "b" else 1)
            while j < n and src[j] != '"':
                if src[j] == "\\":
                    j += 1
                if j < n and src[j] == "\n":
                    line += 1
                j += 1
            toks.append(Tok("str", src[i:j + 1], line, i))
            i = j + 1
            continue
        if c == "'" or (c == "b" and i + 1 < n and src[i + 1] == "'"):
            k = i + (1 if c == "b" else 0)
            # char literal?
            m = re.match(r"'(\\x[0-9a-fA-F]{2}|\\u\{[0-9a-fA-F_]+\}|\\.|[^\\'\n])'", src[k:k + 16])
            if m:
                toks.append(Tok("char", src[i:k + m.end()], line, i))
                i = k + m.end()
                continue
            m = IDENT_RE.match(src, k + 1)
            if c == "'" and m:
                toks.append(Tok("life", src[i:m.end()], line, i))
                i = m.end()
                continue
            raise TranslateError("%s:%d: bad quote" % (fname, line))
        if c.isdigit():
            m = INT_RE.match(src, i)
            text = m.group(0)
            j = m.end()
            # float?  (digits '.' digit)  -- not supported in translated bodies
            if j + 1 < n and src[j] == "." and src[j + 1].isdigit():
                m2 = re.match(r"[0-9_]*\.[0-9_]+([eE][+-]?[0-9_]+)?(f32|f64)?", src[i:])
                toks.append(Tok("float", m2.group(0), line, i))
                i += m2.end()
                continue
            suffix = ""
            for s in INT_SUFFIXES:
                if src.startswith(s, j) and not IDENT_RE.match(src, j + len(s)):
                    suffix = s
                    break
            digits = text.replace("_", "")
            val = int(digits, 0) if digits[:2] in ("0x", "0b", "0o") else int(digits)
            toks.append(Tok("int", text + suffix, line, i, val=val))
            toks[-1].joint = False
            i = j + len(suffix)
            continue
        m = IDENT_RE.match(src, i)
        if m:
            text = m.group(0)
            if text == "r" and src.startswith("r#", i) and IDENT_RE.match(src, i + 2):
                m = IDENT_RE.match(src, i + 2)
                text = m.group(0)
            toks.append(Tok("id", text, line, i))
            i = m.end()
            continue
        for plist in (PUNCT3, PUNCT2):
            hit = None
            for p in plist:
                if src.startswith(p, i):
                    hit = p
                    break
            if hit:
                break
        if hit:
            toks.append(Tok("punct", hit, line, i))
            i += len(hit)
            continue
        if c in "+-*/%^!&|=<>@.,;:#$?~(){}[]":
            joint = i + 1 < n and src[i + 1] in ">="
            toks.append(Tok("punct", c, line, i, joint=joint))
            i += 1
            continue
        raise TranslateError("%s:%d: unexpected character %r" % (fname, line, c))
    toks.append(Tok("eof", "<eof>", line, n))
    return toks


# ----------------------------------------------------------------------------------------
# Item scanner
# ----------------------------------------------------------------------------------------

OPEN = {"(": ")", "[": "]", "{": "}"}


def skip_balanced(toks, i):
    """toks[i] is an opening bracket; return index just past its matching close."""
    stack = [OPEN[toks[i].text]]
    i += 1
    while stack:
        t = toks[i]
        if t.kind == "eof":
            raise TranslateError("unbalanced brackets (line %d)" % t.line)
        if t.kind == "punct":
            if t.text in OPEN:
                stack.append(OPEN[t.text])
            elif t.text in (")", "]", "}"):
                if t.text != stack[-1]:
                    raise TranslateError("mismatched bracket %r at line %d" % (t.text, t.line))
                stack.pop()
        i += 1
    return i


def skip_generics(toks, i):
    """toks[i] is '<'; return index past the matching '>'."""
    depth = 0
    while True:
        t = toks[i]
        if t.kind == "eof":
            raise TranslateError("unbalanced <> (line %d)" % t.line)
        if t.kind == "punct":
            if t.text == "<":
                depth += 1
            elif t.text == ">":
                depth -= 1
                if depth == 0:
                    return i + 1
            elif t.text == "<<":
                depth += 2
            elif t.text == "->":
                pass
            elif t.text in OPEN:
                i = skip_balanced(toks, i)
                continue
        i += 1


def join(toks):
    return "".join(t.text for t in toks)


class FnItem:
    def __init__(self, name, ctx, params, ret, body, line):
        self.name = name        # str
        self.ctx = ctx          # list of Scope (outermost first)
        self.params = params    # token list between ( )
        self.ret = ret          # token list of the return type (may be empty)
        self.body = body        # token list between { } (exclusive) or None
        self.line = line


class Scope:
    def __init__(self, kind, name, trait=None, selfref=""):
        self.kind = kind    # impl | mod | trait
        self.name = name    # self type / module name
        self.trait = trait  # for impl: joined trait tokens or None
        self.selfref = selfref  # for impl: "" | "&" | "&mut" (`impl Tr for &'a mut Ty<..>`); used by the API tie only
        self.trait_toks = None  # for impl: the trait's tokens (API tie: lifetime-insensitive normal form)

    def __repr__(self):
        return "%s %s%s" % (self.kind, (self.trait + " for ") if self.trait else "", self.name)


class StructItem:
    def __init__(self, name, ctx, named, fields):
        self.name = name
        self.ctx = ctx
        self.named = named      # True: fields = [(name, type tokens)], False: [type tokens]
        self.fields = fields


class ConstItem:
    def __init__(self, name, ctx, ty, expr, line):
        self.name = name
        self.ctx = ctx
        self.ty = ty
        self.expr = expr
        self.line = line


def split_top(toks, sep=","):
    """Split a token list on `sep` at bracket/generic depth 0."""
    out, cur, i = [], [], 0
    depth = 0
    while i < len(toks):
        t = toks[i]
        if t.kind == "punct":
            if t.text in OPEN:
                j = skip_balanced(toks + [Tok("eof", "", t.line, 0)], i)
                cur.extend(toks[i:j])
                i = j
                continue
            if t.text == "<":
                depth += 1
            elif t.text == ">" and depth > 0:
                depth -= 1
            elif t.text == sep and depth == 0:
                out.append(cur)
                cur = []
                i += 1
                continue
        cur.append(t)
        i += 1
    if cur:
        out.append(cur)
    return out


def _type_head(toks):
    """Name of the type a token list denotes: last path segment before generics."""
    name = None
    i = 0
    while i < len(toks):
        t = toks[i]
        if t.kind == "id" and t.text not in ("mut", "dyn", "const"):
            name = t.text
        elif t.kind == "punct" and t.text == "<":
            break
        elif t.kind == "punct" and t.text in ("(", "["):
            return join(toks)
        i += 1
    return name


class Items:
    def __init__(self):
        self.fns = []
        self.structs = []
        self.consts = []
        self.impls = []     # scope chains (outermost first, the impl itself last) of every `impl` block, also empty ones


def scan_items(toks):
    items = Items()
    _scan(toks, 0, [], items, top=True)
    return items


def _scan(toks, i, ctx, items, top=False):
    """Scan items until the '}' closing the current scope (or eof when top)."""
    while True:
        t = toks[i]
        if t.kind == "eof":
            if not top:
                raise TranslateError("unexpected eof in %r" % (ctx,))
            return i
        if t.kind == "punct" and t.text == "}":
            if top:
                raise TranslateError("stray '}' at line %d" % t.line)
            return i + 1
        if t.kind == "punct" and t.text == "#":
            j = i + 1
            if toks[j].text == "!":
                j += 1
            if toks[j].text == "[":
                i = skip_balanced(toks, j)
                continue
        if t.kind == "id":
            kw = t.text
            if kw == "pub":
                i += 1
                if toks[i].text == "(":
                    i = skip_balanced(toks, i)
                continue
            if kw in ("unsafe", "async", "default") or (kw == "extern" and toks[i + 1].kind == "str"):
                i += 2 if kw == "extern" else 1
                continue
            if kw == "const" and toks[i + 1].text in ("fn", "unsafe", "async", "extern"):
                i += 1
                continue
            if kw == "impl":
                i = _scan_impl(toks, i, ctx, items)
                continue
            if kw in ("mod", "trait"):
                name = toks[i + 1].text
                j = i + 2
                while toks[j].text not in ("{", ";"):
                    if toks[j].text == "<":
                        j = skip_generics(toks, j)
                    else:
                        j += 1
                if toks[j].text == ";":
                    i = j + 1
                else:
                    i = _scan(toks, j + 1, ctx + [Scope(kw, name)], items)
                continue
            if kw == "fn":
                i = _scan_fn(toks, i, ctx, items)
                continue
            if kw == "struct":
                i = _scan_struct(toks, i, ctx, items)
                continue
            if kw in ("const", "static"):
                j = i + 1
                if toks[j].text == "mut":
                    j += 1
                name = toks[j].text
                j += 1
                ty, ex = [], []
                if toks[j].text == ":":
                    j += 1
                    while toks[j].text not in ("=", ";"):
                        if toks[j].text in OPEN:
                            k = skip_balanced(toks, j)
                            ty.extend(toks[j:k])
                            j = k
                        else:
                            ty.append(toks[j])
                            j += 1
                if toks[j].text == "=":
                    j += 1
                    while toks[j].text != ";":
                        if toks[j].text in OPEN:
                            k = skip_balanced(toks, j)
                            ex.extend(toks[j:k])
                            j = k
                        else:
                            ex.append(toks[j])
                            j += 1
                if kw == "const":
                    items.consts.append(ConstItem(name, list(ctx), ty, ex, t.line))
                i = j + 1
                continue
            if kw in ("use", "type") or (kw == "extern" and toks[i + 1].text == "crate"):
                while toks[i].text != ";":
                    if toks[i].text in OPEN:
                        i = skip_balanced(toks, i)
                    else:
                        i += 1
                i += 1
                continue
            if kw in ("enum", "union"):
                while toks[i].text not in ("{", ";"):
                    i += 1
                i = skip_balanced(toks, i) if toks[i].text == "{" else i + 1
                continue
            if toks[i + 1].text == "!":          # macro invocation / macro_rules!
                j = i + 2
                if toks[j].kind == "id":
                    j += 1
                if toks[j].text in OPEN:
                    close_brace = toks[j].text == "{"
                    j = skip_balanced(toks, j)
                    if not close_brace and toks[j].text == ";":
                        j += 1
                    i = j
                    continue
        # lenient fallback at item level
        if t.kind == "punct" and t.text in OPEN:
            i = skip_balanced(toks, i)
        else:
            i += 1


def _scan_impl(toks, i, ctx, items):
    j = i + 1
    if toks[j].text == "<":
        j = skip_generics(toks, j)
    hdr = []
    while toks[j].text != "{":
        if toks[j].kind == "eof":
            raise TranslateError("impl without body at line %d" % toks[i].line)
        if toks[j].text in ("(", "["):
            k = skip_balanced(toks, j)
            hdr.extend(toks[j:k])
            j = k
        else:
            hdr.append(toks[j])
            j += 1
    # cut where-clause
    depth = 0
    for k, h in enumerate(hdr):
        if h.text == "<":
            depth += 1
        elif h.text == ">":
            depth -= 1
        elif h.kind == "id" and h.text == "where" and depth == 0:
            hdr = hdr[:k]
            break
    # split on top-level `for` (not `for<'a>`)
    depth, cut = 0, None
    for k, h in enumerate(hdr):
        if h.text == "<":
            depth += 1
        elif h.text == ">":
            depth -= 1
        elif h.kind == "id" and h.text == "for" and depth == 0:
            if k + 1 < len(hdr) and hdr[k + 1].text == "<":
                continue
            cut = k
            break
    if cut is None:
        trait, selfty = None, hdr
    else:
        trait, selfty = join(hdr[:cut]), hdr[cut + 1:]
    selfref = ""
    if selfty and selfty[0].text == "&":
        selfref = "&mut" if any(x.kind == "id" and x.text == "mut" for x in selfty[1:3]) else "&"
    scope = Scope("impl", _type_head(selfty), trait, selfref)
    scope.trait_toks = None if cut is None else list(hdr[:cut])
    items.impls.append(ctx + [scope])
    return _scan(toks, j + 1, ctx + [scope], items)


def _scan_fn(toks, i, ctx, items):
    line = toks[i].line
    name = toks[i + 1].text
    j = i + 2
    if toks[j].text == "<":
        j = skip_generics(toks, j)
    if toks[j].text != "(":
        raise TranslateError("fn %s: expected '(' at line %d" % (name, toks[j].line))
    k = skip_balanced(toks, j)
    params = toks[j + 1:k - 1]
    j = k
    ret = []
    if toks[j].text == "->":
        j += 1
        depth = 0
        while True:
            tt = toks[j]
            if depth == 0 and (tt.text in ("{", ";") or (tt.kind == "id" and tt.text == "where")):
                break
            if tt.text == "<":
                depth += 1
            elif tt.text == ">":
                depth -= 1
            if tt.text in ("(", "["):
                k = skip_balanced(toks, j)
                ret.extend(toks[j:k])
                j = k
                continue
            ret.append(tt)
            j += 1
    while toks[j].text not in ("{", ";"):
        if toks[j].text in ("(", "["):
            j = skip_balanced(toks, j)
        else:
            j += 1
    if toks[j].text == ";":
        items.fns.append(FnItem(name, list(ctx), params, ret, None, line))
        return j + 1
    k = skip_balanced(toks, j)
    items.fns.append(FnItem(name, list(ctx), params, ret, toks[j + 1:k - 1], line))
    return k


def _scan_struct(toks, i, ctx, items):
    name = toks[i + 1].text
    j = i + 2
    if toks[j].text == "<":
        j = skip_generics(toks, j)
    while toks[j].text not in ("{", "(", ";"):
        j += 1
    if toks[j].text == ";":
        items.structs.append(StructItem(name, list(ctx), False, []))
        return j + 1
    k = skip_balanced(toks, j)
    inner = toks[j + 1:k - 1]
    parts = split_top(inner)
    if toks[j].text == "{":
        fields = []
        for p in parts:
            p = _strip_attrs_vis(p)
            if not p:
                continue
            fields.append((p[0].text, p[2:]))
        items.structs.append(StructItem(name, list(ctx), True, fields))
        return k
    fields = [_strip_attrs_vis(p) for p in parts]
    items.structs.append(StructItem(name, list(ctx), False, [f for f in fields if f]))
    while toks[k].text != ";":
        k += 1
    return k + 1


def _strip_attrs_vis(p):
    p = list(p)
    while p:
        if p[0].text == "#":
            depth, k = 0, 1
            while True:
                if p[k].text == "[":
                    depth += 1
                elif p[k].text == "]":
                    depth -= 1
                    if depth == 0:
                        break
                k += 1
            p = p[k + 1:]
        elif p[0].kind == "id" and p[0].text == "pub":
            p = p[1:]
            if p and p[0].text == "(":
                depth, k = 0, 0
                while True:
                    if p[k].text == "(":
                        depth += 1
                    elif p[k].text == ")":
                        depth -= 1
                        if depth == 0:
                            break
                    k += 1
                p = p[k + 1:]
        else:
            break
    return p
