use hashbrown::HashTable;
#[test]
fn get_many_mut_distinct_zst_entries() {
    let mut t: HashTable<()> = HashTable::new();
    t.insert_unique(1, (), |_| 1);
    t.insert_unique(2 << 57, (), |_| 2 << 57);
    let r = t.get_many_mut([1, 2 << 57], |_, _| true);
    assert!(r[0].is_some() && r[1].is_some());
}
#[test]
#[should_panic = "duplicate keys found"]
fn get_many_mut_same_zst_entry_panics() {
    let mut t: HashTable<()> = HashTable::new();
    t.insert_unique(1, (), |_| 1);
    let _ = t.get_many_mut([1, 1], |_, _| true);
}
