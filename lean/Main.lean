import Hb.Driver
open Hb

def main (args : List String) : IO UInt32 := do
  let stdin ← IO.getStdin
  let stdout ← IO.getStdout
  Driver.run args stdin stdout
