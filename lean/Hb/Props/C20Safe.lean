/-
C20 (and the clauses of C04 / C03 about it) — the serde visitors under EVERY environment.

C20: "With the serde feature, serialising any HashMap or HashSet and deserialising the result yields
an equal collection, and deserialising input with repeated keys keeps the last value for each key.
A deserialisation error part-way returns the error without leaking or double-dropping
already-built elements. The capacity reserved before reading any element is bounded by a small
constant regardless of the length the input claims."

`Hb/Props/C20.lean` proves the functional clauses for a lawful hasher, an allocator that does not
refuse and destructors that do not panic. This file removes those hypotheses from the SAFETY
clauses: for every `env : Env` — `Hash`/`Eq` answers arbitrary and call-number dependent (hence
possibly inconsistent), `Hash`/`Eq` panicking at any call, destructors panicking at any call, the
allocator refusing any request — every claimed length `hint`, every token list, every failure
position `fail` (at a `next_key` or at a `next_value`), and every configuration with `CfgOk cfg`
(scanner meets `GroupSpec`, `usize` at least 16 bits wide). `GuardRuns cfg` (= drop glue, or the F1
repair of the `rehash_in_place` unwind guard) is needed exactly where the single-map history
theorems need it; the ledger theorems are for element types with drop glue (`needsDrop = true`),
which implies it.

Model: `Hb/Model/Serde.lean`. Proofs: `Hb/Proofs/SerdeSafe.lean`.
Vocabulary: `Serde.builtK toks n half` / `Serde.builtV toks n` = identities of the key / value
objects the input has created after `n` complete entries (plus, if `half`, the key of entry `n`,
whose `next_value` failed); `kidsOf`/`vidsOf t.elems` = objects stored; `droppedK`/`droppedV new` =
objects whose destructor ran according to the log entries `new`; `hs_AllocInvL cfg w L` = every
`free` in the log returned a live block with the layout it was requested with, and the live blocks
are the table's own block plus `L`.
-/
import Hb.Proofs.SerdeSafe
import Hb.Props.C20
namespace Hb.C20S
open Hb

variable {cfg : Cfg}

/-! ### 1. never undefined behaviour, valid collections on every exit -/

/-- C20 "returns the error without leaking or double-dropping", C04 "no public call on a valid
    collection reaches undefined behaviour, whatever `Hash`/`Eq`/`Drop`/the allocator do":
    the insertion loop `while let Some((k, v)) = access.next_entry()? { values.insert(k, v); }`
    from any valid collection never faults; on every exit (end of input, input error, panic) the
    collection is valid and `len` is its number of elements; it aborts only if the allocator
    refused a request. -/
theorem loop_safe (hc : CfgOk cfg) (hg : GuardRuns cfg) (env : Env) (fail : Serde.Fail)
    (toks : List Elem) (i : Nat) (w : World) (h : TInv cfg w.t) :
    Serde.LoopSafe cfg env (Serde.feed cfg env fail i toks w) :=
  Serde.feed_safe hc hg env fail toks i w h

/-- C04 (unwinding): while a panic unwinds through `visit_map`, the drop of the local `values`
    always completes — the model's outcome `.fault "panic while unwinding"` is unreachable. -/
theorem unwinding_drop_completes (hc : CfgOk cfg) (env : Env) (w : World) (h : TInv cfg w.t) :
    ∃ w', Serde.dropLocal cfg (Serde.quietEnv env) w = .ok w' ∧ w'.t = Raw.new cfg.W :=
  Serde.dropLocal_quiet hc env w h

/-- C20 / C04, `MapVisitor::visit_map` and `SeqVisitor::visit_seq`, every environment: never
    `.fault`; `.abort` only if some allocator request was refused; on success the deserialised
    collection is valid with `len` = number of elements; when the input's error is returned, and
    after a panic, the partially built local collection is gone (the world's table is the static
    empty singleton) — except for a `"capacity overflow"` panic of `with_capacity` itself, before
    anything was built, which leaves the world untouched. -/
theorem visit_safe (hc : CfgOk cfg) (hg : GuardRuns cfg) (env : Env) (hint : Option Nat)
    (toks : List Elem) (fail : Serde.Fail) (w : World) :
    match Serde.visitMapGen cfg env hint toks fail w with
    | .ok (.ok (), w') => TInv cfg w'.t ∧ w'.t.items = w'.t.elems.length
    | .ok (.error (), w') => w'.t = Raw.new cfg.W
    | .panic c w' => w'.t = Raw.new cfg.W ∨ (c = "capacity" ∧ w' = w)
    | .abort => ∃ j, env.allocOk j = false
    | .fault _ => False :=
  Serde.visitMapGen_safe hc hg env hint toks fail w

/-- The same for the function of the property text (`HashMap`, failure at a `next_key` call). -/
theorem visit_map_safe (hc : CfgOk cfg) (hg : GuardRuns cfg) (env : Env) (hint : Option Nat)
    (toks : List Elem) (failAt : Option Nat) (w : World) :
    match Serde.visitMap cfg env hint toks failAt w with
    | .ok (.ok (), w') => TInv cfg w'.t ∧ w'.t.items = w'.t.elems.length
    | .ok (.error (), w') => w'.t = Raw.new cfg.W
    | .panic c w' => w'.t = Raw.new cfg.W ∨ (c = "capacity" ∧ w' = w)
    | .abort => ∃ j, env.allocOk j = false
    | .fault _ => False :=
  Serde.visitMapGen_safe hc hg env hint toks (Serde.Fail.ofOption failAt) w

/-- … and for `HashSet`'s `visit_seq`. -/
theorem visit_seq_safe (hc : CfgOk cfg) (hg : GuardRuns cfg) (env : Env) (hint : Option Nat)
    (toks : List (Nat × Nat)) (failAt : Option Nat) (w : World) :
    match Serde.visitSeq cfg env hint toks failAt w with
    | .ok (.ok (), w') => TInv cfg w'.t ∧ w'.t.items = w'.t.elems.length
    | .ok (.error (), w') => w'.t = Raw.new cfg.W
    | .panic c w' => w'.t = Raw.new cfg.W ∨ (c = "capacity" ∧ w' = w)
    | .abort => ∃ j, env.allocOk j = false
    | .fault _ => False :=
  Serde.visitMapGen_safe hc hg env hint _ (Serde.Fail.ofOption failAt) w

/-- C20 / C04, `HashSet::deserialize_in_place` (`clear; reserve(cautious(hint)); insert …` on
    `place` itself), every environment: never `.fault`; after ANY outcome — success, input error,
    panic — `place` is a valid collection with `len` = number of elements (after an input error it
    holds the elements read so far: the source does no clean-up); `.abort` only if the allocator
    refused a request. -/
theorem in_place_safe (hc : CfgOk cfg) (hg : GuardRuns cfg) (env : Env) (hint : Option Nat)
    (toks : List Elem) (fail : Serde.Fail) (w : World) (h : TInv cfg w.t) :
    match Serde.deserializeInPlace cfg env hint toks fail w with
    | .ok (_, w') => TInv cfg w'.t ∧ w'.t.items = w'.t.elems.length
    | .panic _ w' => TInv cfg w'.t ∧ w'.t.items = w'.t.elems.length
    | .abort => ∃ j, env.allocOk j = false
    | .fault _ => False := by
  have := Serde.deserializeInPlace_safe hc hg env hint toks fail w h
  generalize Serde.deserializeInPlace cfg env hint toks fail w = r at this ⊢
  match r, this with
  | .ok (_, _), h => exact h
  | .panic _ _, h => exact h
  | .abort, h => exact h
  | .fault _, h => exact h

/-- C20 "returns the error", C03 / C04: `*target = Deserialize::deserialize(input)?`, every
    environment. Never `.fault`; on an input error and on a panic inside the visitor the OLD
    collection is untouched (`w'.t = w.t`); on success the target is the new valid collection and
    the old one was dropped — its elements exactly once, in bucket order, then its block. If a
    destructor of the old collection panics, the target already is the new collection. -/
theorem assign_safe (hc : CfgOk cfg) (hg : GuardRuns cfg) (env : Env) (hint : Option Nat)
    (toks : List Elem) (fail : Serde.Fail) (w : World) (h : TInv cfg w.t) :
    match Serde.deserAssign cfg env hint toks fail w with
    | .ok (.ok (), w') => TInv cfg w'.t ∧ w'.t.items = w'.t.elems.length ∧
        ∃ w1, Serde.visitMapGen cfg env hint toks fail w = .ok (.ok (), w1) ∧ w'.t = w1.t ∧
          w'.log = freeEvs cfg w.t ++ dropEvs cfg w.t.elems.reverse ++ w1.log
    | .ok (.error (), w') => w'.t = w.t
    | .panic c w' =>
        ((∃ w1, Serde.visitMapGen cfg env hint toks fail w = .panic c w1) ∧ w'.t = w.t) ∨
        (c = "drop" ∧ TInv cfg w'.t ∧ w'.t.items = w'.t.elems.length ∧
          ∃ w1, Serde.visitMapGen cfg env hint toks fail w = .ok (.ok (), w1) ∧ w'.t = w1.t)
    | .abort => ∃ j, env.allocOk j = false
    | .fault _ => False :=
  Serde.deserAssign_safe hc hg env hint toks fail w h

/-! ### 2. no leak, no double drop: the ledger of object identities and allocator blocks -/

/-- The ledger of the insertion loop (every environment, element type with drop glue), from which
    the three visitor ledgers below are assembled: see `Serde.LoopLedger`. Every object stored
    before or created by the input is afterwards stored, or dropped (once), or — only after a
    `"drop"` panic, and then at most ONE value object: the replaced value sitting in `insert`'s
    return slot when the spare key's destructor panicked — lost. -/
theorem loop_ledger (hc : CfgOk cfg) (hnd : cfg.needsDrop = true) (env : Env) (fail : Serde.Fail)
    (toks : List Elem) (i : Nat) (w : World) (h : TInv cfg w.t) :
    Serde.LoopLedger cfg env fail i toks w (Serde.feed cfg env fail i toks w) :=
  Serde.feed_ledger hc hnd env fail toks i w h

/-- C20 "without leaking or double-dropping already-built elements", C04 "no double drop":
    `visit_map` / `visit_seq`, every environment. With `new` the log entries written:
    * `.ok (.ok ())`: all `toks.length` entries were consumed; every created key / value object is
      stored in the returned collection or was dropped — exactly one of the two, counted with
      multiplicity (dropped: replaced values and spare keys);
    * `.ok (.error ())`: `n` entries (and, for a failure at `next_value`, the key of entry `n`) had
      been created; the collection is gone and each created object was dropped exactly once; the
      allocator frame is unchanged: every block requested was freed, with its own layout;
    * `.panic c`: the collection is gone; each created object was dropped exactly once or is
      `lost`; `lostK`, `lostV`, `leaked` are empty unless `c = "drop"` and some destructor can
      panic. (Then: the value in `insert`'s return slot is lost; or the elements behind the one
      whose destructor panicked while `values` was dropped after an input error are leaked
      together with the block of `values` — `RawTable::drop` frees only after `drop_elements`.)
    Objects of tokens not yet consumed occur nowhere: the right-hand sides list `toks.take n`. -/
theorem visit_ledger (hc : CfgOk cfg) (hnd : cfg.needsDrop = true) (env : Env) (hint : Option Nat)
    (toks : List Elem) (fail : Serde.Fail) (w : World) :
    match Serde.visitMapGen cfg env hint toks fail w with
    | .ok (x, w') => ∃ (n : Nat) (half : Bool) (new : List Ev), w'.log = new ++ w.log ∧
        List.Perm (kidsOf w'.t.elems ++ droppedK new) (Serde.builtK toks n half) ∧
        List.Perm (vidsOf w'.t.elems ++ droppedV new) (Serde.builtV toks n) ∧
        (∀ L, hs_AllocInvL cfg { w with t := Raw.new cfg.W } L → hs_AllocInvL cfg w' L) ∧
        n ≤ toks.length ∧
        match x with
        | .ok () => n = toks.length ∧ half = false
        | .error () => w'.t = Raw.new cfg.W ∧
            ((fail = .atKey n ∧ half = false) ∨ (fail = .atVal n ∧ half = true ∧ n < toks.length))
    | .panic c w' => (c = "capacity" ∧ w' = w) ∨
        ∃ (n : Nat) (half : Bool) (new : List Ev) (lostK lostV : List Nat)
          (leaked : List (Nat × Nat)),
          w'.t = Raw.new cfg.W ∧ w'.log = new ++ w.log ∧
          List.Perm (droppedK new ++ lostK) (Serde.builtK toks n half) ∧
          List.Perm (droppedV new ++ lostV) (Serde.builtV toks n) ∧
          (∀ L, hs_AllocInvL cfg { w with t := Raw.new cfg.W } L →
            hs_AllocInvL cfg w' (leaked ++ L)) ∧
          n ≤ toks.length ∧
          (c ≠ "drop" → lostK = [] ∧ lostV = [] ∧ leaked = []) ∧
          ((∀ c e, env.dropPanics c e = false) → lostK = [] ∧ lostV = [] ∧ leaked = [])
    | _ => True := by
  have := Serde.visitMapGen_ledger hc hnd env hint toks fail w
  generalize Serde.visitMapGen cfg env hint toks fail w = r at this ⊢
  match r, this with
  | .ok (_, _), h => exact h
  | .panic _ _, h => exact h
  | .abort, _ => trivial
  | .fault _, _ => trivial

/-- C04 "no double drop", C20: if the key (value) objects of the input are pairwise distinct then
    — for every environment, every failure position, every panic — no key (value) object is
    dropped twice or dropped while still stored, and nothing but objects of the input is ever
    stored or dropped by the visitor. -/
theorem visit_no_double_drop (hc : CfgOk cfg) (hnd : cfg.needsDrop = true) (env : Env)
    (hint : Option Nat) (toks : List Elem) (fail : Serde.Fail) (w : World) :
    match Serde.visitMapGen cfg env hint toks fail w with
    | .ok (_, w') => ∃ new, w'.log = new ++ w.log ∧
        ((kidsOf toks).Nodup → (kidsOf w'.t.elems ++ droppedK new).Nodup) ∧
        ((vidsOf toks).Nodup → (vidsOf w'.t.elems ++ droppedV new).Nodup) ∧
        (∀ x ∈ kidsOf w'.t.elems ++ droppedK new, x ∈ kidsOf toks) ∧
        (∀ x ∈ vidsOf w'.t.elems ++ droppedV new, x ∈ vidsOf toks)
    | .panic c w' => (c = "capacity" ∧ w' = w) ∨ ∃ new, w'.log = new ++ w.log ∧
        w'.t = Raw.new cfg.W ∧
        ((kidsOf toks).Nodup → (droppedK new).Nodup) ∧
        ((vidsOf toks).Nodup → (droppedV new).Nodup) ∧
        (∀ x ∈ droppedK new, x ∈ kidsOf toks) ∧ (∀ x ∈ droppedV new, x ∈ vidsOf toks)
    | _ => True :=
  Serde.visitMapGen_no_double_drop hc hnd env hint toks fail w

/-- C20 "without leaking": on a fresh world, after `visit_map` returned the input's error the
    allocator log is balanced — nothing remains allocated, every `free` returned a live block with
    the layout it was requested with — for every environment. -/
theorem visit_error_balanced (hc : CfgOk cfg) (hnd : cfg.needsDrop = true) (env : Env)
    (hint : Option Nat) (toks : List Elem) (fail : Serde.Fail) (w w' : World) (hl : w.log = [])
    (h : Serde.visitMapGen cfg env hint toks fail w = .ok (.error (), w')) :
    liveBlocks w'.log = [] ∧ freesMatched w'.log :=
  Serde.visitMapGen_error_balanced hc hnd env hint toks fail w w' hl h

/-- … and likewise after a panic that did not come from a destructor (`Hash`, `Eq`, capacity
    overflow): the unwinding released everything. -/
theorem visit_panic_balanced (hc : CfgOk cfg) (hnd : cfg.needsDrop = true) (env : Env)
    (hint : Option Nat) (toks : List Elem) (fail : Serde.Fail) (w w' : World) (c : String)
    (hl : w.log = []) (hcd : c ≠ "drop")
    (h : Serde.visitMapGen cfg env hint toks fail w = .panic c w') :
    liveBlocks w'.log = [] ∧ freesMatched w'.log :=
  Serde.visitMapGen_panic_balanced hc hnd env hint toks fail w w' c hl hcd h

/-- C20 / C04, `deserialize_in_place`, every environment. When the call returns (success or input
    error): the elements `place` held were dropped exactly once each by `clear` (the log continues
    with `dropEvs old.reverse`), and every object created by the input is stored in `place` or was
    dropped (overwritten values, spare keys) — exactly one of the two; the allocator frame is kept.
    When it unwinds: old and created objects are stored, dropped once, or `lost`, and nothing is
    lost unless a destructor panicked. -/
theorem in_place_ledger (hc : CfgOk cfg) (hnd : cfg.needsDrop = true) (env : Env)
    (hint : Option Nat) (toks : List Elem) (fail : Serde.Fail) (w : World) (h : TInv cfg w.t) :
    match Serde.deserializeInPlace cfg env hint toks fail w with
    | .ok (x, w') => ∃ (n : Nat) (half : Bool) (newl : List Ev),
        w'.log = newl ++ (dropEvs cfg w.t.elems.reverse ++ w.log) ∧
        List.Perm (kidsOf w'.t.elems ++ droppedK newl) (Serde.builtK toks n half) ∧
        List.Perm (vidsOf w'.t.elems ++ droppedV newl) (Serde.builtV toks n) ∧
        (∀ L, hs_AllocInvL cfg w L → hs_AllocInvL cfg w' L) ∧ n ≤ toks.length ∧
        match x with
        | .ok () => n = toks.length ∧ half = false
        | .error () => (fail = .atKey n ∧ half = false) ∨
            (fail = .atVal n ∧ half = true ∧ n < toks.length)
    | .panic c w' => ∃ (n : Nat) (half : Bool) (new : List Ev) (lostK lostV : List Nat),
        w'.log = new ++ w.log ∧
        List.Perm (kidsOf w'.t.elems ++ droppedK new ++ lostK)
          (kidsOf w.t.elems ++ Serde.builtK toks n half) ∧
        List.Perm (vidsOf w'.t.elems ++ droppedV new ++ lostV)
          (vidsOf w.t.elems ++ Serde.builtV toks n) ∧
        (∀ L, hs_AllocInvL cfg w L → hs_AllocInvL cfg w' L) ∧ n ≤ toks.length ∧
        (c ≠ "drop" → lostK = [] ∧ lostV = []) ∧
        ((∀ c e, env.dropPanics c e = false) → lostK = [] ∧ lostV = [])
    | _ => True := by
  have := Serde.deserializeInPlace_ledger hc hnd env hint toks fail w h
  generalize Serde.deserializeInPlace cfg env hint toks fail w = r at this ⊢
  match r, this with
  | .ok (_, _), h => exact h
  | .panic _ _, h => exact h
  | .abort, _ => trivial
  | .fault _, _ => trivial

/-- C03 / C04, `*target = deserialize(input)?` on success, every environment: the log is that of
    the visitor followed by the drop of the OLD collection — each element exactly once, then its
    block; the created objects are stored in the new collection or were dropped once; the allocator
    frame is kept (old block released with its layout, the new block is the target's own). -/
theorem assign_ledger (hc : CfgOk cfg) (hnd : cfg.needsDrop = true) (env : Env)
    (hint : Option Nat) (toks : List Elem) (fail : Serde.Fail) (w w' : World) (h : TInv cfg w.t)
    (hr : Serde.deserAssign cfg env hint toks fail w = .ok (.ok (), w')) :
    ∃ new, w'.log = freeEvs cfg w.t ++ dropEvs cfg w.t.elems.reverse ++ (new ++ w.log) ∧
      List.Perm (kidsOf w'.t.elems ++ droppedK new) (kidsOf toks) ∧
      List.Perm (vidsOf w'.t.elems ++ droppedV new) (vidsOf toks) ∧
      ∀ L, hs_AllocInvL cfg w L → hs_AllocInvL cfg w' L :=
  Serde.deserAssign_ledger hc hnd env hint toks fail w w' h hr

/-! ### 3. the reservation, every environment -/

/-- C20 "The capacity reserved before reading any element is bounded by a small constant regardless
    of the length the input claims" — without any assumption on the environment.
    `with_capacity(cautious(hint))` is the first thing `visit_map` / `visit_seq` do, so its request
    (if any) is allocator request number `w.ac`, the first of the call. Its outcomes: nothing
    requested (`cautious hint = 0`); ONE request for `b ≤ 8192` buckets (at most
    `size * 8192 + (ctrl_align - 1) + 8192 + W` bytes), granted or refused (`.abort`); or a
    `"capacity overflow"` panic with the world untouched; never `.fault`. -/
theorem reservation_bounded_every_env (hc : CfgOk cfg) (env : Env) (hint : Option Nat) (w : World) :
    match withCapacity cfg env (cautious hint) w with
    | .ok w0 =>
      (cautious hint = 0 ∧ w0 = { w with t := Raw.new cfg.W }) ∨
      (cautious hint ≠ 0 ∧ env.allocOk w.ac = true ∧ ∃ b l, b ≤ 8192 ∧
        capacityToBuckets cfg.bits cfg.W cfg.size (cautious hint) = some b ∧
        calculateLayoutFor cfg.bits cfg.W cfg.size (ctrlAlignOf cfg) b = some l ∧
        l.size ≤ cfg.size * 8192 + (ctrlAlignOf cfg - 1) + 8192 + cfg.W ∧
        w0.t.buckets = b ∧ w0.ac = w.ac + 1 ∧ w0.log = .alloc l.size l.align :: w.log)
    | .panic c w' => c = "capacity" ∧ w' = w
    | .abort => cautious hint ≠ 0 ∧ env.allocOk w.ac = false ∧
        ∀ b, capacityToBuckets cfg.bits cfg.W cfg.size (cautious hint) = some b → b ≤ 8192
    | .fault _ => False :=
  Serde.reservation_bounded_every_env hc env hint w

/-- C20: with `cautious hint = 0` nothing is requested (nothing happens at all) before the first
    token: on an empty input the visitor returns with log and all counters unchanged. -/
theorem no_request_before_first_token (env : Env) (hint : Option Nat) (fail : Serde.Fail)
    (w : World) (h0 : cautious hint = 0) :
    ∃ x, Serde.visitMapGen cfg env hint [] fail w = .ok (x, { w with t := Raw.new cfg.W }) :=
  Serde.no_request_before_first_token env hint fail w h0

/-- C20 "bounded by a small constant", `deserialize_in_place`, every environment: after `clear()`
    the call `reserve(cautious(hint))` — all that happens before the first element is read —
    requests nothing, or exactly one block of `b ≤ 16384` buckets (the old block is released).
    The requested bound `b ≤ 8192` is FALSE in general (already for a lawful environment: `clear`
    returns early on an empty table, so a `place` emptied by `remove` keeps its tombstones and
    `reserve_rehash_inner` resizes to `max(n, full_capacity + 1)`; concrete run:
    `Serde.inPlaceCex`, 8192 → 16384 buckets) and holds under the ADDED hypothesis that `place` is
    non-empty or free of tombstones. -/
theorem in_place_reservation_bounded_partial (hc : CfgOk cfg) (env : Env) (hint : Option Nat)
    (w w0 : World) (h : TInv cfg w.t) (h0 : clear cfg env w = .ok w0) :
    match reserve cfg env (cautious hint) w0 with
    | .ok w1 => w1.log = w0.log ∨
        ∃ b, b ≤ 16384 ∧ w1.t.buckets = b ∧ env.allocOk w0.ac = true ∧
          w1.log = freeEvs cfg w0.t ++ [Ev.alloc (layoutOf cfg b).size (layoutOf cfg b).align] ++
            w0.log ∧
          ((w.t.items ≠ 0 ∨ w.t.gl = bucketMaskToCapacity w.t.mask) → b ≤ 8192)
    | _ => True :=
  Serde.inPlace_reservation_bounded hc env hint w w0 h h0

/-! ### 4. non-vacuity: the model on concrete UNLAWFUL environments (SSE2 scanner, 32-byte elements) -/

open Hb.C20 in
/-- `CfgOk` and `GuardRuns` are satisfiable for the configuration of the examples. -/
example (hs : GroupSpec Sse2.ops) : CfgOk c20Cfg ∧ GuardRuns c20Cfg ∧ c20Cfg.needsDrop = true :=
  ⟨⟨hs, by decide⟩, Or.inl rfl, rfl⟩

/-- `Hash` panics at its third call. -/
def envHash3 : Env := { C20.c20Env with hash := fun c k => if c = 2 then none else C20.c20Env.hash c k }
/-- The first destructor call panics. -/
def envDrop0 : Env := { C20.c20Env with dropPanics := fun c _ => c == 0 }
/-- The allocator refuses everything. -/
def envNoAlloc : Env := { C20.c20Env with allocOk := fun _ => false }
/-- `Eq` never holds — not even for the same key: inconsistent with `Hash`. -/
def envEqNever : Env := { C20.c20Env with eq := fun _ _ _ => some false }
/-- Everything misbehaves: the hash depends on the call number and panics at call 4, `Eq` answers by
    call parity and panics at call 1, the second destructor call panics. -/
def envWild : Env :=
  { hash := fun c k => if c = 4 then none else some ((k + c) * 7 % 2 ^ 64)
    eq := fun c _ _ => if c = 1 then none else some (c % 2 == 0)
    clone := fun _ _ => none
    pred := fun _ _ => none
    allocOk := fun _ => true
    dropPanics := fun c _ => c == 1 }

/-- A `place` / assignment target holding the elements 8 and 7 (fresh counters, empty log). -/
def placeW : World :=
  match Serde.visitMapGen C20.c20Cfg C20.c20Env (some 2) [⟨7, 70, 71, 700⟩, ⟨8, 80, 81, 800⟩] .never
      C20.c20W with
  | .ok (_, w) => { t := w.t }
  | _ => C20.c20W

open Hb.C20 in
/-- `Hash` panics at its 3rd call, i.e. inside the third `insert` of the loop: the arguments of that
    call (14, 15) are dropped by the unwinding, then `values` with its two elements is torn down
    and its block freed: six objects created, six drops, nothing live; the panic propagates. -/
example :
    (match Serde.visitMapGen c20Cfg envHash3 (some 3) c20Toks .never c20W with
     | .panic c w =>
       c == "hash" && w.t.mask == 0 && !w.t.alloc &&
       w.log == [.free 148 16, .dropV 13, .dropK 12, .dropV 11, .dropK 10, .dropV 15, .dropK 14,
                 .alloc 148 16]
     | _ => false) = true := by decide +kernel

open Hb.C20 in
/-- A destructor panics inside the drop of `values` after an input error (at `next_key` call 2):
    element (10, 11) counts as dropped, element (12, 13) and the block are leaked — `lostK = [12]`,
    `lostV = [13]`, `leaked = [(148, 16)]` in `visit_ledger`; nothing is dropped twice. -/
example :
    (match Serde.visitMapGen c20Cfg envDrop0 (some 3) c20Toks (.atKey 2) c20W with
     | .panic c w =>
       c == "drop" && w.t.mask == 0 && !w.t.alloc &&
       w.log == [.dropV 11, .dropK 10, .alloc 148 16]
     | _ => false) = true := by decide +kernel

open Hb.C20 in
/-- The allocator refuses the `with_capacity` request: `handle_alloc_error`, nothing else. With no
    claimed length and no entries nothing is requested and the same allocator is never asked. -/
example :
    (match Serde.visitMapGen c20Cfg envNoAlloc (some 3) c20Toks .never c20W with
     | .abort => true
     | _ => false) = true := by decide +kernel
open Hb.C20 in
example :
    (match Serde.visitMapGen c20Cfg envNoAlloc none [] .never c20W with
     | .ok (.ok (), w) => w.t.mask == 0 && w.log == [] && w.ac == 0
     | _ => false) = true := by decide +kernel

open Hb.C20 in
/-- `Eq` never holds: the repeated key 1 is stored twice (last-wins needs a lawful `Eq`), but the
    table is valid and nothing is dropped; with an error at the value of entry 2 every created
    object — including key 14 of the failed entry — is dropped exactly once and the block freed. -/
example :
    (match Serde.visitMapGen c20Cfg envEqNever (some 3) c20Toks .never c20W with
     | .ok (.ok (), w) =>
       w.t.elems == [⟨1, 10, 11, 100⟩, ⟨2, 12, 13, 200⟩, ⟨1, 14, 15, 300⟩] && w.t.items == 3 &&
       w.log == [.alloc 148 16]
     | _ => false) = true := by decide +kernel
open Hb.C20 in
example :
    (match Serde.visitMapGen c20Cfg envEqNever (some 3) c20Toks (.atVal 2) c20W with
     | .ok (.error (), w) =>
       w.t.mask == 0 &&
       w.log == [.free 148 16, .dropV 13, .dropK 12, .dropV 11, .dropK 10, .dropK 14, .alloc 148 16]
     | _ => false) = true := by decide +kernel

open Hb.C20 in
/-- Everything misbehaves (no claimed length, so the first `insert` allocates): in the second
    `insert` `Eq` claims key 2 equals the stored key 1, so value 11 is replaced by 13 (and dropped
    as the discarded return value) and the spare key 12 is dropped; in the third `insert` `Eq`
    panics: the unwinding drops the arguments (14, 15) and then `values` with its one element
    (10, 13). Six objects created, each dropped exactly once; block freed. -/
example :
    (match Serde.visitMapGen c20Cfg envWild none c20Toks .never c20W with
     | .panic c w => c == "eq" && w.t.mask == 0 && !w.t.alloc &&
         w.log == [.free 148 16, .dropV 13, .dropK 10, .dropV 15, .dropK 14, .dropV 11, .dropK 12,
                   .alloc 148 16]
     | _ => false) = true := by decide +kernel

open Hb.C20 in
/-- `deserialize_in_place`, `Hash` panics at its 3rd call: the old elements (80, 81), (70, 71) were
    dropped by `clear`, the arguments (14, 15) of the panicking `insert` by the unwinding; `place`
    is left as a VALID set holding the two elements read before — no clean-up, as in the source. -/
example :
    (match Serde.deserializeInPlace c20Cfg envHash3 (some 3) c20Toks .never placeW with
     | .panic c w =>
       c == "hash" && w.t.elems == [⟨1, 10, 11, 100⟩, ⟨2, 12, 13, 200⟩] && w.t.items == 2 &&
       w.log == [.dropV 15, .dropK 14, .dropV 71, .dropK 70, .dropV 81, .dropK 80]
     | _ => false) = true := by decide +kernel

open Hb.C20 in
/-- `deserialize_in_place`, the first destructor call (inside `clear`) panics: (80, 81) counts as
    dropped, (70, 71) is leaked, `place` is a valid EMPTY set on its old block. -/
example :
    (match Serde.deserializeInPlace c20Cfg envDrop0 (some 3) c20Toks .never placeW with
     | .panic c w =>
       c == "drop" && w.t.elems == [] && w.t.items == 0 && w.t.mask == 3 && w.t.alloc &&
       w.log == [.dropV 81, .dropK 80]
     | _ => false) = true := by decide +kernel

open Hb.C20 in
/-- `*target = deserialize(input)?` with an input error, and with a `Hash` panic: the target still
    holds its old elements; the partially built collection was dropped and its block freed. -/
example :
    (match Serde.deserAssign c20Cfg c20Env (some 3) c20Toks (.atKey 2) placeW with
     | .ok (.error (), w) =>
       w.t.elems == [⟨8, 80, 81, 800⟩, ⟨7, 70, 71, 700⟩] &&
       w.log == [.free 148 16, .dropV 13, .dropK 12, .dropV 11, .dropK 10, .alloc 148 16]
     | _ => false) = true := by decide +kernel
open Hb.C20 in
example :
    (match Serde.deserAssign c20Cfg envHash3 (some 3) c20Toks .never placeW with
     | .panic c w =>
       c == "hash" && w.t.elems == [⟨8, 80, 81, 800⟩, ⟨7, 70, 71, 700⟩] && liveBlocks w.log == []
     | _ => false) = true := by decide +kernel

open Hb.C20 in
/-- … and on success the old elements are dropped once, after the new collection is complete. -/
example :
    (match Serde.deserAssign c20Cfg c20Env (some 3) c20Toks .never placeW with
     | .ok (.ok (), w) =>
       w.t.elems == [⟨1, 10, 15, 300⟩, ⟨2, 12, 13, 200⟩] &&
       w.log == [.free 148 16, .dropV 71, .dropK 70, .dropV 81, .dropK 80, .dropV 11, .dropK 14,
                 .alloc 148 16]
     | _ => false) = true := by decide +kernel

#print axioms loop_safe
#print axioms unwinding_drop_completes
#print axioms visit_safe
#print axioms visit_map_safe
#print axioms visit_seq_safe
#print axioms in_place_safe
#print axioms assign_safe
#print axioms loop_ledger
#print axioms visit_ledger
#print axioms visit_no_double_drop
#print axioms visit_error_balanced
#print axioms visit_panic_balanced
#print axioms in_place_ledger
#print axioms assign_ledger
#print axioms reservation_bounded_every_env
#print axioms no_request_before_first_token
#print axioms in_place_reservation_bounded_partial
end Hb.C20S
