/-
C10 — retain / extract_if / drain (HashMap, HashSet, HashTable: all three call the same `RawTable`
code; model functions `Map.retain`, `Map.extractIf`, `Map.drain`, reused by the set and table models).

For EVERY environment (the predicate may answer anything, differently at every call, may write any
payload through its `&mut` argument, may panic; destructors may panic) and every table state
satisfying `TInvB` (structural invariant + computable layout):

* `retain` calls the predicate exactly once per element, in bucket order (call number `pc + position`,
  `pc` advances by exactly `len`), keeps exactly the elements answered `true` — with the payload the
  predicate wrote — and drops every other element exactly once (`retain_once_per_element`); with a
  pure predicate `P` the result is `AL.retain P` and every sub-collection is reachable that way
  (`retain_any_predicate_subset`); a panic of the predicate or of a destructor leaves a valid table
  and no element is lost or dropped twice (`retain_panic_safe`).
* `extract_if` hands out exactly the visited elements answered `true`, keeps the visited ones answered
  `false` (with the written payload) and never touches the unvisited ones; it never drops anything
  (`extract_if_visited_only`, `extract_if_early_drop`).
* `drain`, consumed up to any cut point `k` and then dropped, has handed out the first `min k len`
  elements, dropped each of the others exactly once, and leaves the SAME block, emptied and valid
  (`drain_every_cut_point`); if the `Drain` is leaked (`mem::forget`) the collection is the valid
  unallocated empty table and nothing was dropped (`drain_forgotten`).

`DropsRel cfg w w' ds` = "`w'` differs from `w` (apart from the table) exactly by the destructor calls
for `ds`, newest first"; `dropEvs cfg ds` are those log entries.
-/
import Hb.Proofs.EqSpec
namespace Hb.C10
open Hb

variable {cfg : Cfg}

/-- `retain`, normal return: one predicate call per element (`pc` advances by `items`; element number
    `i` in bucket order is judged by call `pc + i`, which returned); the table holds exactly the
    elements answered `(true, nv)`, with payload `nv`; the others were dropped, each exactly once, in
    order; kept and dropped together are a permutation of the original elements (identities). -/
theorem retain_once_per_element (hc : CfgOk cfg) (env : Env) (w w' : World) (h : TInvB cfg w.t)
    (hr : Map.retain cfg env w = .ok w') :
    TInvB cfg w'.t ∧ w'.pc = w.pc + w.t.items ∧ w.t.elems.length = w.t.items ∧
    (∀ i e, w.t.elems[i]? = some e → ∃ b nv, env.pred (w.pc + i) e = some (b, nv)) ∧
    w'.t.elems = w.t.elems.zipIdx.filterMap (fun p => eq_keptAt env (w.pc + p.2) p.1) ∧
    (∃ ds, ds = w.t.elems.zipIdx.filterMap (fun p => eq_droppedAt env (w.pc + p.2) p.1) ∧
      w'.log = dropEvs cfg ds.reverse ++ w.log ∧
      w'.t.elems.length + ds.length = w.t.items ∧
      ((w'.t.elems ++ ds).map ab_ident).Perm (w.t.elems.map ab_ident)) := by
  have hs := retain_spec hc env w h
  rw [hr] at hs
  obtain ⟨a1, a2, a3, a4, a5⟩ := hs
  have hlen := ab_elems_length hc h.1
  refine ⟨a1, a3, hlen, eq_retain_all_answered env _ _ (by rw [a5, hlen]), ?_,
    retainDropped env w.pc w.t.elems, eq_retainDropped_zipIdx env _ _, a4, by rw [a2]; exact a5, ?_⟩
  · rw [a2, eq_retainKept_zipIdx]
  · rw [a2]
    exact retain_partition env _ _ (by rw [a5, hlen])

/-- `retain` with a pure predicate `P` (same answer for the same element at every call): the table
    holds exactly `AL.retain P` of the old elements, in order, the rejected ones (`AL.removed P`) were
    dropped once each; the predicate cannot be the reason for a panic. Conversely every
    sub-collection of a duplicate-free content is what `retain` leaves for a suitable pure predicate. -/
theorem retain_any_predicate_subset (hc : CfgOk cfg) (env : Env) (P : AL.Pred)
    (hP : ∀ c e, env.pred c e = some (P e)) (w : World) (h : TInvB cfg w.t) :
    (match Map.retain cfg env w with
     | .ok w' => TInvB cfg w'.t ∧ w'.t.elems = AL.retain P w.t.elems ∧
         w'.log = dropEvs cfg (AL.removed P w.t.elems).reverse ++ w.log ∧ w'.pc = w.pc + w.t.items
     | .panic c _ => c = "drop"
     | .abort => False
     | .fault _ => False) ∧
    (∀ S : Elem → Bool, AL.retain (fun e => (S e, e.v)) w.t.elems = w.t.elems.filter S) ∧
    (∀ s : List Elem, s.Sublist w.t.elems → w.t.elems.Nodup →
      AL.retain (fun e => (decide (e ∈ s), e.v)) w.t.elems = s) := by
  refine ⟨?_, fun S => eq_retain_filter S _, fun s hs hn => ?_⟩
  · have hs := retain_spec hc env w h
    generalize Map.retain cfg env w = r at hs
    match r, hs with
    | .ok w', ⟨a1, a2, a3, a4, _⟩ =>
      exact ⟨a1, by rw [a2, eq_retainKept_pure hP], by rw [a4, eq_retainDropped_pure hP], a3⟩
    | .panic c w', ⟨_, pre, x, post, _, _, _, b3⟩ =>
      rcases b3 with ⟨_, c2, _⟩ | ⟨c1, _⟩
      · rw [hP] at c2; cases c2
      · exact c1
    | .abort, hs => exact hs
    | .fault _, hs => exact hs
  · rw [eq_retain_filter]
    exact eq_filter_mem_of_sublist hs hn

/-- `retain` never faults or aborts; a panic (of the predicate on `x`, or of the destructor of the
    rejected `x`) leaves a valid table: the elements before `x` were handled as usual, those after `x`
    are untouched, `x` itself is still there (predicate panic) or was dropped exactly once
    (destructor panic). -/
theorem retain_panic_safe (hc : CfgOk cfg) (env : Env) (w : World) (h : TInvB cfg w.t) :
    match Map.retain cfg env w with
    | .ok w' => TInvB cfg w'.t
    | .panic c w' => TInvB cfg w'.t ∧ ∃ pre x post, w.t.elems = pre ++ x :: post ∧
        w'.pc = w.pc + pre.length + 1 ∧
        ((c = "pred" ∧ env.pred (w.pc + pre.length) x = none ∧
            w'.t.elems = retainKept env w.pc pre ++ x :: post ∧
            w'.log = dropEvs cfg (retainDropped env w.pc pre).reverse ++ w.log) ∨
         (c = "drop" ∧ cfg.needsDrop = true ∧ ∃ nv, env.pred (w.pc + pre.length) x = some (false, nv) ∧
            w'.t.elems = retainKept env w.pc pre ++ post ∧
            w'.log = dropEvs cfg ({ x with v := nv } :: (retainDropped env w.pc pre).reverse) ++ w.log))
    | .abort => False
    | .fault _ => False := by
  have hs := retain_spec hc env w h
  generalize Map.retain cfg env w = r at hs
  match r, hs with
  | .ok w', hs => exact hs.1
  | .panic c w', ⟨a1, pre, x, post, b1, b2, _, b3⟩ => exact ⟨a1, pre, x, post, b1, b2, b3⟩
  | .abort, hs => exact hs
  | .fault _, hs => exact hs

/-- `extract_if` + up to `k` × `next`, then drop of the iterator: `n` elements were visited. Yielded =
    the visited elements answered `true` (payload as written), in order; the visited ones answered
    `false` stay (payload as written); the unvisited `elems.drop n` stay untouched; the collection drops
    nothing (log unchanged); one predicate call per visited element. A panicking predicate leaves a
    valid table holding every element not yet handed out. Never faults, never aborts. -/
theorem extract_if_visited_only (hc : CfgOk cfg) (env : Env) (k : Nat) (w : World)
    (h : TInvB cfg w.t) :
    match Map.extractIf cfg env k w with
    | .ok (out, w') => TInvB cfg w'.t ∧ w'.log = w.log ∧ ∃ n, n ≤ w.t.items ∧
        out = (w.t.elems.take n).zipIdx.filterMap (fun p => eq_keptAt env (w.pc + p.2) p.1) ∧
        w'.t.elems = (w.t.elems.take n).zipIdx.filterMap (fun p => eq_droppedAt env (w.pc + p.2) p.1) ++
          w.t.elems.drop n ∧
        w'.pc = w.pc + n ∧ out.length + (w'.t.elems.length - (w.t.items - n)) = n ∧
        out.length ≤ k ∧ (out.length < k → n = w.t.items)
    | .panic c w' => c = "pred" ∧ TInvB cfg w'.t ∧ w'.log = w.log ∧ ∃ n x, w.t.elems[n]? = some x ∧
        env.pred (w.pc + n) x = none ∧
        w'.t.elems = retainDropped env w.pc (w.t.elems.take n) ++ w.t.elems.drop n ∧
        w'.pc = w.pc + n + 1
    | .abort => False
    | .fault _ => False := by
  have hs := extractIf_spec hc env k w h
  have hlen := ab_elems_length hc h.1
  generalize Map.extractIf cfg env k w = r at hs
  match r, hs with
  | .ok (out, w'), ⟨a1, a2, n, b1, b2, b3, b4, b5, b6, b7⟩ =>
    refine ⟨a1, a2, n, b1, by rw [b2, eq_retainKept_zipIdx], by rw [b3, eq_retainDropped_zipIdx], b4, ?_,
      b6, b7⟩
    rw [b3, List.length_append, List.length_drop, hlen]
    omega
  | .panic c w', ⟨c0, a1, a2, n, x, b1, b2, b3, b4, _, _⟩ => exact ⟨c0, a1, a2, n, x, b1, b2, b3, b4⟩
  | .abort, hs => exact hs
  | .fault _, hs => exact hs

/-- `extract_if` dropped early (after at most `k` yields): every element the iterator has not visited
    (`elems.drop n`) is still in the collection, as a suffix of the contents in the original order, and
    nothing was dropped. With `k = 0` (dropped before the first `next`) nothing changes at all. -/
theorem extract_if_early_drop (hc : CfgOk cfg) (env : Env) (k : Nat) (w w' : World) (out : List Elem)
    (h : TInvB cfg w.t) (hr : Map.extractIf cfg env k w = .ok (out, w')) :
    TInvB cfg w'.t ∧ w'.log = w.log ∧ out.length ≤ k ∧
    (∃ n stay, n ≤ w.t.items ∧ w'.t.elems = stay ++ w.t.elems.drop n ∧ out.length + stay.length = n ∧
      w'.pc = w.pc + n ∧ (out.length < k → n = w.t.items)) ∧
    (k = 0 → out = [] ∧ w'.t.elems = w.t.elems) := by
  have hs := extractIf_spec hc env k w h
  rw [hr] at hs
  obtain ⟨a1, a2, n, b1, b2, b3, b4, b5, b6, b7⟩ := hs
  refine ⟨a1, a2, b6, ⟨n, _, b1, b3, b5, b4, b7⟩, ?_⟩
  intro hk
  subst hk
  have hout : out = [] := List.eq_nil_of_length_eq_zero (by omega)
  refine ⟨hout, ?_⟩
  -- `Map.extractIf … 0` returns at once
  have h0 : ∀ it, Map.extractIfLoop cfg env 0 it w [] = .ok ([], w) := fun it => rfl
  unfold Map.extractIf at hr
  cases hn : RawIter.new cfg w.t with
  | error f => rw [hn] at hr; cases hr
  | ok it =>
    rw [hn] at hr
    simp only [h0] at hr
    cases hr
    rfl

/-- `drain()`, `next` × `k` for ANY `k` (none, some, all, more than all), then drop of the `Drain`:
    yielded = the first `min k len` elements, each once; every other element was dropped exactly
    once (bucket order); the collection is empty, valid and owns the SAME block (`EmptiedOf`: same
    mask / allocation flag, all control bytes EMPTY, `growth_left` = full capacity) — hence usable
    without reallocation. The only other outcome is a panicking destructor (then the collection is
    the valid unallocated empty table); never a fault or abort. -/
theorem drain_every_cut_point (hc : CfgOk cfg) (env : Env) (k : Nat) (w : World) (h : TInvB cfg w.t) :
    match Map.drain cfg env k false w with
    | .ok (out, w') =>
      out = w.t.elems.take k ∧ out.length = min k w.t.items ∧
      DropsRel cfg w w' (w.t.elems.drop k).reverse ∧
      EmptiedOf cfg w.t w'.t ∧ TInvB cfg w'.t ∧ w'.t.elems = [] ∧ w'.t.items = 0 ∧
      w'.t.mask = w.t.mask ∧ w'.t.alloc = w.t.alloc ∧ w'.t.gl = bucketMaskToCapacity w.t.mask
    | .panic c w' => c = "drop" ∧ w'.t = Raw.new cfg.W ∧ TInvB cfg w'.t ∧ cfg.needsDrop = true ∧
        ∃ ds e rest, w.t.elems.drop k = ds ++ e :: rest ∧ DropsRel cfg w w' (ds ++ [e]).reverse ∧
          env.dropPanics (w.dc + ds.length) e = true
    | .abort => False
    | .fault _ => False := by
  have hs := drain_spec hc env k false w h
  generalize Map.drain cfg env k false w = r at hs
  match r, hs with
  | .ok (out, w'), ⟨a1, a2, _, a4⟩ =>
    obtain ⟨e1, e2⟩ := a4 rfl
    exact ⟨a1, a2, e2, e1, e1.2.1, e1.2.2.2.1, e1.2.2.1, e1.2.2.2.2.1, e1.2.2.2.2.2.1, e1.2.2.2.2.2.2.1⟩
  | .panic c w', ⟨a1, _, a3, a4, a5⟩ =>
    exact ⟨a1, a3, by rw [a3]; exact ⟨Raw.new_inv hc, Raw.new_layoutOk cfg⟩, a4, a5⟩
  | .abort, hs => exact hs
  | .fault _, hs => exact hs

/-- `mem::forget(drain)` after `k` × `next`: the collection is the valid, empty, unallocated table
    (`Raw.new`), nothing was dropped and nothing else in the world changed (the block and the
    remaining elements are leaked, which is safe). -/
theorem drain_forgotten (hc : CfgOk cfg) (env : Env) (k : Nat) (w : World) (h : TInvB cfg w.t) :
    ∃ out w', Map.drain cfg env k true w = .ok (out, w') ∧ out = w.t.elems.take k ∧
      out.length = min k w.t.items ∧ w' = { w with t := Raw.new cfg.W } ∧ w'.log = w.log ∧
      TInvB cfg w'.t ∧ w'.t.elems = [] ∧ w'.t.alloc = false := by
  have hs := drain_spec hc env k true w h
  generalize Map.drain cfg env k true w = r at hs
  match r, hs with
  | .ok (out, w'), ⟨a1, a2, a3, _⟩ =>
    have hw := a3 rfl
    refine ⟨out, w', rfl, a1, a2, hw, by rw [hw], ?_, by rw [hw]; rfl, by rw [hw]; rfl⟩
    rw [hw]
    exact ⟨Raw.new_inv hc, Raw.new_layoutOk cfg⟩
  | .panic c w', ⟨_, a2, _⟩ => cases a2
  | .abort, hs => exact hs.elim
  | .fault _, hs => exact hs.elim

/-- HashSet runs the same code: its `retain` / `extract_if` / `drain` ARE the HashMap functions, on the
    set's view of the environment (`Set.envOf`: the predicate gets `&T` and cannot write, so the
    payload it "writes" is the old one). Every theorem above quantifies over all environments, hence
    applies verbatim. (HashTable's calls are dispatched to the same `Map.*` functions by the driver,
    with `Table.envFor`.) -/
theorem set_shares_code (env : Env) (k : Nat) (forget : Bool) (w : World) :
    Set.retain cfg env w = Map.retain cfg (Set.envOf env) w ∧
    Set.extractIf cfg env k w = Map.extractIf cfg (Set.envOf env) k w ∧
    Set.drain cfg env k forget w = Map.drain cfg env k forget w ∧
    (∀ c e b nv, (Set.envOf env).pred c e = some (b, nv) → nv = e.v) := by
  refine ⟨rfl, rfl, rfl, ?_⟩
  intro c e b nv h
  simp only [Set.envOf] at h
  split at h
  · simp only [Option.some.injEq, Prod.mk.injEq] at h
    exact h.2.symm
  · cases h

#print axioms retain_once_per_element
#print axioms retain_any_predicate_subset
#print axioms retain_panic_safe
#print axioms extract_if_visited_only
#print axioms extract_if_early_drop
#print axioms drain_every_cut_point
#print axioms drain_forgotten
#print axioms set_shares_code

end Hb.C10
