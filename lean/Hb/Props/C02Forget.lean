/-
C02 (leak clause) — "… and including leaking (`mem::forget`) any iterator, drain, entry or guard
object part-way through its use … After an iterator or drain has been leaked the collection is still
a valid (possibly emptied) collection that can be used and dropped normally."

Thin restatements of `Hb/Proofs/ForgetSpec.lean`.  Everything holds for EVERY environment (arbitrary,
call-number dependent, possibly panicking `Hash` / `Eq` / predicate / `Drop`, an allocator that may
refuse), both group widths, every element layout, from every table satisfying the API invariant
`TInv` (which every history of safe calls maintains, `Hb.C02.no_undefined_behaviour_all_calls`).

Which object                         leaked state                                   theorem
 `ExtractIf` after `k` × `next`      state after the `k` steps (no `Drop` impl)      `extract_if_leaked`, `extract_if_leaked_no_double_drop`
 `Iter`/`Keys`/`Values`/set/table    the world before, literally                    `borrowing_iterator_leaked`
 `IterMut`/`ValuesMut`/table mut     only payload writes into live slots             `mutable_iterator_leaked`
 `IterHash`/`IterHashMut`            table only read; steps = prefix of full run     `iter_hash_leaked`
 `Entry` (map)                       table unchanged                                `entry_leaked`
 `EntryRef`                          table, log unchanged                           `entry_ref_leaked`
 `RawEntryMut`                       table unchanged                                `raw_entry_mut_leaked`
 `RustcEntry`                        occupied: unchanged; vacant: after `reserve(1)` `rustc_entry_leaked`
 `hash_table::Entry`                 after `reserve(1)`                              `table_entry_leaked`
 `OccupiedEntry` after any chain     valid; in-place updates touch one live slot     `occupied_entry_leaked`, `occupied_entry_inplace`
 `OccupiedEntry` from vacant insert  element already stored                         `inserted_entry_leaked`, `inserted_entry_leaked_no_grow`
 `IntoIter`/`IntoKeys`/`IntoValues`  collection gone (= `new()`); yielded elements   `owning_iterator_leaked`
   set / table `IntoIter`, `Drain`   are the caller's, nothing else dropped / freed
 `Drain`                             valid empty unallocated table                  `drain_leaked`
 scope guards                        cannot be leaked by safe code                  (remark below)
 any of the above, then any history  never a fault, `TInv` kept                     `leak_then_any_history_safe`, `leaks_then_any_history_safe`

REMARK (scope guards). The guards of `prepare_resize` (raw/mod.rs `resize_inner`), `rehash_in_place`,
`clone_from_impl` and `clear` are `ScopeGuard` locals of private methods; no safe public function
returns, stores or lends one and no user callback receives one, so safe code cannot `mem::forget`
them. There is hence nothing to state; what they do when they RUN is part of `reserve_spec`,
`clear_spec`, `cloneFrom_spec` and of every history theorem of C02.

Not expressible in the model (as for all of C02): lifetimes — that the borrow checker prevents using
the collection while a NOT-leaked borrowing iterator or entry is still alive; here the object is gone.
-/
import Hb.Proofs.ForgetSpec
namespace Hb.C02F
open Hb

variable {cfg : Cfg}

/-- `extract_if`, `next` × `k`, then `mem::forget` (or a predicate panic in the middle of a `next`):
    never a fault or abort; valid table, `len` = number of stored elements; nothing dropped; handed
    out ∪ still stored = stored before (as identities): the leaked object owned nothing. -/
theorem extract_if_leaked (hc : CfgOk cfg) (env : Env) (k : Nat) (w : World) (h : TInv cfg w.t) :
    match Map.extractIf cfg env k w with
    | .ok (out, w') => TInv cfg w'.t ∧ w'.t.items = w'.t.elems.length ∧ w'.log = w.log ∧
        out.length ≤ k ∧ ((w'.t.elems ++ out).map ab_ident).Perm (w.t.elems.map ab_ident)
    | .panic c w' => c = "pred" ∧ TInv cfg w'.t ∧ w'.t.items = w'.t.elems.length ∧ w'.log = w.log ∧
        ∃ out : List Elem, out.length < k ∧
          ((w'.t.elems ++ out).map ab_ident).Perm (w.t.elems.map ab_ident)
    | .abort => False
    | .fault _ => False :=
  forget_extractIf hc env k w h

/-- Distinct key objects before ⇒ the caller's and the table's key objects are pairwise distinct
    afterwards: no later drop of the collection can drop an object the caller owns. -/
theorem extract_if_leaked_no_double_drop (hc : CfgOk cfg) (env : Env) (k : Nat) (w : World)
    (h : TInv cfg w.t) (hnd : (w.t.elems.map fg_kid).Nodup) {out : List Elem} {w' : World}
    (hr : Map.extractIf cfg env k w = .ok (out, w')) : ((w'.t.elems ++ out).map fg_kid).Nodup :=
  forget_extractIf_nodup hc env k w h hnd hr

/-- `iter()` / `iter_mut()` / `keys()` / `values()` / `values_mut()` / `HashSet::iter` /
    `HashTable::iter` / `HashTable::iter_mut`, `next` × `n`, forget: the calls never fault and the
    world is the world before. -/
theorem borrowing_iterator_leaked (hc : CfgOk cfg) (k : IW.Kind) (n : Nat) (w : World)
    (h : Inv cfg w.t) :
    Forget.leakBorrow cfg k n w =
      .ok (((IW.wrapItems k w.t).take n).map some ++ List.replicate (n - w.t.items) none, w) :=
  forget_borrow hc k n w h

/-- The `&mut`-yielding iterators with arbitrary writes through the yielded references, then
    forgotten: never a fault, valid table, same control bytes / `len`; payload-only writes keep every
    stored identity. -/
theorem mutable_iterator_leaked (hc : CfgOk cfg) (k : IW.Kind) (us : List (Option (Elem → Elem)))
    (w : World) (h : TInv cfg w.t) :
    ∃ items w', Forget.leakIterMut cfg k us w = .ok (items, w') ∧ items.length = us.length ∧
      TInv cfg w'.t ∧ w'.t.items = w'.t.elems.length ∧ w'.t.ctrl = w.t.ctrl ∧ w'.t.mask = w.t.mask ∧
      w'.t.items = w.t.items ∧ w'.log = w.log ∧
      ((∀ u ∈ us, ∀ upd, u = some upd → ∀ e, ab_ident (upd e) = ab_ident e) →
        w'.t.elems.map ab_ident = w.t.elems.map ab_ident) :=
  forget_iterMut hc k us w h

/-- `iter_hash` / `iter_hash_mut`, `next` × `n`, forget: never a fault; the first `n` buckets of the
    full run, all live. -/
theorem iter_hash_leaked (hc : CfgOk cfg) {t : Raw} (h : Inv cfg t) (hash n : Nat) :
    ∃ full, Table.iterHash cfg t hash = .ok full ∧
      Forget.iterHashN cfg t hash n = .ok (full.take n) ∧ full.Nodup ∧
      ∀ i ∈ full.take n,
        i < t.buckets ∧ isFull (t.ctrlAt i) = true ∧ ∃ e, t.slots[i]?.join = some e :=
  forget_iterHash hc h hash n

/-- `entry(key)`, `Entry` forgotten: table unchanged (vacant: nothing logged, the key is leaked with
    the entry). -/
theorem entry_leaked (hc : CfgOk cfg) (env : Env) (k kid : Nat) (w : World) (h : TInv cfg w.t) :
    match Map.entryLook cfg env k kid w with
    | .ok ((_, r), w') => w'.t = w.t ∧ TInv cfg w'.t ∧ w'.t.items = w'.t.elems.length ∧
        (r = none → w'.log = w.log)
    | .panic _ w' => w'.t = w.t ∧ TInv cfg w'.t ∧ w'.t.items = w'.t.elems.length
    | .abort => False
    | .fault _ => False :=
  forget_entry_new hc env k kid w h

/-- `entry_ref(&key)`, `EntryRef` forgotten. -/
theorem entry_ref_leaked (hc : CfgOk cfg) (env : Env) (k : Nat) (w : World) (h : TInv cfg w.t) :
    match en_search cfg env k w with
    | .ok (_, _, w') => w'.t = w.t ∧ w'.log = w.log ∧ TInv cfg w'.t ∧ w'.t.items = w'.t.elems.length
    | .panic _ w' => w'.t = w.t ∧ w'.log = w.log ∧ TInv cfg w'.t ∧ w'.t.items = w'.t.elems.length
    | .abort => False
    | .fault _ => False :=
  forget_entryRef_new hc env k w h

/-- `raw_entry_mut().from_*(..)` with any hash, `RawEntryMut` forgotten. -/
theorem raw_entry_mut_leaked (hc : CfgOk cfg) (env : Env) (mode : Map.RawMode) (ph k : Nat)
    (w : World) (h : TInv cfg w.t) :
    match Map.rawLook cfg env mode ph k w with
    | .ok (_, w') => w'.t = w.t ∧ TInv cfg w'.t ∧ w'.t.items = w'.t.elems.length
    | .panic _ w' => w'.t = w.t ∧ TInv cfg w'.t ∧ w'.t.items = w'.t.elems.length
    | .abort => False
    | .fault _ => False :=
  forget_rawEntryMut_new hc env mode ph k w h

/-- `rustc_entry(key)`, `RustcEntry` forgotten: on the vacant side the state after `reserve(1)`. -/
theorem rustc_entry_leaked (hc : CfgOk cfg) (env : Env) (k kid : Nat) (w : World)
    (h : TInv cfg w.t) :
    match Map.rustcLook cfg env k kid w with
    | .ok ((_, some _), w') => w'.t = w.t ∧ TInv cfg w'.t ∧ w'.t.items = w'.t.elems.length
    | .ok ((_, none), w') => TInv cfg w'.t ∧ w'.t.items = w'.t.elems.length ∧
        List.Perm w'.t.elems w.t.elems ∧ w'.t.items = w.t.items ∧ 0 < w'.t.gl
    | .panic _ w' => GuardRuns cfg → TInv cfg w'.t ∧ w'.t.items = w'.t.elems.length
    | .abort => env.allocOk w.ac = false
    | .fault _ => False :=
  forget_rustcEntry_new hc env k kid w h

/-- `HashTable::entry(hash, eq, hasher)`, `Entry` forgotten: the state after `reserve(1)`. -/
theorem table_entry_leaked (hc : CfgOk cfg) (env : Env) (hash q : Nat) (w : World)
    (h : TInv cfg w.t) :
    match Table.entry cfg env hash q w with
    | .ok (_, w') => TInv cfg w'.t ∧ w'.t.items = w'.t.elems.length ∧
        List.Perm w'.t.elems w.t.elems ∧ w'.t.items = w.t.items ∧ ∀ ev ∈ w'.log, AllocOnly w.log ev
    | .panic _ w' => GuardRuns cfg → TInv cfg w'.t ∧ w'.t.items = w'.t.elems.length
    | .abort => env.allocOk w.ac = false
    | .fault _ => False :=
  forget_tableEntry_new hc env hash q w h

/-- An `OccupiedEntry` after any method chain, then forgotten. -/
theorem occupied_entry_leaked (hc : CfgOk cfg) (env : Env) (idx : Nat) (c : Map.EChain) (w : World)
    (h : TInv cfg w.t) {old : Elem} (he : w.t.slots[idx]?.join = some old) :
    match Map.chainOcc cfg env idx c w with
    | .ok (_, w') => TInv cfg w'.t ∧ w'.t.items = w'.t.elems.length
    | .panic _ w' => TInv cfg w'.t ∧ w'.t.items = w'.t.elems.length
    | .abort => False
    | .fault _ => False :=
  forget_occupied_updated hc env idx c w h he

/-- `OccupiedEntry::insert` / `get_mut` writes: exactly one live slot is overwritten. -/
theorem occupied_entry_inplace (hc : CfgOk cfg) (env : Env) (idx : Nat) (w : World)
    (h : TInv cfg w.t) {old : Elem} (he : w.t.slots[idx]?.join = some old) :
    (∀ vid v, Map.chainOcc cfg env idx (.occInsert vid v) w =
      .ok ((true, .val old.vid old.v),
        { w with t := Map.slotSet w.t idx { old with vid := vid, v := v } })) ∧
    (∀ nv, Map.chainOcc cfg env idx (.occGetMut nv) w =
      .ok ((true, .val old.vid nv), { w with t := Map.slotSet w.t idx { old with v := nv } })) ∧
    (∀ e', TInv cfg (Map.slotSet w.t idx e') ∧
      (Map.slotSet w.t idx e').items = (Map.slotSet w.t idx e').elems.length ∧
      (Map.slotSet w.t idx e').ctrl = w.t.ctrl ∧ (Map.slotSet w.t idx e').items = w.t.items ∧
      (ab_ident e' = ab_ident old →
        (Map.slotSet w.t idx e').elems.map ab_ident = w.t.elems.map ab_ident)) :=
  forget_occupied_inplace hc env idx w h he

/-- `VacantEntry::insert_entry` (growing insert), returned `OccupiedEntry` forgotten: the element is
    stored. -/
theorem inserted_entry_leaked (hc : CfgOk cfg) (hg : GuardRuns cfg) (env : Env) (hash : Nat)
    (e : Elem) (w : World) (h : TInv cfg w.t) :
    match Map.insOwned cfg env hash e w with
    | .ok (idx, w') => TInv cfg w'.t ∧ w'.t.items = w'.t.elems.length ∧
        List.Perm w'.t.elems (e :: w.t.elems) ∧ w'.t.slots[idx]? = some (some e) ∧
        ∀ ev ∈ w'.log, AllocOnly w.log ev
    | .panic _ w' => TInv cfg w'.t ∧ w'.t.items = w'.t.elems.length
    | .abort => env.allocOk w.ac = false
    | .fault _ => False :=
  forget_vacant_inserted hc hg env hash e w h

/-- The same for `RustcVacantEntry::insert` / `hash_table::VacantEntry::insert` (no growth). -/
theorem inserted_entry_leaked_no_grow (hc : CfgOk cfg) (hash : Nat) (e : Elem) (w : World)
    (h : TInv cfg w.t) (hgl : 0 < w.t.gl) :
    ∃ idx w', Map.insNoGrow cfg hash e w = .ok (idx, w') ∧ TInv cfg w'.t ∧
      w'.t.items = w'.t.elems.length ∧ List.Perm w'.t.elems (e :: w.t.elems) ∧
      w'.t.slots[idx]? = some (some e) ∧ w'.log = w.log :=
  forget_vacant_inserted_noGrow hc hash e w h hgl

/-- `into_iter` / `into_keys` / `into_values` / `drain` (map, set, table), `next` × `n`, forget: the
    yielded elements are the caller's; the collection is `new()`; only halves of yielded pairs were
    dropped, nothing freed; the rest sits untouched in the leaked block. -/
theorem owning_iterator_leaked (hc : CfgOk cfg) (env : Env) (kind : IW.OKind) (n : Nat) (w : World)
    (h : TInv cfg w.t) (hq : IW.KeyDropsQuiet env kind) :
    ∃ o' w', Forget.leakOwn cfg env kind n w = .ok ((IW.ownItems kind w.t).take n, o', w') ∧
      ((IW.ownItems kind w.t).take n).length = min n w.t.items ∧
      w'.t = Raw.new cfg.W ∧ TInv cfg w'.t ∧ w'.t.items = w'.t.elems.length ∧ w'.t.elems = [] ∧
      w'.log = IW.stepEvs cfg kind (w.t.elems.take n) ++ w.log ∧
      o'.kind = kind ∧ ClearedOn w.t o'.raw.held (w.t.fullList.take n) ∧
      o'.raw.held.elems = w.t.elems.drop n :=
  forget_own hc env kind n w h hq

/-- `drain()`, `next` × `k`, forget. -/
theorem drain_leaked (hc : CfgOk cfg) (env : Env) (k : Nat) (w : World) (h : TInv cfg w.t) :
    Map.drain cfg env k true w = .ok (w.t.elems.take k, { w with t := Raw.new cfg.W }) ∧
      (w.t.elems.take k).length = min k w.t.items ∧
      TInv cfg (Raw.new cfg.W) ∧ (Raw.new cfg.W).items = (Raw.new cfg.W).elems.length ∧
      (Raw.new cfg.W).elems = [] :=
  forget_drain hc env k w h

/-- **Summary.** Leak any of the objects above (`Forget.LeakOp`, `Forget.leakStep`) from any valid
    table: the leak never faults, and what is left — also after an unwind — is `Forget.Usable`: a
    valid table from which ANY history of `MapOpX` calls against ANY environment never faults and
    keeps `TInv` (unfolded here). -/
theorem leak_then_any_history_safe (hc : CfgOk cfg) (hg : GuardRuns cfg) (env : Env)
    (op : Forget.LeakOp) (w : World) (h : TInv cfg w.t) :
    match Forget.leakStep cfg env op w with
    | .ok w' | .panic _ w' =>
      TInv cfg w'.t ∧ w'.t.items = w'.t.elems.length ∧
      ∀ (env' : Env) (ops : List MapOpX),
        Map.runXFaults cfg env' ops w' = false ∧
        (∀ obs wf, Map.runX cfg env' ops w' = some (obs, wf) →
          TInv cfg wf.t ∧ wf.t.items = wf.t.elems.length) ∧
        ((∀ j, env'.allocOk j = true) → ∃ obs wf, Map.runX cfg env' ops w' = some (obs, wf))
    | .abort => ∃ j, env.allocOk j = false
    | .fault _ => False := by
  have hs := Hb.leak_then_any_history_safe hc hg env op w h
  generalize Forget.leakStep cfg env op w = r at hs ⊢
  match r, hs with
  | .ok _, hs => exact hs
  | .panic _ _, hs => exact hs
  | .abort, hs => exact hs
  | .fault _, hs => exact hs

/-- Any number of leaks in a row, then any history. -/
theorem leaks_then_any_history_safe (hc : CfgOk cfg) (hg : GuardRuns cfg) (env : Env)
    (lops : List Forget.LeakOp) (w : World) (h : TInv cfg w.t) :
    (∀ wf, Forget.leakRun cfg env lops w = some wf → Forget.Usable cfg wf) ∧
    ((∀ j, env.allocOk j = true) → ∃ wf, Forget.leakRun cfg env lops w = some wf) :=
  Hb.leaks_then_any_history_safe hc hg env lops w h

/-! ### non-vacuity: evaluated leaks (SSE2 scanner, `hsExEnv` of `History.lean`) -/

def exCfg : Cfg := { ops := Sse2.ops }

/-- Three elements in a 4-bucket table (`growth_left = 0`). -/
def exWorld : World :=
  match Map.runX exCfg hsExEnv
      [.base (.insert ⟨1, 10, 100, 0⟩), .base (.insert ⟨2, 20, 200, 0⟩),
       .base (.insert ⟨3, 30, 300, 0⟩)] { t := Raw.new 16 } with
  | some (_, wf) => wf
  | none => { t := Raw.new 16 }

theorem exWorld_shape : (exWorld.t.items, exWorld.t.mask, exWorld.t.gl) = (3, 3, 0) := by rfl

/-- `(len, bucket mask, growth_left, number of log entries)` after the leaks, then the same after the
    continuation history. -/
def exSummary (lops : List Forget.LeakOp) (ops : List MapOpX) :
    Option ((Nat × Nat × Nat × Nat) × (Nat × Nat × Nat × Nat)) :=
  match Forget.leakRun exCfg hsExEnv lops exWorld with
  | none => none
  | some w1 =>
    match Map.runX exCfg hsExEnv ops w1 with
    | none => none
    | some (_, w2) =>
      some ((w1.t.items, w1.t.mask, w1.t.gl, w1.log.length),
        (w2.t.items, w2.t.mask, w2.t.gl, w2.log.length))

def exCont : List MapOpX :=
  [.base (.insert ⟨9, 90, 900, 0⟩), .entry 1 13 (.occInsert 103 4), .base (.remove 2), .base .clear]

/-- A leaked `ExtractIf` (one element handed out, 2 left), then a history. -/
theorem ex_extractIf : exSummary [.extractIf 1] exCont = some ((2, 3, 1, 1), (0, 3, 3, 8)) := by rfl

/-- Leaked borrowing / mutable / hash iterators: nothing changes (`ValuesMut` wrote one payload). -/
theorem ex_iters :
    exSummary [.borrow .mapIter 2, .borrow .setIter 9,
        .iterMut .mapValuesMut [some (fun e => { e with v := 9 }), none],
        .iterHash (1 * 2654435761) 3] [] = some ((3, 3, 0, 1), (3, 3, 0, 1)) := by rfl

/-- The `ValuesMut` write really happened, through the first yielded reference only. -/
theorem ex_iterMut_writes :
    (Forget.leakIterMut exCfg .mapValuesMut [some (fun e => { e with v := 9 }), none] exWorld).toOption.map
        (fun x => (x.1.length, x.2.t.elems.map (·.v))) =
      some (2, (exWorld.t.elems.map (·.v)).set 0 9) := by rfl

/-- Leaked entries: `entry` / `entry_ref` / `raw_entry_mut` leave the full table alone;
    `rustc_entry` of an absent key at full load has grown it (4 → 8 buckets) before the entry was
    leaked; then a history. -/
theorem ex_entries :
    exSummary [.entryNew 7 70, .entryRefNew 1, .rawEntryNew .fromKey 0 2] [] =
      some ((3, 3, 0, 1), (3, 3, 0, 1)) ∧
    exSummary [.rustcEntryNew 8 80] exCont = some ((3, 7, 4, 3), (0, 7, 7, 11)) ∧
    exSummary [.tableEntryNew 12345 9] [] = some ((3, 7, 4, 3), (3, 7, 4, 3)) :=
  ⟨by rfl, by rfl, by rfl⟩

/-- A leaked `OccupiedEntry` after `get_mut`, a leaked `OccupiedEntry` returned by
    `insert_entry` (the 4th element is stored, the table grew), a leaked `Drain` (empty, unallocated,
    the 8-bucket block leaked), then a history on the emptied collection. -/
theorem ex_occupied_inserted_drain :
    exSummary [.occupied 1 12 (.occGetMut 77)] [] = some ((3, 3, 0, 2), (3, 3, 0, 2)) ∧
    exSummary [.vacantInserted 6 60 600 1] [] = some ((4, 7, 3, 3), (4, 7, 3, 3)) ∧
    exSummary [.vacantInserted 6 60 600 1, .drain 1] exCont = some ((0, 0, 0, 3), (0, 3, 3, 8)) :=
  ⟨by rfl, by rfl, by rfl⟩

/-- A leaked `IntoKeys` after one step: one key yielded, its value half dropped (one `dropV` more in
    the log, nothing freed), the collection is `new()`, the other two elements sit in the leaked
    block. -/
theorem ex_intoKeys :
    (match Forget.leakOwn exCfg hsExEnv .mapIntoKeys 1 exWorld with
      | .ok (xs, o', w') =>
        some (xs.length, o'.raw.held.elems.length, w'.t.items, w'.t.alloc, w'.log.length)
      | _ => none) = some (1, 2, 0, false, exWorld.log.length + 1) := by rfl

#print axioms extract_if_leaked
#print axioms extract_if_leaked_no_double_drop
#print axioms borrowing_iterator_leaked
#print axioms mutable_iterator_leaked
#print axioms iter_hash_leaked
#print axioms entry_leaked
#print axioms entry_ref_leaked
#print axioms raw_entry_mut_leaked
#print axioms rustc_entry_leaked
#print axioms table_entry_leaked
#print axioms occupied_entry_leaked
#print axioms occupied_entry_inplace
#print axioms inserted_entry_leaked
#print axioms inserted_entry_leaked_no_grow
#print axioms owning_iterator_leaked
#print axioms drain_leaked
#print axioms leak_then_any_history_safe
#print axioms leaks_then_any_history_safe
#print axioms exWorld_shape
#print axioms ex_extractIf
#print axioms ex_iters
#print axioms ex_iterMut_writes
#print axioms ex_entries
#print axioms ex_occupied_inserted_drain
#print axioms ex_intoKeys

end Hb.C02F
