/-
Property C16 -- Send/Sync bounds and borrow ties of every public type, proved over the
compiler-derived tables.

  model side        : `Hb.Gen.Markers`  (GENERATED from /repo by translate/rustdoc2lean.py: the
                      compiler's own `impl Send/Sync` answers and method signatures)
  requirement side  : `Hb.Props.C16Req` (hand-written from the property text)

All theorems are closed by `decide +kernel` over the finite tables.  The quantifier over
*instantiations* of K, V, S, A, ... is discharged by rustc (the impls are generic; a bound
`K: Send` in an impl is a statement about every K); the quantifier over *types* and *methods* is
the table.  Variance (`.mutable` ⇒ invariant) is not visible in rustdoc JSON; it is checked by the
obligation corpus /verif/harness/c16 (generated from the same `req` table).
-/
import Hb.Gen.Markers
import Hb.Props.C16Req

namespace Hb.Props.C16
open Hb.Gen

/-! ## Marker bounds -/

/-- Does the bound list of an impl satisfy a need on parameter `p`? (`Send`/`Sync` are
incomparable, so "or a stronger one" means: the needed bound is present, possibly among others.) -/
def satisfies (bs : List (String × String)) (p : String) : Need → Bool
  | .send => bs.contains (p, "Send")
  | .sync => bs.contains (p, "Sync")
  | .sendOrSync => bs.contains (p, "Send") || bs.contains (p, "Sync")

/-- Requirement row `r` is respected by impl record `im` (of trait `tr`, with rule `need`):
other type, or no positive impl at all, or the demanded bound is there. -/
def implRespects (need : Access → Need) (r : ReqRow) (im : MarkerImpl) : Bool :=
  im.typeName != r.typeName || im.negative || satisfies im.bounds r.param (need r.access)

def waived (r : ReqRow) (tr : String) : Bool := waivers.contains (r.typeName, r.param, tr)

/-- `send_requires`: for every public type and every parameter it gives access to, every
`impl Send` the compiler knows for that type (synthesised or manual) carries the bound the rule
demands (`Send` for owning/mutable access, `Sync` for shared access, either for exclRead) --
except for the explicitly recorded deviations in `waivers`. -/
theorem send_requires :
    ∀ r ∈ req, waived r "Send" = false →
      ∀ im ∈ sendImpls, implRespects needForSend r im = true := by
  decide +kernel

/-- `sync_requires`: every `impl Sync` demands `Sync` of every accessible parameter. -/
theorem sync_requires :
    ∀ r ∈ req, waived r "Sync" = false →
      ∀ im ∈ syncImpls, implRespects needForSync r im = true := by
  decide +kernel

/-- Spelled-out reading of `send_requires` for one (type, param). -/
theorem send_requires_iff (r : ReqRow) (hr : r ∈ req) (hw : waived r "Send" = false)
    (im : MarkerImpl) (him : im ∈ sendImpls) (ht : im.typeName = r.typeName)
    (hp : im.negative = false) :
    satisfies im.bounds r.param (needForSend r.access) = true := by
  have h := send_requires r hr hw im him
  simpa [implRespects, ht, hp] using h

theorem sync_requires_iff (r : ReqRow) (hr : r ∈ req) (hw : waived r "Sync" = false)
    (im : MarkerImpl) (him : im ∈ syncImpls) (ht : im.typeName = r.typeName)
    (hp : im.negative = false) :
    im.bounds.contains (r.param, "Sync") = true := by
  have h := sync_requires r hr hw im him
  simpa [implRespects, ht, hp, needForSync, satisfies] using h

/-- A waiver is only allowed for a real deviation: the row exists, and some positive impl of the
named trait lacks the demanded bound.  (So a fix upstream, or a typo here, breaks the build.) -/
def waiverIsDeviation (w : String × String × String) : Bool :=
  let (t, p, tr) := w
  let impls := if tr == "Send" then sendImpls else syncImpls
  let need := if tr == "Send" then needForSend else needForSync
  (tr == "Send" || tr == "Sync") &&
  req.any fun r => r.typeName == t && r.param == p &&
    impls.any fun im => !(implRespects need r im)

theorem waivers_are_exact : ∀ w ∈ waivers, waiverIsDeviation w = true := by
  decide +kernel

/-! ## Coverage: nothing public is silently unchecked -/

def reqHas (t p : String) : Bool := req.any fun r => r.typeName == t && r.param == p

/-- Every generic type parameter of every public type has a requirement row. -/
theorem every_public_type_has_req_row :
    ∀ tp ∈ publicTypes, ∀ p ∈ tp.2, reqHas tp.1 p = true := by
  decide +kernel

def isPublicParam (t p : String) : Bool := publicTypes.any fun tp => tp.1 == t && tp.2.contains p

def keys : List (String × String) := req.map fun r => (r.typeName, r.param)

/-- ... and vice versa: every requirement row names an existing public type and one of its
parameters, there are no duplicate rows, every public type has a `Send` and a `Sync` record, every
record is about a public type, and every bound in a record is `Send`/`Sync` on one of the type's own
parameters (the generator renders anything else verbatim, which fails this check closed). -/
theorem tables_cover_each_other :
    (∀ r ∈ req, isPublicParam r.typeName r.param = true) ∧
    keys.Nodup ∧
    (publicTypes.map (·.1)).Nodup ∧
    (∀ tp ∈ publicTypes, sendImpls.any (·.typeName == tp.1) = true ∧
                         syncImpls.any (·.typeName == tp.1) = true) ∧
    (∀ im ∈ sendImpls ++ syncImpls, publicTypes.any (·.1 == im.typeName) = true ∧
        ∀ b ∈ im.bounds, isPublicParam im.typeName b.1 = true ∧ (b.2 = "Send" ∨ b.2 = "Sync")) ∧
    publicTypes.length = numPublicTypes := by
  decide +kernel

/-- The types with no positive impl are exactly the expected ones (stronger than required). -/
def negatives : List (String × String) :=
  (sendImpls.filter (·.negative)).map (fun im => (im.typeName, "Send")) ++
  (syncImpls.filter (·.negative)).map (fun im => (im.typeName, "Sync"))

theorem not_implemented_exact :
    (∀ x ∈ negatives, x ∈ notImplemented) ∧ (∀ x ∈ notImplemented, x ∈ negatives) := by
  decide +kernel

/-! ## Borrows -/

/-- Lifetime sources that tie a returned lifetime to an *input* of the method:
(a) elided ⇒ the receiver borrow; (b) a named lifetime of the receiver reference or of `Self`;
(c) a lifetime that only occurs in another argument (e.g. `'b` of `entry_ref`'s key). -/
def tiedSources : List String :=
  ["elided-receiver", "receiver", "self-type", "arg", "elided-arg",
   "outlived-by-receiver", "outlived-by-self-type", "outlived-by-arg"]

/-- `borrows_tied`: no public inherent method returns a reference / iterator / entry whose
lifetime is `'static` or a free (unconstrained) lifetime -- kind (d). -/
theorem borrows_tied :
    ∀ m ∈ methods, m.returnLifetimes.length = m.lifetimeSources.length ∧
      ∀ s ∈ m.lifetimeSources, s ∈ tiedSources := by
  decide +kernel

/-- A method that takes `&self`/`&mut self` and returns something containing a `&mut` ties it to
*that* receiver borrow (never to the longer lifetime parameter of `Self`), so two calls cannot
yield two live `&mut` to the same element. -/
theorem mut_reborrow_tied :
    ∀ m ∈ methods, (m.receiver = "&self" ∨ m.receiver = "&mut self") → m.returnsMutRef = true →
      ∀ s ∈ m.lifetimeSources, s = "elided-receiver" ∨ s = "receiver" := by
  decide +kernel

/-- Nothing hands out `&mut` from a shared receiver. -/
theorem no_mut_from_shared :
    ∀ m ∈ methods, m.receiver = "&self" → m.returnsMutRef = false := by
  decide +kernel

theorem methods_counted : methods.length = numMethods := by decide +kernel

/-! ## Non-vacuity and sensitivity (the checks can fail, and the tables are not empty) -/

example : 150 ≤ req.length ∧ 60 ≤ publicTypes.length ∧ publicTypes.length ≤ sendImpls.length ∧
    publicTypes.length ≤ syncImpls.length ∧ 100 ≤ methods.length := by
  decide +kernel

/-- The row and the record the task description uses as its running example are really there. -/
example : (⟨"hash_map::IterMut", "V", .mutable⟩ : ReqRow) ∈ req ∧
    (⟨"hash_map::IterMut", false, false, [("K", "Send"), ("V", "Send")]⟩ : MarkerImpl) ∈ sendImpls := by
  decide +kernel

/-- A weakened `unsafe impl<K: Send, V> Send for IterMut<'_, K, V>` would be caught ... -/
example : implRespects needForSend ⟨"hash_map::IterMut", "V", .mutable⟩
    ⟨"hash_map::IterMut", false, false, [("K", "Send")]⟩ = false := by decide
/-- ... `V: Sync` instead of `V: Send` is not "stronger" ... -/
example : implRespects needForSend ⟨"hash_map::IterMut", "V", .mutable⟩
    ⟨"hash_map::IterMut", false, true, [("K", "Send"), ("V", "Sync")]⟩ = false := by decide
/-- ... a shared iterator that only asked for `Send` contents would be caught ... -/
example : implRespects needForSend ⟨"hash_map::Iter", "K", .shared⟩
    ⟨"hash_map::Iter", false, true, [("K", "Send"), ("V", "Sync")]⟩ = false := by decide
/-- ... an exclusive-but-read-only component may be `Send` or `Sync`, but not unbounded ... -/
example : implRespects needForSend ⟨"hash_map::IterMut", "K", .exclRead⟩
    ⟨"hash_map::IterMut", false, true, [("K", "Sync"), ("V", "Send")]⟩ = true ∧
  implRespects needForSend ⟨"hash_map::IterMut", "K", .exclRead⟩
    ⟨"hash_map::IterMut", false, true, [("V", "Send")]⟩ = false := by decide
/-- ... and a type without any positive impl satisfies the requirement trivially. -/
example : implRespects needForSend ⟨"hash_table::IterHash", "T", .shared⟩
    ⟨"hash_table::IterHash", true, true, []⟩ = true := by decide

/-- The waived rows are the only thing between the tables and the unrestricted statement:
without the waiver list the `Send` statement is *false* (finding C16-F1). -/
theorem send_requires_without_waivers_fails :
    ¬ (∀ r ∈ req, ∀ im ∈ sendImpls, implRespects needForSend r im = true) := by
  decide +kernel

/-- `Sync` needs no waiver at all. -/
theorem sync_requires_unconditional :
    ∀ r ∈ req, ∀ im ∈ syncImpls, implRespects needForSync r im = true := by
  decide +kernel

/-- A free method lifetime (`fn iter<'x>(&self) -> Iter<'x, K, V>`) is not a tied source. -/
example : "free-method" ∉ tiedSources ∧ "static" ∉ tiedSources ∧ "free-impl" ∉ tiedSources ∧
    "free" ∉ tiedSources := by decide
/-- All four kinds of tie occur in the table (the classification is exercised). -/
example : (methods.any fun m => m.lifetimeSources.contains "elided-receiver") = true ∧
    (methods.any fun m => m.lifetimeSources.contains "receiver") = true ∧
    (methods.any fun m => m.lifetimeSources.contains "self-type") = true ∧
    (methods.any fun m => m.lifetimeSources.contains "arg") = true := by decide +kernel

#print axioms send_requires
#print axioms sync_requires
#print axioms send_requires_iff
#print axioms sync_requires_iff
#print axioms waivers_are_exact
#print axioms every_public_type_has_req_row
#print axioms tables_cover_each_other
#print axioms not_implemented_exact
#print axioms borrows_tied
#print axioms mut_reborrow_tied
#print axioms no_mut_from_shared
#print axioms send_requires_without_waivers_fails
#print axioms sync_requires_unconditional
#print axioms methods_counted

end Hb.Props.C16
