/-
C04 (entry closures) / C14 / C02 — a user closure that PANICS inside an entry method.

C04: "If a user-supplied callback - Hash or BuildHasher, Eq/Equivalent, Clone, Drop, a
retain/extract_if/ENTRY CLOSURE, … - panics at any point during any operation, there is no memory
unsafety and no element is dropped twice. After unwinding, the collection is still a valid collection
whose len() equals the number of elements it yields and finds, and every element that was in it is
either still present or has been dropped exactly once (an element … may be leaked only when the panic
came out of a destructor)."

Thin restatements of `Hb/Proofs/EntryPanicSpec.lean` about the four functions of
`Hb/Model/EntryPanic.lean`, which the correspondence check executes against the real code (protocol
operations `entry_replace_panic`, `entry_and_replace_panic`, `raw_replace_panic`,
`entry_or_insert_with_panic`, `entry_and_modify_panic`):

  closure of                                   model function               theorems here
  `OccupiedEntry::replace_entry_with`,         `Map.entryReplacePanic`      `replace_entry_with_closure_panics`,
  `Entry::and_replace_entry_with`                                           `…_lawful_key`, `…_lawful`
  the same through `raw_entry_mut()`           `Map.rawReplacePanic`        `raw_replace_entry_with_closure_panics`, …
  `Entry::or_insert_with`                      `Map.entryOrInsertWithPanic` `or_insert_with_closure_panics`, `…_lawful`
  `Entry::and_modify`                          `Map.entryAndModifyPanic`    `and_modify_closure_panics`, `…_lawful`
  any of them, then any history                `EPanicOp.run`               `closure_panic_then_any_history_safe`
  ledger of identities / no double drop                                     `closure_panic_ledger`, `closure_panic_no_double_drop`

Setting of everything except the `…_lawful` theorems: EVERY environment `env` (arbitrary, call-number
dependent `Hash` / `Eq` answers that may themselves panic, destructors that may panic), every `cfg`
with `CfgOk cfg` (both scanners, any `usize` ≥ 16 bits, any element layout, with or without drop
glue), every world whose table satisfies the API invariant `TInv cfg w.t` (kept by every history of
safe calls, `Hb.C02.no_undefined_behaviour_all_calls`) — any load, tombstones, the unallocated
singleton —, every key, key object and caller-supplied hash (right or wrong).

Vocabulary: logs are newest first; `keyDropEv cfg kid` = `[dropK kid]` (nothing for element types
without drop glue); `dropEvs cfg [x]` = `[dropV x.vid, dropK x.kid]` (ditto); panic classes:
`"pred"` = the closure, `"hash"` / `"eq"` = the look-up inside `entry()` / the raw builder, `"drop"` =
the destructor of the key object passed to `entry()`.

REMARK (a panic class the informal statement does not list). Besides the closure and the look-up,
`entry(key)` runs ONE more user callback: `Drop for K` on the key passed in — at the end of `entry()`
if the entry is occupied, when the unused `VacantEntry` goes out of scope otherwise. If that destructor
panics the four functions unwind with class `"drop"`, the table literally unchanged and that key object
logged once; the closure has not run. It is listed together with the look-up classes below.

No statement was found false. What the model cannot express (as everywhere in C04): that the closure
had `&K, V` / `&mut V` access while it ran — the model's closure panics before touching its arguments.
-/
import Hb.Proofs.EntryPanicSpec
namespace Hb.C04E
open Hb

variable {cfg : Cfg}

/-! ### 1. `replace_entry_with` / `and_replace_entry_with` -/

/-- C04 "…an entry closure panics … no memory unsafety … still a valid collection … every element that
    was in it is either still present or has been dropped exactly once", for
    `OccupiedEntry::replace_entry_with` / `Entry::and_replace_entry_with` (C14: "replace_entry_with /
    and_replace_entry_with paths"). The pair was removed from the table BEFORE the closure ran
    (`RawTable::replace_bucket_with`, raw/mod.rs:1113), so when the closure unwinds (`"pred"`) the table
    is valid with exactly one element less (`List.Perm`), `len()` one less, and the log gained exactly
    the drop of that pair's value and key object, once each, on top of the probe key object that
    `entry()` had already dropped. Every other outcome leaves the table literally unchanged and logs
    the probe key object once. Never a fault (undefined behaviour) or abort. -/
theorem replace_entry_with_closure_panics (hc : CfgOk cfg) (env : Env) (k kid : Nat) (w : World)
    (h : TInv cfg w.t) :
    match Map.entryReplacePanic cfg env k kid w with
    | .ok (b, w') => b = false ∧ w'.t = w.t ∧ w'.log = keyDropEv cfg kid ++ w.log
    | .panic c w' =>
      ((c = "hash" ∨ c = "eq" ∨ c = "drop") ∧ w'.t = w.t ∧ w'.log = keyDropEv cfg kid ++ w.log) ∨
      (c = "pred" ∧ TInv cfg w'.t ∧ w'.t.items + 1 = w.t.items ∧
        ∃ x, (∃ c', env.eq c' k x = some true) ∧ (x :: w'.t.elems).Perm w.t.elems ∧
          w'.log = dropEvs cfg [x] ++ (keyDropEv cfg kid ++ w.log))
    | .abort => False
    | .fault _ => False :=
  entryReplacePanic_spec hc env k kid w h

/-- Lawful `Hash` / `Eq` (any table with `TInv`): the pair dropped by the unwinding closure is stored
    under the probed key. -/
theorem replace_entry_with_closure_panics_lawful_key (hc : CfgOk cfg) {env : Env} {H : Nat → Nat}
    (hl : Lawful env H) (k kid : Nat) (w : World) (h : TInv cfg w.t) {w' : World}
    (hr : Map.entryReplacePanic cfg env k kid w = .panic "pred" w') :
    TInv cfg w'.t ∧ w'.t.items + 1 = w.t.items ∧
      ∃ x, x.k = k ∧ (x :: w'.t.elems).Perm w.t.elems ∧
        w'.log = dropEvs cfg [x] ++ (keyDropEv cfg kid ++ w.log) :=
  entryReplacePanic_lawful hc hl k kid w h hr

/-- C14 "report Occupied exactly when the key is present" + C04, lawful hasher, full lawful invariant
    `RI`: present key ⇒ the closure runs and unwinds, the map is the map with that key erased
    (`AL.erase`), still satisfying `RI`, the stored pair `x` of the key dropped once (or the probe key's
    destructor panicked first: `"drop"`, table unchanged); absent key ⇒ the closure is not called. -/
theorem replace_entry_with_closure_panics_lawful (hc : CfgOk cfg) {env : Env} {H : Nat → Nat}
    (hl : Lawful env H) (k kid : Nat) (w : World) (h : RI cfg H w.t) :
    match AL.find w.t.elems k with
    | some x =>
      (∃ w', Map.entryReplacePanic cfg env k kid w = .panic "pred" w' ∧ RI cfg H w'.t ∧
        List.Perm w'.t.elems (AL.erase w.t.elems k) ∧ w'.t.items + 1 = w.t.items ∧
        w'.log = dropEvs cfg [x] ++ (keyDropEv cfg kid ++ w.log)) ∨
      (∃ w', Map.entryReplacePanic cfg env k kid w = .panic "drop" w' ∧ w'.t = w.t ∧
        w'.log = keyDropEv cfg kid ++ w.log)
    | none =>
      (∃ w', Map.entryReplacePanic cfg env k kid w = .ok (false, w') ∧ w'.t = w.t ∧
        w'.log = keyDropEv cfg kid ++ w.log) ∨
      (∃ w', Map.entryReplacePanic cfg env k kid w = .panic "drop" w' ∧ w'.t = w.t ∧
        w'.log = keyDropEv cfg kid ++ w.log) :=
  entryReplacePanic_lawful_spec hc hl k kid w h

/-! ### 2. the same through `raw_entry_mut()` -/

/-- C04 for `RawOccupiedEntryMut::replace_entry_with` / `RawEntryMut::and_replace_entry_with` reached
    through `from_key` / `from_key_hashed_nocheck` / `from_hash` with ANY caller-supplied hash `ph`
    (C14: "raw_entry_mut (from_key, from_key_hashed_nocheck, from_hash …)"). A raw entry owns no key
    object: only the removed pair is ever logged. Only `from_key` calls `Hash`
    (`ep_rawHashCalls mode` = 1 for `from_key`, 0 otherwise), so `"hash"` is observed with `from_key`
    only. -/
theorem raw_replace_entry_with_closure_panics (hc : CfgOk cfg) (env : Env) (mode : Map.RawMode)
    (ph k : Nat) (w : World) (h : TInv cfg w.t) :
    match Map.rawReplacePanic cfg env mode ph k w with
    | .ok (b, w') => b = false ∧ w'.t = w.t ∧ w'.log = w.log ∧ w'.hc = w.hc + ep_rawHashCalls mode
    | .panic c w' =>
      ((c = "eq" ∨ (c = "hash" ∧ mode = .fromKey)) ∧ w'.t = w.t ∧ w'.log = w.log ∧
        w'.hc = w.hc + ep_rawHashCalls mode) ∨
      (c = "pred" ∧ TInv cfg w'.t ∧ w'.t.items + 1 = w.t.items ∧
        w'.hc = w.hc + ep_rawHashCalls mode ∧
        ∃ x, (∃ c', env.eq c' k x = some true) ∧ (x :: w'.t.elems).Perm w.t.elems ∧
          w'.log = dropEvs cfg [x] ++ w.log)
    | .abort => False
    | .fault _ => False :=
  rawReplacePanic_spec hc env mode ph k w h

theorem raw_replace_entry_with_closure_panics_lawful_key (hc : CfgOk cfg) {env : Env}
    {H : Nat → Nat} (hl : Lawful env H) (mode : Map.RawMode) (ph k : Nat) (w : World)
    (h : TInv cfg w.t) {w' : World}
    (hr : Map.rawReplacePanic cfg env mode ph k w = .panic "pred" w') :
    TInv cfg w'.t ∧ w'.t.items + 1 = w.t.items ∧
      ∃ x, x.k = k ∧ (x :: w'.t.elems).Perm w.t.elems ∧ w'.log = dropEvs cfg [x] ++ w.log :=
  rawReplacePanic_lawful hc hl mode ph k w h hr

/-- Lawful hasher, the caller-supplied hash being the key's hash for the two `…hash…` builders (their
    documented contract): present ⇔ the closure runs; no other outcome exists. -/
theorem raw_replace_entry_with_closure_panics_lawful (hc : CfgOk cfg) {env : Env} {H : Nat → Nat}
    (hl : Lawful env H) (mode : Map.RawMode) (ph k : Nat) (hph : mode = .fromKey ∨ ph = H k)
    (w : World) (h : RI cfg H w.t) :
    match AL.find w.t.elems k with
    | some x =>
      ∃ w', Map.rawReplacePanic cfg env mode ph k w = .panic "pred" w' ∧ RI cfg H w'.t ∧
        List.Perm w'.t.elems (AL.erase w.t.elems k) ∧ w'.t.items + 1 = w.t.items ∧
        w'.log = dropEvs cfg [x] ++ w.log
    | none => ∃ w', Map.rawReplacePanic cfg env mode ph k w = .ok (false, w') ∧ w'.t = w.t ∧
        w'.log = w.log :=
  rawReplacePanic_lawful_spec hc hl mode ph k hph w h

/-! ### 3. `or_insert_with` -/

/-- C04 for the closure of `Entry::or_insert_with` (C14: "or_insert* … paths"; "A Vacant entry that is
    dropped unused leaves contents and len() unchanged" — here it is dropped by unwinding). Whatever
    happens — the closure unwinds on a vacant entry (`"pred"`), the look-up unwinds, or the entry is
    occupied and the closure is not called — the table is LITERALLY unchanged (nothing inserted, no
    growth: `entry()` does not reserve) and the key object passed in is logged as dropped exactly
    once. Never a fault or abort. -/
theorem or_insert_with_closure_panics (hc : CfgOk cfg) (env : Env) (k kid : Nat) (w : World)
    (h : TInv cfg w.t) :
    match Map.entryOrInsertWithPanic cfg env k kid w with
    | .ok (b, w') => b = true ∧ w'.t = w.t ∧ w'.log = keyDropEv cfg kid ++ w.log ∧
        ∃ x ∈ w.t.elems, ∃ c', env.eq c' k x = some true
    | .panic c w' => (c = "pred" ∨ c = "hash" ∨ c = "eq" ∨ c = "drop") ∧ w'.t = w.t ∧
        w'.log = keyDropEv cfg kid ++ w.log
    | .abort => False
    | .fault _ => False :=
  entryOrInsertWithPanic_spec hc env k kid w h

/-- Lawful hasher: the closure runs (and unwinds) exactly when the key is absent. -/
theorem or_insert_with_closure_panics_lawful (hc : CfgOk cfg) {env : Env} {H : Nat → Nat}
    (hl : Lawful env H) (k kid : Nat) (w : World) (h : InvL cfg H w.t) :
    match AL.find w.t.elems k with
    | some _ =>
      ∃ w', (Map.entryOrInsertWithPanic cfg env k kid w = .ok (true, w') ∨
          Map.entryOrInsertWithPanic cfg env k kid w = .panic "drop" w') ∧ w'.t = w.t ∧
        w'.log = keyDropEv cfg kid ++ w.log
    | none => ∃ w', Map.entryOrInsertWithPanic cfg env k kid w = .panic "pred" w' ∧ w'.t = w.t ∧
        w'.log = keyDropEv cfg kid ++ w.log :=
  entryOrInsertWithPanic_lawful_spec hc hl k kid w h

/-! ### 4. `and_modify` -/

/-- C04 for the closure of `Entry::and_modify` (C14: "and_modify … paths"). `"pred"` is observed only
    if the key was found (an element the user's `Eq` answered `true` for is stored); the table is as it
    was, and the key object passed to `entry()` had ALREADY been dropped by `entry()` itself (an
    `OccupiedEntry` does not own it), logged once. Vacant: the closure is not called, the unused entry's
    key object is dropped. Never a fault or abort. -/
theorem and_modify_closure_panics (hc : CfgOk cfg) (env : Env) (k kid : Nat) (w : World)
    (h : TInv cfg w.t) :
    match Map.entryAndModifyPanic cfg env k kid w with
    | .ok (b, w') => b = false ∧ w'.t = w.t ∧ w'.log = keyDropEv cfg kid ++ w.log
    | .panic c w' =>
      (c = "pred" ∨ c = "hash" ∨ c = "eq" ∨ c = "drop") ∧ w'.t = w.t ∧
        w'.log = keyDropEv cfg kid ++ w.log ∧
        (c = "pred" → ∃ x ∈ w.t.elems, ∃ c', env.eq c' k x = some true)
    | .abort => False
    | .fault _ => False :=
  entryAndModifyPanic_spec hc env k kid w h

/-- Lawful hasher: the closure runs (and unwinds) exactly when the key is present. -/
theorem and_modify_closure_panics_lawful (hc : CfgOk cfg) {env : Env} {H : Nat → Nat}
    (hl : Lawful env H) (k kid : Nat) (w : World) (h : InvL cfg H w.t) :
    match AL.find w.t.elems k with
    | some _ =>
      ∃ w', (Map.entryAndModifyPanic cfg env k kid w = .panic "pred" w' ∨
          Map.entryAndModifyPanic cfg env k kid w = .panic "drop" w') ∧ w'.t = w.t ∧
        w'.log = keyDropEv cfg kid ++ w.log
    | none =>
      ∃ w', (Map.entryAndModifyPanic cfg env k kid w = .ok (false, w') ∨
          Map.entryAndModifyPanic cfg env k kid w = .panic "drop" w') ∧ w'.t = w.t ∧
        w'.log = keyDropEv cfg kid ++ w.log :=
  entryAndModifyPanic_lawful_spec hc hl k kid w h

/-! ### 5. afterwards: any history -/

/-- C04 "After unwinding, the collection is still a valid collection whose len() equals the number of
    elements it yields and finds" + C02 "No sequence of calls to the safe public API …": after ANY
    outcome of any of the four operations (`EPanicOp`) the table satisfies `TInv` with
    `items = elems.length`, and ANY further history of `MapOpX` calls run against ANY environment
    never faults, keeps that after every call, and is cut short only by `handle_alloc_error`
    (`Forget.Usable`, spelled out). -/
theorem closure_panic_then_any_history_safe (hc : CfgOk cfg) (hg : GuardRuns cfg) (env : Env)
    (op : EPanicOp) (w : World) (h : TInv cfg w.t) :
    match op.run cfg env w with
    | .ok (_, w') =>
      TInv cfg w'.t ∧ w'.t.items = w'.t.elems.length ∧
      ∀ (env' : Env) (ops : List MapOpX),
        Map.runXFaults cfg env' ops w' = false ∧
        (∀ obs wf, Map.runX cfg env' ops w' = some (obs, wf) →
          TInv cfg wf.t ∧ wf.t.items = wf.t.elems.length) ∧
        ((∀ j, env'.allocOk j = true) → ∃ obs wf, Map.runX cfg env' ops w' = some (obs, wf))
    | .panic _ w' =>
      TInv cfg w'.t ∧ w'.t.items = w'.t.elems.length ∧
      ∀ (env' : Env) (ops : List MapOpX),
        Map.runXFaults cfg env' ops w' = false ∧
        (∀ obs wf, Map.runX cfg env' ops w' = some (obs, wf) →
          TInv cfg wf.t ∧ wf.t.items = wf.t.elems.length) ∧
        ((∀ j, env'.allocOk j = true) → ∃ obs wf, Map.runX cfg env' ops w' = some (obs, wf))
    | .abort => False
    | .fault _ => False := by
  have hs := Hb.closure_panic_then_any_history_safe hc hg env op w h
  generalize op.run cfg env w = r at hs ⊢
  match r, hs with
  | .ok (_, _), hs => exact hs
  | .panic _ _, hs => exact hs
  | .abort, hs => exact hs
  | .fault _, hs => exact hs

/-- The shape of every outcome (`ep_Eff`): a valid table that lost at most one element; the log gained
    exactly the destructor events of that element and of the key object handed in. -/
theorem closure_panic_effect (hc : CfgOk cfg) (env : Env) (op : EPanicOp) (w : World)
    (h : TInv cfg w.t) :
    match op.run cfg env w with
    | .ok (_, w') => ep_Eff cfg op.probe w w'
    | .panic _ w' => ep_Eff cfg op.probe w w'
    | .abort => False
    | .fault _ => False :=
  Hb.closure_panic_effect hc env op w h

/-! ### 6. ledger, no double drop -/

/-- C04 "every element that was in it is either still present or has been dropped exactly once":
    element types with drop glue; with `new` the log entries written by the call (only destructor
    events, no allocator traffic), the key objects still stored together with the key objects dropped
    are — as a multiset — exactly those stored before plus the probe key object handed in (`op.probe`;
    none for a raw entry), and the value objects still stored together with those dropped are exactly
    those stored before. -/
theorem closure_panic_ledger (hc : CfgOk cfg) (env : Env) (op : EPanicOp) (w : World)
    (h : TInv cfg w.t) (hnd : cfg.needsDrop = true) :
    match op.run cfg env w with
    | .ok (_, w') =>
      ∃ new, w'.log = new ++ w.log ∧ hs_DropOnly new ∧
        (kidsOf w'.t.elems ++ droppedK new).Perm (op.probe ++ kidsOf w.t.elems) ∧
        (vidsOf w'.t.elems ++ droppedV new).Perm (vidsOf w.t.elems)
    | .panic _ w' =>
      ∃ new, w'.log = new ++ w.log ∧ hs_DropOnly new ∧
        (kidsOf w'.t.elems ++ droppedK new).Perm (op.probe ++ kidsOf w.t.elems) ∧
        (vidsOf w'.t.elems ++ droppedV new).Perm (vidsOf w.t.elems)
    | .abort => False
    | .fault _ => False := by
  have hs := Hb.closure_panic_ledger hc env op w h hnd
  generalize op.run cfg env w = r at hs ⊢
  match r, hs with
  | .ok (_, _), hs => exact hs
  | .panic _ _, hs => exact hs
  | .abort, hs => exact hs
  | .fault _, hs => exact hs

/-- C04 "no element is dropped twice": element types with drop glue; if the key-object identities
    stored before together with the probe key object are pairwise distinct and the stored value-object
    identities are pairwise distinct, then after ANY outcome the identities dropped by the call are
    pairwise distinct, disjoint from the identities still stored, and the stored identities are still
    pairwise distinct (so no later drop of the collection can drop one of them again). -/
theorem closure_panic_no_double_drop (hc : CfgOk cfg) (env : Env) (op : EPanicOp) (w : World)
    (h : TInv cfg w.t) (hnd : cfg.needsDrop = true)
    (hK : (op.probe ++ kidsOf w.t.elems).Nodup) (hV : (vidsOf w.t.elems).Nodup) :
    match op.run cfg env w with
    | .ok (_, w') =>
      ∃ new, w'.log = new ++ w.log ∧ (droppedK new).Nodup ∧ (droppedV new).Nodup ∧
        (∀ i ∈ droppedK new, i ∉ kidsOf w'.t.elems) ∧ (∀ i ∈ droppedV new, i ∉ vidsOf w'.t.elems) ∧
        (kidsOf w'.t.elems).Nodup ∧ (vidsOf w'.t.elems).Nodup
    | .panic _ w' =>
      ∃ new, w'.log = new ++ w.log ∧ (droppedK new).Nodup ∧ (droppedV new).Nodup ∧
        (∀ i ∈ droppedK new, i ∉ kidsOf w'.t.elems) ∧ (∀ i ∈ droppedV new, i ∉ vidsOf w'.t.elems) ∧
        (kidsOf w'.t.elems).Nodup ∧ (vidsOf w'.t.elems).Nodup
    | .abort => False
    | .fault _ => False := by
  have hs := Hb.closure_panic_no_double_drop hc env op w h hnd hK hV
  generalize op.run cfg env w = r at hs ⊢
  match r, hs with
  | .ok (_, _), hs => exact hs
  | .panic _ _, hs => exact hs
  | .abort, hs => exact hs
  | .fault _, hs => exact hs

/-- Element types WITHOUT drop glue: the four operations log nothing at all. -/
theorem closure_panic_no_glue_no_log (hc : CfgOk cfg) (env : Env) (op : EPanicOp) (w : World)
    (h : TInv cfg w.t) (hnd : cfg.needsDrop = false) :
    match op.run cfg env w with
    | .ok (_, w') => w'.log = w.log
    | .panic _ w' => w'.log = w.log
    | .abort => False
    | .fault _ => False := by
  have hs := Hb.closure_panic_effect hc env op w h
  generalize op.run cfg env w = r at hs ⊢
  match r, hs with
  | .ok (_, _), hs => exact hs.noglue hnd
  | .panic _ _, hs => exact hs.noglue hnd
  | .abort, hs => exact hs
  | .fault _, hs => exact hs

/-! ### non-vacuity: evaluated closure panics (SSE2 scanner) -/

def exCfg : Cfg := { ops := Sse2.ops }

/-- Keys 1, 2, 3 (key objects 11, 12, 13; value objects 21, 22, 23) inserted into a fresh map with the
    lawful environment `rfEnv` (`Hb/Proofs/Refine.lean`): a FULL 4-bucket table (`growth_left = 0`). -/
def exWorld : World :=
  match Map.run exCfg rfEnv
      [.insert ⟨1, 11, 21, 100⟩, .insert ⟨2, 12, 22, 200⟩, .insert ⟨3, 13, 23, 300⟩]
      { t := Raw.new 16 } with
  | some (_, wf) => wf
  | none => { t := Raw.new 16 }

/-- Outcome of one operation on `exWorld`:
    `(class, (len, bucket mask, growth_left), stored (k, kid, vid), log entries written)`. -/
def exOutcome (env : Env) (op : EPanicOp) :
    String × (Nat × Nat × Nat) × List (Nat × Nat × Nat) × List Ev :=
  let sum (w' : World) :=
    ((w'.t.items, w'.t.mask, w'.t.gl), w'.t.elems.map (fun e => (e.k, e.kid, e.vid)),
      w'.log.take (w'.log.length - exWorld.log.length))
  match op.run exCfg env exWorld with
  | .ok (b, w') => (if b then "occ" else "vac", sum w')
  | .panic c w' => (c, sum w')
  | .abort => ("abort", sum exWorld)
  | .fault f => (f, sum exWorld)

example : (exWorld.t.items, exWorld.t.mask, exWorld.t.gl, exWorld.log) = (3, 3, 0, [.alloc 52 16]) ∧
    exWorld.t.elems.map (fun e => (e.k, e.kid, e.vid)) = [(1, 11, 21), (2, 12, 22), (3, 13, 23)] :=
  ⟨by decide +kernel, by decide +kernel⟩

/-- `entry(K(2, 92)).replace_entry_with(|_, _| panic!())`: the pair of key 2 is gone from the table and
    dropped once (value object 22, key object 12) after the probe key object 92; `len` 3 → 2, the
    bucket became EMPTY again (`growth_left` 0 → 1). -/
example : exOutcome rfEnv (.entryReplace 2 92) =
    ("pred", (2, 3, 1), [(1, 11, 21), (3, 13, 23)], [.dropV 22, .dropK 12, .dropK 92]) := by
  decide +kernel

/-- … on an absent key: vacant, the unused entry's key object dropped, table as it was. -/
example : exOutcome rfEnv (.entryReplace 7 97) =
    ("vac", (3, 3, 0), [(1, 11, 21), (2, 12, 22), (3, 13, 23)], [.dropK 97]) := by
  decide +kernel

/-- `raw_entry_mut().from_key(&3)` / `.from_hash(H 3, ..)` + `replace_entry_with(|_, _| panic!())`:
    only the removed pair is logged. -/
example : exOutcome rfEnv (.rawReplace .fromKey 0 3) =
      ("pred", (2, 3, 1), [(1, 11, 21), (2, 12, 22)], [.dropV 23, .dropK 13]) ∧
    exOutcome rfEnv (.rawReplace .fromHash (rfH 3) 3) =
      ("pred", (2, 3, 1), [(1, 11, 21), (2, 12, 22)], [.dropV 23, .dropK 13]) :=
  ⟨by decide +kernel, by decide +kernel⟩

/-- A wrong caller-supplied hash misses (vacant, nothing logged at all); `from_key_hashed_nocheck`
    never calls `Hash`, so a panicking hasher is not even noticed. -/
example : exOutcome rfEnv (.rawReplace .fromKeyHashed 12345 3) =
      ("vac", (3, 3, 0), [(1, 11, 21), (2, 12, 22), (3, 13, 23)], []) ∧
    exOutcome { rfEnv with hash := fun _ _ => none } (.rawReplace .fromKeyHashed (rfH 3) 3) =
      ("pred", (2, 3, 1), [(1, 11, 21), (2, 12, 22)], [.dropV 23, .dropK 13]) :=
  ⟨by decide +kernel, by decide +kernel⟩

/-- `entry(K(7, 97)).or_insert_with(|| panic!())` on the FULL table: nothing inserted, no growth (still
    4 buckets, `growth_left = 0`), the key object 97 dropped once. On a present key the closure is not
    called. -/
example : exOutcome rfEnv (.orInsertWith 7 97) =
      ("pred", (3, 3, 0), [(1, 11, 21), (2, 12, 22), (3, 13, 23)], [.dropK 97]) ∧
    exOutcome rfEnv (.orInsertWith 1 91) =
      ("occ", (3, 3, 0), [(1, 11, 21), (2, 12, 22), (3, 13, 23)], [.dropK 91]) :=
  ⟨by decide +kernel, by decide +kernel⟩

/-- `entry(K(1, 91)).and_modify(|_| panic!())`: table as it was, the probe key object 91 had been
    dropped by `entry()`. On an absent key the closure is not called. -/
example : exOutcome rfEnv (.andModify 1 91) =
      ("pred", (3, 3, 0), [(1, 11, 21), (2, 12, 22), (3, 13, 23)], [.dropK 91]) ∧
    exOutcome rfEnv (.andModify 7 97) =
      ("vac", (3, 3, 0), [(1, 11, 21), (2, 12, 22), (3, 13, 23)], [.dropK 97]) :=
  ⟨by decide +kernel, by decide +kernel⟩

/-- The other panic classes exist: a panicking `Hash`, a panicking `Eq`, a panicking `Drop for K`
    (the third one on the occupied side, BEFORE the closure could run) — table unchanged, the probe key
    object logged once. -/
example :
    exOutcome { rfEnv with hash := fun _ _ => none } (.entryReplace 2 92) =
      ("hash", (3, 3, 0), [(1, 11, 21), (2, 12, 22), (3, 13, 23)], [.dropK 92]) ∧
    exOutcome { rfEnv with eq := fun _ _ _ => none } (.entryReplace 2 92) =
      ("eq", (3, 3, 0), [(1, 11, 21), (2, 12, 22), (3, 13, 23)], [.dropK 92]) ∧
    exOutcome { rfEnv with dropPanics := fun _ _ => true } (.entryReplace 2 92) =
      ("drop", (3, 3, 0), [(1, 11, 21), (2, 12, 22), (3, 13, 23)], [.dropK 92]) :=
  ⟨by decide +kernel, by decide +kernel, by decide +kernel⟩

/-- The hypotheses of the theorems are satisfiable: `exWorld` satisfies `RI` (hence `TInv`, `InvL`) for
    the lawful `rfEnv`, and its identities are pairwise distinct (`hs` is `sse2_groupSpec` of
    `Hb/Proofs/Group.lean`, not imported here to keep its `bv_decide` axioms out of this file). -/
theorem exWorld_RI (hs : GroupSpec Sse2.ops) : RI exCfg rfH exWorld.t := by
  obtain ⟨os, wf, lf, hrun, _, _, _, hRI⟩ :=
    C01_run_refines (cfg := exCfg) ⟨hs, by decide⟩ rfEnv_lawfulP
      [.insert ⟨1, 11, 21, 100⟩, .insert ⟨2, 12, 22, 200⟩, .insert ⟨3, 13, 23, 300⟩]
      (by decide) { t := Raw.new 16 } rfl
  have : exWorld = wf := by
    unfold exWorld
    rw [hrun]
  rw [this]
  exact hRI

theorem exWorld_nodup (kid : Nat) (hk : kid ∉ [11, 12, 13]) :
    ([kid] ++ kidsOf exWorld.t.elems).Nodup ∧ (vidsOf exWorld.t.elems).Nodup := by
  have h1 : kidsOf exWorld.t.elems = [11, 12, 13] := by decide +kernel
  have h2 : vidsOf exWorld.t.elems = [21, 22, 23] := by decide +kernel
  rw [h1, h2]
  exact ⟨List.nodup_cons.mpr ⟨hk, by decide⟩, by decide⟩

/-- The general theorems applied to the example: any further history after the closure panic is
    safe, and the no-double-drop conclusion holds for it. -/
example (hs : GroupSpec Sse2.ops) :
    (match (EPanicOp.entryReplace 2 92).run exCfg rfEnv exWorld with
      | .ok (_, w') => Forget.Usable exCfg w'
      | .panic _ w' => Forget.Usable exCfg w'
      | .abort => False
      | .fault _ => False) ∧
    (match (EPanicOp.entryReplace 2 92).run exCfg rfEnv exWorld with
      | .ok (_, w') => ep_NoDoubleDrop exWorld w'
      | .panic _ w' => ep_NoDoubleDrop exWorld w'
      | .abort => False
      | .fault _ => False) :=
  have hc : CfgOk exCfg := ⟨hs, by decide⟩
  have hT : TInv exCfg exWorld.t := ep_RI_TInv (exWorld_RI hs)
  ⟨Hb.closure_panic_then_any_history_safe hc (Or.inl rfl) rfEnv (.entryReplace 2 92) _ hT,
    Hb.closure_panic_no_double_drop hc rfEnv (.entryReplace 2 92) _ hT rfl
      (exWorld_nodup 92 (by decide)).1
      (exWorld_nodup 92 (by decide)).2⟩

#print axioms replace_entry_with_closure_panics
#print axioms replace_entry_with_closure_panics_lawful_key
#print axioms replace_entry_with_closure_panics_lawful
#print axioms raw_replace_entry_with_closure_panics
#print axioms raw_replace_entry_with_closure_panics_lawful_key
#print axioms raw_replace_entry_with_closure_panics_lawful
#print axioms or_insert_with_closure_panics
#print axioms or_insert_with_closure_panics_lawful
#print axioms and_modify_closure_panics
#print axioms and_modify_closure_panics_lawful
#print axioms closure_panic_then_any_history_safe
#print axioms closure_panic_effect
#print axioms closure_panic_ledger
#print axioms closure_panic_no_double_drop
#print axioms closure_panic_no_glue_no_log
#print axioms exWorld_RI
#print axioms exWorld_nodup

end Hb.C04E
