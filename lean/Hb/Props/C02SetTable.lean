/-
C02 / C04 / C05 for `HashSet` and `HashTable` — restatements of the history theorems of
`Hb/Proofs/SetTableSafe.lean`, for EVERY environment.

In the model undefined behaviour (a read or write outside the table's own allocation, a reference to
a slot that holds no live element, `unwrap_unchecked(None)`, an underflow, a loop that does not
terminate) is the outcome `.fault`. "Every environment" is an arbitrary `env : Env`: the answers of
`Hash`, `Eq`, `Clone` and the predicates are arbitrary functions of the CALL NUMBER (so the same key
may hash differently on every call, `Eq` need not be an equivalence, …) and may be `none` (the
callback panics); destructors panic as `env.dropPanics` says; the allocator refuses as `env.allocOk`
says. For `HashTable` the hashes the caller passes in are arbitrary numbers, unrelated to the
re-hash closure and to the `eq` closures.

`HashSet`: pairs of sets and ONE world (`Set.Pair`, `Set.step2`, `Set.run2`), 27 calls (`SetOp`) on
either side, binary calls in both directions. `HashTable`: 17 calls (`TableOp`, `Table.stepH`,
`Table.runH`). For `HashMap` the corresponding statements are in `C02.lean`, `C04.lean`, `C05.lean`.
-/
import Hb.Proofs.SetTableSafe
namespace Hb.C02ST
open Hb

variable {cfg : Cfg}

/-! ## the theorems -/

/-- C02 (`HashSet`), one call: "No sequence of calls to the safe public API of HashMap, HashSet and
    HashTable - with any element type, any hasher … reads or writes outside the table's own
    allocation … or hands out a reference to a slot that does not hold a live element."
    One `SetCall` on a pair of valid sets never yields `.fault`; on `.ok` and on `.panic` both
    tables satisfy `TInv cfg` and `items = elems.length`; `.abort` only if the allocator refuses. -/
theorem set_step2_safe (hc : CfgOk cfg) (hg : GuardRuns cfg) (env : Env) (c : SetCall) (s : Set.Pair)
    (ha : TInv cfg s.a) (hb : TInv cfg s.b) :
    match Set.step2 cfg env c s with
    | .ret _ s' => (TInv cfg s'.a ∧ s'.a.items = s'.a.elems.length) ∧
        (TInv cfg s'.b ∧ s'.b.items = s'.b.elems.length)
    | .panic _ s' => (TInv cfg s'.a ∧ s'.a.items = s'.a.elems.length) ∧
        (TInv cfg s'.b ∧ s'.b.items = s'.b.elems.length)
    | .abort => ∃ j, env.allocOk j = false
    | .fault _ => False :=
  Hb.set_step2_safe hc hg env c s ha hb

/-- C02 (`HashSet`), histories: "No sequence of calls to the safe public API …": every history on
    `(HashSet::new(), HashSet::new())`: never a fault, the invariant after every call (returned or
    unwound) on both sets, runs to its end if the allocator never refuses. -/
theorem set_run2_safe (hc : CfgOk cfg) (hg : GuardRuns cfg) (env : Env) (cs : List SetCall)
    (s0 : Set.Pair) (ha : s0.a = Raw.new cfg.W) (hb : s0.b = Raw.new cfg.W) :
    Set.run2Faults cfg env cs s0 = false ∧
    (∀ s ∈ Set.states2 cfg env cs s0,
      (TInv cfg s.a ∧ s.a.items = s.a.elems.length) ∧ (TInv cfg s.b ∧ s.b.items = s.b.elems.length)) ∧
    (∀ obs sf, Set.run2 cfg env cs s0 = some (obs, sf) →
      (TInv cfg sf.a ∧ sf.a.items = sf.a.elems.length) ∧
      (TInv cfg sf.b ∧ sf.b.items = sf.b.elems.length)) ∧
    ((∀ j, env.allocOk j = true) → ∃ obs sf, Set.run2 cfg env cs s0 = some (obs, sf)) :=
  Hb.set_run2_safe hc hg env cs s0 ha hb

/-- C02 (`HashTable`), one call: "… with any element type, any hasher …": the hashes supplied by
    the caller are arbitrary, the re-hash closure is arbitrary and may panic. One `TableOp` from a
    valid table never faults; on `.ok` / `.panic` the table is valid and `items = elems.length`;
    abort only on allocator refusal. (No hypothesis about zero-sized elements is needed: defect F2
    of `get_many_mut`, `Hb/Props/C15.lean`, is a spurious panic, not a memory-safety problem.) -/
theorem table_stepH_safe (hc : CfgOk cfg) (hg : GuardRuns cfg) (env : Env) (op : TableOp)
    (w : World) (h : TInv cfg w.t) :
    match Table.stepH cfg env op w with
    | .ok (_, w') => TInv cfg w'.t ∧ w'.t.items = w'.t.elems.length
    | .panic _ w' => TInv cfg w'.t ∧ w'.t.items = w'.t.elems.length
    | .abort => ∃ j, env.allocOk j = false
    | .fault _ => False :=
  Hb.table_stepH_safe hc hg env op w h

/-- C02 (`HashTable`), histories: every history from `HashTable::new()`. -/
theorem table_runH_safe (hc : CfgOk cfg) (hg : GuardRuns cfg) (env : Env) (ops : List TableOp)
    (w0 : World) (h0 : w0.t = Raw.new cfg.W) :
    Table.runHFaults cfg env ops w0 = false ∧
    (∀ w ∈ Table.statesH cfg env ops w0, TInv cfg w.t ∧ w.t.items = w.t.elems.length) ∧
    (∀ obs w, Table.runH cfg env ops w0 = some (obs, w) →
      TInv cfg w.t ∧ w.t.items = w.t.elems.length) ∧
    ((∀ j, env.allocOk j = true) → ∃ obs w, Table.runH cfg env ops w0 = some (obs, w)) :=
  Hb.table_runH_safe hc hg env ops w0 h0

/-- C04: "If a user-supplied callback panics at any point during any operation … After unwinding,
    the collection is still a valid collection whose len() equals the number of elements it yields
    and finds". Whatever call of a set or of a table unwinds (class `cls`: `hash`, `eq`, `clone`,
    `pred`, `drop`, `capacity`, `notequiv`, `dup`), what unwinding leaves behind is valid: for a set
    call BOTH sets of the pair, for a table call the table; `len` is the number of stored elements
    and a full iteration yields exactly those. -/
theorem valid_after_any_panic_set_table (hc : CfgOk cfg) (hg : GuardRuns cfg) (env : Env) :
    (∀ (c : SetCall) (s s' : Set.Pair) (cls : String), TInv cfg s.a → TInv cfg s.b →
      Set.step2 cfg env c s = .panic cls s' →
        (TInv cfg s'.a ∧ s'.a.items = s'.a.elems.length ∧ LenIsYielded cfg s'.a) ∧
        (TInv cfg s'.b ∧ s'.b.items = s'.b.elems.length ∧ LenIsYielded cfg s'.b)) ∧
    (∀ (op : TableOp) (w w' : World) (cls : String), TInv cfg w.t →
      Table.stepH cfg env op w = .panic cls w' →
        TInv cfg w'.t ∧ w'.t.items = w'.t.elems.length ∧ LenIsYielded cfg w'.t) := by
  refine ⟨fun c s s' cls ha hb hst => ?_, fun op w w' cls h hst => ?_⟩
  · have := Hb.set_step2_safe hc hg env c s ha hb
    rw [hst] at this
    exact ⟨⟨this.1.1, this.1.2, st_lenIsYielded hc this.1.1.1⟩,
      ⟨this.2.1, this.2.2, st_lenIsYielded hc this.2.1.1⟩⟩
  · have := Hb.table_stepH_safe hc hg env op w h
    rw [hst] at this
    exact ⟨this.1, this.2, st_lenIsYielded hc this.1.1⟩

/-- C05: "If a key type's Hash or Eq is inconsistent … every operation still terminates and there is
    no memory unsafety … len() still equals the number of elements". `env.hash` / `env.eq` are
    arbitrary functions of the call number; every loop of the model carries fuel and running out of
    it is a `.fault`, so "never `.fault`" includes termination. -/
theorem broken_hash_eq_safe_set_table (hc : CfgOk cfg) (hg : GuardRuns cfg) (env : Env) :
    (∀ (c : SetCall) (s : Set.Pair), TInv cfg s.a → TInv cfg s.b →
      ∀ f, Set.step2 cfg env c s ≠ .fault f) ∧
    (∀ (op : TableOp) (w : World), TInv cfg w.t → ∀ f, Table.stepH cfg env op w ≠ .fault f) ∧
    (∀ (cs : List SetCall), Set.run2Faults cfg env cs (Set.Pair.new cfg) = false ∧
      ∀ s ∈ Set.states2 cfg env cs (Set.Pair.new cfg),
        s.a.items = s.a.elems.length ∧ s.b.items = s.b.elems.length) ∧
    (∀ (ops : List TableOp) (w0 : World), w0.t = Raw.new cfg.W →
      Table.runHFaults cfg env ops w0 = false ∧
      ∀ w ∈ Table.statesH cfg env ops w0, w.t.items = w.t.elems.length) := by
  refine ⟨fun c s ha hb f hf => ?_, fun op w h f hf => ?_, fun cs => ?_, fun ops w0 h0 => ?_⟩
  · have := Hb.set_step2_safe hc hg env c s ha hb
    rw [hf] at this; exact this
  · have := Hb.table_stepH_safe hc hg env op w h
    rw [hf] at this; exact this
  · obtain ⟨h1, h2, _⟩ := Hb.set_run2_safe_new hc hg env cs
    exact ⟨h1, fun s hs => ⟨(h2 s hs).1.2, (h2 s hs).2.2⟩⟩
  · obtain ⟨h1, h2, _⟩ := Hb.table_runH_safe hc hg env ops w0 h0
    exact ⟨h1, fun w hw => (h2 w hw).2⟩

/-- C04 / C05, `len()`: "… len() equals the number of elements it yields …": in every reachable
    state of a set-pair history and of a table history `RawIter` yields exactly `items` buckets, all
    live, holding exactly the stored elements (`LenIsYielded`) — whatever the hasher did. -/
theorem len_equals_yielded_set_table (hc : CfgOk cfg) (hg : GuardRuns cfg) (env : Env) :
    (∀ (cs : List SetCall) (s0 : Set.Pair), s0.a = Raw.new cfg.W → s0.b = Raw.new cfg.W →
      (∀ s ∈ Set.states2 cfg env cs s0, LenIsYielded cfg s.a ∧ LenIsYielded cfg s.b) ∧
      (∀ obs sf, Set.run2 cfg env cs s0 = some (obs, sf) →
        LenIsYielded cfg sf.a ∧ LenIsYielded cfg sf.b)) ∧
    (∀ (ops : List TableOp) (w0 : World), w0.t = Raw.new cfg.W →
      (∀ w ∈ Table.statesH cfg env ops w0, LenIsYielded cfg w.t) ∧
      (∀ obs wf, Table.runH cfg env ops w0 = some (obs, wf) → LenIsYielded cfg wf.t)) :=
  Hb.len_equals_yielded_set_table hc hg env

/-! ## non-vacuity: evaluated histories in UNLAWFUL environments -/

/-- `Hash` depends on the call number (the same key never hashes the same way twice) and panics at
    its 10th call; `Eq` always says "equal" and panics at every 4th call; `Clone` panics at its 2nd
    call; the predicate panics at its 2nd call and otherwise answers by call parity; the destructor
    of the 2nd dropped element panics; the allocator never refuses. -/
def badEnv : Env :=
  { hash := fun c k => if c == 9 then none else some ((c * 5 + k) * 2 ^ 57 + c * 3)
    eq := fun c _ _ => if c % 4 == 3 then none else some true
    clone := fun c _ => if c == 1 then none else some (500 + c, 0)
    pred := fun c e => if c == 1 then none else some (c % 2 == 0, e.v + 1)
    allocOk := fun _ => true
    dropPanics := fun c _ => c == 1 }

/-- Every key collides (`Hash` is constant); `Eq` panics at every 3rd call and otherwise answers by
    call parity — not reflexive, not symmetric, not even a function of its arguments. -/
def collideEnv : Env :=
  { hash := fun _ _ => some 0
    eq := fun c _ _ => if c % 3 == 2 then none else some (c % 2 == 0)
    clone := fun c _ => some (900 + c, 0)
    pred := fun c e => some (c % 2 == 1, e.v)
    allocOk := fun _ => true
    dropPanics := fun _ _ => false }

def cls (o : Map.Obs) : String := match o with | .ret _ => "ret" | .panic c => c
def tcls (o : Table.TObs) : String := match o with | .ret _ => "ret" | .panic c => c

/-- (per call: "ret" or the class of the caught panic; `len` and number of stored elements of set
    `a`, then of set `b`). -/
def setSummary (cfg : Cfg) (env : Env) (cs : List SetCall) :
    Option (List String × Nat × Nat × Nat × Nat) :=
  match Set.run2 cfg env cs (Set.Pair.new cfg) with
  | some (obs, sf) => some (obs.map cls, sf.a.items, sf.a.elems.length, sf.b.items, sf.b.elems.length)
  | none => none

/-- (per call: "ret" or the class of the caught panic; `len`; number of stored elements). -/
def tableSummary (cfg : Cfg) (env : Env) (ops : List TableOp) : Option (List String × Nat × Nat) :=
  match Table.runH cfg env ops { t := Raw.new cfg.W } with
  | some (obs, wf) => some (obs.map tcls, wf.t.items, wf.t.elems.length)
  | none => none

/-- Single-set calls on both sides, the four lazy iterators, the predicates. -/
def setCalls1 : List SetCall :=
  [ ⟨.a, .insert 1 10⟩, ⟨.a, .insert 2 20⟩, ⟨.a, .insert 3 30⟩, ⟨.a, .insert 4 40⟩,
    ⟨.b, .insert 5 50⟩, ⟨.b, .replace ⟨6, 60, 0, 0⟩⟩, ⟨.b, .getOrInsert ⟨7, 70, 0, 0⟩⟩,
    ⟨.b, .getOrInsertWith 8 8 80⟩, ⟨.a, .contains 1⟩, ⟨.a, .get 9⟩,
    ⟨.a, .union⟩, ⟨.b, .intersection⟩, ⟨.a, .difference⟩, ⟨.b, .symmetricDifference⟩,
    ⟨.a, .isSubset⟩, ⟨.b, .isSuperset⟩, ⟨.a, .isDisjoint⟩, ⟨.a, .eq⟩ ]

/-- … then the assigning operators in both directions, `retain`, the entry API, removals,
    `shrink_to_fit`, `reserve`, `clear`. -/
def setCalls2 : List SetCall :=
  [ ⟨.a, .bitorAssign⟩, ⟨.b, .bitandAssign⟩, ⟨.a, .bitxorAssign⟩, ⟨.b, .subAssign⟩,
    ⟨.a, .retain⟩, ⟨.a, .retain⟩, ⟨.a, .entryInsert ⟨11, 110, 0, 0⟩⟩,
    ⟨.a, .entryRemove ⟨11, 111, 0, 0⟩⟩, ⟨.b, .take 5⟩, ⟨.b, .remove 6⟩, ⟨.a, .shrinkTo 0⟩,
    ⟨.b, .reserve 20⟩, ⟨.a, .entryOrInsert ⟨12, 120, 0, 0⟩⟩, ⟨.a, .clear⟩, ⟨.a, .insert 1 13⟩ ]

/-- The first half runs to its end; the 10th `Hash` call panics inside `get_or_insert`, caught. -/
example : setSummary { ops := Sse2.ops } badEnv setCalls1 =
    some (["ret", "ret", "ret", "ret", "ret", "ret", "hash", "ret", "ret", "ret", "ret", "ret", "ret",
      "ret", "ret", "ret", "ret", "ret"], 4, 4, 3, 3) := by decide +kernel

/-- The whole history (33 calls, SSE2 scanner): `Clone` panics inside `|=`, a destructor inside
    `&=`, the predicate inside the second `retain`; every panic is caught and the run completes with
    `len` = number of stored elements on both sets. -/
example : setSummary { ops := Sse2.ops } badEnv (setCalls1 ++ setCalls2) =
    some (["ret", "ret", "ret", "ret", "ret", "ret", "hash", "ret", "ret", "ret", "ret", "ret", "ret",
      "ret", "ret", "ret", "ret", "ret", "clone", "drop", "ret", "ret", "pred", "ret", "ret", "ret",
      "ret", "ret", "ret", "ret", "ret", "ret", "ret"], 1, 1, 2, 2) := by decide +kernel

/-- A history in which every key collides and `Eq` panics at every 3rd call. -/
def setCalls3 : List SetCall :=
  [ ⟨.a, .insert 1 10⟩, ⟨.a, .insert 2 20⟩, ⟨.a, .insert 3 30⟩, ⟨.b, .insert 1 11⟩,
    ⟨.b, .insert 4 41⟩, ⟨.a, .contains 1⟩, ⟨.a, .contains 2⟩, ⟨.a, .union⟩, ⟨.b, .isSubset⟩,
    ⟨.a, .eq⟩, ⟨.a, .subAssign⟩, ⟨.b, .bitxorAssign⟩, ⟨.a, .bitandAssign⟩, ⟨.b, .bitorAssign⟩,
    ⟨.a, .getOrInsertWith 5 6 60⟩, ⟨.a, .retain⟩ ]

/-- Portable scanner: five calls unwind out of `Eq`, the history goes on. -/
example : setSummary { ops := Generic.ops } collideEnv setCalls3 =
    some (["ret", "ret", "ret", "ret", "eq", "ret", "eq", "ret", "eq", "ret", "ret", "eq", "ret", "eq",
      "ret", "ret"], 1, 1, 1, 1) := by decide +kernel

/-- A `HashTable` history whose hashes are unrelated to anything: two elements with the same key
    inserted with hashes `5` and `99`, a hash with only the top bit set, look-ups with hashes that
    were never used for an insertion, `entry` (its `reserve(1)` re-hashes with the call-number
    dependent closure), `find_entry` + `remove` + re-insertion, `get_many_mut` naming one bucket
    twice, `iter_hash`, `retain` with a panicking predicate and a panicking destructor, `extract_if`,
    `reserve`, `shrink_to_fit`, `drain`, `clear`. -/
def tableOps : List TableOp :=
  [ .insertUnique 5 ⟨1, 10, 0, 7⟩, .insertUnique 99 ⟨1, 11, 0, 8⟩, .insertUnique 0 ⟨2, 20, 0, 9⟩,
    .insertUnique (2 ^ 63) ⟨3, 30, 0, 1⟩, .len, .find 5 1, .find 1234 1, .findMut 99 7 3,
    .entryInsert 7 1 ⟨4, 40, 0, 2⟩, .entryOrInsert 7 1 ⟨5, 50, 0, 2⟩, .entryAndModify 3 3 77,
    .findEntryRemove 5 1 (some ⟨6, 60, 0, 6⟩), .findEntryRemove 99 1 none,
    .getManyMut false [(5, 1), (5, 1)], .getManyMut true [(5, 1), (99, 2)], .iterHash 5, .iter 10,
    .retain, .retain, .extractIf 2, .reserve 30, .shrinkTo 0, .drain 1 false, .len, .clear, .len ]

/-- SSE2 scanner: "eq", "dup", "dup", "pred", "drop" are caught, the run completes. -/
example : tableSummary { ops := Sse2.ops } badEnv tableOps =
    some (["ret", "ret", "ret", "ret", "ret", "ret", "ret", "ret", "ret", "ret", "ret", "ret", "eq",
      "dup", "dup", "ret", "ret", "pred", "drop", "ret", "ret", "ret", "ret", "ret", "ret", "ret"],
      0, 0) := by decide +kernel

/-- Zero-sized elements without drop glue, `get_many_mut` as released in 0.15.2 (defect F2 present). -/
def zstCfg : Cfg :=
  { ops := Generic.ops, size := 0, align := 1, needsDrop := false, zstDupFixed := false }

/-- The same history on zero-sized elements WITHOUT the F2 repair (0.15.2 as released), portable
    scanner: still no fault. -/
example : tableSummary zstCfg badEnv tableOps =
    some (["ret", "ret", "ret", "ret", "ret", "ret", "ret", "ret", "eq", "ret", "ret", "ret", "eq",
      "dup", "dup", "ret", "ret", "pred", "ret", "ret", "ret", "ret", "ret", "ret", "ret", "ret"],
      0, 0) := by decide +kernel

/-- All keys collide and `Eq` answers by call parity. -/
example : tableSummary { ops := Generic.ops } collideEnv tableOps =
    some (["ret", "ret", "ret", "ret", "ret", "ret", "eq", "ret", "eq", "ret", "eq", "ret", "eq", "eq",
      "dup", "ret", "ret", "ret", "ret", "ret", "ret", "ret", "ret", "ret", "ret", "ret"],
      0, 0) := by decide +kernel

/-- What the table history looks like half-way (before `retain`): five elements, `len() = 5`. -/
example : tableSummary { ops := Sse2.ops } badEnv (tableOps.take 17) =
    some (["ret", "ret", "ret", "ret", "ret", "ret", "ret", "ret", "ret", "ret", "ret", "ret", "eq",
      "dup", "dup", "ret", "ret"], 5, 5) := by decide +kernel

/-- With an allocator that refuses everything both histories are cut short by
    `handle_alloc_error` at the first insertion — and that is not a fault. -/
example :
    Set.run2 { ops := Sse2.ops } { badEnv with allocOk := fun _ => false } setCalls1
      (Set.Pair.new { ops := Sse2.ops }) = none ∧
    Set.run2Faults { ops := Sse2.ops } { badEnv with allocOk := fun _ => false } setCalls1
      (Set.Pair.new { ops := Sse2.ops }) = false ∧
    Table.runH { ops := Sse2.ops } { badEnv with allocOk := fun _ => false } tableOps
      { t := Raw.new 16 } = none ∧
    Table.runHFaults { ops := Sse2.ops } { badEnv with allocOk := fun _ => false } tableOps
      { t := Raw.new 16 } = false := ⟨by rfl, by rfl, by rfl, by rfl⟩

/-- The theorems applied to the evaluated histories (`GroupSpec Sse2.ops` is `sse2_groupSpec`,
    `Hb/Proofs/Group.lean`; taken as a hypothesis only to keep `bv_decide`'s axioms out of this
    file): no fault, and every intermediate state is valid. -/
theorem examples_covered (hs : GroupSpec Sse2.ops) :
    Set.run2Faults { ops := Sse2.ops } badEnv (setCalls1 ++ setCalls2)
      (Set.Pair.new { ops := Sse2.ops }) = false ∧
    Table.runHFaults { ops := Sse2.ops } badEnv tableOps { t := Raw.new 16 } = false ∧
    (∀ w ∈ Table.statesH { ops := Sse2.ops } badEnv tableOps { t := Raw.new 16 },
      w.t.items = w.t.elems.length ∧ LenIsYielded { ops := Sse2.ops } w.t) := by
  have hc : CfgOk { ops := Sse2.ops } := ⟨hs, by decide⟩
  have hg : GuardRuns { ops := Sse2.ops } := .inl rfl
  refine ⟨(Hb.set_run2_safe_new hc hg badEnv _).1, (Hb.table_runH_safe hc hg badEnv _ _ rfl).1,
    fun w hw => ?_⟩
  have := (Hb.table_runH_safe hc hg badEnv tableOps { t := Raw.new 16 } rfl).2.1 w hw
  exact ⟨this.2, st_lenIsYielded hc this.1.1⟩

#print axioms set_step2_safe
#print axioms set_run2_safe
#print axioms table_stepH_safe
#print axioms table_runH_safe
#print axioms valid_after_any_panic_set_table
#print axioms broken_hash_eq_safe_set_table
#print axioms len_equals_yielded_set_table
#print axioms examples_covered

end Hb.C02ST
