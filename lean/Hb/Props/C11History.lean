/-
C11 / C01 / C03 over a PAIR of `HashMap`s — the calls that involve two collections or replace a
collection (`clone`, `clone_from`, `==`, `into_iter`, `from_iter` / `collect`, `mem::take`), inside
ONE history theorem together with every single-map call of `MapOpX`.

Model: `Hb/Model/MapPairOps.lean` (`PairOp`, `PairCall`, `Map.Pair`, `Map.step2`, `Map.run2`,
`Map.run2Faults`, `Map.states2`); proofs: `Hb/Proofs/PairHistory.lean`. The state is the driver's: two
tables and ONE world (one event log, one set of call counters); a call names its target side, the
other map is the second operand.

* `run2_safe` / `step2_safe` — SAFETY for EVERY environment (arbitrary `Hash` / `Eq` / `Clone` /
  predicate answers per call number, panicking callbacks and destructors, refusing allocator).
* `pair_history_refines` / `step2_refines` — REFINEMENT for lawful environments (`LawfulP env H P`,
  exactly the hypotheses of `historyX_refines`; `Clone` MAY panic) against the reference on a pair
  of association lists `AL.PCall` / `AL.PStep` / `AL.PTrace`.
* `clone_then_diverge`, `clone_then_diverge_ref`, `run2_other_unchanged`, `trace_other_unchanged`,
  `eq_ignores_history` — the corollaries in the words of C11.
* `run2_ledger` / `step2_ledger` — C03: `stored(a) ++ stored(b) ++ dropped ++ returned = inserted`,
  clones counted as inserted when created (object ledger only; the allocator invariant of
  `runX_ledger` is about ONE table and is not restated for the pair).
* evaluated non-vacuity examples on a concrete lawful environment whose `Clone` works, both scanners.
-/
import Hb.Proofs.PairHistory
namespace Hb.C11H
open Hb

variable {cfg : Cfg} {env : Env} {H : Nat → Nat} {P : AL.Pred}

/-! ### safety, every environment -/

/-- One call on a pair of maps (any `PairOp` on either side), from any two valid tables, for EVERY
    environment: never `.fault`; on return AND after an unwind BOTH tables satisfy `TInv cfg` and
    `items = elems.length`; `.abort` (`handle_alloc_error`) only if the allocator refuses some
    request. -/
theorem step2_safe (hc : CfgOk cfg) (hg : GuardRuns cfg) (env : Env) (c : PairCall) (s : Map.Pair)
    (ha : TInv cfg s.a) (hb : TInv cfg s.b) :
    match Map.step2 cfg env c s with
    | .ret _ s' => (TInv cfg s'.a ∧ s'.a.items = s'.a.elems.length) ∧
        (TInv cfg s'.b ∧ s'.b.items = s'.b.elems.length)
    | .panic _ s' => (TInv cfg s'.a ∧ s'.a.items = s'.a.elems.length) ∧
        (TInv cfg s'.b ∧ s'.b.items = s'.b.elems.length)
    | .abort => ∃ j, env.allocOk j = false
    | .fault _ => False :=
  Hb.step2_safe hc hg env c s ha hb

/-- Every history of `PairCall`s from `(new(), new())`, EVERY environment: no call reaches `.fault`
    (`run2Faults = false`); after every call, returned or unwound — `Map.states2` lists the pair after
    every prefix of the history — BOTH tables satisfy the API invariant `TInv cfg` and
    `items = elems.length`; so does the final pair; the run is cut short only by
    `handle_alloc_error`, never if the allocator never refuses. -/
theorem run2_safe (hc : CfgOk cfg) (hg : GuardRuns cfg) (env : Env) (cs : List PairCall)
    (s0 : Map.Pair) (ha : s0.a = Raw.new cfg.W) (hb : s0.b = Raw.new cfg.W) :
    Map.run2Faults cfg env cs s0 = false ∧
    (∀ s ∈ Map.states2 cfg env cs s0,
      (TInv cfg s.a ∧ s.a.items = s.a.elems.length) ∧ (TInv cfg s.b ∧ s.b.items = s.b.elems.length)) ∧
    (∀ obs sf, Map.run2 cfg env cs s0 = some (obs, sf) →
      (TInv cfg sf.a ∧ sf.a.items = sf.a.elems.length) ∧
      (TInv cfg sf.b ∧ sf.b.items = sf.b.elems.length)) ∧
    ((∀ j, env.allocOk j = true) → ∃ obs sf, Map.run2 cfg env cs s0 = some (obs, sf)) :=
  Hb.run2_safe hc hg env cs s0 ha hb

/-- `states2` is "the pair after every prefix": when the run completes it has one entry per call plus
    the initial pair, and its last entry is the final pair. -/
theorem states2_of_run2 (env : Env) (cs : List PairCall) (s : Map.Pair) (obs : List Map.ObsX)
    (sf : Map.Pair) (h : Map.run2 cfg env cs s = some (obs, sf)) :
    (Map.states2 cfg env cs s).length = cs.length + 1 ∧
    (Map.states2 cfg env cs s).getLast? = some sf ∧ obs.length = cs.length :=
  Hb.states2_of_run2 env cs s obs sf h

/-! ### refinement, lawful environments -/

/-- One call of a pair history refines the reference `AL.PStep`, from ANY pair of tables satisfying
    `RI` (= `InvL` + layout): never `fault` / `abort`; the observation is the reference's; both
    tables hold the reference's maps up to bucket order and satisfy `RI` again. -/
theorem step2_refines (hc : CfgOk cfg) (hlp : LawfulP env H P) (c : PairCall)
    (hct : c.op.contract H) (hb : c.op.basicOk = true) (s : Map.Pair) (hs : PairRI cfg H s) :
    ∃ o s' l', (Map.step2 cfg env c s).observe = some (o, s') ∧ AL.PStep P H c s.abs o l' ∧
      List.Perm s'.a.elems l'.1 ∧ List.Perm s'.b.elems l'.2 ∧ PairRI cfg H s' :=
  Hb.step2_refines hc hlp c hct hb s hs

/-- **Every history on a pair of maps refines the reference.** Lawful environment (`LawfulP env H P`:
    `Hash = H`, `Eq` = key equality, pure predicate `P`, the allocator never refuses, destructors
    never panic — exactly the hypotheses of `historyX_refines`; `Clone` may answer anything and may
    panic), side conditions of `historyX_refines` on the single-map calls (`contract`, `basicOk`):
    the run never faults or aborts; the observations are, call by call, those of a reference trace
    `AL.PTrace` on a pair of association lists — `cloneToOther`: `other := target` as a finite map
    `k ↦ v` (identities are the `Clone` oracle's), `cloneFrom`: `target := other` likewise, `eq`:
    `true` iff same finite map, `intoIter k`: the first `k` pairs of some order, target emptied,
    `fromIter`: fold of `insert` over the empty map —; each final table holds a permutation of its
    reference map, keys pairwise distinct; both tables satisfy `RI cfg H` at the end and after every
    prefix (`states2`). A prefix of a history is a history, so all of this holds after every prefix. -/
theorem pair_history_refines (hc : CfgOk cfg) (hlp : LawfulP env H P) (cs : List PairCall)
    (hct : ∀ c ∈ cs, c.op.contract H) (hb : ∀ c ∈ cs, c.op.basicOk = true) (s0 : Map.Pair)
    (ha : s0.a = Raw.new cfg.W) (hb0 : s0.b = Raw.new cfg.W) :
    ∃ os sf la lb, Map.run2 cfg env cs s0 = some (os, sf) ∧
      AL.PTrace P H cs ([], []) os (la, lb) ∧
      List.Perm sf.a.elems la ∧ List.Perm sf.b.elems lb ∧ la.keysNodup ∧ lb.keysNodup ∧
      RI cfg H sf.a ∧ RI cfg H sf.b ∧
      ∀ s ∈ Map.states2 cfg env cs s0, RI cfg H s.a ∧ RI cfg H s.b :=
  Hb.pair_history_refines hc hlp cs hct hb s0 ha hb0

/-- The reference does not depend on the order of the abstract lists: a pair call can be replayed
    from any permutation of both maps, same observation, results up to permutation. -/
theorem reference_respects_perm {op : PairOp} {T O T' O' T2 O2 : AL} {o : Map.ObsX}
    (h : AL.PCall P H op T O o T' O') (hT : List.Perm T T2) (hO : List.Perm O O2)
    (hnT : T.keysNodup) (hnO : O.keysNodup) :
    ∃ T2' O2', AL.PCall P H op T2 O2 o T2' O2' ∧ List.Perm T' T2' ∧ List.Perm O' O2' :=
  h.perm hT hO hnT hnO

/-- Sanity of the reference: holding the same `key ↦ payload` pairs as a key-distinct map (the way
    `clone` is specified) is being the same finite map (the relation `==` decides). -/
theorem kv_perm_same_map {l1 l2 : AL} (hp : List.Perm (AL.kv l1) (AL.kv l2)) (h2 : l2.keysNodup)
    (k : Nat) : (l1.find k).map (·.v) = (l2.find k).map (·.v) :=
  AL.kv_perm_same_map hp h2 k

/-- In the reference, right after a returned `clone_to_other`, `target == other` answers `true`. -/
theorem clone_then_eq_ref {T O T' O' T2 O2 : AL} {r : RetX} {b : Bool} (hn : T.keysNodup)
    (h : AL.PCall P H .cloneToOther T O (.ret r) T' O')
    (he : AL.PCall P H .eq T' O' (.ret (.base (.bool b))) T2 O2) : b = true :=
  AL.PCall.clone_then_eq hn h he

/-! ### corollaries in the words of C11 -/

/-- **Independence, tables.** Any history of calls on ONE side `x` (none of them `clone_to_other`,
    the only call that assigns the other map) leaves the table of the other side literally
    unchanged, whatever the environment does, panics included. -/
theorem run2_other_unchanged (env : Env) (x : Side) (cs : List PairCall) (s sf : Map.Pair)
    (obs : List Map.ObsX) (hcs : ∀ c ∈ cs, c.side = x ∧ c.op ≠ .cloneToOther)
    (hrun : Map.run2 cfg env cs s = some (obs, sf)) : sf.tbl x.flip = s.tbl x.flip :=
  Hb.run2_other_unchanged env x cs s sf obs hcs hrun

/-- **Independence, reference.** A reference trace of calls on one side `x` (none of them
    `clone_to_other`) leaves the other side's abstract map unchanged. -/
theorem trace_other_unchanged (x : Side) {cs : List PairCall} {l lf : AL × AL} {os : List Map.ObsX}
    (h : AL.PTrace P H cs l os lf) (hcs : ∀ c ∈ cs, c.side = x ∧ c.op ≠ .cloneToOther) :
    AL.side lf x.flip = AL.side l x.flip :=
  h.other_unchanged x hcs

/-- **Clone, then diverge** (EVERY environment, any two valid tables): after `other = target.clone()`
    on side `sd` returned, ANY further history on one side `x` — the original (`x = sd`) or the clone
    (`x = sd.flip`) —, panics included, leaves the untouched side holding exactly the
    `key ↦ payload` pairs the original had when it was cloned, in the same bucket order. -/
theorem clone_then_diverge (hc : CfgOk cfg) (env : Env) (sd x : Side) (cs : List PairCall)
    (s sf : Map.Pair) (ha : TInv cfg s.a) (hb : TInv cfg s.b) {r : RetX} {os : List Map.ObsX}
    (hcs : ∀ c ∈ cs, c.side = x ∧ c.op ≠ .cloneToOther)
    (hrun : Map.run2 cfg env (⟨sd, .cloneToOther⟩ :: cs) s = some (.ret r :: os, sf)) :
    AL.kv (sf.tbl x.flip).elems = AL.kv (s.tbl sd).elems :=
  Hb.clone_then_diverge hc env sd x cs s sf ha hb hcs hrun

/-- The same at the level of the reference: after a returned `clone_to_other` on side `sd`, any trace
    of further calls on one side `x` leaves the other side's reference equal, as a finite map
    `key ↦ payload`, to what the original held when it was cloned. -/
theorem clone_then_diverge_ref (sd x : Side) {cs : List PairCall} {l lf : AL × AL} {r : RetX}
    {os : List Map.ObsX}
    (h : AL.PTrace P H (⟨sd, .cloneToOther⟩ :: cs) l (.ret r :: os) lf)
    (hcs : ∀ c ∈ cs, c.side = x ∧ c.op ≠ .cloneToOther) :
    List.Perm (AL.kv (AL.side lf x.flip)) (AL.kv (AL.side l sd)) :=
  Hb.clone_then_diverge_ref sd x h hcs

/-- **`==` ignores the histories and is symmetric.** After ANY pair history from `(new(), new())`
    (lawful environment; the two maps may have been built by entirely different calls and have
    different capacities, tombstones, bucket orders): `a == b` and `b == a` both return, return the
    SAME Boolean, leave both tables as they are, and the Boolean is `true` exactly when the two
    reference maps are the same finite map `key ↦ payload` — so it IS `true` whenever they are. -/
theorem eq_ignores_history (hc : CfgOk cfg) (hlp : LawfulP env H P) (cs : List PairCall)
    (hct : ∀ c ∈ cs, c.op.contract H) (hb : ∀ c ∈ cs, c.op.basicOk = true) (s0 : Map.Pair)
    (ha : s0.a = Raw.new cfg.W) (hb0 : s0.b = Raw.new cfg.W) :
    ∃ os sf la lb, Map.run2 cfg env cs s0 = some (os, sf) ∧
      AL.PTrace P H cs ([], []) os (la, lb) ∧
      List.Perm sf.a.elems la ∧ List.Perm sf.b.elems lb ∧
      ∃ r sa sb, Map.step2 cfg env ⟨.a, .eq⟩ sf = .ret (.base (.bool r)) sa ∧
        Map.step2 cfg env ⟨.b, .eq⟩ sf = .ret (.base (.bool r)) sb ∧
        sa.a = sf.a ∧ sa.b = sf.b ∧ sb.a = sf.a ∧ sb.b = sf.b ∧
        (r = true ↔ ∀ k, (la.find k).map (·.v) = (lb.find k).map (·.v)) :=
  Hb.eq_ignores_history hc hlp cs hct hb s0 ha hb0

/-! ### ledger (C03) -/

/-- Ledger of one returned call on a pair (drop glue, EVERY environment, any two valid tables, not
    the forgotten drain): every key / value object stored in either map before, passed in, or
    created by `Clone` during the call is afterwards in exactly one of {map `a`, map `b`, the
    destructor log of this call, the return value}. -/
theorem step2_ledger (hc : CfgOk cfg) (hnd : cfg.needsDrop = true) (env : Env) (c : PairCall)
    (s : Map.Pair) (ha : TInv cfg s.a) (hb : TInv cfg s.b) (hcov : c.op.ledgerCovered = true)
    {r : RetX} {s' : Map.Pair} (hst : Map.step2 cfg env c s = .ret r s') :
    ∃ new, s'.w.log = new ++ s.w.log ∧
      List.Perm (kidsOf s'.a.elems ++ kidsOf s'.b.elems ++ droppedK new ++ c.op.retK r)
        (kidsOf s.a.elems ++ kidsOf s.b.elems ++ c.insK s') ∧
      List.Perm (vidsOf s'.a.elems ++ vidsOf s'.b.elems ++ droppedV new ++ c.op.retV r)
        (vidsOf s.a.elems ++ vidsOf s.b.elems ++ c.insV s') :=
  Hb.step2_ledger hc hnd env c s ha hb hcov hst

/-- **Ledger of a pair history.** Fresh pair, empty log, element type with drop glue, no forgotten
    drain, EVERY environment, every call returns: as multisets of object identities
    `stored(a) ++ stored(b) ++ dropped ++ returned = inserted`, for key objects and for value
    objects, where `inserted` = passed in by the caller + created by `Clone` (counted when
    created). -/
theorem run2_ledger (hc : CfgOk cfg) (hnd : cfg.needsDrop = true) (env : Env) (cs : List PairCall)
    (s0 : Map.Pair) (ha : s0.a = Raw.new cfg.W) (hb : s0.b = Raw.new cfg.W) (hl0 : s0.w.log = [])
    (hcov : ∀ c ∈ cs, c.op.ledgerCovered = true)
    {obs : List Map.ObsX} {sf : Map.Pair} (hrun : Map.run2 cfg env cs s0 = some (obs, sf))
    (hret : ∀ o ∈ obs, ∃ r, o = .ret r) :
    List.Perm (kidsOf sf.a.elems ++ kidsOf sf.b.elems ++ droppedK sf.w.log ++ returnedK2 (cs.zip obs))
      (Map.insK2 cfg env cs s0) ∧
    List.Perm (vidsOf sf.a.elems ++ vidsOf sf.b.elems ++ droppedV sf.w.log ++ returnedV2 (cs.zip obs))
      (Map.insV2 cfg env cs s0) :=
  Hb.run2_ledger hc hnd env cs s0 ha hb hl0 hcov hrun hret

/-! ### non-vacuity: a concrete lawful environment whose `Clone` works, an evaluated history -/

/-- `Hash = rfH` (`k * 2^57 + k`), `Eq` = key equality, `Clone` call `c` hands out the fresh
    identities `(1000 + 2c, 1001 + 2c)`, pure predicate `rfP`, allocator never refuses, destructors
    never panic. -/
def c11hEnv : Env :=
  { hash := fun _ k => some (rfH k), eq := fun _ q e => some (q == e.k),
    clone := fun c _ => some (1000 + 2 * c, 1001 + 2 * c),
    pred := fun _ e => some (rfP e), allocOk := fun _ => true, dropPanics := fun _ _ => false }

theorem c11hEnv_lawfulP : LawfulP c11hEnv rfH rfP :=
  { hash := fun _ _ => rfl, eq := fun _ _ _ => rfl, pred := fun _ _ => rfl, alloc := fun _ => rfl,
    nodropPanic := fun _ _ => rfl }

/-- insert ×3 on `a`; `b = a.clone()`; remove 2 on `a`; `a == b`, `b == a` (false); `a.clone_from(&b)`;
    `a == b`, `b == a` (true); grow `b` to 32 buckets, insert and remove key 4 through the entry API,
    remove and re-insert key 1 in `b` (new objects, same payload); `a == b`, `b == a` (still true:
    4 vs 32 buckets, different objects); `b.into_iter()` advanced once; `a = from_iter` with a
    duplicate key; `b.clone_from(&a)`; `drop(mem::take(a))`; `b == a` (false). -/
def c11hOps : List PairCall :=
  [ ⟨.a, .on (.base (.insert ⟨1, 10, 100, 7⟩))⟩,
    ⟨.a, .on (.base (.insert ⟨2, 20, 200, 8⟩))⟩,
    ⟨.a, .on (.base (.insert ⟨3, 30, 300, 9⟩))⟩,
    ⟨.a, .cloneToOther⟩,
    ⟨.a, .on (.base (.remove 2))⟩,
    ⟨.a, .eq⟩,
    ⟨.b, .eq⟩,
    ⟨.a, .cloneFrom⟩,
    ⟨.a, .eq⟩,
    ⟨.b, .eq⟩,
    ⟨.b, .on (.base (.reserve 20))⟩,
    ⟨.b, .on (.entry 4 40 (.orInsert 400 1))⟩,
    ⟨.b, .on (.base (.remove 4))⟩,
    ⟨.b, .on (.base (.remove 1))⟩,
    ⟨.b, .on (.base (.insert ⟨1, 11, 101, 7⟩))⟩,
    ⟨.a, .eq⟩,
    ⟨.b, .eq⟩,
    ⟨.b, .intoIter 1⟩,
    ⟨.a, .fromIter [⟨5, 50, 500, 1⟩, ⟨6, 60, 600, 2⟩, ⟨5, 51, 501, 3⟩]⟩,
    ⟨.b, .cloneFrom⟩,
    ⟨.a, .take⟩,
    ⟨.b, .eq⟩ ]

/-- Flat encoding of an observation (the model types have no decidable equality): `[20, b]` for a
    Boolean, `21 :: pairs` for yielded pairs, `rxCode` otherwise (`[15]` unit, `[10, 3]` `None`,
    `[10, 4, vid, v]` `Some(value)`, …). -/
def c11hCode : Map.ObsX → List Nat
  | .ret (.base (.bool b)) => [20, if b then 1 else 0]
  | .ret (.base (.elems l)) => 21 :: l.flatMap fun e => [e.k, e.kid, e.vid, e.v]
  | o => rxCode o

/-- (observations, final contents of `a`, final contents of `b`). -/
def c11hSummary (cfg : Cfg) : Option (List (List Nat) × List Elem × List Elem) :=
  match Map.run2 cfg c11hEnv c11hOps (Map.Pair.new cfg) with
  | some (os, sf) => some (os.map c11hCode, sf.a.elems, sf.b.elems)
  | none => none

/-- (keys of `a`, keys of `b`, buckets of `a`, buckets of `b`) after every prefix. -/
def c11hStates (cfg : Cfg) : List (List Nat × List Nat × Nat × Nat) :=
  (Map.states2 cfg c11hEnv c11hOps (Map.Pair.new cfg)).map fun s =>
    (s.a.elems.map (·.k), s.b.elems.map (·.k), s.a.buckets, s.b.buckets)

def c11hExpected : Option (List (List Nat) × List Elem × List Elem) :=
  some ([[10, 3], [10, 3], [10, 3], [15], [10, 4, 200, 8], [20, 0], [20, 0], [15], [20, 1], [20, 1],
      [10, 0], [11, 0, 1, 400, 1], [10, 4, 400, 1], [10, 4, 1001, 7], [10, 3], [20, 1], [20, 1],
      [21, 1, 11, 101, 7], [15], [15], [15], [20, 0]],
    [], [⟨5, 1012, 1013, 3⟩, ⟨6, 1014, 1015, 2⟩])

/-- The history runs to its end on both scanners (no fault, no abort, no panic): `==` is `false`
    after the source lost key 2, `true` both ways after `clone_from`, still `true` both ways when the
    two maps sit in 4 and 32 buckets and hold different objects; `into_iter` yields one pair and
    empties `b`; `from_iter` keeps the first key object (50) with the last value (501, payload 3) —
    `b`'s clone of it carries the `Clone` oracle's identities. -/
example : c11hSummary { ops := Sse2.ops } = c11hExpected := by decide +kernel
example : c11hSummary { ops := Generic.ops } = c11hExpected := by decide +kernel

/-- The pair after every prefix: after `clone_to_other` both hold keys 1, 2, 3; removing 2 from `a`
    does not show in `b`; after `clone_from` they agree again; `b` grows to 32 buckets while `a`
    stays at 4. -/
example : c11hStates { ops := Sse2.ops } =
    [([], [], 1, 1), ([1], [], 4, 1), ([1, 2], [], 4, 1), ([1, 2, 3], [], 4, 1),
     ([1, 2, 3], [1, 2, 3], 4, 4), ([1, 3], [1, 2, 3], 4, 4), ([1, 3], [1, 2, 3], 4, 4),
     ([1, 3], [1, 2, 3], 4, 4), ([1, 2, 3], [1, 2, 3], 4, 4), ([1, 2, 3], [1, 2, 3], 4, 4),
     ([1, 2, 3], [1, 2, 3], 4, 4), ([1, 2, 3], [1, 2, 3], 4, 32), ([1, 2, 3], [1, 2, 3, 4], 4, 32),
     ([1, 2, 3], [1, 2, 3], 4, 32), ([1, 2, 3], [2, 3], 4, 32), ([1, 2, 3], [1, 2, 3], 4, 32),
     ([1, 2, 3], [1, 2, 3], 4, 32), ([1, 2, 3], [1, 2, 3], 4, 32), ([1, 2, 3], [], 4, 1),
     ([5, 6], [], 4, 1), ([5, 6], [5, 6], 4, 4), ([], [5, 6], 1, 4), ([], [5, 6], 1, 4)] := by
  decide +kernel

/-- A panicking `Clone` (second call) in the middle of `clone_to_other`, and a refusing allocator:
    the clone under construction is dropped, `b` is left as `new()`, `a` is untouched; with the
    refusing allocator the run is cut short by `handle_alloc_error` — neither is a fault. -/
example :
    (match Map.run2 { ops := Sse2.ops }
        { c11hEnv with clone := fun c e => if c = 1 then none else c11hEnv.clone c e }
        (c11hOps.take 5) (Map.Pair.new { ops := Sse2.ops }) with
      | some (os, sf) => some (os.map c11hCode, sf.a.elems.map (·.k), sf.b.elems.map (·.k))
      | none => none) =
      some ([[10, 3], [10, 3], [10, 3], 16 :: "clone".toList.map Char.toNat, [10, 4, 200, 8]],
        [1, 3], []) ∧
    Map.run2 { ops := Sse2.ops } { c11hEnv with allocOk := fun _ => false } c11hOps
      (Map.Pair.new { ops := Sse2.ops }) = none ∧
    Map.run2Faults { ops := Sse2.ops } { c11hEnv with allocOk := fun _ => false } c11hOps
      (Map.Pair.new { ops := Sse2.ops }) = false := by
  refine ⟨by decide +kernel, by decide +kernel, by decide +kernel⟩

theorem c11hOps_contract : ∀ c ∈ c11hOps, c.op.contract rfH := by
  intro c hc
  simp only [c11hOps, List.mem_cons, List.not_mem_nil, or_false] at hc
  rcases hc with rfl | rfl | rfl | rfl | rfl | rfl | rfl | rfl | rfl | rfl | rfl | rfl | rfl | rfl |
    rfl | rfl | rfl | rfl | rfl | rfl | rfl | rfl <;> trivial

theorem c11hOps_basicOk : ∀ c ∈ c11hOps, c.op.basicOk = true := by
  intro c hc
  simp only [c11hOps, List.mem_cons, List.not_mem_nil, or_false] at hc
  rcases hc with rfl | rfl | rfl | rfl | rfl | rfl | rfl | rfl | rfl | rfl | rfl | rfl | rfl | rfl |
    rfl | rfl | rfl | rfl | rfl | rfl | rfl | rfl <;> rfl

theorem c11hOps_covered : ∀ c ∈ c11hOps, c.op.ledgerCovered = true := by
  intro c hc
  simp only [c11hOps, List.mem_cons, List.not_mem_nil, or_false] at hc
  rcases hc with rfl | rfl | rfl | rfl | rfl | rfl | rfl | rfl | rfl | rfl | rfl | rfl | rfl | rfl |
    rfl | rfl | rfl | rfl | rfl | rfl | rfl | rfl <;> rfl

/-- The general theorems apply to this history (their hypotheses are satisfiable), for every
    `CfgOk` configuration. -/
example (cfg : Cfg) (hc : CfgOk cfg) :
    ∃ os sf la lb, Map.run2 cfg c11hEnv c11hOps (Map.Pair.new cfg) = some (os, sf) ∧
      AL.PTrace rfP rfH c11hOps ([], []) os (la, lb) ∧
      List.Perm sf.a.elems la ∧ List.Perm sf.b.elems lb ∧ la.keysNodup ∧ lb.keysNodup ∧
      RI cfg rfH sf.a ∧ RI cfg rfH sf.b ∧
      ∀ s ∈ Map.states2 cfg c11hEnv c11hOps (Map.Pair.new cfg), RI cfg rfH s.a ∧ RI cfg rfH s.b :=
  pair_history_refines hc c11hEnv_lawfulP c11hOps c11hOps_contract c11hOps_basicOk _ rfl rfl

/-- The ledger on the evaluated history (SSE2 scanner), key objects: 16 entered the accounting
    (10 passed in, 6 created by `Clone`: 1000 … 1010 for the two clones of `{1, 2, 3}`, 1012, 1014
    for the clone of `{5, 6}`); at the end 2 are stored (in `b`), 13 were dropped, 1 (key object 11)
    was handed back by `into_iter`. Value objects: 16 entered, 2 stored, 10 dropped, 4 returned
    (`remove` ×3, `into_iter`). -/
example :
    (match Map.run2 { ops := Sse2.ops } c11hEnv c11hOps (Map.Pair.new { ops := Sse2.ops }) with
      | some (os, sf) =>
        some (Map.insK2 { ops := Sse2.ops } c11hEnv c11hOps (Map.Pair.new { ops := Sse2.ops }),
          kidsOf sf.a.elems ++ kidsOf sf.b.elems, droppedK sf.w.log, returnedK2 (c11hOps.zip os))
      | none => none) =
    some ([10, 20, 30, 1000, 1002, 1004, 1006, 1008, 1010, 40, 11, 50, 60, 51, 1012, 1014],
      [1012, 1014], [60, 50, 51, 1010, 1008, 1006, 1004, 1002, 1000, 40, 30, 10, 20], [11]) := by
  decide +kernel

example :
    (match Map.run2 { ops := Sse2.ops } c11hEnv c11hOps (Map.Pair.new { ops := Sse2.ops }) with
      | some (os, sf) =>
        some (Map.insV2 { ops := Sse2.ops } c11hEnv c11hOps (Map.Pair.new { ops := Sse2.ops }),
          vidsOf sf.a.elems ++ vidsOf sf.b.elems, droppedV sf.w.log, returnedV2 (c11hOps.zip os))
      | none => none) =
    some ([100, 200, 300, 1001, 1003, 1005, 1007, 1009, 1011, 400, 101, 500, 600, 501, 1013, 1015],
      [1013, 1015], [600, 501, 500, 1011, 1009, 1007, 1005, 1003, 300, 100], [200, 400, 1001, 101]) := by
  decide +kernel

/-- … and the ledger theorem applies to it (its hypotheses are satisfiable). -/
example (hs : GroupSpec Sse2.ops) {obs : List Map.ObsX} {sf : Map.Pair}
    (hrun : Map.run2 { ops := Sse2.ops } c11hEnv c11hOps (Map.Pair.new { ops := Sse2.ops }) =
      some (obs, sf)) (hret : ∀ o ∈ obs, ∃ r, o = .ret r) :
    List.Perm (kidsOf sf.a.elems ++ kidsOf sf.b.elems ++ droppedK sf.w.log ++
        returnedK2 (c11hOps.zip obs))
      (Map.insK2 { ops := Sse2.ops } c11hEnv c11hOps (Map.Pair.new { ops := Sse2.ops })) :=
  (run2_ledger (cfg := { ops := Sse2.ops }) ⟨hs, by decide⟩ rfl c11hEnv c11hOps _ rfl rfl rfl
    c11hOps_covered hrun hret).1

#print axioms step2_safe
#print axioms run2_safe
#print axioms states2_of_run2
#print axioms step2_refines
#print axioms pair_history_refines
#print axioms reference_respects_perm
#print axioms kv_perm_same_map
#print axioms clone_then_eq_ref
#print axioms run2_other_unchanged
#print axioms trace_other_unchanged
#print axioms clone_then_diverge
#print axioms clone_then_diverge_ref
#print axioms eq_ignores_history
#print axioms step2_ledger
#print axioms run2_ledger
#print axioms c11hEnv_lawfulP
#print axioms c11hOps_contract
#print axioms c11hOps_basicOk
#print axioms c11hOps_covered

end Hb.C11H
