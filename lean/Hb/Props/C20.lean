/-
C20 — serde: "With the serde feature, serialising any HashMap or HashSet and deserialising the
result yields an equal collection, and deserialising input with repeated keys keeps the last value
for each key. A deserialisation error part-way returns the error without leaking or
double-dropping already-built elements. The capacity reserved before reading any element is bounded
by a small constant regardless of the length the input claims."

Model: `Hb/Model/Serde.lean` (`Serde.visitMapGen` = `visit_map` / `visit_seq`, `Serde.visitMap` its
restriction to failures at a `next_key` call, `Serde.deserializeInPlace`, `Serde.serialize`);
the driver `Hb/Driver/SerdeOps.lean` executes exactly these functions against the real code
(profile `serde`). Proofs: `Hb/Proofs/SerdeSpec.lean`.

* §1 is unconditional arithmetic.
* §2 (`last_wins`, `roundtrip_spec`) are unconditional facts about the reference association list
  `AL` of `Hb/Model/Spec.lean`; `abstract_feed_is_steps` ties the fold to `AL.Step`.
* §3 transports §2 to the table model. `last_wins_table_of` / `error_midway_ledger_of` take the
  per-step refinement of `Map.insert` (C01) and the specification of `dropInnerTable` as
  hypotheses; `last_wins_table` / `roundtrip_table` / `error_midway_ledger` are their instances with
  `insert_refines` (`Hb/Proofs/Refine.lean`), `dropInnerTable_spec` (`Hb/Proofs/ApiBulk.lean`) and
  `withCapacity_spec` (`Hb/Proofs/ApiGrow.lean`), for lawful `Hash`/`Eq`, an allocator that does
  not refuse and destructors that do not panic.
-/
import Hb.Proofs.SerdeSpec
import Hb.Proofs.Refine
import Hb.Proofs.ApiBulk
import Hb.Proofs.ApiGrow
namespace Hb.C20
open Hb

/-! ### 1. the reservation made before the first element is read -/

/-- `cautious` never exceeds 4096; the bucket count it leads to never exceeds 8192 (capacity 7168),
    for every group width, element size and `usize` width; the block is no larger than that of an
    8192-bucket table. -/
theorem reservation_bounded (hint : Option Nat) :
    cautious hint ≤ 4096 ∧
    ∀ (bits W size b : Nat), capacityToBuckets bits W size (cautious hint) = some b →
      b ≤ 8192 ∧ bucketMaskToCapacity (b - 1) ≤ 7168 ∧
      ∀ (ca : Nat) (l : Layout), calculateLayoutFor bits W size ca b = some l →
        l.size ≤ size * 8192 + (ca - 1) + 8192 + W ∧
        ∀ l8, calculateLayoutFor bits W size ca 8192 = some l8 → l.size ≤ l8.size := by
  refine ⟨Serde.cautious_le hint, fun bits W size b h => ?_⟩
  have hb := Serde.reserved_buckets_le bits W size hint b h
  exact ⟨hb, Serde.capacity_le_of_buckets_le b hb, fun ca l hl =>
    ⟨Serde.layout_size_le bits W size ca b l hb hl,
     fun l8 h8 => Serde.layout_size_mono bits W size ca b 8192 l l8 hb hl h8⟩⟩

/-- The bound is attained by every claimed length `≥ 4096` (64-bit `usize`). -/
theorem reservation_tight (W size n : Nat) (hn : 4096 ≤ n) :
    capacityToBuckets 64 W size (cautious (some n)) = some 8192 :=
  Serde.reserved_buckets_max W size n hn

/-- No claimed length, or a claimed length of `0`: nothing is allocated at all. -/
theorem reservation_none (cfg : Cfg) (env : Env) (hint : Option Nat) (w : World)
    (h : hint = none ∨ hint = some 0) :
    withCapacity cfg env (cautious hint) w = .ok { w with t := Raw.new cfg.W } :=
  Serde.withCapacity_cautious_zero cfg env hint w h

/-- In the model's world: `with_capacity(cautious(hint))` either touches nothing, or issues exactly
    one allocator request, for a block of `b ≤ 8192` buckets. -/
theorem reservation_in_world (cfg : Cfg) (env : Env) (hint : Option Nat) (w w0 : World)
    (h : withCapacity cfg env (cautious hint) w = .ok w0) :
    (w0 = { w with t := Raw.new cfg.W }) ∨
    ∃ b l, b ≤ 8192 ∧ capacityToBuckets cfg.bits cfg.W cfg.size (cautious hint) = some b ∧
      calculateLayoutFor cfg.bits cfg.W cfg.size (ctrlAlignOf cfg) b = some l ∧
      w0.log = .alloc l.size l.align :: w.log ∧ w0.ac = w.ac + 1 ∧
      w0.t.mask = b - 1 ∧ w0.t.items = 0 ∧ w0.t.gl = bucketMaskToCapacity (b - 1) ∧
      w0.t.slots = Array.replicate b none :=
  Serde.withCapacity_cautious_spec cfg env hint w w0 h

/-! ### 2. specification level: last value wins, round trip -/

/-- Folding the deterministic `insert` over the tokens is the same as a chain of `AL.Step`s. -/
theorem abstract_feed_is_steps (P : AL.Pred) (toks : List Elem) (l l' : AL) :
    Serde.Steps P l toks l' ↔ l' = Serde.feedAL l toks :=
  Serde.steps_iff_feedAL P toks l l'

/-- After `insert`ing the tokens in order into the empty abstract map, key `k` is present iff some
    token carries it; the key object is that of its FIRST occurrence (hashbrown's `insert` keeps
    the stored key), value object and payload are those of its LAST occurrence. -/
theorem last_wins (toks : List Elem) (k : Nat) :
    AL.find (Serde.feedAL [] toks) k =
      (Serde.firstOcc toks k).map fun f => Serde.upd f (Serde.lastOcc toks k) :=
  Serde.last_wins toks k

/-- … and the result has each key once, and exactly the keys of the input. -/
theorem last_wins_keys (toks : List Elem) :
    AL.keysNodup (Serde.feedAL [] toks) ∧
    ∀ k, k ∈ (Serde.feedAL [] toks).map (·.k) ↔ k ∈ toks.map (·.k) :=
  ⟨Serde.feedAL_nodup toks [] (by simp [AL.keysNodup]), Serde.feedAL_keys toks⟩

/-- Inserting the elements of a key-nodup list (in any order) into the empty abstract map yields a
    permutation of that list. -/
theorem roundtrip_spec (l ser : AL) (hn : l.keysNodup) (hp : ser.Perm l) :
    (Serde.feedAL [] ser).Perm l :=
  Serde.roundtrip_spec l ser hn hp

/-- The same with the fresh object identities a deserialiser creates: the key ↦ payload association
    (what `HashMap`'s `==` compares) is unchanged. -/
theorem roundtrip_spec_fresh_ids (l ser : AL) (isSet : Bool) (base : Nat) (hn : l.keysNodup)
    (hp : ser.Perm l) :
    ((Serde.feedAL [] (Serde.relabel isSet base 0 ser)).map fun e => (e.k, e.v)).Perm
      (l.map fun e => (e.k, e.v)) :=
  Serde.roundtrip_spec_relabel l ser isSet base hn hp

/-! ### 3. table level -/

variable {cfg : Cfg} {env : Env} {H : Nat → Nat}

/-- Bridge with the refinement of `Map.insert` as a hypothesis (`Serde.InsertRefines` is the
    statement of `insert_refines` in conditional form; `Serde.InvOk`: the invariant implies distinct
    keys and holds for fresh tables). -/
theorem last_wins_table_of {I : Raw → Prop} (href : Serde.InsertRefines cfg env I)
    (hok : Serde.InvOk cfg env I) (hint : Option Nat) (toks : List Elem) (w w' : World)
    (h : Serde.visitMapGen cfg env hint toks .never w = .ok (.ok (), w')) :
    I w'.t ∧ w'.t.elems.Perm (Serde.feedAL [] toks) ∧
    ∀ k, AL.find w'.t.elems k =
      (Serde.firstOcc toks k).map fun f => Serde.upd f (Serde.lastOcc toks k) :=
  Serde.visit_last_wins href hok hint toks w w' h

/-- Error part-way, with the refinement of `Map.insert` and the specification of `dropInnerTable`
    as hypotheses. -/
theorem error_midway_ledger_of {I : Raw → Prop} (href : Serde.InsertRefines cfg env I)
    (hdrop : Serde.DropSpec cfg env I) (hok : Serde.InvOk cfg env I) (hint : Option Nat)
    (toks : List Elem) (j : Nat) (w w' : World)
    (h : Serde.visitMap cfg env hint toks (some j) w = .ok (.error (), w')) :
    j ≤ toks.length ∧ w'.t = Raw.new cfg.W ∧
    (Serde.dropsOf w'.log).Perm (dropEvs cfg (toks.take j) ++ Serde.dropsOf w.log) ∧
    ∃ (t1 : Raw) (log1 : List Ev), I t1 ∧ t1.elems.Perm (Serde.feedAL [] (toks.take j)) ∧
      w'.log = (if t1.alloc = true then
          [Ev.free (layoutOf cfg t1.buckets).size (layoutOf cfg t1.buckets).align] else []) ++
        dropEvs cfg t1.elems.reverse ++ log1 :=
  Serde.error_midway_ledger href hdrop hok hint toks j w w' h

/-! #### the hypotheses, discharged -/

theorem insertRefines_RI (hc : CfgOk cfg) (hl : Lawful env H) (halloc : ∀ j, env.allocOk j = true)
    (hnd : ∀ c e, env.dropPanics c e = false) : Serde.InsertRefines cfg env (RI cfg H) := by
  intro e w w' r hw h
  rcases insert_refines hc (growthLawful hc hc.probe) hl halloc hnd e w hw with
    ⟨r2, w2, h2, hri, hm⟩ | ⟨w2, h2, _⟩
  · rw [h] at h2
    simp only [Res.ok.injEq, Prod.mk.injEq] at h2
    obtain ⟨rfl, rfl⟩ := h2
    refine ⟨hri, ?_⟩
    cases hf : AL.find w.t.elems e.k with
    | none => rw [hf] at hm; exact hm
    | some old => rw [hf] at hm; exact hm
  · rw [h] at h2; cases h2

theorem dropSpec_RI (hc : CfgOk cfg) : Serde.DropSpec cfg env (RI cfg H) := by
  intro old w w' hI h
  have := dropInnerTable_spec hc env old w ⟨hI.1.toInv, hI.2⟩
  rw [h] at this
  exact ⟨this.1, this.2.1⟩

theorem invOk_RI (hc : CfgOk cfg) : Serde.InvOk cfg env (RI cfg H) := by
  refine ⟨fun t h => elems_keysNodup h.1, fun n w w0 h => ?_⟩
  have := withCapacity_spec hc env n w
  rw [h] at this
  exact ⟨invL_of_empty H this.1.1 this.2.2.2.1, this.1.2⟩

/-- **Last wins in the table model** (lawful `Hash`/`Eq` with hash function `H`, allocator never
    refuses, destructors never panic): if `visit_map`/`visit_seq` returns, the deserialised table
    satisfies the refinement invariant and looking up `k` yields the first key object and the last
    value of `k` in the input. -/
theorem last_wins_table (hc : CfgOk cfg) (hl : Lawful env H) (halloc : ∀ j, env.allocOk j = true)
    (hnd : ∀ c e, env.dropPanics c e = false) (hint : Option Nat) (toks : List Elem) (w w' : World)
    (h : Serde.visitMapGen cfg env hint toks .never w = .ok (.ok (), w')) :
    RI cfg H w'.t ∧ w'.t.elems.Perm (Serde.feedAL [] toks) ∧
    ∀ k, AL.find w'.t.elems k =
      (Serde.firstOcc toks k).map fun f => Serde.upd f (Serde.lastOcc toks k) :=
  last_wins_table_of (insertRefines_RI hc hl halloc hnd) (invOk_RI hc) hint toks w w' h

/-- **Round trip in the table model**: serialise a table `old` (refinement invariant), deserialise
    the tokens — whatever length is claimed, whatever identities the new objects get — and the
    result holds the same key ↦ payload association. -/
theorem roundtrip_table (hc : CfgOk cfg) (hl : Lawful env H) (halloc : ∀ j, env.allocOk j = true)
    (hnd : ∀ c e, env.dropPanics c e = false) (old : Raw) (hold : RI cfg H old)
    (ser : List Elem) (hs : Serde.serialize cfg old = .ok ser)
    (isSet : Bool) (base : Nat) (hint : Option Nat) (w w' : World)
    (h : Serde.visitMapGen cfg env hint (Serde.relabel isSet base 0 ser) .never w = .ok (.ok (), w')) :
    RI cfg H w'.t ∧
    (w'.t.elems.map fun e => (e.k, e.v)).Perm (old.elems.map fun e => (e.k, e.v)) := by
  have hser := Serde.serialize_eq_elems hc hold.1.toInv ser hs
  obtain ⟨hi, hp, _⟩ := last_wins_table hc hl halloc hnd hint _ w w' h
  refine ⟨hi, (hp.map _).trans ?_⟩
  rw [hser]
  exact Serde.roundtrip_spec_relabel old.elems old.elems isSet base (elems_keysNodup hold.1)
    (List.Perm.refl _)

/-- **Error part-way in the table model.** `visit_map` whose input fails at `next_key` call `j` and
    which returns that error: the `j` entries before the failure were built; the world's table is
    `NEW` again; the destructor events added are — as a multiset — one `dropV` and one `dropK` per
    built entry (none leaked, none dropped twice); and the log ends with the tear-down of the
    partially built table `t1` (its elements dropped, its block freed iff it has one). -/
theorem error_midway_ledger (hc : CfgOk cfg) (hl : Lawful env H)
    (halloc : ∀ j, env.allocOk j = true) (hnd : ∀ c e, env.dropPanics c e = false)
    (hint : Option Nat) (toks : List Elem) (j : Nat) (w w' : World)
    (h : Serde.visitMap cfg env hint toks (some j) w = .ok (.error (), w')) :
    j ≤ toks.length ∧ w'.t = Raw.new cfg.W ∧
    (Serde.dropsOf w'.log).Perm (dropEvs cfg (toks.take j) ++ Serde.dropsOf w.log) ∧
    ∃ (t1 : Raw) (log1 : List Ev), RI cfg H t1 ∧ t1.elems.Perm (Serde.feedAL [] (toks.take j)) ∧
      w'.log = (if t1.alloc = true then
          [Ev.free (layoutOf cfg t1.buckets).size (layoutOf cfg t1.buckets).align] else []) ++
        dropEvs cfg t1.elems.reverse ++ log1 :=
  error_midway_ledger_of (insertRefines_RI hc hl halloc hnd) (dropSpec_RI hc) (invOk_RI hc)
    hint toks j w w' h

/-- **Error at a value in the table model**: the input fails at `next_value` of entry `j`, i.e.
    after the key object of that entry was built. The entries before `j` and that key are each
    dropped exactly once (`Serde.kOf cfg kid` = `[dropK kid]` for types with drop glue). -/
theorem error_at_value_ledger (hc : CfgOk cfg) (hl : Lawful env H)
    (halloc : ∀ j, env.allocOk j = true) (hnd : ∀ c e, env.dropPanics c e = false)
    (hint : Option Nat) (toks : List Elem) (j : Nat) (w w' : World)
    (h : Serde.visitMapGen cfg env hint toks (.atVal j) w = .ok (.error (), w')) :
    ∃ e, toks[j]? = some e ∧ w'.t = Raw.new cfg.W ∧
    (Serde.dropsOf w'.log).Perm
      (Serde.kOf cfg e.kid ++ (dropEvs cfg (toks.take j) ++ Serde.dropsOf w.log)) :=
  Serde.error_at_value_ledger (insertRefines_RI hc hl halloc hnd) (dropSpec_RI hc) (invOk_RI hc)
    hint toks j w w' h

/-- What `clear(); reserve(cautious(hint))` of `deserialize_in_place` leaves behind. -/
theorem in_place_prologue (hc : CfgOk cfg) (hl : Lawful env H) (halloc : ∀ j, env.allocOk j = true)
    (hint : Option Nat) (w w0 w1 : World) (hw : RI cfg H w.t)
    (h0 : clear cfg env w = .ok w0) (h1 : Hb.reserve cfg env (cautious hint) w0 = .ok w1) :
    RI cfg H w1.t ∧ w1.t.elems = [] ∧
    Serde.dropsOf w1.log = dropEvs cfg w.t.elems.reverse ++ Serde.dropsOf w.log := by
  have hcl := clear_spec hc env w ⟨hw.1.toInv, hw.2⟩
  rw [h0] at hcl
  obtain ⟨hpost, hdr⟩ := hcl
  have hri0 : RI cfg H w0.t := ⟨invL_of_empty H hpost.1.1 hpost.2.2.1, hpost.1.2⟩
  rcases reserve_RI hc (growthLawful hc hc.probe) hl halloc (cautious hint) w0 hri0 with
    ⟨w1', hr, hri1, hp, _, hd⟩ | hr
  · rw [h1] at hr
    simp only [Res.ok.injEq] at hr
    subst hr
    rw [hpost.2.2.1] at hp
    refine ⟨hri1, List.Perm.eq_nil hp, ?_⟩
    have hd' : Serde.dropsOf w1.log = Serde.dropsOf w0.log := hd
    rw [hd', hdr.log, Serde.dropsOf_append, Serde.dropsOf_dropEvs]
  · rw [h1] at hr; cases hr

/-- **`HashSet::deserialize_in_place` in the table model.** Without an input error the place ends up
    holding exactly the (last-wins) contents of the input; with an error at `next_element` call `j`
    the error is returned and the place holds the `j` elements read so far. In both cases every
    object ever held or built is accounted for: still in the place, or dropped exactly once. -/
theorem deserialize_in_place_table (hc : CfgOk cfg) (hl : Lawful env H)
    (halloc : ∀ j, env.allocOk j = true) (hnd : ∀ c e, env.dropPanics c e = false)
    (hint : Option Nat) (toks : List Elem) (w w' : World) (hw : RI cfg H w.t) :
    (∀ x, Serde.deserializeInPlace cfg env hint toks .never w = .ok (x, w') →
      x = .ok () ∧ RI cfg H w'.t ∧ w'.t.elems.Perm (Serde.feedAL [] toks)) ∧
    (∀ j, Serde.deserializeInPlace cfg env hint toks (.atKey j) w = .ok (.error (), w') →
      j ≤ toks.length ∧ RI cfg H w'.t ∧ w'.t.elems.Perm (Serde.feedAL [] (toks.take j)) ∧
      (Serde.dropsOf w'.log ++ dropEvs cfg w'.t.elems).Perm
        (dropEvs cfg (toks.take j) ++ (dropEvs cfg w.t.elems.reverse ++ Serde.dropsOf w.log))) := by
  have href := insertRefines_RI hc hl halloc hnd
  have hok : Serde.InvOk cfg env (RI cfg H) := invOk_RI hc
  constructor
  · intro x h
    unfold Serde.deserializeInPlace at h
    cases h0 : clear cfg env w with
    | ok w0 =>
      rw [h0] at h
      simp only at h
      cases h1 : Hb.reserve cfg env (cautious hint) w0 with
      | ok w1 =>
        rw [h1] at h
        simp only at h
        obtain ⟨hri, hel, _⟩ := in_place_prologue hc hl halloc hint w w0 w1 hw h0 h1
        have := Serde.feed_never href hok toks 0 w1 w' x hri h
        rw [hel] at this
        exact this
      | panic c w2 => rw [h1] at h; cases h
      | abort => rw [h1] at h; cases h
      | fault f => rw [h1] at h; cases h
    | panic c w2 => rw [h0] at h; cases h
    | abort => rw [h0] at h; cases h
    | fault f => rw [h0] at h; cases h
  · intro j h
    unfold Serde.deserializeInPlace at h
    cases h0 : clear cfg env w with
    | ok w0 =>
      rw [h0] at h
      simp only at h
      cases h1 : Hb.reserve cfg env (cautious hint) w0 with
      | ok w1 =>
        rw [h1] at h
        simp only at h
        obtain ⟨hri, hel, hdr⟩ := in_place_prologue hc hl halloc hint w w0 w1 hw h0 h1
        have hl0 : (Serde.ledgerOf cfg w1).Perm
            (dropEvs cfg [] ++ (dropEvs cfg w.t.elems.reverse ++ Serde.dropsOf w.log)) := by
          unfold Serde.ledgerOf
          rw [hel, hdr, dropEvs_nil]
          simp
        obtain ⟨hi, hlen, hled, hp⟩ :=
          Serde.feed_error_ledger href hok j _ toks 0 w1 w' [] (Nat.zero_le _) hri hl0 h
        simp only [Nat.sub_zero, List.nil_append] at hlen hled hp
        rw [hel] at hp
        exact ⟨hlen, hi, hp, hled⟩
      | panic c w2 => rw [h1] at h; cases h
      | abort => rw [h1] at h; cases h
      | fault f => rw [h1] at h; cases h
    | panic c w2 => rw [h0] at h; cases h
    | abort => rw [h0] at h; cases h
    | fault f => rw [h0] at h; cases h

/-! ### 4. non-vacuity: the model on concrete inputs -/

def c20Env : Env :=
  { hash := fun _ k => some (k * 0x9E3779B97F4A7C15 % 2 ^ 64)
    eq := fun _ q e => some (q == e.k)
    clone := fun _ _ => none
    pred := fun _ _ => none
    allocOk := fun _ => true
    dropPanics := fun _ _ => false }

def c20Cfg : Cfg := { ops := Sse2.ops, size := 32 }
def c20Cfg8 : Cfg := { ops := Generic.ops, size := 32 }
def c20W : World := { t := Raw.new 16 }

/-- key 1 twice (values 100 then 300), key 2 once -/
def c20Toks : List Elem := [⟨1, 10, 11, 100⟩, ⟨2, 12, 13, 200⟩, ⟨1, 14, 15, 300⟩]

/-- The hypotheses of §3 are satisfiable: `c20Env` is lawful, never refuses, never panics. -/
example : Lawful c20Env (fun k => k * 0x9E3779B97F4A7C15 % 2 ^ 64) := ⟨fun _ _ => rfl, fun _ _ _ => rfl⟩

/-- Last wins on the model itself (SSE2 scanner): key 1 keeps key object 10 (first occurrence) and
    gets value object 15 / payload 300 (last occurrence); the replaced value 11 and the spare key 14
    are dropped; one allocation, sized for the claimed 3 elements. -/
example :
    (match Serde.visitMap c20Cfg c20Env (some 3) c20Toks none c20W with
     | .ok (.ok (), w) =>
       w.t.elems == [⟨1, 10, 15, 300⟩, ⟨2, 12, 13, 200⟩] &&
       w.log == [.dropV 11, .dropK 14, .alloc 148 16]
     | _ => false) = true := by decide +kernel

/-- Error at `next_key` call 2: entries 0 and 1 were built, each is dropped exactly once, the block
    is freed, the world's table is the static singleton again. -/
example :
    (match Serde.visitMap c20Cfg c20Env (some 3) c20Toks (some 2) c20W with
     | .ok (.error (), w) =>
       w.t.mask == 0 && !w.t.alloc &&
       w.log == [.free 148 16, .dropV 13, .dropK 12, .dropV 11, .dropK 10, .alloc 148 16]
     | _ => false) = true := by decide +kernel

/-- Portable scanner, no claimed length, error instead of the end marker: all three entries were
    built; six objects, six drops. -/
example :
    (match Serde.visitMap c20Cfg8 c20Env none c20Toks (some 3) { t := Raw.new 8 } with
     | .ok (.error (), w) =>
       w.log == [.free 140 8, .dropV 13, .dropK 12, .dropV 15, .dropK 10, .dropV 11, .dropK 14,
                 .alloc 140 8]
     | _ => false) = true := by decide +kernel

/-- Error at the *value* of entry 2: its key object (14) had been built and is dropped by serde. -/
example :
    (match Serde.visitMapGen c20Cfg c20Env (some 3) c20Toks (.atVal 2) c20W with
     | .ok (.error (), w) =>
       w.log == [.free 148 16, .dropV 13, .dropK 12, .dropV 11, .dropK 10, .dropK 14, .alloc 148 16]
     | _ => false) = true := by decide +kernel

/-- A claimed length of `usize::MAX`: 8192 buckets, capacity 7168, one block of 270352 bytes
    (32-byte elements, 16-byte groups) — and nothing for a claimed length of 0. -/
example :
    (match withCapacity c20Cfg c20Env (cautious (some (2 ^ 64 - 1))) c20W with
     | .ok w => w.t.mask == 8191 && w.t.capacity == 7168 && w.log == [.alloc 270352 16]
     | _ => false) = true := by decide +kernel
example :
    (match withCapacity c20Cfg c20Env (cautious (some 0)) c20W with
     | .ok w => w.t.mask == 0 && w.log == []
     | _ => false) = true := by decide +kernel

/-- Specification level: first key object, last value. -/
example : AL.find (Serde.feedAL [] c20Toks) 1 = some ⟨1, 10, 15, 300⟩ := by decide
example : AL.find (Serde.feedAL [] c20Toks) 3 = none := by decide

#print axioms reservation_bounded
#print axioms reservation_tight
#print axioms reservation_none
#print axioms reservation_in_world
#print axioms abstract_feed_is_steps
#print axioms last_wins
#print axioms last_wins_keys
#print axioms roundtrip_spec
#print axioms roundtrip_spec_fresh_ids
#print axioms last_wins_table_of
#print axioms error_midway_ledger_of
#print axioms insertRefines_RI
#print axioms dropSpec_RI
#print axioms invOk_RI
#print axioms last_wins_table
#print axioms roundtrip_table
#print axioms error_midway_ledger
#print axioms error_at_value_ledger
#print axioms in_place_prologue
#print axioms deserialize_in_place_table
end Hb.C20
