/-
C14 (+ C04) — a raw entry filled with ANOTHER key than the one it was looked up with.

`RawVacantEntryMut::insert(key, value)` and `RawEntryMut::or_insert(key, value)` (raw_entry.rs) take
the key that is STORED; it need not be the key the entry was looked up with. Model:
`Map.rawEntryOther cfg env mode ph kLook orIns e w` (`Hb/Model/RawOther.lean`) =
`raw_entry_mut().from_*(kLook)` (builder `mode`, caller-supplied hash `ph`), then
`Vacant(v) => v.insert(K(e.k, e.kid), V(e.vid, e.v))` (`orIns = false`) or
`.or_insert(K(e.k, e.kid), V(e.vid, e.v))` (`orIns = true`). Result `((occupied?, out), w')`.

Thin restatements of `Hb/Proofs/RawOtherSpec.lean`.

* Functional theorems (a), (b): lawful environment `Lawful env H` (`Hash` is the function `H`, `Eq` is
  key equality), table invariant `RI cfg H w.t` (= `InvL` + own layout computable) — any load,
  tombstones, the unallocated singleton. Abstract contents `w.t.elems : AL` up to `List.Perm`,
  `AL.find` = `get` (as in `Hb/Props/C14.lean`). NO hypothesis relates the caller-supplied look-up
  hash `ph` to `kLook`, and none relates `kLook` to `e.k`: the statements are conditional on the
  observed outcome (`.ok ((false, _), _)` = Vacant-and-filled, `.ok ((true, _), _)` = Occupied).
  `rawEntryOther_total` is the unconditional form (with the documented `…hash…` contract for `kLook`).
* The hypothesis `AL.find w.t.elems e.k = none` of (a) is the caller's obligation of the raw API
  (the raw entry does not check that the stored key is absent — it was looked up with `kLook`).
* Ledger / panic theorems (c): EVERY environment (any `Hash`/`Eq`/`Drop` may panic at any call number,
  the allocator may refuse), `TInv cfg w.t`, any builder and hash.
  The fallback statement "on every `.panic` outcome the table equals the table before" is FALSE for
  arbitrary environments: `panic_may_change_table` (a hasher panic inside the in-place rehash of
  `RawTable::insert`'s `reserve(1)`: the unwind guard drops the pending elements). What holds:
  `rawEntryOther_every_outcome` (exact classification), `rawEntryOther_ledger` (every object stored
  or dropped exactly once, for every outcome), `rawEntryOther_panic_table_unchanged_partial` (table
  literally unchanged — ADDED hypotheses: lawful hasher, never-refusing allocator, `RI`),
  `lookup_hasher_panics` / `stored_key_hasher_panics` (the two hasher panics named in the task: the
  caller's objects are dropped quietly, table untouched — every environment).
* Vocabulary: logs newest first; `keyDropEv cfg kid` = `[dropK kid]`, `valDropEv cfg vid` =
  `[dropV vid]`, `dropEvs cfg [x]` = `[dropV x.vid, dropK x.kid]` (all `[]` for element types without
  drop glue); `dropsOf` = the destructor events of a log.
-/
import Hb.Proofs.RawOtherSpec
namespace Hb.C14
open Hb

variable {cfg : Cfg}

/-! ### (a) Vacant look-up, filled with another key: filed under the hash of the STORED key -/

/-- If the look-up of `kLook` was Vacant, the entry was filled with `e` (`.ok ((false, out), w')`) and
    `e.k` was absent before, then: `out` is the stored pair; the lawful invariant `RI` holds again —
    in particular `e` is reachable from the hash of ITS OWN key `H e.k`, not from the look-up hash;
    the contents are the old contents plus `e`; `len()` grew by one; nothing was dropped;
    `e.k ↦ e` in the abstract map and every other key is mapped as before; `get(&e.k)` on `w'`
    returns `e` (table and log untouched by the `get`); every raw look-up of `e.k` (with the right
    hash) reports Occupied with a bucket holding `e`. -/
theorem rawEntryOther_vacant_reachable (hc : CfgOk cfg) {env : Env} {H : Nat → Nat}
    (hl : Lawful env H) (halloc : ∀ j, env.allocOk j = true) (mode : Map.RawMode) (ph kLook : Nat)
    (orIns : Bool) (e : Elem) (w : World) (h : RI cfg H w.t)
    (habs : AL.find w.t.elems e.k = none) {out : Map.EOut} {w' : World}
    (hr : Map.rawEntryOther cfg env mode ph kLook orIns e w = .ok ((false, out), w')) :
    out = Map.EOut.elem e ∧ RI cfg H w'.t ∧ List.Perm w'.t.elems (e :: w.t.elems) ∧
      w'.t.items = w.t.items + 1 ∧ dropsOf w'.log = dropsOf w.log ∧
      AL.find w'.t.elems e.k = some e ∧
      (∀ k, k ≠ e.k → AL.find w'.t.elems k = AL.find w.t.elems k) ∧
      (∃ w'', Map.get cfg env e.k w' = .ok (some e, w'') ∧ w''.t = w'.t ∧ w''.log = w'.log) ∧
      (∀ (mode' : Map.RawMode) (ph' : Nat), mode' = .fromKey ∨ ph' = H e.k →
        ∃ idx w'', Map.rawLook cfg env mode' ph' e.k w' = .ok (some idx, w'') ∧ w''.t = w'.t ∧
          w'.t.slots[idx]?.join = some e) :=
  Hb.rawEntryOther_vacant_spec hc hl halloc mode ph kLook orIns e w h habs hr

/-! ### (b) Occupied look-up: nothing is stored -/

/-- If the look-up hits (`.ok ((true, out), w')`), the table is literally unchanged, the caller's
    value and key objects were dropped (in that order: log newest first), and `or_insert` hands back
    `old`, the element of the hit bucket = the element stored under `kLook`; the plain
    `Vacant(v) => v.insert(..)` arm yields nothing. -/
theorem rawEntryOther_occupied_unchanged (hc : CfgOk cfg) {env : Env} {H : Nat → Nat}
    (hl : Lawful env H) (mode : Map.RawMode) (ph kLook : Nat) (orIns : Bool) (e : Elem) (w : World)
    (h : RI cfg H w.t) {out : Map.EOut} {w' : World}
    (hr : Map.rawEntryOther cfg env mode ph kLook orIns e w = .ok ((true, out), w')) :
    w'.t = w.t ∧ w'.log = keyDropEv cfg e.kid ++ valDropEv cfg e.vid ++ w.log ∧
      ∃ (idx : Nat) (old : Elem), w.t.slots[idx]?.join = some old ∧ old.k = kLook ∧
        AL.find w.t.elems kLook = some old ∧
        out = if orIns then Map.EOut.elem old else Map.EOut.none :=
  Hb.rawEntryOther_occupied_spec hc hl mode ph kLook orIns e w h hr

/-- The same for EVERY environment (structural invariant only): `old` is an element the user's `Eq`
    answered `true` for. -/
theorem rawEntryOther_occupied_unchanged_any_env (hc : CfgOk cfg) (env : Env) (mode : Map.RawMode)
    (ph kLook : Nat) (orIns : Bool) (e : Elem) (w : World) (h : TInv cfg w.t) {out : Map.EOut}
    {w' : World} (hr : Map.rawEntryOther cfg env mode ph kLook orIns e w = .ok ((true, out), w')) :
    w'.t = w.t ∧ w'.log = keyDropEv cfg e.kid ++ valDropEv cfg e.vid ++ w.log ∧
      ∃ (idx : Nat) (old : Elem), w.t.slots[idx]?.join = some old ∧
        (∃ cn, env.eq cn kLook old = some true) ∧
        out = if orIns then Map.EOut.elem old else Map.EOut.none :=
  Hb.rawEntryOther_occupied_any_env hc env mode ph kLook orIns e w h hr

/-- Unconditional form, in the style of `rawEntry_chain_spec`: with the documented contract of the
    `…hash…` builders for the look-up key and non-panicking destructors, Occupied ⇔ `kLook` present;
    on the Vacant side (stored key absent) the only outcome other than the insertion is the
    `"capacity"` panic of `reserve(1)` (table untouched, the pair dropped by the unwinding). -/
theorem rawEntryOther_total (hc : CfgOk cfg) {env : Env} {H : Nat → Nat} (hl : Lawful env H)
    (halloc : ∀ j, env.allocOk j = true) (hnd : ∀ c e, env.dropPanics c e = false)
    (mode : Map.RawMode) (ph kLook : Nat) (orIns : Bool) (e : Elem)
    (hph : mode = .fromKey ∨ ph = H kLook) (w : World) (h : RI cfg H w.t) :
    match AL.find w.t.elems kLook with
    | some old =>
      ∃ w', Map.rawEntryOther cfg env mode ph kLook orIns e w =
          .ok ((true, if orIns then Map.EOut.elem old else Map.EOut.none), w') ∧ w'.t = w.t ∧
        w'.log = keyDropEv cfg e.kid ++ valDropEv cfg e.vid ++ w.log
    | none =>
      AL.find w.t.elems e.k = none →
      (∃ w', Map.rawEntryOther cfg env mode ph kLook orIns e w = .ok ((false, .elem e), w') ∧
        RI cfg H w'.t ∧ List.Perm w'.t.elems (e :: w.t.elems) ∧ w'.t.items = w.t.items + 1 ∧
        dropsOf w'.log = dropsOf w.log ∧ AL.find w'.t.elems e.k = some e) ∨
      (∃ w', Map.rawEntryOther cfg env mode ph kLook orIns e w = .panic "capacity" w' ∧
        w'.t = w.t ∧ w'.log = dropEvs cfg [e] ++ w.log) :=
  Hb.rawEntryOther_spec hc hl halloc hnd mode ph kLook orIns e hph w h

/-! ### (c) ownership: every object is stored or dropped exactly once; panic paths -/

/-- **Every outcome, every environment, any caller-supplied hash.** Never a fault.
    `.ok` Occupied / Vacant as in (a), (b) (Vacant: the result of `RawTable::insert(hv, e, hasher)` with
    `hv` what `Hash` answered for the STORED key, run on the table and log of `w`).
    `.panic`: (1) `"eq"` / `"hash"` from the look-up (`"hash"` only with `from_key`) or `"drop"` from the
    caller's key object dropped unused on the occupied path — table literally unchanged, the caller's
    value and key objects logged once each; (2) `"hash"` from hashing the stored key — table
    unchanged, the pair `e` dropped quietly; (3) otherwise the panic came out of `reserve(1)` inside
    `RawTable::insert`, and `e` was dropped on top of what `reserve` left behind. -/
theorem rawEntryOther_every_outcome (hc : CfgOk cfg) (env : Env) (mode : Map.RawMode)
    (ph kLook : Nat) (orIns : Bool) (e : Elem) (w : World) (h : TInv cfg w.t) :
    match Map.rawEntryOther cfg env mode ph kLook orIns e w with
    | .ok ((b, out), w') =>
      (b = true ∧ w'.t = w.t ∧ w'.log = keyDropEv cfg e.kid ++ valDropEv cfg e.vid ++ w.log ∧
        ∃ (idx : Nat) (old : Elem), w.t.slots[idx]?.join = some old ∧
          (∃ cn, env.eq cn kLook old = some true) ∧
          out = if orIns then Map.EOut.elem old else Map.EOut.none) ∨
      (b = false ∧ out = Map.EOut.elem e ∧ ∃ (hv idx : Nat) (w1 : World),
        (∃ cn, env.hash cn e.k = some hv) ∧ w1.t = w.t ∧ w1.log = w.log ∧
        rawInsert cfg env hv e w1 = .ok (idx, w'))
    | .panic c w' =>
      ((c = "eq" ∨ (c = "hash" ∧ mode = .fromKey) ∨ c = "drop") ∧ w'.t = w.t ∧
        w'.log = keyDropEv cfg e.kid ++ valDropEv cfg e.vid ++ w.log) ∨
      (c = "hash" ∧ w'.t = w.t ∧ w'.log = dropEvs cfg [e] ++ w.log) ∨
      (∃ (hv : Nat) (w1 w2 : World), (∃ cn, env.hash cn e.k = some hv) ∧ w1.t = w.t ∧
        w1.log = w.log ∧ reserve cfg env 1 w1 = .panic c w2 ∧ w'.t = w2.t ∧
        w'.log = dropEvs cfg [e] ++ w2.log)
    | .abort => True
    | .fault _ => False :=
  Hb.rawEntryOther_outcomes hc env mode ph kLook orIns e w h

/-- **Ownership ledger** (element types with drop glue, every environment, any hash).
    Return (Occupied or Vacant): `lx_Eff cfg w w' [e.kid] [] [e.vid] []` — spelled out by
    `rawEntryOther_ledger_unfolded` — the caller's key and value object entered the accounting,
    nothing left it by value, and every object (stored before or entered) is afterwards stored or
    logged as dropped, exactly once; the allocator invariant is kept.
    Unwinding — look-up `Hash` / `Eq`, the hashing of the stored key, the caller's key destructor,
    `reserve(1)` incl. a hasher panic inside an in-place rehash — `ro_PanicLedger cfg e w w'`: the same
    multiset equation (nothing lost, nothing dropped twice, nothing both stored and dropped), allocator
    frame kept. Never a fault. -/
theorem rawEntryOther_ledger (hc : CfgOk cfg) (hnd : cfg.needsDrop = true) (env : Env)
    (mode : Map.RawMode) (ph kLook : Nat) (orIns : Bool) (e : Elem) (w : World) (h : TInv cfg w.t) :
    match Map.rawEntryOther cfg env mode ph kLook orIns e w with
    | .ok (_, w') => lx_Eff cfg w w' [e.kid] [] [e.vid] []
    | .panic _ w' => ro_PanicLedger cfg e w w'
    | .abort => True
    | .fault _ => False :=
  Hb.rawEntryOther_ledger hc hnd env mode ph kLook orIns e w h

/-- The two ledger predicates, spelled out. -/
theorem rawEntryOther_ledger_unfolded (e : Elem) (w w' : World) :
    (lx_Eff cfg w w' [e.kid] [] [e.vid] [] ↔
      ∃ new, w'.log = new ++ w.log ∧
        List.Perm (kidsOf w'.t.elems ++ droppedK new ++ []) (kidsOf w.t.elems ++ [e.kid]) ∧
        List.Perm (vidsOf w'.t.elems ++ droppedV new ++ []) (vidsOf w.t.elems ++ [e.vid]) ∧
        (hs_AllocInv cfg w → hs_AllocInv cfg w')) ∧
    (ro_PanicLedger cfg e w w' ↔
      ∃ new, w'.log = new ++ w.log ∧
        List.Perm (kidsOf w'.t.elems ++ droppedK new) (kidsOf w.t.elems ++ [e.kid]) ∧
        List.Perm (vidsOf w'.t.elems ++ droppedV new) (vidsOf w.t.elems ++ [e.vid]) ∧
        (∀ L, hs_AllocInvL cfg w L → hs_AllocInvL cfg w' L)) := ⟨Iff.rfl, Iff.rfl⟩

/-- No double drop when the call unwinds: with pairwise distinct identities (stored ones plus the
    caller's), the objects dropped by the call are pairwise distinct, none of them is still stored,
    and the stored identities are still pairwise distinct. -/
theorem rawEntryOther_unwind_no_double_drop (hc : CfgOk cfg) (hnd : cfg.needsDrop = true) (env : Env)
    (mode : Map.RawMode) (ph kLook : Nat) (orIns : Bool) (e : Elem) (w : World) (h : TInv cfg w.t)
    (hK : (kidsOf w.t.elems ++ [e.kid]).Nodup) (hV : (vidsOf w.t.elems ++ [e.vid]).Nodup)
    {c : String} {w' : World}
    (hr : Map.rawEntryOther cfg env mode ph kLook orIns e w = .panic c w') :
    ep_NoDoubleDrop w w' := by
  have hs := Hb.rawEntryOther_ledger hc hnd env mode ph kLook orIns e w h
  rw [hr] at hs
  exact hs.noDoubleDrop hK hV

/-- Robustness: never a fault, the structural invariant holds after return and after unwinding
    (every environment; `GuardRuns`: the unwind guard of `rehash_in_place` runs). -/
theorem rawEntryOther_no_fault (hc : CfgOk cfg) (hg : GuardRuns cfg) (env : Env) (mode : Map.RawMode)
    (ph kLook : Nat) (orIns : Bool) (e : Elem) (w : World) (h : TInv cfg w.t) :
    match Map.rawEntryOther cfg env mode ph kLook orIns e w with
    | .ok (_, w') => TInv cfg w'.t
    | .panic _ w' => TInv cfg w'.t
    | .abort => True
    | .fault _ => False :=
  Hb.rawEntryOther_safe hc hg env mode ph kLook orIns e w h

/-- `from_key(&kLook)` whose `Hash` panics on the look-up key (every environment, no invariant
    needed): unwinding drops the caller's value and key objects, the table is untouched. -/
theorem lookup_hasher_panics (env : Env) (ph kLook : Nat) (orIns : Bool) (e : Elem) (w : World)
    (hh : env.hash w.hc kLook = none) :
    ∃ w', Map.rawEntryOther cfg env .fromKey ph kLook orIns e w = .panic "hash" w' ∧ w'.t = w.t ∧
      w'.log = keyDropEv cfg e.kid ++ valDropEv cfg e.vid ++ w.log :=
  Hb.rawEntryOther_lookup_hash_panics env ph kLook orIns e w hh

/-- Vacant look-up, then `Hash` panics on the STORED key (`make_hash(hash_builder, &key)` inside
    `insert`; every environment): the pair `e` is dropped quietly, the table is untouched. -/
theorem stored_key_hasher_panics (hc : CfgOk cfg) (env : Env) (mode : Map.RawMode) (ph kLook : Nat)
    (orIns : Bool) (e : Elem) (w : World) (h : TInv cfg w.t) {w1 : World}
    (hlk : Map.rawLook cfg env mode ph kLook w = .ok (none, w1))
    (hh : env.hash w1.hc e.k = none) :
    ∃ w', Map.rawEntryOther cfg env mode ph kLook orIns e w = .panic "hash" w' ∧ w'.t = w.t ∧
      w'.log = dropEvs cfg [e] ++ w.log :=
  Hb.rawEntryOther_stored_hash_panics hc env mode ph kLook orIns e w h.1 hlk hh

/- FULL STATEMENT of the fallback of (c), which is FALSE (counterexample: `panic_may_change_table`):
     theorem rawEntryOther_panic_table_unchanged (hc : CfgOk cfg) (env : Env) … (h : TInv cfg w.t)
         (hr : Map.rawEntryOther cfg env mode ph kLook orIns e w = .panic c w') : w'.t = w.t
   `_partial` below ADDS: `Lawful env H`, `∀ j, env.allocOk j = true`, `RI cfg H w.t` instead of `TInv`.
   (For arbitrary environments `rawEntryOther_every_outcome` says exactly when the table is unchanged:
   always, except when the panic comes out of `reserve(1)`.) -/

/-- Lawful hasher, never-refusing allocator: on EVERY `.panic` outcome the table equals the table
    before, and the caller's two objects were dropped exactly once each. -/
theorem rawEntryOther_panic_table_unchanged_partial (hc : CfgOk cfg) {env : Env} {H : Nat → Nat}
    (hl : Lawful env H) (halloc : ∀ j, env.allocOk j = true) (mode : Map.RawMode) (ph kLook : Nat)
    (orIns : Bool) (e : Elem) (w : World) (h : RI cfg H w.t) {c : String} {w' : World}
    (hr : Map.rawEntryOther cfg env mode ph kLook orIns e w = .panic c w') :
    w'.t = w.t ∧ (w'.log = dropEvs cfg [e] ++ w.log ∨
      w'.log = keyDropEv cfg e.kid ++ valDropEv cfg e.vid ++ w.log) :=
  Hb.rawEntryOther_panic_lawful hc hl halloc mode ph kLook orIns e w h hr

/-- COUNTEREXAMPLE to the unrestricted "`.panic` ⇒ table unchanged": tombstone-saturated `f1Table`
    (16 buckets, keys 0..5, `growth_left = 0`), drop glue; the vacant entry (look-up key 14 through
    `from_hash`) is filled with key 14 whose insert slot is EMPTY, so `RawTable::insert` runs
    `reserve(1)` = rehash in place; `Hash` panics at its call number 2: the unwind guard drops the 5
    pending elements, then `e` is dropped. One element is left; the table is valid but NOT the table
    before. -/
theorem panic_may_change_table :
    (match Map.rawEntryOther enCfg (roPanicEnv 2) .fromHash 14 14 false ⟨14, 114, 214, 1400⟩
        { t := f1Table } with
     | .panic c w' =>
       c == "hash" && w'.t.items == 1 && w'.t.elems.length == 1 && invB enCfg w'.t &&
         w'.t.slots != f1Table.slots &&
         w'.log == [Ev.dropV 214, Ev.dropK 114, Ev.dropV 5, Ev.dropK 5, Ev.dropV 4, Ev.dropK 4,
           Ev.dropV 3, Ev.dropK 3, Ev.dropV 2, Ev.dropK 2, Ev.dropV 1, Ev.dropK 1]
     | _ => false) = true := Hb.rawEntryOther_panic_changes_table_example

/-! ### (d) non-vacuity -/

/-- The hypotheses of (a) are satisfiable with `kLook ≠ e.k`: `enTable` (full 4-bucket table, keys
    1, 2, 3, `growth_left = 0`) satisfies the executable invariant, `glEnv` is lawful for `H k = k`,
    key 6 is absent; `from_key(&5)` is Vacant and is filled with key 6: 4 elements, 8 buckets, the
    lawful invariant holds, nothing dropped, `get(&6)` finds the pair and `get(&5)` finds nothing. The
    same through `from_hash` with an arbitrary look-up hash and `or_insert`. -/
theorem rawEntryOther_vacant_other_key_example :
    invLB enCfg (fun k => k) enTable = true ∧ Lawful glEnv (fun k => k) ∧
    AL.find enTable.elems 6 = none ∧ (5 : Nat) ≠ (⟨6, 16, 26, 600⟩ : Elem).k ∧
    (match Map.rawEntryOther enCfg glEnv .fromKey 0 5 false ⟨6, 16, 26, 600⟩ { t := enTable } with
     | .ok ((b, .elem e), w') =>
       !b && e == ⟨6, 16, 26, 600⟩ && w'.t.items == 4 && w'.t.buckets == 8 &&
         invLB enCfg (fun k => k) w'.t && dropsOf w'.log == [] &&
         (match Map.get enCfg glEnv 6 w' with
          | .ok (some x, _) => x == ⟨6, 16, 26, 600⟩
          | _ => false) &&
         (match Map.get enCfg glEnv 5 w' with
          | .ok (none, _) => true
          | _ => false)
     | _ => false) = true ∧
    (match Map.rawEntryOther enCfg glEnv .fromHash 12345 5 true ⟨6, 16, 26, 600⟩ { t := enTable } with
     | .ok ((b, .elem e), w') =>
       !b && e == ⟨6, 16, 26, 600⟩ && w'.t.items == 4 && invLB enCfg (fun k => k) w'.t &&
         (match Map.get enCfg glEnv 6 w' with
          | .ok (some x, _) => x == ⟨6, 16, 26, 600⟩
          | _ => false)
     | _ => false) = true :=
  ⟨enTable_full.1, glEnv_lawful, by decide, by decide, Hb.rawEntryOther_vacant_example.1,
    Hb.rawEntryOther_vacant_example.2⟩

/-- The example the task asks for, as a bare `example`: a concrete world where the Vacant branch is
    taken with `kLook = 5 ≠ 6 = e.k` and the subsequent look-up of `e.k` succeeds. -/
example :
    (match Map.rawEntryOther enCfg glEnv .fromKey 0 5 false ⟨6, 16, 26, 600⟩ { t := enTable } with
     | .ok ((false, _), w') =>
       (match Map.get enCfg glEnv 6 w' with
        | .ok (some x, _) => x == ⟨6, 16, 26, 600⟩
        | _ => false)
     | _ => false) = true := by decide

/-- Occupied: `from_key(&2).or_insert(K(6), V)` on the full table hands back the stored pair of key
    2, the table is unchanged, the caller's value and key objects are dropped. -/
theorem rawEntryOther_occupied_other_key_example :
    (match Map.rawEntryOther enCfg glEnv .fromKey 0 2 true ⟨6, 16, 26, 600⟩ { t := enTable } with
     | .ok ((b, .elem e), w') =>
       b && e == ⟨2, 12, 22, 200⟩ && w'.t.slots == enTable.slots && w'.t.ctrl == enTable.ctrl &&
         w'.t.items == 3 && w'.log == [Ev.dropK 16, Ev.dropV 26]
     | _ => false) = true := Hb.rawEntryOther_occupied_example

#print axioms rawEntryOther_vacant_reachable
#print axioms rawEntryOther_occupied_unchanged
#print axioms rawEntryOther_occupied_unchanged_any_env
#print axioms rawEntryOther_total
#print axioms rawEntryOther_every_outcome
#print axioms rawEntryOther_ledger
#print axioms rawEntryOther_ledger_unfolded
#print axioms rawEntryOther_unwind_no_double_drop
#print axioms rawEntryOther_no_fault
#print axioms lookup_hasher_panics
#print axioms stored_key_hasher_panics
#print axioms rawEntryOther_panic_table_unchanged_partial
#print axioms panic_may_change_table
#print axioms rawEntryOther_vacant_other_key_example
#print axioms rawEntryOther_occupied_other_key_example
end Hb.C14
