/-
C12 — try_reserve reports failure without panic, change or leak.

For every table state satisfying the API-level invariant `TInv` (structural invariant + own layout
computable), every requested amount, every allocator behaviour (oracle `env.allocOk`) and every
hasher: `try_reserve` either succeeds with `capacity ≥ len + additional`, or returns
`CapacityOverflow` / `AllocError{refused layout}` with the table and the event log (hence contents,
len, allocation, drops) exactly as before. It never aborts, never raises the capacity-overflow
panic and never faults; the only possible unwind is a panic of the user's hasher.
-/
import Hb.Proofs.ApiGrow
import Hb.Proofs.Probe
import Hb.Props.C17
namespace Hb.C12
open Hb

variable {cfg : Cfg}

theorem try_reserve_contract (hc : CfgOk cfg) (env : Env) (additional : Nat) (w : World)
    (h : TInv cfg w.t) :
    match tryReserve cfg env additional w with
    | .ok (.ok (), w') =>
      TInv cfg w'.t ∧ w'.t.items = w.t.items ∧ List.Perm w'.t.elems w.t.elems ∧
      w.t.items + additional ≤ w'.t.items + w'.t.gl ∧ additional ≤ w'.t.gl ∧
      (∀ ev ∈ w'.log, AllocOnly w.log ev) ∧ (additional ≤ w.t.gl → w' = w)
    | .ok (.error e, w') =>
      w'.t = w.t ∧ w'.log = w.log ∧ w.t.gl < additional ∧
      (e = .capacityOverflow ∨
       ∃ b, capacityToBuckets cfg.bits cfg.W cfg.size
              (max (w.t.items + additional) (bucketMaskToCapacity w.t.mask + 1)) = some b ∧
         e = .allocError (layoutOf cfg b).size (layoutOf cfg b).align ∧ env.allocOk w.ac = false)
    | .panic c w' =>
      c = "hash" ∧ w'.t.mask = w.t.mask ∧
        (GuardRuns cfg → TInv cfg w'.t ∧ ∃ ds, List.Perm (w'.t.elems ++ ds) w.t.elems ∧
          ∀ ev ∈ w'.log, AllocOnly w.log ev ∨ ev ∈ dropEvs cfg ds)
    | .abort => False
    | .fault _ => False :=
  tryReserve_spec hc (probe_covers cfg hc.spec.width) env additional w h

/-- On an error nothing at all has happened to the collection: same table, same log. -/
theorem error_means_unchanged (hc : CfgOk cfg) (env : Env) (additional : Nat) (w w' : World)
    (e : TryReserveError) (h : TInv cfg w.t)
    (hr : tryReserve cfg env additional w = .ok (.error e, w')) : w'.t = w.t ∧ w'.log = w.log := by
  have hs := try_reserve_contract hc env additional w h
  rw [hr] at hs
  exact ⟨hs.1, hs.2.1⟩

/-- With an allocator that never refuses, the only error is `CapacityOverflow`. -/
theorem only_overflow_without_refusal (hc : CfgOk cfg) (env : Env) (additional : Nat) (w w' : World)
    (e : TryReserveError) (h : TInv cfg w.t) (hal : ∀ j, env.allocOk j = true)
    (hr : tryReserve cfg env additional w = .ok (.error e, w')) : e = .capacityOverflow := by
  have hs := try_reserve_contract hc env additional w h
  rw [hr] at hs
  rcases hs.2.2.2 with he | ⟨b, _, _, hno⟩
  · exact he
  · rw [hal] at hno; cases hno

/-- Every layout handed to the allocator comes out of `calculate_layout_for` and is therefore
    valid (C17: size padded to the alignment ≤ isize::MAX, nothing wraps): the allocation of a fresh
    table is logged with exactly that layout. (`ctrlAlignOf cfg` is `max (align_of T) W`; alignments
    are powers of two.) -/
theorem requested_layout_valid (hc : CfgOk cfg) (env : Env) (capacity : Nat) (fb : Fallibility)
    (w w' : World) (new : Raw) (hcap : capacity ≠ 0) (hal : ∃ a, ctrlAlignOf cfg = 2 ^ a)
    (hr : fallibleWithCapacity cfg env capacity fb w = .ok (.ok new, w')) :
    ∃ l, calculateLayoutFor cfg.bits cfg.W cfg.size (ctrlAlignOf cfg) new.buckets = some l ∧
      w'.log = .alloc l.size l.align :: w.log ∧ l.align = ctrlAlignOf cfg ∧
      l.size + (ctrlAlignOf cfg - 1) ≤ isizeMax cfg.bits ∧ l.size < 2 ^ cfg.bits := by
  have hs := fallibleWithCapacity_spec hc env capacity fb w
  rw [hr] at hs
  obtain ⟨_, _, _, _, hx⟩ := hs
  rw [if_neg hcap] at hx
  obtain ⟨_, _, _, _, _, _, l, hl, hw⟩ := hx
  have hW : 0 < cfg.W := by have := hc.spec.width; unfold Cfg.W; omega
  have hsp := C17.layout_spec cfg.bits cfg.W cfg.size (ctrlAlignOf cfg) new.buckets l hc.bits hal hW hl
  refine ⟨l, hl, by rw [hw], hsp.1, hsp.2.2.2.2.2.1, hsp.2.2.2.2.2.2⟩

#print axioms try_reserve_contract
#print axioms error_means_unchanged
#print axioms only_overflow_without_refusal
#print axioms requested_layout_valid
end Hb.C12
