/-
C15 — `get_many_mut` / `get_many_key_value_mut` (`HashMap`) and `get_many_mut` (`HashTable`).

`Map.getManyMut` models both map functions (the result carries key and value of each entry);
`Table.getManyMut` models the table function (`any = true`: the closure `|_, _| true`). Both run the
caller's writes `v += 1000 * (j + 1)` through the `j`-th returned reference, so "where a write lands"
is visible in the final table.

For EVERY environment (arbitrary, stateful, panicking `Hash` / `Eq` / closures) under the structural
invariant `Inv`:
* never a fault; a callback may unwind, then nothing has changed;
* otherwise the requests resolve, in request order, to buckets `idxs` (`ts_FoundBy`: `idxs[j]` is what
  `find` returns for request `j`; `ts_AllLive`: found buckets are live);
* if two requests resolved to the same bucket the call panics (`"dup"`) and nothing has changed;
* else it returns `N` results for `N` requests, in request order, `Some(element of its bucket)` for a
  found request and `None` for the others, the found buckets are pairwise distinct
  (`no_two_results_alias`), write `j` lands in bucket `idxs[j]` and every other slot is untouched
  (`ts_ManyOk`), and the invariant holds again.
With a lawful hasher and `Eq` on a map (`InvL`): a present key yields its own entry, an absent key
`None` (`map_get_many_mut_lawful`).

DEFECT (F2, hashbrown 0.15.2, modelled as it is): `HashTable::get_many_mut` compares
`Bucket::as_non_null()`, which is one dangling pointer for every bucket of a zero-sized `T`; two
requests that resolve to two DIFFERENT buckets of a `HashTable<()>` panic. Hence the hypothesis
`cfg.size ≠ 0` of `table_get_many_mut_partial`; `zst_defect_witness` is the counterexample without it.
-/
import Hb.Proofs.TableSpec
import Hb.Proofs.Probe
namespace Hb.C15
open Hb

variable {cfg : Cfg}

/-- `HashTable::get_many_mut`, element types of non-zero size. -/
theorem table_get_many_mut_partial (hc : CfgOk cfg) (env : Env) (any : Bool)
    (reqs : List (Nat × Nat)) (w : World) (h : Inv cfg w.t)
    (hsz : cfg.size ≠ 0 ∨ cfg.zstDupFixed = true) :
    (∃ w', Table.getManyMut cfg env any reqs w = .panic "eq" w' ∧ any = false ∧ w'.t = w.t ∧
      w'.log = w.log) ∨
    (∃ idxs w1, ts_FoundBy cfg env any w.t reqs idxs ∧ ts_AllLive w.t idxs ∧ w1.t = w.t ∧
      w1.log = w.log ∧
      (((∃ (j1 j2 i : Nat), j1 < j2 ∧ idxs[j1]? = some (some i) ∧ idxs[j2]? = some (some i)) ∧
          Table.getManyMut cfg env any reqs w = .panic "dup" w1) ∨
       ((idxs.filterMap id).Nodup ∧ ∃ rs s',
          Table.getManyMut cfg env any reqs w = .ok (rs, { w1 with t := { w.t with slots := s' } }) ∧
          rs.length = reqs.length ∧ ts_ManyOk (Table.setV cfg) w.t idxs rs s' ∧
          Inv cfg { w.t with slots := s' }))) :=
  Table.getManyMut_spec_partial hc (probe_covers cfg hc.spec.width) env any reqs w h hsz

/-- The full statement, for the code AFTER the `fix:` commit in /repo (duplicates detected by bucket,
    `cfg.zstDupFixed = true` — the value the correspondence check forces on the current tree): every
    element size including zero. -/
theorem table_get_many_mut (hc : CfgOk cfg) (env : Env) (any : Bool)
    (reqs : List (Nat × Nat)) (w : World) (h : Inv cfg w.t) (hfix : cfg.zstDupFixed = true) :
    (∃ w', Table.getManyMut cfg env any reqs w = .panic "eq" w' ∧ any = false ∧ w'.t = w.t ∧
      w'.log = w.log) ∨
    (∃ idxs w1, ts_FoundBy cfg env any w.t reqs idxs ∧ ts_AllLive w.t idxs ∧ w1.t = w.t ∧
      w1.log = w.log ∧
      (((∃ (j1 j2 i : Nat), j1 < j2 ∧ idxs[j1]? = some (some i) ∧ idxs[j2]? = some (some i)) ∧
          Table.getManyMut cfg env any reqs w = .panic "dup" w1) ∨
       ((idxs.filterMap id).Nodup ∧ ∃ rs s',
          Table.getManyMut cfg env any reqs w = .ok (rs, { w1 with t := { w.t with slots := s' } }) ∧
          rs.length = reqs.length ∧ ts_ManyOk (Table.setV cfg) w.t idxs rs s' ∧
          Inv cfg { w.t with slots := s' }))) :=
  table_get_many_mut_partial hc env any reqs w h (Or.inr hfix)

/-- The writes of a successful `HashTable::get_many_mut` keep the table's hash-dependent invariant
    (they touch payloads only). -/
theorem table_get_many_mut_keeps_tblInv {H : Nat → Nat} {t : Raw} (h : TblInv cfg H t)
    {idxs : List (Option Nat)} {rs : List (Option Elem)} {s' : Array (Option Elem)}
    (hm : ts_ManyOk (Table.setV cfg) t idxs rs s') (hinv' : Inv cfg { t with slots := s' }) :
    TblInv cfg H { t with slots := s' } := Table.getManyMut_tblInv h hm hinv'

/-- Without `cfg.size ≠ 0` the statement is false (defect F2): a valid `HashTable<()>` with two
    elements in buckets 0 and 1, two requests resolving to buckets 0 and 1 ⇒ `"dup"` panic. -/
theorem zst_defect_witness :
    invB tsCfgZst (tsTwo ⟨0, 0, 0, 0⟩ ⟨0, 0, 0, 0⟩) = true ∧
    (match Table.getManyLoop tsCfgZst glEnv true tsTwoReqs { t := tsTwo ⟨0, 0, 0, 0⟩ ⟨0, 0, 0, 0⟩ } [] with
     | .ok (idxs, _) => idxs == [some 0, some 1]
     | _ => false) = true ∧
    (match Table.getManyMut tsCfgZst glEnv true tsTwoReqs { t := tsTwo ⟨0, 0, 0, 0⟩ ⟨0, 0, 0, 0⟩ } with
     | .panic c w' => c == "dup" && w'.t.slots == (tsTwo ⟨0, 0, 0, 0⟩ ⟨0, 0, 0, 0⟩).slots
     | _ => false) = true := getManyMut_zst_defect_witness

/-- The same table shape and requests with 8-byte elements: both entries are returned and
    written. -/
theorem sized_twin :
    invB tsCfg (tsTwo ⟨7, 1, 0, 70⟩ ⟨9, 2, 0, 90⟩) = true ∧
    (match Table.getManyMut tsCfg glEnv true tsTwoReqs { t := tsTwo ⟨7, 1, 0, 70⟩ ⟨9, 2, 0, 90⟩ } with
     | .ok (rs, w') =>
       rs == [some ⟨7, 1, 0, 70⟩, some ⟨9, 2, 0, 90⟩] &&
       w'.t.slots == #[some ⟨7, 1, 0, 1070⟩, some ⟨9, 2, 0, 2090⟩, none, none] &&
       invB tsCfg w'.t
     | _ => false) = true := getManyMut_sized_twin

/-- `HashMap::get_many_mut` / `get_many_key_value_mut`, every environment. -/
theorem map_get_many_mut (hc : CfgOk cfg) (env : Env) (ks : List Nat) (w : World)
    (h : Inv cfg w.t) :
    (∃ c w', Map.getManyMut cfg env ks w = .panic c w' ∧
      ((c = "hash" ∧ ∃ c' k, env.hash c' k = none) ∨ (c = "eq" ∧ ∃ c' q e, env.eq c' q e = none)) ∧
      w'.t = w.t ∧ w'.log = w.log) ∨
    (∃ (hs : List Nat) (idxs : List (Option Nat)) (w1 : World), hs.length = ks.length ∧
      (∀ (j k : Nat), ks[j]? = some k → env.hash (w.hc + j) k = hs[j]?) ∧
      ts_FoundBy cfg env false w.t (hs.zip ks) idxs ∧ ts_AllLive w.t idxs ∧ w1.t = w.t ∧
      w1.log = w.log ∧
      (((∃ (j1 j2 i : Nat), j1 < j2 ∧ idxs[j1]? = some (some i) ∧ idxs[j2]? = some (some i)) ∧
          Map.getManyMut cfg env ks w = .panic "dup" w1) ∨
       ((idxs.filterMap id).Nodup ∧ ∃ rs s',
          Map.getManyMut cfg env ks w = .ok (rs, { w1 with t := { w.t with slots := s' } }) ∧
          rs.length = ks.length ∧ ts_ManyOk (fun e nv => { e with v := nv }) w.t idxs rs s' ∧
          Inv cfg { w.t with slots := s' }))) :=
  Map.getManyMut_spec hc (probe_covers cfg hc.spec.width) env ks w h

/-- Lawful hasher and `Eq` on a map: present key ↦ its own entry, absent key ↦ `None`; the call
    panics iff two requests name the same present key. -/
theorem map_get_many_mut_lawful (hc : CfgOk cfg) (env : Env) (H : Nat → Nat) (hl : Lawful env H)
    (ks : List Nat) (w : World) (h : InvL cfg H w.t) :
    ∃ w1, w1.t = w.t ∧ w1.log = w.log ∧
    (((∃ (j1 j2 k : Nat), j1 < j2 ∧ ks[j1]? = some k ∧ ks[j2]? = some k ∧ ∃ e ∈ w.t.elems, e.k = k) ∧
        Map.getManyMut cfg env ks w = .panic "dup" w1) ∨
     ((¬ ∃ (j1 j2 k : Nat), j1 < j2 ∧ ks[j1]? = some k ∧ ks[j2]? = some k ∧ ∃ e ∈ w.t.elems, e.k = k) ∧
        ∃ rs s', Map.getManyMut cfg env ks w = .ok (rs, { w1 with t := { w.t with slots := s' } }) ∧
          rs.length = ks.length ∧
          (∀ (j k : Nat), ks[j]? = some k → (∀ e ∈ w.t.elems, e.k ≠ k) → rs[j]? = some none) ∧
          (∀ (j k i : Nat) (e : Elem), ks[j]? = some k → w.t.slots[i]?.join = some e → e.k = k →
            rs[j]? = some (some e) ∧ s'[i]?.join = some { e with v := e.v + 1000 * (j + 1) }) ∧
          (∀ (i : Nat) (e : Elem), w.t.slots[i]?.join = some e → e.k ∉ ks → s'[i]? = w.t.slots[i]?) ∧
          InvL cfg H { w.t with slots := s' })) :=
  Map.getManyMut_lawful hc (probe_covers cfg hc.spec.width) env H hl ks w h

/-- In the success case no two returned references point to the same entry: the buckets of two
    different requests that found something are different. -/
theorem no_two_results_alias (idxs : List (Option Nat)) (hnd : (idxs.filterMap id).Nodup)
    {j1 j2 a b : Nat} (hne : j1 ≠ j2) (h1 : idxs[j1]? = some (some a))
    (h2 : idxs[j2]? = some (some b)) : a ≠ b := by
  rintro rfl
  rcases Nat.lt_or_gt_of_ne hne with hlt | hlt
  · exact (ts_not_nodup_iff idxs).mpr ⟨j1, j2, a, hlt, h1, h2⟩ hnd
  · exact (ts_not_nodup_iff idxs).mpr ⟨j2, j1, a, hlt, h2, h1⟩ hnd

/-- The duplicate check of the table is bucket identity exactly when the element type has non-zero
    size. -/
theorem table_dup_check_is_bucket_identity (hsz : cfg.size ≠ 0 ∨ cfg.zstDupFixed = true)
    (idxs : List (Option Nat)) :
    Table.hasDup cfg idxs = true ↔
      ∃ (j1 j2 i : Nat), j1 < j2 ∧ idxs[j1]? = some (some i) ∧ idxs[j2]? = some (some i) :=
  (ts_hasDup_iff hsz idxs).trans (ts_not_nodup_iff idxs)

#print axioms table_get_many_mut_partial
#print axioms table_get_many_mut
#print axioms table_get_many_mut_keeps_tblInv
#print axioms zst_defect_witness
#print axioms sized_twin
#print axioms map_get_many_mut
#print axioms map_get_many_mut_lawful
#print axioms no_two_results_alias
#print axioms table_dup_check_is_bucket_identity
end Hb.C15
