/-
C09 — Every iterator yields each element exactly once with exact length reporting.

All public iterators (`iter`, `iter_mut`, `keys`, `values`, `values_mut`, `into_iter`, `into_keys`,
`into_values`, `drain` and the set/table counterparts) are thin wrappers over `RawIter`
(`next`, `fold`, `size_hint`, `clone`); the theorems are about `RawIter` in *every* table state
satisfying the structural invariant `Inv` (any occupancy pattern, tombstones, table smaller than /
equal to / larger than a group, both scanners).
-/
import Hb.Proofs.IterSpec
namespace Hb.C09
open Hb

variable {cfg : Cfg} {t : Raw}

/-- The buckets an iterator must yield are exactly the buckets holding a live element. -/
theorem full_iff_live (hc : CfgOk cfg) (h : Inv cfg t) (i : Nat) :
    i ∈ t.fullList ↔ (t.slots[i]?.join).isSome = true := by
  have hW : 0 < cfg.W := by have := hc.spec.width; unfold Cfg.W; omega
  rw [mem_fullList]
  constructor
  · intro ⟨hi, hf⟩
    have hs : i < t.slots.size := by
      rcases h.geom with hg | hg
      · -- singleton: its only control byte is EMPTY, so nothing is full
        obtain ⟨_, hm, hctrl, _, _, _⟩ := hg
        have hi0 : i = 0 := by unfold Raw.buckets at hi; omega
        subst hi0
        rw [Raw.ctrlAt, hctrl] at hf
        simp [isFull, EMPTY, hW] at hf
      · have := hg.2.2.2.1; omega
    exact (h.live i hs).mpr hf
  · intro hl
    have hs : i < t.slots.size := by
      refine Nat.lt_of_not_le fun hle => ?_
      rw [Array.getElem?_eq_none hle] at hl; simp at hl
    have hf := (h.live i hs).mp hl
    refine ⟨?_, hf⟩
    rcases h.geom with hg | hg
    · rw [hg.2.2.2.1] at hs; simp at hs
    · have := hg.2.2.2.1; omega

/-- Repeated `next()` yields every stored element exactly once (ascending bucket order, hence no
    duplicates) and nothing else. -/
theorem next_yields_each_once (hc : CfgOk cfg) (h : Inv cfg t) :
    ∀ it, RawIter.new cfg t = .ok it →
      RawIter.drainAll cfg t (t.buckets + 2) it [] = .ok t.fullList ∧
      t.fullList.Pairwise (· < ·) ∧ t.fullList.length = t.items :=
  fun it hnew => ⟨rawIter_drainAll_spec hc h it hnew, fullList_sorted t, fullList_length hc h⟩

/-- `fold`/`for_each` visits the same sequence as repeated `next()`. -/
theorem fold_eq_next (hc : CfgOk cfg) (h : Inv cfg t) :
    ∀ it, RawIter.new cfg t = .ok it → it.fold cfg t = .ok t.fullList :=
  rawIter_fold_spec hc h

/-- Switching from `next()` to `fold()` after any prefix length `p`: the fold visits exactly the
    elements not yet yielded; `size_hint`/`len` after `p` steps is the true remaining count. -/
theorem fold_after_prefix (hc : CfgOk cfg) (h : Inv cfg t) (p : Nat) :
    ∀ it, RawIter.new cfg t = .ok it →
      ∃ it', RawIter.nextN cfg t p it = .ok it' ∧ it'.items = t.items - p ∧
        it'.fold cfg t = .ok (t.fullList.drop p) := by
  intro it hnew
  obtain ⟨it', h1, _, _, h4, h5⟩ := rawIter_fold_after hc h p it hnew
  exact ⟨it', h1, h4, h5⟩

/-- After exhaustion `next()` keeps returning `None` (fused), without touching memory. -/
theorem fused (hc : CfgOk cfg) (h : Inv cfg t) (p : Nat) (hp : t.items ≤ p) :
    ∀ it, RawIter.new cfg t = .ok it →
      ∃ it', RawIter.nextN cfg t p it = .ok it' ∧ RawIter.next cfg t it' = .ok (none, it') :=
  rawIter_exhausted_after hc h p hp

/-- The complete observation made by the correspondence check (prefix by `next`, then `fold` on the
    original and `next` on a clone, with `size_hint` before every step): prefix and both remainders
    are the expected segments and every size hint is exact. A clone continues from the same
    position because an iterator is a value. -/
theorem observe_spec (hc : CfgOk cfg) (h : Inv cfg t) (p : Nat) :
    Map.iterObserve cfg t p =
      .ok (t.fullList.take p, t.fullList.drop p, t.fullList.drop p,
           (List.range (min p (t.items + 1) + 1)).map (t.items - ·)) :=
  iterObserve_spec hc h p

theorem size_hints_exact (hc : CfgOk cfg) (h : Inv cfg t) (p : Nat) :
    ∃ pre rest1 rest2 hints, Map.iterObserve cfg t p = .ok (pre, rest1, rest2, hints) ∧
      ∀ j (hj : j < hints.length), hints[j] = (t.fullList.drop j).length :=
  iterObserve_hints_exact hc h p

/-- Default-constructed iterators (`RawIter` over `RawTableInner::NEW`) are empty. -/
theorem default_empty :
    ∀ it, RawIter.new cfg (Raw.new cfg.W) = .ok it →
      RawIter.next cfg (Raw.new cfg.W) it = .ok (none, it) := by
  intro it hnew
  simp only [RawIter.new] at hnew
  split at hnew
  · cases hnew
  · cases hnew
    simp [RawIter.next, Raw.new]

/-- The owning walk used by `resize`, `clone`, `drop` (`FullBucketsIndices`) visits the same list. -/
theorem full_indices (hc : CfgOk cfg) (h : Inv cfg t) : fullIndices cfg t t.items = .ok t.fullList :=
  fullIndices_spec hc h

/-! Non-vacuity: `exampleTable` (8 buckets, 3 full, W = 16) satisfies the invariant and the
    observation evaluates to the expected segments. -/
example : invB { ops := Sse2.ops } exampleTable = true := by decide
example : Map.iterObserve { ops := Sse2.ops } exampleTable 2 = .ok ([1, 4], [6], [6], [3, 2, 1]) := rfl

#print axioms full_iff_live
#print axioms next_yields_each_once
#print axioms fold_eq_next
#print axioms fold_after_prefix
#print axioms fused
#print axioms observe_spec
#print axioms size_hints_exact
#print axioms default_empty
#print axioms full_indices
end Hb.C09
