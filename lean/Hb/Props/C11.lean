/-
C11 — clone / clone_from / == (HashMap, HashSet, HashTable share `RawTable::clone`, `clone_from`;
`PartialEq` is HashMap's, HashSet's is the same loop on keys only).

* `clone()` of any collection (`TInvB`: structural invariant + computable layout) and `clone_from`
  into a target in ANY state (empty, smaller, same size, larger, with tombstones: only `TInvB` is
  assumed of the target) yield a table with the source's control bytes, mask and counters whose
  elements are position-wise clones of the source's: same key, same value, identities = the clone
  oracle's answers (`clone_equal_contents`, `cloneFrom_any_target`, `clone_identities_fresh`);
  the hash-dependent invariant `InvL` is carried over for the source's hash function
  (`clone_preserves_InvL`, `clone_from_preserves_InvL`), so every look-up theorem applies to the
  clone; the result compares equal to the source (`eq_clone`, `eq_clone_from`).
* `a == b` for maps with lawful hashers (possibly different ones: `HA`, `HB`; only `b`'s is called):
  returns, changes nothing, and is `true` exactly when both hold the same keys with equal values
  (`eq_spec`), i.e. when they are the same finite map `k ↦ v` (`eq_same_finite_map`), regardless of
  insertion order, removal history, capacity, tombstones; it is symmetric (`eq_symm`).
* Independence of clone and source: the model is value-semantic, so it holds by construction
  (`clone_independent` states it); that the REAL code shares nothing is the business of the
  correspondence runs (mutating either side after `clone` / `clone_from`), not of a theorem.
* `eq_nonvacuous`: concrete tables (same pairs, different order / capacity / tombstones).

A panicking `Clone` / `Drop`, or a refusing allocator, are covered by `cloneTable_spec` /
`cloneFrom_spec` in `Hb/Proofs/ApiBulk.lean` (clones made so far dropped once, block freed, target
left valid and empty).
-/
import Hb.Proofs.EqSpec
namespace Hb.C11
open Hb

variable {cfg : Cfg}

/-- `clone()`: the source is untouched; the clone is a valid table with the same mask, control bytes,
    `items`, `growth_left`, allocation flag; its elements are the position-wise clones of the source's
    (`cloneList`), hence the same keys and values in the same buckets; one `Clone` call per element. -/
theorem clone_equal_contents (hc : CfgOk cfg) (env : Env) (w w' : World) (nt : Raw)
    (h : TInvB cfg w.t) (hr : Map.cloneTable cfg env w = .ok (nt, w')) :
    TInvB cfg nt ∧ w'.t = w.t ∧ nt.mask = w.t.mask ∧ nt.ctrl = w.t.ctrl ∧ nt.items = w.t.items ∧
    nt.gl = w.t.gl ∧ nt.alloc = w.t.alloc ∧ nt.elems = cloneList env w.cc w.t.elems ∧
    nt.elems.length = w.t.elems.length ∧
    nt.elems.map (fun e => (e.k, e.v)) = w.t.elems.map (fun e => (e.k, e.v)) ∧
    (∀ i e, w.t.elems[i]? = some e → ∃ kid vid, env.clone (w.cc + i) e = some (kid, vid) ∧
      nt.elems[i]? = some { e with kid := kid, vid := vid }) ∧
    w'.cc = w.cc + w.t.items := by
  have hs := cloneTable_spec hc env w h
  rw [hr] at hs
  obtain ⟨a1, a2, a3, a4, a5, a6, a7, a8, a9, a10, _⟩ := hs
  have hlen : (cloneList env w.cc w.t.elems).length = w.t.elems.length := by rw [← a8]; exact a9
  refine ⟨a1, a2, a3, a4, a5, a6, a7, a8, a9, ?_, ?_, a10⟩
  · rw [a8]; exact eq_cloneList_kv env _ _ hlen
  · rw [a8]; exact eq_cloneList_get env _ _ hlen

/-- The clones are independently owned objects: their identities are exactly the clone oracle's
    answers (call `cc + position`); if the oracle only hands out identities not in use (`used`
    covering the source's), no clone shares a key or value object with the source; if it never
    repeats an identity, the clones' objects are pairwise distinct. -/
theorem clone_identities_fresh (env : Env) (l : List Elem) (cc : Nat)
    (hlen : (cloneList env cc l).length = l.length) :
    (cloneList env cc l).map (fun e => (e.kid, e.vid)) =
      l.zipIdx.filterMap (fun p => env.clone (cc + p.2) p.1) ∧
    (∀ used : Nat → Prop,
      (∀ c e kid vid, env.clone c e = some (kid, vid) → ¬ used kid ∧ ¬ used vid) →
      (∀ x ∈ l, used x.kid ∧ used x.vid) →
      ∀ c ∈ cloneList env cc l, ∀ x ∈ l,
        c.kid ≠ x.kid ∧ c.vid ≠ x.vid ∧ c.kid ≠ x.vid ∧ c.vid ≠ x.kid) ∧
    ((∀ c c' e e' p p', env.clone c e = some p → env.clone c' e' = some p' → c ≠ c' →
        p.1 ≠ p'.1 ∧ p.2 ≠ p'.2) →
      ((cloneList env cc l).map (·.kid)).Nodup ∧ ((cloneList env cc l).map (·.vid)).Nodup) := by
  refine ⟨eq_cloneList_ids env l cc hlen, ?_, fun hinj => eq_cloneList_nodup env hinj l cc⟩
  intro used hfresh hsrc c hc x hx
  exact eq_cloneList_fresh env l cc used hfresh c hc x (hsrc x hx).1 (hsrc x hx).2

/-- `clone()` keeps the hash-dependent invariant (every key tagged and reachable per its hash, keys
    distinct) for the source's hash function: all look-up theorems apply to the clone. -/
theorem clone_preserves_InvL (hc : CfgOk cfg) (env : Env) (H : Nat → Nat) (w w' : World) (nt : Raw)
    (h : InvL cfg H w.t) (hlo : w.t.LayoutOk cfg) (hr : Map.cloneTable cfg env w = .ok (nt, w')) :
    InvL cfg H nt ∧ nt.LayoutOk cfg :=
  eq_clone_invL hc env w ⟨h, hlo⟩ hr

/-- `clone_from` into a target in ANY valid state keeps the source's hash-dependent invariant. -/
theorem clone_from_preserves_InvL (hc : CfgOk cfg) (env : Env) (H : Nat → Nat) (src : Raw)
    (w w' : World) (h : TInvB cfg w.t) (hs : InvL cfg H src) (hlo : src.LayoutOk cfg)
    (hr : Map.cloneFrom cfg env src w = .ok w') : InvL cfg H w'.t ∧ w'.t.LayoutOk cfg :=
  eq_cloneFrom_invL hc env src w w' h ⟨hs, hlo⟩ hr

/-- Value semantics of the model: for a pair (source world, clone table), any sequence of operations
    on the first leaves the second table unchanged, and any sequence of operations on the second
    leaves the first table unchanged. -/
theorem clone_independent (fs : List (World → World)) (w : World) (nt : Raw) :
    (fs.foldl (fun p f => eq_onFirst f p) (w, nt)).2 = nt ∧
    (fs.foldl (fun p f => eq_onSecond f p) (w, nt)).1.t = w.t :=
  eq_independent fs (w, nt)

/-- `a == b` with a lawful hasher / `Eq` for `b`: returns; table and log untouched; `true` exactly
    when `len` agrees and every `(k, v)` of `a` occurs in `b`. `a` needs only the structural
    invariant (its hasher is never called), no layout hypothesis on either side. -/
theorem eq_spec (hc : CfgOk cfg) (env : Env) (HB : Nat → Nat) (hl : Lawful env HB) (a b : Raw)
    (w : World) (ha : Inv cfg a) (hb : InvL cfg HB b) :
    ∃ r w', Map.mapEq cfg env b { w with t := a } = .ok (r, w') ∧ w'.t = a ∧ w'.log = w.log ∧
      (r = true ↔ a.elems.length = b.elems.length ∧
        ∀ e ∈ a.elems, ∃ e' ∈ b.elems, e'.k = e.k ∧ e'.v = e.v) :=
  _root_.Hb.eq_spec hc hl a b w ha hb

/-- `a == b` exactly when `a` and `b` are the same finite map from keys to values — whatever the
    insertion order, removal history (tombstones), capacity and hashers (`HA ≠ HB` allowed). -/
theorem eq_same_finite_map (hc : CfgOk cfg) (env : Env) (HA HB : Nat → Nat) (hl : Lawful env HB)
    (a b : Raw) (w : World) (ha : InvL cfg HA a) (hb : InvL cfg HB b) :
    ∃ r w', Map.mapEq cfg env b { w with t := a } = .ok (r, w') ∧ w'.t = a ∧ w'.log = w.log ∧
      (r = true ↔ ∀ k, (AL.find a.elems k).map (·.v) = (AL.find b.elems k).map (·.v)) :=
  eq_spec_finmap hc hl a b w ha hb

/-- `==` is symmetric: `a == b` and `b == a` return the same Boolean. -/
theorem eq_symm (hc : CfgOk cfg) (envA envB : Env) (HA HB : Nat → Nat) (hlA : Lawful envA HA)
    (hlB : Lawful envB HB) (a b : Raw) (w1 w2 : World) (ha : InvL cfg HA a) (hb : InvL cfg HB b) :
    ∃ r w1' w2', Map.mapEq cfg envB b { w1 with t := a } = .ok (r, w1') ∧
      Map.mapEq cfg envA a { w2 with t := b } = .ok (r, w2') :=
  _root_.Hb.eq_symm hc hlA hlB a b w1 w2 ha hb

/-- A clone compares equal to its source (both ways round). -/
theorem eq_clone (hc : CfgOk cfg) (env : Env) (H : Nat → Nat) (hl : Lawful env H) (w w' : World)
    (nt : Raw) (h : InvL cfg H w.t) (hlo : w.t.LayoutOk cfg)
    (hr : Map.cloneTable cfg env w = .ok (nt, w')) (wq : World) :
    (∃ wf, Map.mapEq cfg env w.t { wq with t := nt } = .ok (true, wf)) ∧
    (∃ wf, Map.mapEq cfg env nt { wq with t := w.t } = .ok (true, wf)) :=
  _root_.Hb.eq_clone hc hl w ⟨h, hlo⟩ hr wq

/-- After `clone_from(src)` the target, whatever it held, compares equal to `src`. -/
theorem eq_clone_from (hc : CfgOk cfg) (env : Env) (H : Nat → Nat) (hl : Lawful env H) (src : Raw)
    (w w' : World) (h : TInvB cfg w.t) (hs : InvL cfg H src) (hlo : src.LayoutOk cfg)
    (hr : Map.cloneFrom cfg env src w = .ok w') (wq : World) :
    (∃ wf, Map.mapEq cfg env src { wq with t := w'.t } = .ok (true, wf)) ∧
    (∃ wf, Map.mapEq cfg env w'.t { wq with t := src } = .ok (true, wf)) :=
  eq_cloneFrom hc hl src w w' h ⟨hs, hlo⟩ hr wq

/-- `clone_from` into a target in any `TInvB` state: the target's old elements were dropped exactly
    once (bucket order), the result has the source's mask, control bytes and allocation flag and
    holds position-wise clones of the source's elements. Paths: unallocated source ⇒ the target
    becomes `new()` and its block (if any) is freed; same bucket count ⇒ the block is reused (no
    allocator traffic); different ⇒ a block with the source's layout is allocated and the old one (if
    any) freed. -/
theorem cloneFrom_any_target (hc : CfgOk cfg) (env : Env) (src : Raw) (w w' : World)
    (h : TInvB cfg w.t) (hs : TInvB cfg src) (hr : Map.cloneFrom cfg env src w = .ok w') :
    TInvB cfg w'.t ∧ w'.t.mask = src.mask ∧ w'.t.ctrl = src.ctrl ∧ w'.t.alloc = src.alloc ∧
    w'.t.elems = cloneList env w.cc src.elems ∧ w'.t.elems.length = src.elems.length ∧
    w'.t.elems.map (fun e => (e.k, e.v)) = src.elems.map (fun e => (e.k, e.v)) ∧
    w'.cc = w.cc + src.items ∧
    (∃ blk, w'.log = blk ++ (dropEvs cfg w.t.elems.reverse ++ w.log) ∧
      (src.alloc = false → w'.t = Raw.new cfg.W ∧ blk =
        (if w.t.alloc = true then
          [Ev.free (layoutOf cfg w.t.buckets).size (layoutOf cfg w.t.buckets).align] else [])) ∧
      (src.alloc = true → w.t.buckets = src.buckets → blk = [] ∧ w.t.alloc = true) ∧
      (src.alloc = true → w.t.buckets ≠ src.buckets → blk =
        (if w.t.alloc = true then
          [Ev.free (layoutOf cfg w.t.buckets).size (layoutOf cfg w.t.buckets).align] else []) ++
        [Ev.alloc (layoutOf cfg src.buckets).size (layoutOf cfg src.buckets).align])) := by
  have hsp := cloneFrom_spec hc env src w h hs
  rw [hr] at hsp
  obtain ⟨a1, a2, a3, a4, a5, a6, a7⟩ := hsp
  have hlen : (cloneList env w.cc src.elems).length = src.elems.length := by rw [← a4]; exact a5
  obtain ⟨p1, p2, p3⟩ := eq_cfBlockEvs_cases (cfg := cfg) w.t src h.1 hs.1
  refine ⟨a1, a2, eq_cloneFrom_ctrl hc env src w w' h hs hr, a3, a4, a5, ?_, a6,
    cfBlockEvs cfg w.t src, a7, fun hal => ⟨eq_cloneFrom_unalloc hc env src w w' h hs hal hr, p1 hal⟩,
    p2, p3⟩
  rw [a4]; exact eq_cloneList_kv env _ _ hlen

/-- `PartialEq for HashSet`: `a == b` returns, changes nothing and is `true` exactly when both sets
    hold the same keys (hashers may differ), regardless of order, history, capacity. -/
theorem set_eq_same_keys (hc : CfgOk cfg) (env : Env) (HA HB : Nat → Nat) (hl : Lawful env HB)
    (a b : Raw) (w : World) (ha : InvL cfg HA a) (hb : InvL cfg HB b) :
    ∃ r w', Set.setEq cfg env b { w with t := a } = .ok (r, w') ∧ w'.t = a ∧ w'.log = w.log ∧
      (r = true ↔ ∀ k, k ∈ a.elems.map (·.k) ↔ k ∈ b.elems.map (·.k)) :=
  eq_setEq_spec hc hl a b w ha hb

/-- `==` on sets is symmetric. -/
theorem set_eq_symm (hc : CfgOk cfg) (envA envB : Env) (HA HB : Nat → Nat) (hlA : Lawful envA HA)
    (hlB : Lawful envB HB) (a b : Raw) (w1 w2 : World) (ha : InvL cfg HA a) (hb : InvL cfg HB b) :
    ∃ r w1' w2', Set.setEq cfg envB b { w1 with t := a } = .ok (r, w1') ∧
      Set.setEq cfg envA a { w2 with t := b } = .ok (r, w2') :=
  eq_setEq_symm hc hlA hlB a b w1 w2 ha hb

/-- HashSet's `clone` / `clone_from` ARE HashMap's, on the set's view of the environment (clones of
    `()` have no identity), and that view is lawful whenever the environment is: all theorems of this
    file apply verbatim. -/
theorem set_shares_code (env : Env) (src : Raw) (w : World) :
    Set.cloneTable cfg env w = Map.cloneTable cfg (Set.envOf env) w ∧
    Set.cloneFrom cfg env src w = Map.cloneFrom cfg (Set.envOf env) src w ∧
    (∀ H, Lawful env H → Lawful (Set.envOf env) H) :=
  ⟨rfl, rfl, fun _ hl => ⟨hl.hash, hl.eq⟩⟩

/-- `HashTable::clone_from` is the default `*self = source.clone()`: target in ANY `TInvB` state;
    on return the target has the source's mask / control bytes and holds position-wise clones, every
    old element was dropped once and the old block freed; a panicking `Clone` / refusing allocator
    leaves the target untouched; a panicking destructor of an old element still leaves the clone in
    place. The result satisfies the source's `InvL` and holds the same `(key, payload)` pairs. -/
theorem table_clone_from_any_target (hc : CfgOk cfg) (env : Env) (src : Raw) (w : World)
    (h : TInvB cfg w.t) (hs : TInvB cfg src) :
    (match Table.cloneFrom cfg env src w with
     | .ok w' => TInvB cfg w'.t ∧ w'.t.mask = src.mask ∧ w'.t.ctrl = src.ctrl ∧
         w'.t.alloc = src.alloc ∧ w'.t.elems = cloneList env w.cc src.elems ∧
         w'.t.elems.length = src.elems.length ∧
         w'.log = (if w.t.alloc = true then
               [Ev.free (layoutOf cfg w.t.buckets).size (layoutOf cfg w.t.buckets).align] else []) ++
             dropEvs cfg w.t.elems.reverse ++
             ((if src.alloc = true then
               [Ev.alloc (layoutOf cfg src.buckets).size (layoutOf cfg src.buckets).align] else []) ++
              w.log)
     | .panic c w' => (c = "clone" ∧ w'.t = w.t) ∨
         (c = "drop" ∧ TInvB cfg w'.t ∧ w'.t.mask = src.mask ∧ w'.t.ctrl = src.ctrl ∧
           w'.t.elems = cloneList env w.cc src.elems ∧ w'.t.elems.length = src.elems.length)
     | .abort => src.alloc = true ∧ env.allocOk w.ac = false
     | .fault _ => False) ∧
    (∀ H w', InvL cfg H src → Table.cloneFrom cfg env src w = .ok w' →
      InvL cfg H w'.t ∧
      w'.t.elems.map (fun e => (e.k, e.v)) = src.elems.map (fun e => (e.k, e.v))) := by
  refine ⟨eq_tableCloneFrom_spec hc env src w h hs, fun H w' hH hr => ?_⟩
  have := eq_tableCloneFrom_invL hc env src w w' h ⟨hH, hs.2⟩ hr
  exact ⟨this.1.1, this.2⟩

/-- Non-vacuity (portable scanner, `H k = k * 2^57 + k`): `{1↦10, 5↦50, 2↦20}` built in 4 buckets and
    the same pairs built in another order in 16 buckets with six tombstones both satisfy the
    executable invariant, iterate in different orders, and compare equal both ways; changing one
    value makes them unequal both ways; `clone` / `clone_from` (into a smaller target) of the
    tombstoned table give valid tables equal to it. -/
theorem eq_nonvacuous :
    invLB eqExCfg rfH eqExA = true ∧ invLB eqExCfg rfH eqExB = true ∧
    eqExA.buckets = 4 ∧ eqExB.buckets = 16 ∧
    eqExA.elems.map (·.k) = [1, 5, 2] ∧ eqExB.elems.map (·.k) = [1, 2, 5] ∧
    0 < eqExB.countCtrl (· == DELETED) ∧
    eqExCmp eqExA eqExB = 1 ∧ eqExCmp eqExB eqExA = 1 ∧
    eqExCmp eqExA eqExC = 0 ∧ eqExCmp eqExC eqExA = 0 ∧ Lawful eqExEnv rfH := by
  obtain ⟨t1, t2, _, t4, t5, _, _, t8, t9, _, t11⟩ := eqEx_tables
  obtain ⟨c1, c2, _, c4, c5, _⟩ := eqEx_compare
  exact ⟨t1, t2, t4, t5, t8, t9, t11, c1, c2, c4, c5, eqExEnv_lawful⟩

#print axioms clone_equal_contents
#print axioms clone_identities_fresh
#print axioms clone_preserves_InvL
#print axioms clone_from_preserves_InvL
#print axioms clone_independent
#print axioms eq_spec
#print axioms eq_same_finite_map
#print axioms eq_symm
#print axioms eq_clone
#print axioms eq_clone_from
#print axioms cloneFrom_any_target
#print axioms set_eq_same_keys
#print axioms set_eq_symm
#print axioms set_shares_code
#print axioms table_clone_from_any_target
#print axioms eq_nonvacuous

end Hb.C11
