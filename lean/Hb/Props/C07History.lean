/-
C07 (second file) — every pair of sets REACHABLE by any history satisfies what `Hb/Props/C07.lean`
assumes, and a whole history of set calls agrees with mathematical sets.

`Hb/Props/C07.lean` proves each `HashSet` call for ANY two tables satisfying the hash-dependent
invariant `InvL`. This file closes the loop for "any two sets built by ANY histories": `SetOp`
(`Hb/Model/SetOps.lean`, 27 calls on a pair `(a, b)` with a target selector: insert, remove, take,
replace, get_or_insert, get_or_insert_with, contains, get, the `HashSet::entry` calls, retain, clear,
reserve, shrink_to, the four lazy binary iterators collected, the four predicates incl. `==`, and the
assigning operators `|=` `&=` `^=` `-=`), `Set.run2` folding a history, and the reference `MSet`
(`Hb/Proofs/SetHistory.lean`): sets are key-distinct lists, every post-state and list-valued return is
specified up to permutation, and `MSet` is proved to be the mathematical one (`mem_ks_unionSpec`:
`k ∈ union ↔ k ∈ A ∨ k ∈ B`, … ; `Call.mem_after`, `Call.ret_bool`, `Call.ret_elems`).

Environment hypothesis `SetLawfulP env H p`: ANY deterministic hasher `H` (all-colliding included), `Eq` =
key equality, `Clone`/destructors do not panic, the allocator does not refuse, `retain`'s closure is the
pure predicate `p`. (Panics / refusals: the per-call theorems of C07.lean and C04/C02 cover them.) The
capacity-overflow panic of growing calls is an allowed outcome that leaves the set unchanged (for `|=`
and `^=`: a part-way state bounded by the reference).
-/
import Hb.Proofs.SetHistory
namespace Hb.C07H
open Hb

variable {cfg : Cfg} {env : Env} {H : Nat → Nat} {p : Elem → Bool}

/-- Every history of set calls on a pair of sets, from `(new(), new())`: observations are related call
    by call to the mathematical reference, both final sets hold key-distinct elements whose key sets are
    the reference's, and both satisfy the hash-dependent invariant (so every theorem of C07.lean applies
    to them). -/
theorem set_history_refines (hc : CfgOk cfg) (hlp : SetLawfulP env H p) (cs : List SetCall)
    (s0 : Set.Pair) (ha : s0.a = Raw.new cfg.W) (hb : s0.b = Raw.new cfg.W) :
    ∃ os sf, Set.run2 cfg env cs s0 = some (os, sf) ∧
      MSet.Trace p cs ([], []) os (sf.a.elems, sf.b.elems) ∧
      (MSet.ks sf.a.elems).Nodup ∧ (MSet.ks sf.b.elems).Nodup ∧
      InvL cfg H sf.a ∧ sf.a.LayoutOk cfg ∧ InvL cfg H sf.b ∧ sf.b.LayoutOk cfg :=
  Hb.set_history_refines hc hlp cs s0 ha hb

/-- One call from any pair satisfying the invariant. -/
theorem set_call_refines (hc : CfgOk cfg) (hlp : SetLawfulP env H p) (c : SetCall) (s : Set.Pair)
    (hs : PairOk cfg H s) :
    ∃ o s', (Set.step2 cfg env c s).observe = some (o, s') ∧ MSet.Step p c s.abs o s'.abs ∧
      PairOk cfg H s' :=
  set_step_refines hc hlp c s hs

/-- "Any two sets built by any histories": whatever `opsA` builds on one side and `opsB` on the other,
    the resulting pair satisfies the hypotheses of every theorem in `Hb/Props/C07.lean`. -/
theorem any_two_histories (hc : CfgOk cfg) (hlp : SetLawfulP env H p) (opsA opsB : List SetOp) :
    ∃ os sf, Set.run2 cfg env (opsA.map (fun o => ⟨.a, o⟩) ++ opsB.map (fun o => ⟨.b, o⟩))
        (Set.Pair.new cfg) = some (os, sf) ∧ PairOk cfg H sf :=
  two_histories_satisfy_C07 hc hlp opsA opsB

/-- The reference is the mathematical one: membership in each binary result. -/
theorem reference_is_mathematical (T O : AL) (k : Nat) :
    (k ∈ MSet.ks (MSet.unionSpec T O) ↔ k ∈ MSet.ks T ∨ k ∈ MSet.ks O) ∧
    (k ∈ MSet.ks (MSet.interSpec T O) ↔ k ∈ MSet.ks T ∧ k ∈ MSet.ks O) ∧
    (k ∈ MSet.ks (MSet.diffSpec T O) ↔ k ∈ MSet.ks T ∧ k ∉ MSet.ks O) :=
  ⟨MSet.mem_ks_unionSpec, MSet.mem_ks_interSpec, MSet.mem_ks_diffSpec⟩

#print axioms set_history_refines
#print axioms set_call_refines
#print axioms any_two_histories
#print axioms reference_is_mathematical
end Hb.C07H
