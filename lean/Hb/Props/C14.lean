/-
C14 — Entry-style APIs agree with plain lookup/insert/remove, even at full load.

`HashMap::entry`, `entry_ref`, `raw_entry_mut` (`from_key`, `from_key_hashed_nocheck`, `from_hash`;
`insert`, `insert_hashed_nocheck`, `insert_with_hasher`, `insert_key`, …), `rustc_entry` and
`HashSet::entry`, as modelled in `Hb/Model/Entry.lean` / `Hb/Model/Set.lean` (one operation = the
look-up that creates the entry + a chain of entry methods + the drop of what is left over).

* Setting of the functional theorems: a lawful environment (`Lawful env H`: `Hash` is the function
  `H`, colliding or not, `Eq` is key equality), an allocator that never refuses, destructors that do
  not panic; the table only satisfies the invariant `RI cfg H w.t` (= `InvL` + own layout computable).
  Nothing is assumed about its load: `growth_left = 0` (`capacity() == len()`), tombstone-saturated
  tables and the unallocated singleton are all covered.
* Results are stated against the abstract map `w.t.elems : AL` (stored `(key object, value object)`
  pairs, `Hb/Model/Spec.lean`, the specification `HashMap` is proved to refine in C01): `AL.find` =
  `get`, `AL.setVal` = `insert` on a present key (stored key object kept), `e :: l` = `insert` of an
  absent key, `AL.erase` = `remove` / `remove_entry`, `AL.setPayload` = write through `get_mut`;
  contents up to `List.Perm` (bucket order is not specified).
  The per-chain tables are `Map.EChain.occSpec` / `vacSpec` / `refOccSpec` / `refVacSpec`,
  `Map.RawChain.occSpec` / `vacSpec` (`Hb/Proofs/EntrySpec.lean`), spelled out again by
  `chain_tables` below; `entry_matches_plain` compares with the model's plain calls directly.
* `keyDropEv cfg kid` / `valDropEv cfg vid` = the log entry of dropping that key / value object
  (nothing for element types without drop glue); logs are newest first.
* The only outcome other than the specified one is the `"capacity"` panic (`usize` overflow in
  `reserve(1)`), with the table untouched and the objects owned by the call dropped by unwinding.
* Hypotheses added w.r.t. the informal statement: for the raw builders a caller-supplied hash must
  be the key's hash (their documented contract; `rawLook_wrong_hash_misses` shows it is necessary).
  The robustness theorems (`rustcEntry_no_grow_safe`, `entry_no_fault`) need NO such hypothesis and
  hold for every environment.
-/
import Hb.Proofs.EntrySpec
namespace Hb.C14
open Hb

variable {cfg : Cfg}

/-! ### 1. Occupied ⇔ present -/

/-- Every entry constructor reports Occupied — with the bucket holding exactly the element stored
    under `k` — iff `k` is in the map, Vacant otherwise. `entry`, the raw builders and
    `HashSet::entry` do not touch the table (no `reserve`, whatever the load); `rustc_entry` has run
    `reserve(1)` on the vacant side: same contents and `len`, invariant kept, `growth_left > 0`. -/
theorem entry_occupied_iff_present (hc : CfgOk cfg) {env : Env} {H : Nat → Nat} (hl : Lawful env H)
    (halloc : ∀ j, env.allocOk j = true) (hnd : ∀ c e, env.dropPanics c e = false) (k kid : Nat)
    (w : World) (h : RI cfg H w.t) :
    -- `HashMap::entry`
    (match AL.find w.t.elems k with
     | some e => ∃ idx w', Map.entryLook cfg env k kid w = .ok ((H k, some idx), w') ∧ w'.t = w.t ∧
         w.t.slots[idx]?.join = some e ∧ e.k = k ∧ w'.log = keyDropEv cfg kid ++ w.log
     | none => ∃ w', Map.entryLook cfg env k kid w = .ok ((H k, none), w') ∧ w'.t = w.t ∧
         w'.log = w.log) ∧
    -- `rustc_entry`
    (match AL.find w.t.elems k with
     | some e => ∃ idx w', Map.rustcLook cfg env k kid w = .ok ((H k, some idx), w') ∧ w'.t = w.t ∧
         w.t.slots[idx]?.join = some e ∧ e.k = k ∧ w'.log = keyDropEv cfg kid ++ w.log
     | none =>
       (∃ w', Map.rustcLook cfg env k kid w = .ok ((H k, none), w') ∧ RI cfg H w'.t ∧
         List.Perm w'.t.elems w.t.elems ∧ w'.t.items = w.t.items ∧ 0 < w'.t.gl ∧
         dropsOf w'.log = dropsOf w.log) ∨
       (∃ w', Map.rustcLook cfg env k kid w = .panic "capacity" w' ∧ w'.t = w.t ∧
         w'.log = keyDropEv cfg kid ++ w.log)) ∧
    -- `raw_entry_mut().from_key / from_key_hashed_nocheck / from_hash`
    (∀ (mode : Map.RawMode) (ph : Nat), mode = .fromKey ∨ ph = H k →
      match AL.find w.t.elems k with
      | some e => ∃ idx w', Map.rawLook cfg env mode ph k w = .ok (some idx, w') ∧ w'.t = w.t ∧
          w.t.slots[idx]?.join = some e ∧ e.k = k ∧ w'.log = w.log
      | none => ∃ w', Map.rawLook cfg env mode ph k w = .ok (none, w') ∧ w'.t = w.t ∧
          w'.log = w.log) ∧
    -- `HashSet::entry`
    (∀ e : Elem, e.k = k →
      match AL.find w.t.elems e.k with
      | some x => ∃ idx w', Set.entryFind cfg env e w = .ok (H e.k, some idx, w') ∧ w'.t = w.t ∧
          w.t.slots[idx]?.join = some x ∧ x.k = e.k ∧ w'.log = w.log
      | none => ∃ w', Set.entryFind cfg env e w = .ok (H e.k, none, w') ∧ w'.t = w.t ∧
          w'.log = w.log) :=
  ⟨entryLook_spec hc hl hnd k kid w h.1, rustcLook_spec hc hl halloc hnd k kid w h,
   fun mode ph hph => rawLook_spec hc hl mode ph k hph w h.1,
   fun e _ => setEntryFind_spec hc hl e w h.1⟩

/-- The same as a bare equivalence, for `HashMap::entry`: the look-up answers `some bucket`
    exactly when the key is present. -/
theorem entry_occupied_iff (hc : CfgOk cfg) {env : Env} {H : Nat → Nat} (hl : Lawful env H)
    (hnd : ∀ c e, env.dropPanics c e = false) (k kid : Nat) (w : World) (h : RI cfg H w.t) :
    (∃ hv idx w', Map.entryLook cfg env k kid w = .ok ((hv, some idx), w')) ↔
      AL.find w.t.elems k ≠ none := by
  have hs := entryLook_spec hc hl hnd k kid w h.1
  cases hf : AL.find w.t.elems k with
  | some e =>
    rw [hf] at hs
    obtain ⟨idx, w', hr, _⟩ := hs
    exact ⟨fun _ => by simp, fun _ => ⟨_, idx, w', hr⟩⟩
  | none =>
    rw [hf] at hs
    obtain ⟨w', hr, _⟩ := hs
    refine ⟨?_, fun hne => absurd rfl hne⟩
    rintro ⟨hv, idx, w'', hr'⟩
    rw [hr] at hr'
    cases hr'

/-! ### 2. chains ≡ the plain call sequence -/

/-- The per-chain tables for `Entry` / `RustcEntry` (`occSpec` on a present key whose stored element
    is `old`, `vacSpec` on an absent key with the passed key object `(k, kid)`), spelled out:
    `(returned, map afterwards, destructor events of the chain — newest first)`. -/
theorem chain_tables (cfg : Cfg) (k kid vid v nv : Nat) (old : Elem) (l : AL) :
    -- Occupied
    (Map.EChain.insert vid v).occSpec cfg old l =
      (.elem { old with vid := vid, v := v }, l.setVal old.k vid v, valDropEv cfg old.vid) ∧
    (Map.EChain.orInsert vid v).occSpec cfg old l = (.val old.vid old.v, l, valDropEv cfg vid) ∧
    (Map.EChain.orInsertWithKey vid v).occSpec cfg old l = (.val old.vid old.v, l, valDropEv cfg vid) ∧
    (Map.EChain.andModifyOrInsert nv vid v).occSpec cfg old l =
      (.val old.vid nv, l.setPayload old.k nv, valDropEv cfg vid) ∧
    Map.EChain.key.occSpec cfg old l = (.key old.k old.kid, l, []) ∧
    Map.EChain.drop.occSpec cfg old l = (.none, l, []) ∧
    Map.EChain.occRemove.occSpec cfg old l =
      (.val old.vid old.v, l.erase old.k, keyDropEv cfg old.kid) ∧
    Map.EChain.occRemoveEntry.occSpec cfg old l = (.elem old, l.erase old.k, []) ∧
    (Map.EChain.occInsert vid v).occSpec cfg old l =
      (.val old.vid old.v, l.setVal old.k vid v, []) ∧
    (Map.EChain.occGetMut nv).occSpec cfg old l = (.val old.vid nv, l.setPayload old.k nv, []) ∧
    (Map.EChain.replaceEntryWith true nv).occSpec cfg old l =
      (.entOcc { old with v := nv }, l.setPayload old.k nv, []) ∧
    (Map.EChain.andReplaceEntryWith true nv).occSpec cfg old l =
      (.entOcc { old with v := nv }, l.setPayload old.k nv, []) ∧
    (Map.EChain.replaceEntryWith false nv).occSpec cfg old l =
      (.entVac old.k old.kid, l.erase old.k, keyDropEv cfg old.kid ++ valDropEv cfg old.vid) ∧
    (Map.EChain.andReplaceEntryWith false nv).occSpec cfg old l =
      (.entVac old.k old.kid, l.erase old.k, keyDropEv cfg old.kid ++ valDropEv cfg old.vid) ∧
    -- Vacant
    (Map.EChain.insert vid v).vacSpec cfg k kid l =
      (.elem ⟨k, kid, vid, v⟩, ⟨k, kid, vid, v⟩ :: l, []) ∧
    (Map.EChain.vacInsertEntry vid v).vacSpec cfg k kid l =
      (.elem ⟨k, kid, vid, v⟩, ⟨k, kid, vid, v⟩ :: l, []) ∧
    (Map.EChain.orInsert vid v).vacSpec cfg k kid l = (.val vid v, ⟨k, kid, vid, v⟩ :: l, []) ∧
    (Map.EChain.vacInsert vid v).vacSpec cfg k kid l = (.val vid v, ⟨k, kid, vid, v⟩ :: l, []) ∧
    (Map.EChain.andModifyOrInsert nv vid v).vacSpec cfg k kid l =
      (.val vid v, ⟨k, kid, vid, v⟩ :: l, []) ∧
    (Map.EChain.orInsertWithKey vid v).vacSpec cfg k kid l =
      (.val vid (v + kid), ⟨k, kid, vid, v + kid⟩ :: l, []) ∧
    Map.EChain.key.vacSpec cfg k kid l = (.key k kid, l, keyDropEv cfg kid) ∧
    Map.EChain.drop.vacSpec cfg k kid l = (.none, l, keyDropEv cfg kid) ∧
    Map.EChain.vacIntoKey.vacSpec cfg k kid l = (.key k kid, l, []) ∧
    (Map.EChain.andReplaceEntryWith true nv).vacSpec cfg k kid l = (.entVac k kid, l, keyDropEv cfg kid) ∧
    -- raw entries
    (Map.RawChain.insert kid vid v).occSpec cfg old l =
      (.elem { old with vid := vid, v := v }, l.setVal old.k vid v,
        keyDropEv cfg kid ++ valDropEv cfg old.vid) ∧
    (Map.RawChain.occInsertKey kid).occSpec cfg old l = (.key old.k old.kid, l.setKid old.k kid, []) ∧
    Map.RawChain.occRemove.occSpec cfg old l =
      (.val old.vid old.v, l.erase old.k, keyDropEv cfg old.kid) ∧
    (Map.RawChain.replaceEntryWith false nv).occSpec cfg old l =
      (.entVacRaw, l.erase old.k, keyDropEv cfg old.kid ++ valDropEv cfg old.vid) ∧
    (Map.RawChain.vacInsertHashed kid vid v).vacSpec cfg k l =
      (.elem ⟨k, kid, vid, v⟩, ⟨k, kid, vid, v⟩ :: l, []) :=
  ⟨rfl, rfl, rfl, rfl, rfl, rfl, rfl, rfl, rfl, rfl, rfl, rfl, rfl, rfl, rfl, rfl, rfl, rfl, rfl, rfl,
   rfl, rfl, rfl, rfl, rfl, rfl, rfl, rfl, rfl⟩

/-- `map.entry(key)` + any chain of `EChain`. -/
theorem entry_chain_spec (hc : CfgOk cfg) {env : Env} {H : Nat → Nat} (hl : Lawful env H)
    (halloc : ∀ j, env.allocOk j = true) (hnd : ∀ c e, env.dropPanics c e = false) (k kid : Nat)
    (c : Map.EChain) (w : World) (h : RI cfg H w.t) :
    match AL.find w.t.elems k with
    | some old =>
      ∃ w', Map.entry cfg env k kid c w = .ok ((true, (c.occSpec cfg old w.t.elems).1), w') ∧
        RI cfg H w'.t ∧ List.Perm w'.t.elems (c.occSpec cfg old w.t.elems).2.1 ∧
        w'.log = (c.occSpec cfg old w.t.elems).2.2 ++ keyDropEv cfg kid ++ w.log
    | none =>
      (∃ w', Map.entry cfg env k kid c w = .ok ((false, (c.vacSpec cfg k kid w.t.elems).1), w') ∧
        RI cfg H w'.t ∧ List.Perm w'.t.elems (c.vacSpec cfg k kid w.t.elems).2.1 ∧
        dropsOf w'.log = (c.vacSpec cfg k kid w.t.elems).2.2 ++ dropsOf w.log) ∨
      (∃ e w', c.inserted k kid = some e ∧ Map.entry cfg env k kid c w = .panic "capacity" w' ∧
        w'.t = w.t ∧ w'.log = dropEvs cfg [e] ++ w.log) :=
  Hb.entry_chain_spec hc hl halloc hnd k kid c w h

/-- `map.entry_ref(&key)` + any chain (`refOccSpec` = `occSpec` except that `key()` reports only
    the key value — the stored key, equal to the probe under a lawful `Eq`; `refVacSpec`: the owned key object `(k, newkid)` is created only by the inserting
    chains `insert` / `or_insert` / `and_modify().or_insert()`). -/
theorem entryRef_chain_spec (hc : CfgOk cfg) {env : Env} {H : Nat → Nat} (hl : Lawful env H)
    (halloc : ∀ j, env.allocOk j = true) (hnd : ∀ c e, env.dropPanics c e = false)
    (k newkid : Nat) (c : Map.EChain) (w : World) (h : RI cfg H w.t) :
    match AL.find w.t.elems k with
    | some old =>
      ∃ w', Map.entryRef cfg env k newkid c w =
          .ok ((true, (c.refOccSpec cfg k old w.t.elems).1), w') ∧
        RI cfg H w'.t ∧ List.Perm w'.t.elems (c.refOccSpec cfg k old w.t.elems).2.1 ∧
        w'.log = (c.refOccSpec cfg k old w.t.elems).2.2 ++ w.log
    | none =>
      (∃ w', Map.entryRef cfg env k newkid c w =
          .ok ((false, (c.refVacSpec cfg k newkid w.t.elems).1), w') ∧
        RI cfg H w'.t ∧ List.Perm w'.t.elems (c.refVacSpec cfg k newkid w.t.elems).2.1 ∧
        dropsOf w'.log = (c.refVacSpec cfg k newkid w.t.elems).2.2 ++ dropsOf w.log) ∨
      (∃ e w', c.refInserted k newkid = some e ∧
        Map.entryRef cfg env k newkid c w = .panic "capacity" w' ∧ w'.t = w.t ∧
        w'.log = dropEvs cfg [e] ++ w.log) :=
  Hb.entryRef_chain_spec hc hl halloc hnd k newkid c w h

/-- `map.rustc_entry(key)` + any chain: the same table as `entry`, although the vacant entry
    inserts with `insert_no_grow`. -/
theorem rustcEntry_chain_spec (hc : CfgOk cfg) {env : Env} {H : Nat → Nat} (hl : Lawful env H)
    (halloc : ∀ j, env.allocOk j = true) (hnd : ∀ c e, env.dropPanics c e = false) (k kid : Nat)
    (c : Map.EChain) (w : World) (h : RI cfg H w.t) :
    match AL.find w.t.elems k with
    | some old =>
      ∃ w', Map.rustcEntry cfg env k kid c w = .ok ((true, (c.occSpec cfg old w.t.elems).1), w') ∧
        RI cfg H w'.t ∧ List.Perm w'.t.elems (c.occSpec cfg old w.t.elems).2.1 ∧
        w'.log = (c.occSpec cfg old w.t.elems).2.2 ++ keyDropEv cfg kid ++ w.log
    | none =>
      (∃ w', Map.rustcEntry cfg env k kid c w =
          .ok ((false, (c.vacSpec cfg k kid w.t.elems).1), w') ∧
        RI cfg H w'.t ∧ List.Perm w'.t.elems (c.vacSpec cfg k kid w.t.elems).2.1 ∧
        dropsOf w'.log = (c.vacSpec cfg k kid w.t.elems).2.2 ++ dropsOf w.log) ∨
      (∃ w', Map.rustcEntry cfg env k kid c w = .panic "capacity" w' ∧ w'.t = w.t ∧
        w'.log = valDropEvOpt cfg c.heldVid ++ keyDropEv cfg kid ++ w.log) :=
  Hb.rustcEntry_chain_spec hc hl halloc hnd k kid c w h

/-- `raw_entry_mut()` builder (`from_key` / `from_key_hashed_nocheck` / `from_hash`) + any chain of
    `RawChain` (incl. `insert_key`, `insert_hashed_nocheck` / `insert_with_hasher`). -/
theorem rawEntry_chain_spec (hc : CfgOk cfg) {env : Env} {H : Nat → Nat} (hl : Lawful env H)
    (halloc : ∀ j, env.allocOk j = true) (hnd : ∀ c e, env.dropPanics c e = false)
    (mode : Map.RawMode) (ph k : Nat) (c : Map.RawChain) (hph : mode = .fromKey ∨ ph = H k)
    (hph2 : c.UsesHash → ph = H k) (w : World) (h : RI cfg H w.t) :
    match AL.find w.t.elems k with
    | some old =>
      ∃ w', Map.rawEntry cfg env mode ph k c w = .ok ((true, (c.occSpec cfg old w.t.elems).1), w') ∧
        RI cfg H w'.t ∧ List.Perm w'.t.elems (c.occSpec cfg old w.t.elems).2.1 ∧
        w'.log = (c.occSpec cfg old w.t.elems).2.2 ++ w.log
    | none =>
      (∃ w', Map.rawEntry cfg env mode ph k c w = .ok ((false, (c.vacSpec cfg k w.t.elems).1), w') ∧
        RI cfg H w'.t ∧ List.Perm w'.t.elems (c.vacSpec cfg k w.t.elems).2.1 ∧
        dropsOf w'.log = (c.vacSpec cfg k w.t.elems).2.2 ++ dropsOf w.log) ∨
      (∃ e w', c.inserted k = some e ∧ Map.rawEntry cfg env mode ph k c w = .panic "capacity" w' ∧
        w'.t = w.t ∧ w'.log = dropEvs cfg [e] ++ w.log) :=
  Hb.rawEntry_chain_spec hc hl halloc hnd mode ph k c hph hph2 w h

/-- `HashSet::entry(value)`: `insert()` / `or_insert()` ≡ `HashSet::insert`, `Occupied::remove()` ≡
    `take`; a Vacant entry that is only dropped drops the value it owns and nothing else. -/
theorem set_entry_spec (hc : CfgOk cfg) {env : Env} {H : Nat → Nat} (hl : Lawful env H)
    (halloc : ∀ j, env.allocOk j = true) (hnd : ∀ c e, env.dropPanics c e = false) (e : Elem)
    (w : World) (h : RI cfg H w.t) :
    match AL.find w.t.elems e.k with
    | some x =>
      (∃ w', Set.entryInsert cfg env e w = .ok (x, w') ∧ Set.entryOrInsert cfg env e w = .ok w' ∧
        w'.t = w.t ∧ w'.log = keyDropEv cfg e.kid ++ w.log) ∧
      (∃ w', Set.entryRemove cfg env e w = .ok (some x, w') ∧ RI cfg H w'.t ∧
        List.Perm w'.t.elems (AL.erase w.t.elems e.k) ∧ w'.log = keyDropEv cfg e.kid ++ w.log)
    | none =>
      ((∃ w', Set.entryInsert cfg env e w = .ok (e, w') ∧ Set.entryOrInsert cfg env e w = .ok w' ∧
          RI cfg H w'.t ∧ List.Perm w'.t.elems (e :: w.t.elems) ∧
          dropsOf w'.log = dropsOf w.log) ∨
       (∃ w', Set.entryInsert cfg env e w = .panic "capacity" w' ∧
          Set.entryOrInsert cfg env e w = .panic "capacity" w' ∧ w'.t = w.t ∧
          w'.log = dropEvs cfg [e] ++ w.log)) ∧
      (∃ w', Set.entryRemove cfg env e w = .ok (none, w') ∧ w'.t = w.t ∧
        w'.log = keyDropEv cfg e.kid ++ w.log) :=
  Hb.set_entry_spec hc hl halloc hnd e w h

/-- Entry paths against the model's own plain calls, run from the same state: same resulting
    contents (same key and value objects), Occupied ⇔ the plain call found the key, same values
    handed back. -/
theorem entry_matches_plain (hc : CfgOk cfg) {env : Env} {H : Nat → Nat} (hl : Lawful env H)
    (halloc : ∀ j, env.allocOk j = true) (hnd : ∀ c e, env.dropPanics c e = false) (k kid : Nat)
    (w : World) (h : RI cfg H w.t) :
    (∀ vid v b out w1 r w2, Map.entry cfg env k kid (.insert vid v) w = .ok ((b, out), w1) →
      Map.insert cfg env ⟨k, kid, vid, v⟩ w = .ok (r, w2) →
      List.Perm w1.t.elems w2.t.elems ∧ b = r.isSome ∧
        dropsOf w1.log = valDropEvOpt cfg (r.map (·.1)) ++ dropsOf w2.log) ∧
    (∀ b out w1 r w2, Map.entry cfg env k kid .occRemove w = .ok ((b, out), w1) →
      Map.remove cfg env k w = .ok (r, w2) →
      List.Perm w1.t.elems w2.t.elems ∧ b = r.isSome ∧ ∀ x, r = some x → out = .val x.1 x.2) ∧
    (∀ b out w1 r w2, Map.entry cfg env k kid .occRemoveEntry w = .ok ((b, out), w1) →
      Map.removeEntry cfg env k w = .ok (r, w2) →
      List.Perm w1.t.elems w2.t.elems ∧ b = r.isSome ∧ ∀ x, r = some x → out = .elem x) ∧
    (∀ nv b out w1 r w2, Map.entry cfg env k kid (.occGetMut nv) w = .ok ((b, out), w1) →
      Map.getMut cfg env k nv w = .ok (r, w2) →
      List.Perm w1.t.elems w2.t.elems ∧ b = r.isSome ∧ ∀ x, r = some x → out = .val x.vid x.v) :=
  Hb.entry_matches_plain hc hl halloc hnd k kid w h

/-! ### 3. a Vacant entry dropped unused -/

/-- Creating a Vacant entry and dropping it unused (plain drop, `key()`, `into_key()`):
    `entry` / `entry_ref` / raw entries leave the WHOLE table unchanged; `rustc_entry` leaves contents
    and `len()` unchanged while the capacity may have grown (its `reserve(1)`). -/
theorem vacant_drop_noop (hc : CfgOk cfg) {env : Env} {H : Nat → Nat} (hl : Lawful env H)
    (halloc : ∀ j, env.allocOk j = true) (hnd : ∀ c e, env.dropPanics c e = false) (k kid : Nat)
    (c : Map.EChain) (w : World) (h : RI cfg H w.t) (habs : AL.find w.t.elems k = none)
    (hu : c = .drop ∨ c = .key ∨ c = .vacIntoKey) :
    (∃ out w', Map.entry cfg env k kid c w = .ok ((false, out), w') ∧ w'.t = w.t) ∧
    (∃ out w', Map.entryRef cfg env k kid c w = .ok ((false, out), w') ∧ w'.t = w.t ∧
      w'.log = w.log) ∧
    (∀ (mode : Map.RawMode) (ph : Nat), mode = .fromKey ∨ ph = H k →
      ∃ w', Map.rawEntry cfg env mode ph k .drop w = .ok ((false, .none), w') ∧ w'.t = w.t ∧
        w'.log = w.log) ∧
    ((∃ out w', Map.rustcEntry cfg env k kid c w = .ok ((false, out), w') ∧
        List.Perm w'.t.elems w.t.elems ∧ w'.t.items = w.t.items ∧ RI cfg H w'.t) ∨
     (∃ w', Map.rustcEntry cfg env k kid c w = .panic "capacity" w' ∧ w'.t = w.t)) :=
  ⟨vacant_drop_noop_entry hc hl hnd k kid c w h.1 habs hu,
   vacant_drop_noop_entryRef hc hl k kid c w h.1 habs hu,
   fun mode ph hph => vacant_drop_noop_rawEntry hc hl mode ph k hph w h.1 habs,
   vacant_drop_noop_rustcEntry hc hl halloc hnd k kid c w h habs hu⟩

/-! ### 4./5. no spare capacity is ever assumed: robustness for EVERY environment -/

/-- `rustc_entry` + chain never reaches a fault — in particular when `growth_left = 0` at the moment
    the entry is created: its vacant entry's `insert_no_grow` runs after `rustc_entry`'s own
    `reserve(1)`, so it neither underflows `growth_left` nor overwrites a live slot. Arbitrary
    callbacks / allocator; the table invariant holds after return and after unwinding. -/
theorem rustcEntry_no_grow_safe (hc : CfgOk cfg) (hg : GuardRuns cfg) (env : Env) (k kid : Nat)
    (c : Map.EChain) (w : World) (h : TInv cfg w.t) :
    match Map.rustcEntry cfg env k kid c w with
    | .ok (_, w') => TInv cfg w'.t
    | .panic _ w' => TInv cfg w'.t
    | .abort => True
    | .fault _ => False :=
  Hb.rustcEntry_no_grow_safe hc hg env k kid c w h

/-- … and `insert_no_grow` really relies on it: what `rustc_entry` hands to its Vacant entry has
    `growth_left > 0`, the same contents and the same `len`. -/
theorem rustcEntry_vacant_has_room (hc : CfgOk cfg) (env : Env) (k kid : Nat) (w : World)
    (h : TInv cfg w.t) :
    match Map.rustcLook cfg env k kid w with
    | .ok ((_, some idx), w') => w'.t = w.t ∧ ∃ e, w.t.slots[idx]?.join = some e
    | .ok ((_, none), w') =>
      TInv cfg w'.t ∧ 0 < w'.t.gl ∧ List.Perm w'.t.elems w.t.elems ∧ w'.t.items = w.t.items
    | .panic _ w' => GuardRuns cfg → TInv cfg w'.t
    | .abort => True
    | .fault _ => False :=
  en_rustcLook_total hc env k kid w h

/-- `entry`, `entry_ref`, `raw_entry_mut` (any caller-supplied hash), `try_insert`, `extend`,
    `from_iter`: never a fault, invariant kept on return and on unwinding, for every environment and
    every table satisfying the structural invariant (`en_Safe cfg proj r` = "`r` is not `.fault`, and
    `TInv` holds for the world of `.ok` / `.panic`"). -/
theorem entry_no_fault (hc : CfgOk cfg) (hg : GuardRuns cfg) (env : Env) (w : World)
    (h : TInv cfg w.t) :
    (∀ k kid c, match Map.entry cfg env k kid c w with
      | .ok (_, w') => TInv cfg w'.t | .panic _ w' => TInv cfg w'.t | .abort => True
      | .fault _ => False) ∧
    (∀ k newkid c, match Map.entryRef cfg env k newkid c w with
      | .ok (_, w') => TInv cfg w'.t | .panic _ w' => TInv cfg w'.t | .abort => True
      | .fault _ => False) ∧
    (∀ mode ph k c, match Map.rawEntry cfg env mode ph k c w with
      | .ok (_, w') => TInv cfg w'.t | .panic _ w' => TInv cfg w'.t | .abort => True
      | .fault _ => False) ∧
    (∀ e, match Map.tryInsert cfg env e w with
      | .ok (_, w') => TInv cfg w'.t | .panic _ w' => TInv cfg w'.t | .abort => True
      | .fault _ => False) ∧
    (∀ items, match Map.extend cfg env items w with
      | .ok w' => TInv cfg w'.t | .panic _ w' => TInv cfg w'.t | .abort => True
      | .fault _ => False) ∧
    (∀ items, match Map.fromIter cfg env items w with
      | .ok w' => TInv cfg w'.t | .panic _ w' => TInv cfg w'.t | .abort => True
      | .fault _ => False) := by
  obtain ⟨h1, h2, h3, _, h5, h6, h7⟩ := Hb.entry_no_fault hc hg env w h
  refine ⟨fun k kid c => ?_, fun k newkid c => ?_, fun mode ph k c => ?_, fun e => ?_,
    fun items => ?_, fun items => ?_⟩
  · have hs := h1 k kid c
    split <;> rename_i heq <;> rw [heq] at hs <;> exact hs
  · have hs := h2 k newkid c
    split <;> rename_i heq <;> rw [heq] at hs <;> exact hs
  · have hs := h3 mode ph k c
    split <;> rename_i heq <;> rw [heq] at hs <;> exact hs
  · have hs := h5 e
    split <;> rename_i heq <;> rw [heq] at hs <;> exact hs
  · have hs := h6 items
    split <;> rename_i heq <;> rw [heq] at hs <;> exact hs
  · have hs := h7 items
    split <;> rename_i heq <;> rw [heq] at hs <;> exact hs

/-! ### 6./7. `extend`, `from_iter`, `try_insert` -/

/-- `extend(items)` = folding `insert` over the items (`AL.insertAll`: for duplicate keys the last
    value wins and the first key object is kept; `AL.insertDrops`: the spare key objects and replaced
    values that get dropped). The up-front reservation `extendReserve` affects the capacity only. -/
theorem extend_spec (hc : CfgOk cfg) {env : Env} {H : Nat → Nat} (hl : Lawful env H)
    (halloc : ∀ j, env.allocOk j = true) (hnd : ∀ c e, env.dropPanics c e = false)
    (items : List Elem) (w : World) (h : RI cfg H w.t) :
    Map.extend cfg env items w =
      ((Hb.reserve cfg env (extendReserve (w.t.items == 0) items.length) w).onPanic
        (Map.dropAllQuiet cfg items)).bind (fun w1 => Map.insertMany cfg env items w1) ∧
    ((∃ w', Map.extend cfg env items w = .ok w' ∧ RI cfg H w'.t ∧
      List.Perm w'.t.elems (AL.insertAll w.t.elems items) ∧
      dropsOf w'.log = AL.insertDrops cfg w.t.elems items ++ dropsOf w.log) ∨
    (∃ w', Map.extend cfg env items w = .panic "capacity" w' ∧ RI cfg H w'.t)) :=
  ⟨en_extend_eq env items w, Hb.extend_spec hc hl halloc hnd items w h⟩

/-- The fold itself: one `insert` per item, in order. -/
theorem insertAll_is_fold (l : AL) (items : List Elem) :
    AL.insertAll l items = items.foldl (fun l e =>
      match l.find e.k with
      | some _ => l.setVal e.k e.vid e.v
      | none => e :: l) l := rfl

/-- `*m = HashMap::from_iter(items)`: the previous map is dropped (each element once), the result is
    the fold of `insert` from the empty map. -/
theorem fromIter_spec (hc : CfgOk cfg) {env : Env} {H : Nat → Nat} (hl : Lawful env H)
    (halloc : ∀ j, env.allocOk j = true) (hnd : ∀ c e, env.dropPanics c e = false)
    (items : List Elem) (w : World) (h : RI cfg H w.t) :
    (∃ w', Map.fromIter cfg env items w = .ok w' ∧ RI cfg H w'.t ∧
      List.Perm w'.t.elems (AL.insertAll [] items) ∧
      dropsOf w'.log = AL.insertDrops cfg [] items ++ dropEvs cfg w.t.elems.reverse ++ dropsOf w.log) ∨
    (∃ w', Map.fromIter cfg env items w = .panic "capacity" w' ∧ w'.t = Raw.new cfg.W) :=
  Hb.fromIter_spec hc hl halloc hnd items w h

/-- `try_insert(k, v)`: `Err` carrying the current entry when the key is present (map unchanged,
    the passed key object dropped, the value handed back), else the pair is inserted. -/
theorem tryInsert_spec (hc : CfgOk cfg) {env : Env} {H : Nat → Nat} (hl : Lawful env H)
    (halloc : ∀ j, env.allocOk j = true) (hnd : ∀ c e, env.dropPanics c e = false) (e : Elem)
    (w : World) (h : RI cfg H w.t) :
    match AL.find w.t.elems e.k with
    | some cur =>
      ∃ w', Map.tryInsert cfg env e w = .ok ((false, .elem cur), w') ∧ w'.t = w.t ∧
        w'.log = keyDropEv cfg e.kid ++ w.log
    | none =>
      (∃ w', Map.tryInsert cfg env e w = .ok ((true, .elem e), w') ∧ RI cfg H w'.t ∧
        List.Perm w'.t.elems (e :: w.t.elems) ∧ dropsOf w'.log = dropsOf w.log) ∨
      (∃ w', Map.tryInsert cfg env e w = .panic "capacity" w' ∧ w'.t = w.t ∧
        w'.log = dropEvs cfg [e] ++ w.log) :=
  Hb.tryInsert_spec hc hl halloc hnd e w h

/-! ### 8. non-vacuity: a FULL table (4 buckets, 3 elements, `growth_left = 0`), SSE2 scanner -/

/-- The hypotheses are satisfiable at full load: `enTable` satisfies the (executable) invariant,
    `glEnv` is lawful for `H k = k`. -/
theorem full_table_is_lawful :
    invLB enCfg (fun k => k) enTable = true ∧ enTable.gl = 0 ∧ enTable.items = 3 ∧
    Lawful glEnv (fun k => k) := ⟨enTable_full.1, enTable_full.2.1, enTable_full.2.2, glEnv_lawful⟩

theorem entry_insert_at_full_load :
    (match Map.entry enCfg glEnv 5 15 (.insert 25 500) { t := enTable } with
     | .ok ((b, .elem e), w') =>
       !b && e == ⟨5, 15, 25, 500⟩ && w'.t.items == 4 && w'.t.buckets == 8 &&
         invLB enCfg (fun k => k) w'.t && dropsOf w'.log == []
     | _ => false) = true := entry_insert_full_example

theorem rustcEntry_vacant_insert_at_full_load :
    (match Map.rustcEntry enCfg glEnv 5 15 (.vacInsert 25 500) { t := enTable } with
     | .ok ((b, .val vid v), w') =>
       !b && vid == 25 && v == 500 && w'.t.items == 4 && w'.t.buckets == 8 &&
         invLB enCfg (fun k => k) w'.t && dropsOf w'.log == []
     | _ => false) = true := rustcEntry_vacInsert_full_example

theorem vacant_drop_at_full_load :
    (match Map.rustcEntry enCfg glEnv 5 15 .drop { t := enTable } with
     | .ok ((b, .none), w') =>
       !b && w'.t.items == 3 && w'.t.buckets == 8 && w'.t.gl == 4 && w'.t.elems == enTable.elems &&
         dropsOf w'.log == [Ev.dropK 15]
     | _ => false) = true ∧
    (match Map.entry enCfg glEnv 5 15 .drop { t := enTable } with
     | .ok ((b, .none), w') =>
       !b && w'.t.items == 3 && w'.t.gl == 0 && w'.t.mask == 3 && w'.t.ctrl == enTable.ctrl &&
         w'.t.slots == enTable.slots && w'.log == [Ev.dropK 15]
     | _ => false) = true := vacant_drop_full_example

theorem raw_from_hash_insert_key_at_full_load :
    (match Map.rawEntry enCfg glEnv .fromHash 2 2 (.occInsertKey 99) { t := enTable } with
     | .ok ((b, .key k kid), w') =>
       b && k == 2 && kid == 12 && w'.t.slots[2]? == some (some ⟨2, 99, 22, 200⟩) &&
         w'.t.items == 3 && w'.t.gl == 0 && w'.t.buckets == 4 && invLB enCfg (fun k => k) w'.t &&
         w'.log == []
     | _ => false) = true := rawEntry_insertKey_full_example

/-- Tombstone-saturated table (16 buckets, 6 elements, 8 tombstones, `growth_left = 0`): `entry` +
    `insert` reuses a tombstone without growing; `rustc_entry` reserves (rehash in place) and then
    inserts with `insert_no_grow`; an Occupied `rustc_entry` never reserves. -/
theorem entry_at_tombstone_saturated_table :
    invLB f1CfgFixed (fun k => k) f1Table = true ∧ f1Table.gl = 0 ∧
    (match Map.entry f1CfgFixed glEnv 7 15 (.insert 25 500) { t := f1Table } with
     | .ok ((b, .elem e), w') =>
       !b && e == ⟨7, 15, 25, 500⟩ && w'.t.items == 7 && w'.t.buckets == 16 && w'.t.gl == 0 &&
         invLB f1CfgFixed (fun k => k) w'.t && w'.hc == 1
     | _ => false) = true ∧
    (match Map.rustcEntry f1CfgFixed glEnv 7 15 (.insert 25 500) { t := f1Table } with
     | .ok ((b, .elem e), w') =>
       !b && e == ⟨7, 15, 25, 500⟩ && w'.t.items == 7 && w'.t.buckets == 16 && w'.t.gl == 7 &&
         invLB f1CfgFixed (fun k => k) w'.t && w'.hc == 7
     | _ => false) = true ∧
    (match Map.rustcEntry f1CfgFixed glEnv 3 15 .occRemove { t := f1Table } with
     | .ok ((b, .val vid v), w') =>
       b && vid == 3 && v == 3 && w'.t.items == 5 && invLB f1CfgFixed (fun k => k) w'.t && w'.hc == 1
     | _ => false) = true := entry_tombstone_saturated_example

/-- The unallocated singleton. -/
theorem entry_on_unallocated_singleton :
    (match Map.entry enCfg glEnv 5 15 (.orInsert 25 500) { t := Raw.new 16 } with
     | .ok ((b, .val vid v), w') =>
       !b && vid == 25 && v == 500 && w'.t.items == 1 && w'.t.buckets == 4 &&
         invLB enCfg (fun k => k) w'.t
     | _ => false) = true ∧
    (match Map.rustcEntry enCfg glEnv 5 15 (.insert 25 500) { t := Raw.new 16 } with
     | .ok ((b, .elem e), w') =>
       !b && e == ⟨5, 15, 25, 500⟩ && w'.t.items == 1 && invLB enCfg (fun k => k) w'.t
     | _ => false) = true ∧
    (match Map.entry enCfg glEnv 5 15 .drop { t := Raw.new 16 } with
     | .ok ((b, .none), w') => !b && w'.t.items == 0 && w'.t.mask == 0 && !w'.t.alloc
     | _ => false) = true := entry_singleton_example

/-- Counterexample showing that the hash hypothesis of the raw builders cannot be dropped: with a
    hash that is not the key's, `from_hash` reports Vacant for the present key 2. -/
theorem rawLook_wrong_hash_misses :
    (match Map.rawLook enCfg glEnv .fromHash (2 ^ 57) 2 { t := enTable } with
     | .ok (none, _) => true
     | _ => false) = true ∧
    (match Map.rawLook enCfg glEnv .fromHash 2 2 { t := enTable } with
     | .ok (some 2, _) => true
     | _ => false) = true ∧
    AL.find enTable.elems 2 = some ⟨2, 12, 22, 200⟩ := Hb.rawLook_wrong_hash_misses

#print axioms entry_occupied_iff_present
#print axioms entry_occupied_iff
#print axioms chain_tables
#print axioms entry_chain_spec
#print axioms entryRef_chain_spec
#print axioms rustcEntry_chain_spec
#print axioms rawEntry_chain_spec
#print axioms set_entry_spec
#print axioms entry_matches_plain
#print axioms vacant_drop_noop
#print axioms rustcEntry_no_grow_safe
#print axioms rustcEntry_vacant_has_room
#print axioms entry_no_fault
#print axioms extend_spec
#print axioms insertAll_is_fold
#print axioms fromIter_spec
#print axioms tryInsert_spec
#print axioms full_table_is_lawful
#print axioms entry_insert_at_full_load
#print axioms rustcEntry_vacant_insert_at_full_load
#print axioms vacant_drop_at_full_load
#print axioms raw_from_hash_insert_key_at_full_load
#print axioms entry_at_tombstone_saturated_table
#print axioms entry_on_unallocated_singleton
#print axioms rawLook_wrong_hash_misses
end Hb.C14
