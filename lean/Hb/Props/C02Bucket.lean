/-
C02 / C09 / C15 — the `Bucket<T>` POINTER encoding behind the bucket indices of the model.

The table model (`Hb/Model/Raw.lean`, `Iter.lean`) and all of `Hb.C02`, `Hb.C09`, `Hb.C15` speak about
bucket INDICES.  The real code turns an index into a `Bucket<T>` pointer (`Bucket::from_base_index`), moves
it (`Bucket::next_n`, the `data` pointer of `RawIterRange`), dereferences it (`Bucket::as_ptr`) and turns
it back (`Bucket::to_base_index`, `RawTable::bucket_index`) — with TWO encodings: a pointer one past the
element, growing downwards from the control bytes, for a sized `T`; the pseudo-pointer `index + 1` for a
zero-sized `T`.  This file restates, per clause, what `Hb/Proofs/BucketPtrSpec.lean` proves about the model
of that encoding over abstract addresses (`Hb/Model/BucketPtr.lean`), for EVERY element size (zero and
non-zero), every base address and every index.  The definitions of the model are re-generated from the
source text by tie T1 (`Hb/Proofs/GenEq.lean`: `gen_Bucket_from_base_index_eq`, `gen_Bucket_to_base_index_eq`,
`gen_Bucket_as_ptr_eq`, `gen_Bucket_next_n_eq`, `gen_RawTableInner_bucket_ptr_eq`, `gen_RawTable_bucket_index_eq`,
`gen_RawTable_into_allocation_start_eq`, `gen_RawIterRange_{new,next_impl,fold_impl,split_tail,clone}_eq`,
`gen_RawIter_clone_eq`), so an edit of that arithmetic breaks a proof obligation.

Side conditions (`Fits c base mask : (mask + 1) * size ≤ base`, `index ≤ mask`) are the ones the safety
comments of `Bucket::from_base_index` / `Bucket::next_n` / `RawTable::bucket` state: `base` is `data_end()`
of a table whose data part lies in one allocation, and `index <= bucket_mask`.  For a valid allocated table
they follow from the layout theorem `Hb.C02.layout_regions` (see `element_addresses_in_block`).

Not expressible here: provenance, the `NonNull` / `*mut` distinction, wrap-around of `usize` (every theorem
is about in-range addresses; `bucket_pointer_is_valid_address` gives the range).
-/
import Hb.Proofs.BucketPtrSpec
import Hb.Props.C02
namespace Hb.C02B
open Hb Hb.BucketPtr

/-! ### C02 — "reads or writes outside the table's own allocation … hands out a reference to a slot that
does not hold a live element" -/

/-- C02, "hands out a reference to a slot that does not hold a live element": the pointer handed out for
    index `i` denotes bucket `i` and no other — `bucket_index(bucket(i)) = i`, for both encodings.  (The index
    model proves that `i` is a live slot; this is the step from the index to the pointer and back.) -/
theorem bucket_round_trip (c : BCfg) {ctrl mask i : Nat} (hf : Fits c (dataEnd ctrl) mask) (hi : i ≤ mask) :
    bucketIndex c ctrl (bucket c ctrl i) = i :=
  bucketIndex_bucket c hf hi

/-- C02: distinct indices give distinct `Bucket` pointers — also for a zero-sized `T`. -/
theorem bucket_injective (c : BCfg) {ctrl mask i j : Nat} (hf : Fits c (dataEnd ctrl) mask)
    (hi : i ≤ mask) (hj : j ≤ mask) (h : bucket c ctrl i = bucket c ctrl j) : i = j :=
  fromBaseIndex_injective c hf hi hj h

/-- C02, "reads or writes outside the table's own allocation": for a sized `T` the element of bucket
    `i ≤ mask` occupies `[as_ptr, as_ptr + size)`, which lies inside the data part
    `[data_end - buckets * size, data_end)`, ends at the `Bucket` pointer, and the regions of two different
    buckets are disjoint (exactly `size` apart for neighbours). -/
theorem element_region_inside_data_part {c : BCfg} (hs : 0 < c.size) {ctrl mask : Nat}
    (hf : Fits c (dataEnd ctrl) mask) :
    (∀ i, i ≤ mask →
      dataEnd ctrl - (mask + 1) * c.size ≤ asPtr c (bucket c ctrl i) ∧
      asPtr c (bucket c ctrl i) + c.size = bucket c ctrl i ∧ bucket c ctrl i ≤ dataEnd ctrl) ∧
    (∀ i j, i < j → j ≤ mask → asPtr c (bucket c ctrl j) + c.size ≤ asPtr c (bucket c ctrl i)) ∧
    (∀ i, i + 1 ≤ mask → asPtr c (bucket c ctrl (i + 1)) + c.size = asPtr c (bucket c ctrl i)) :=
  ⟨fun _ hi => asPtr_region hs hf hi, fun _ _ hij hj => asPtr_disjoint hs hf hij hj,
   fun _ hi => asPtr_succ hs hf hi⟩

/-- C02: the pointers are valid non-null `usize` addresses (`NonNull::new_unchecked`; `index + 1` does not
    overflow for a zero-sized `T`). -/
theorem bucket_pointer_is_valid_address (c : BCfg) {bits ctrl mask i : Nat} (hf : FitsStrict c (dataEnd ctrl) mask)
    (hb : dataEnd ctrl < 2 ^ bits) (hm : mask < 2 ^ bits - 1) (hi : i ≤ mask) :
    0 < bucket c ctrl i ∧ bucket c ctrl i < 2 ^ bits :=
  ⟨fromBaseIndex_pos c hf hi, fromBaseIndex_lt c hb hm hi⟩

/-- C02: `bucket_ptr(i, size_of::<T>())` (the type-erased accessor used by `drop_elements`-style loops,
    `rehash_in_place`, `resize_inner`) is the address of the same element as `bucket(i).as_ptr()`. -/
theorem bucket_ptr_is_element_address {c : BCfg} (hs : 0 < c.size) (ctrl i : Nat) :
    bucketPtr ctrl i c.size = asPtr c (bucket c ctrl i) :=
  bucketPtr_eq_asPtr hs ctrl i

/-- C02, connection with the layout theorem `Hb.C02.layout_regions`: in the block (starting at address
    `start`) of any allocated valid table with a sized element type, the element of every bucket `i` is at
    `start + (ctrl_offset - (i + 1) * size)` — the region `layout_regions` proves to be inside the block,
    disjoint from the others and aligned — and the hypotheses `Fits` of the theorems above hold. -/
theorem element_addresses_in_block {cfg : Cfg} (hc : CfgOk cfg) {a : Nat} (hal : cfg.align = 2 ^ a)
    (hs : 0 < cfg.size) {t : Raw} (h : TInv cfg t) (ha : t.alloc = true) (start : Nat) :
    ∃ l, calculateLayoutFor cfg.bits cfg.W cfg.size (ctrlAlignOf cfg) t.buckets = some l ∧
      Fits ⟨cfg.size, cfg.align⟩ (dataEnd (start + l.ctrlOffset)) t.mask ∧
      ∀ i, i < t.buckets →
        asPtr ⟨cfg.size, cfg.align⟩ (bucket ⟨cfg.size, cfg.align⟩ (start + l.ctrlOffset) i)
          = start + (l.ctrlOffset - (i + 1) * cfg.size) ∧
        start ≤ asPtr ⟨cfg.size, cfg.align⟩ (bucket ⟨cfg.size, cfg.align⟩ (start + l.ctrlOffset) i) := by
  obtain ⟨l, hl⟩ := Option.isSome_iff_exists.1 (h.2 ha)
  obtain ⟨hpow, _⟩ := hs_ctrlAlign_ok hc hal
  have hin := elem_region_inside _ _ _ _ _ l hpow hl
  refine ⟨l, hl, ?_, fun i hi => ?_⟩
  · have := (hin t.mask (by unfold Raw.buckets; omega)).1
    unfold Fits dataEnd; simp only; omega
  · have h1 := (hin i hi).1
    rw [bucket, asPtr_fromBaseIndex_sized (c := ⟨cfg.size, cfg.align⟩) hs]
    unfold dataEnd; simp only
    omega

/-- C02 (`into_allocation`, used by `into_iter`): the block handed back to the allocator starts
    `ctrl_offset` bytes below the control bytes; that is at or BELOW the lowest element (leading padding), so
    computing it from the number of buckets (seeded change C02-c) frees a pointer inside the block. -/
theorem allocation_start_below_elements (c : BCfg) {ctrl ctrlOffset buckets : Nat} (h : buckets * c.size ≤ ctrlOffset) :
    allocStart ctrl ctrlOffset ≤ dataStart c ctrl buckets :=
  allocStart_le_dataStart c h

/-! ### C09 — "yield every stored element exactly once" -/

/-- C09: the pointer state of `RawIterRange` (`data`, and `next_ctrl` as a group number) REFINES the index
    state of the model iterator `Hb.RawIterRange`: it is established by `RawTableInner::iter`, preserved by
    every `next_impl` (any number of reloads), and the index `i` the model yields is the index of the `Bucket`
    the real code hands out (`self.data.next_n(bit)` = `from_base_index(base, i)`).  With
    `Hb.C09.next_yields_each_once` (the indices are the full buckets, each once) this gives "every stored
    element exactly once" for the POINTERS, both encodings. -/
theorem iterator_pointer_refines_index (c : BCfg) (ctrl : Nat) (cfg : Cfg) (t : Raw) :
    (∀ it, RawIter.new cfg t = .ok it → Refines c (dataEnd ctrl) cfg.W (RangePtr.start c ctrl) it.range) ∧
    (∀ (check : Bool) (fuel : Nat) (p : RangePtr) (r r' : Hb.RawIterRange) (o : Option Nat),
      Refines c (dataEnd ctrl) cfg.W p r → Hb.RawIterRange.nextImpl cfg t check fuel r = .ok (o, r') →
      ∃ k, Refines c (dataEnd ctrl) cfg.W (RangePtr.advanceGroups c cfg.W k p) r' ∧
        ∀ i, o = some i → ∃ bit, i = r'.base + bit ∧
          (RangePtr.advanceGroups c cfg.W k p).yieldAt c bit = bucket c ctrl i) :=
  ⟨fun _ h => refines_iter c ctrl cfg t h,
   fun check fuel p r r' o hR h => refines_nextImpl c (dataEnd ctrl) cfg t check fuel p r r' o hR h⟩

/-- C09: in closed form — after `g` reloads the data pointer is the bucket of index `g * WIDTH`, and the
    bucket yielded for bit `bit` has `bucket_index` `g * WIDTH + bit`. -/
theorem iterator_yields_bucket_of_index (c : BCfg) {ctrl mask W g bit : Nat} (hf : Fits c (dataEnd ctrl) mask)
    (hi : g * W + bit ≤ mask) :
    (RangePtr.advanceGroups c W g (RangePtr.start c ctrl)).data = bucket c ctrl (g * W) ∧
    (RangePtr.advanceGroups c W g (RangePtr.start c ctrl)).yieldAt c bit = bucket c ctrl (g * W + bit) ∧
    bucketIndex c ctrl ((RangePtr.advanceGroups c W g (RangePtr.start c ctrl)).yieldAt c bit) = g * W + bit :=
  ⟨advanceGroups_start_data c ctrl W g, yieldAt_start c ctrl W g bit, bucketIndex_yieldAt c hf hi⟩

/-- C09: the lemma behind it — stepping a bucket pointer by `k` is the bucket of index `i + k`, for BOTH
    encodings (the seeded changes C01-e and C06-e break exactly this for a zero-sized `T`). -/
theorem next_n_is_index_addition (c : BCfg) (ctrl i k : Nat) :
    nextN c (bucket c ctrl i) k = bucket c ctrl (i + k) :=
  nextN_fromBaseIndex c (dataEnd ctrl) i k

/-- C09: distinct yielded indices are distinct yielded pointers: a duplicate-free list of in-range indices
    (e.g. `t.fullList`, `Hb.C09.next_yields_each_once`) maps to a duplicate-free list of `Bucket`s. -/
theorem yielded_buckets_distinct (c : BCfg) {ctrl mask : Nat} (hf : Fits c (dataEnd ctrl) mask) :
    ∀ (l : List Nat), l.Nodup → (∀ i ∈ l, i ≤ mask) → (l.map (bucket c ctrl)).Nodup := by
  intro l
  induction l with
  | nil => intro _ _; exact List.nodup_nil
  | cons x xs ih =>
    intro hnd hle
    rw [List.nodup_cons] at hnd
    rw [List.map_cons, List.nodup_cons]
    refine ⟨?_, ih hnd.2 (fun i hi => hle i (List.mem_cons_of_mem _ hi))⟩
    intro hmem
    obtain ⟨y, hy, hxy⟩ := List.mem_map.1 hmem
    have := bucket_injective c hf (hle y (List.mem_cons_of_mem _ hy)) (hle x List.mem_cons_self) hxy
    exact hnd.1 (this ▸ hy)

/-- C09 ("A cloned iterator continues independently from the same position") and `split` (C19): `clone`
    copies the pointer state unchanged, the tail of `split` starts `1 + mid / WIDTH` groups further with the
    matching data pointer; both keep the refinement.  A copy re-built from `next_ctrl` with the old `data`
    (seeded change C09-d) does NOT: its data pointer is one group too early. -/
theorem clone_and_split_keep_position (c : BCfg) (base : Nat) (cfg : Cfg) (t : Raw) (hW : 0 < cfg.W)
    {p : RangePtr} {r : Hb.RawIterRange} (hR : Refines c base cfg.W p r) :
    Refines c base cfg.W p.cloneRaw r ∧ p.cloneRaw = p ∧
    (∀ r1 tail, Hb.RawIterRange.split cfg t r = .ok (r1, some tail) →
      Refines c base cfg.W p r1 ∧
      Refines c base cfg.W (p.split c cfg.W ((r.end_ - r.nextCtrl) / 2 / cfg.W * cfg.W)) tail) ∧
    (∀ mask, Fits c base mask → (p.groupIdx + 1) * cfg.W ≤ mask → ¬ RangeInv c base cfg.W p.cloneReload) :=
  ⟨refines_cloneRaw hR, rfl, fun _ _ h => refines_split c base cfg t hW hR h,
   fun _ hf hin => rangeInv_cloneReload_broken hR.rangeInv hW hf hin⟩

/-! ### C15 — "No two returned references ever point to the same entry" -/

/-- C15: comparing `Bucket` pointers (`prev.ptr == cur.ptr`, the duplicate check of `get_many_mut`) is
    bucket identity for EVERY element size … -/
theorem bucket_ptr_eq_iff (c : BCfg) {ctrl mask i j : Nat} (hf : Fits c (dataEnd ctrl) mask)
    (hi : i ≤ mask) (hj : j ≤ mask) : bucket c ctrl i = bucket c ctrl j ↔ i = j :=
  ⟨bucket_injective c hf hi hj, fun h => h ▸ rfl⟩

/-- … while comparing ELEMENT addresses (`as_ptr`) is bucket identity exactly for a sized `T`: for a
    zero-sized `T` every bucket has the same dangling address (defect F2, `Hb.C15.zst_defect_witness`:
    0.15.2's `get_many_mut` compared these). -/
theorem element_address_eq_iff (c : BCfg) {ctrl mask i j : Nat} (hf : Fits c (dataEnd ctrl) mask)
    (hi : i ≤ mask) (hj : j ≤ mask) :
    (0 < c.size → (asPtr c (bucket c ctrl i) = asPtr c (bucket c ctrl j) ↔ i = j)) ∧
    (c.size = 0 → asPtr c (bucket c ctrl i) = asPtr c (bucket c ctrl j) ∧
      asPtr c (bucket c ctrl i) = danglingAddr c) :=
  ⟨fun hs => ⟨asPtr_injective_sized hs hf hi hj, fun h => h ▸ rfl⟩,
   fun hz => ⟨(asPtr_zst_collides hz (dataEnd ctrl) i j).1, asPtr_zst hz _⟩⟩

/-! ### Examples (closed instances, checked by evaluation) -/

-- `T = u64` (size 8), control bytes at address 4096: bucket 3 is the pointer 4072, its element at 4064.
example : bucket { size := 8, align := 8 } 4096 3 = 4072 ∧ asPtr { size := 8, align := 8 } 4072 = 4064 ∧
    bucketIndex { size := 8, align := 8 } 4096 4072 = 3 ∧ bucketPtr 4096 3 8 = 4064 := by decide
-- `T = ()`: bucket 3 is the pseudo-pointer 4, every element "lives" at the dangling address `align = 1`.
example : bucket { size := 0 } 4096 3 = 4 ∧ asPtr { size := 0 } 4 = 1 ∧ asPtr { size := 0 } 7 = 1 ∧
    bucketIndex { size := 0 } 4096 4 = 3 := by decide
-- the iterator on 16-wide groups after 2 reloads, bit 5: bucket 37, both encodings.
example : (RangePtr.advanceGroups { size := 8 } 16 2 (RangePtr.start { size := 8 } 8192)).yieldAt { size := 8 } 5
    = bucket { size := 8 } 8192 37 := by decide
example : (RangePtr.advanceGroups { size := 0 } 16 2 (RangePtr.start { size := 0 } 8192)).yieldAt { size := 0 } 5
    = 38 := by decide
-- the "de-duplicated" `next_n` (C01-e) on a zero-sized `T`: from bucket 1 by 1 it lands on bucket 1 again.
example : nextNDedup { size := 0 } (bucket { size := 0 } 4096 1) 1 = bucket { size := 0 } 4096 1 ∧
    nextN { size := 0 } (bucket { size := 0 } 4096 1) 1 = bucket { size := 0 } 4096 2 := by decide
-- the re-built clone (C09-d): after the copy, bit 0 yields bucket 0 although the control group tested is group 1.
example : (RangePtr.start { size := 8 } 8192).cloneReload.yieldAt { size := 8 } 0 = bucket { size := 8 } 8192 0 ∧
    (RangePtr.start { size := 8 } 8192).cloneReload.groupIdx = 1 := by decide

#print axioms bucket_round_trip
#print axioms bucket_injective
#print axioms element_region_inside_data_part
#print axioms bucket_pointer_is_valid_address
#print axioms bucket_ptr_is_element_address
#print axioms element_addresses_in_block
#print axioms allocation_start_below_elements
#print axioms iterator_pointer_refines_index
#print axioms iterator_yields_bucket_of_index
#print axioms next_n_is_index_addition
#print axioms yielded_buckets_distinct
#print axioms clone_and_split_keep_position
#print axioms bucket_ptr_eq_iff
#print axioms element_address_eq_iff

end Hb.C02B
