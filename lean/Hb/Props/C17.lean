/-
C17 — Capacity and layout arithmetic is total and overflow-free.

Property theorems only (helper lemmas live in Hb/Proofs). Every statement is for all capacities,
element sizes, alignments, table sizes, hashes and every `usize` width `bits ≥ 16`.
-/
import Hb.Proofs.Arith
import Hb.Proofs.Probe
namespace Hb.C17
open Hb

/-- The table-size computation either reports overflow — exactly when `cap·8` is not representable —
    or chooses a power-of-two bucket count (at least 4) whose usable capacity is at least the
    request and strictly below the bucket count, so one slot always stays empty. -/
theorem capacity_total (bits W size cap : Nat) (hb : 16 ≤ bits) (hcap : cap ≠ 0) :
    (capacityToBuckets bits W size cap = none ∧ 15 ≤ cap ∧ 2 ^ bits ≤ cap * 8) ∨
    (∃ b k, capacityToBuckets bits W size cap = some b ∧ 2 ≤ k ∧ b = 2 ^ k ∧
      cap ≤ bucketMaskToCapacity (b - 1) ∧ bucketMaskToCapacity (b - 1) < b ∧ b < 2 ^ bits) := by
  cases h : capacityToBuckets bits W size cap with
  | none =>
    left
    exact ⟨rfl, (capacityToBuckets_none_iff bits W size cap hb).mp h⟩
  | some b =>
    right
    obtain ⟨k, hk, hbk, h1, h2, h3⟩ := capacityToBuckets_spec bits W size cap b hb hcap h
    exact ⟨b, k, rfl, hk, hbk, h1, h2, h3⟩

/-- The chosen bucket count is not larger than necessary (large-capacity branch). -/
theorem capacity_minimal (bits W size cap b : Nat) (hc : 15 ≤ cap)
    (h : capacityToBuckets bits W size cap = some b) : ∀ j, cap * 8 / 7 ≤ 2 ^ j → b ≤ 2 ^ j :=
  capacityToBuckets_minimal bits W size cap b hc h

/-- The layout derived from a bucket count: nothing wraps, the size padded to the alignment does not
    exceed `isize::MAX`, the control bytes start at an aligned offset behind all elements, and there
    is room for `buckets + W` control bytes (the mirrored group included). -/
theorem layout_spec (bits W size ctrlAlign buckets : Nat) (l : Layout) (hb : 16 ≤ bits)
    (ha : ∃ a, ctrlAlign = 2 ^ a) (hW : 0 < W)
    (h : calculateLayoutFor bits W size ctrlAlign buckets = some l) :
    l.align = ctrlAlign ∧ l.ctrlOffset % ctrlAlign = 0 ∧ size * buckets ≤ l.ctrlOffset ∧
    l.ctrlOffset < size * buckets + ctrlAlign ∧ l.size = l.ctrlOffset + buckets + W ∧
    l.size + (ctrlAlign - 1) ≤ isizeMax bits ∧ l.size < 2 ^ bits :=
  calculateLayoutFor_spec_of_W_pos bits W size ctrlAlign buckets l hb ha hW h

/-- `None` is returned exactly when an intermediate value is not representable or the padded size
    would exceed `isize::MAX`. -/
theorem layout_none_iff (bits W size ctrlAlign buckets : Nat) :
    calculateLayoutFor bits W size ctrlAlign buckets = none ↔
      (2 ^ bits ≤ size * buckets ∨ 2 ^ bits ≤ size * buckets + (ctrlAlign - 1) ∨
       2 ^ bits ≤ alignDown (size * buckets + (ctrlAlign - 1)) ctrlAlign + (buckets + W) ∨
       isizeMax bits - (ctrlAlign - 1) <
         alignDown (size * buckets + (ctrlAlign - 1)) ctrlAlign + (buckets + W)) :=
  calculateLayoutFor_none_iff bits W size ctrlAlign buckets

/-- The alignment of the allocation suffices for the elements and for an aligned group scan. -/
theorem layout_align (W size align : Nat) :
    W ≤ (tableLayoutNew W size align).2 ∧ align ≤ (tableLayoutNew W size align).2 :=
  ⟨(tableLayoutNew_spec W size align).2.1, (tableLayoutNew_spec W size align).2.2.1⟩

/-- Room for every element: element regions are pairwise disjoint and inside `[0, ctrlOffset)`. -/
theorem elements_fit (bits W size ctrlAlign buckets : Nat) (l : Layout)
    (ha : ∃ a, ctrlAlign = 2 ^ a)
    (h : calculateLayoutFor bits W size ctrlAlign buckets = some l) :
    ∀ i j, i < j → j < buckets → (j + 1) * size ≤ l.ctrlOffset ∧
      l.ctrlOffset - (j + 1) * size + size ≤ l.ctrlOffset - (i + 1) * size :=
  elem_regions_disjoint bits W size ctrlAlign buckets l ha h

/-- Every element slot is aligned for its type. -/
theorem elements_aligned (bits W size ctrlAlign buckets align : Nat) (l : Layout)
    (hsz : size % align = 0) (hal : ctrlAlign % align = 0)
    (h : calculateLayoutFor bits W size ctrlAlign buckets = some l) :
    ∀ i, i < buckets → (l.ctrlOffset - (i + 1) * size) % align = 0 :=
  elem_aligned bits W size ctrlAlign buckets align l hsz hal h

/-- The probe sequence covers every bucket within the first `max 1 (n / W)` groups, for every table
    size, hash (start position) and both group widths. -/
theorem probe_covers_all (cfg : Cfg) (hW : cfg.W = 8 ∨ cfg.W = 16) : ProbeCovers cfg :=
  probe_covers cfg hW

/-- … and these groups are pairwise disjoint: each group is visited exactly once before the
    sequence repeats. -/
theorem probe_groups_once (cfg : Cfg) (hW : cfg.W = 8 ∨ cfg.W = 16) (t : Raw) (hash : Nat)
    (hk : ∃ k, t.buckets = 2 ^ k) (hle : cfg.W ≤ t.buckets) (s s' : Nat)
    (hs : s < t.buckets / cfg.W) (hs' : s' < t.buckets / cfg.W) (hne : s ≠ s') :
    ∀ i, i ∈ window cfg t (probePos cfg.W cfg.bits t.mask hash s).pos →
      i ∉ window cfg t (probePos cfg.W cfg.bits t.mask hash s').pos :=
  probe_windows_disjoint cfg hW t hash hk hle s s' hs hs' hne

/-- Triangular numbers are a bijection mod `2^k` (the arithmetic core of the probe argument). -/
theorem triangular_injective (k a b : Nat) (ha : a < 2 ^ k) (hb : b < 2 ^ k)
    (h : a * (a + 1) / 2 % 2 ^ k = b * (b + 1) / 2 % 2 ^ k) : a = b :=
  tri_injective k a b ha hb h

/-! Non-vacuity: the hypotheses are met by concrete, non-trivial inputs. -/
example : capacityToBuckets 64 16 8 28 = some 32 := by decide
example : capacityToBuckets 64 16 8 (2 ^ 61) = none := by decide
example : calculateLayoutFor 64 16 32 16 8 = some { size := 280, align := 16, ctrlOffset := 256 } := by decide
example : calculateLayoutFor 64 16 (2 ^ 62) 16 4 = none := by decide

#print axioms capacity_total
#print axioms capacity_minimal
#print axioms layout_spec
#print axioms layout_none_iff
#print axioms layout_align
#print axioms elements_fit
#print axioms elements_aligned
#print axioms probe_covers_all
#print axioms probe_groups_once
#print axioms triangular_injective
end Hb.C17
