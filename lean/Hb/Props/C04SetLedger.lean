/-
C04 for histories on a PAIR of `HashSet`s in which calls UNWIND — thin restatements of
`Hb/Proofs/SetLedgerPanic.lean` (the returning part is `Hb/Props/C03SetTable.lean`; `HashTable` calls
that unwind are `table_unwound_call_ledger` there; `HashMap`: `C04.no_double_drop`).

C04: "When a user callback (Hash, Eq, Clone, Drop, a predicate) panics inside any operation, no
element is dropped twice and no allocation is freed twice; elements or allocations are leaked only
where a destructor itself panicked."

Vocabulary (as in `C03SetTable.lean`): `kidsOf t.elems` = identities of the key objects stored in
table `t`; `droppedK log` = identities whose destructor the collection ran; `List.Perm` = equality
of multisets ("exactly once"); `SetCall.insK` / `Set.insK2` = the key objects ENTERING the accounting:
moved in by the caller (`insert`, `replace`, `get_or_insert`, the `entry` forms), made by
`get_or_insert_with`'s closure when it runs, and the CLONES `|=` / `^=` create (counted when created —
a clone created just before the unwind is counted and then found in the destructor log);
`Set.returnedK2` = elements handed back by value (`take`, `replace`, `OccupiedEntry::remove`);
`sk_AllocInv2 cfg s` = all frees matched and the live blocks are exactly the blocks of `a` and `b`.

Scope: element type with drop glue (`cfg.needsDrop = true`), `CfgOk cfg`, EVERY environment (any
`Hash` / `Eq` / `Clone` / predicate / `Drop` may panic at any call number; the allocator may refuse:
that ends the history by `handle_alloc_error`, `Set.run2 = none`).

Result: nothing is ever dropped twice; no set call leaks a block; key objects are LOST (leaked) only
by a `clear` whose destructor call panicked (`Set.lossy`): `clear`'s guard empties the table without
running the remaining destructors.

Deviation from the requested statement: the allocator clause is the pair's allocator invariant
`sk_AllocInv2` (and, per call, the `hs_AllocInvL` frame inside `sp_Eff`, for every set `X` of other
live blocks) on the log the call started from — not `sl_AD`, which quantifies over every earlier log.
-/
import Hb.Proofs.SetLedgerPanic
namespace Hb.C04S
open Hb

variable {cfg : Cfg}

/-- One call `target.op(&other)` that unwinds with panic class `c`: on the target set
    `stored after ++ dropped by this call ++ lost = stored before ++ entering (Set.insK)`; the
    allocator frame is kept for every set `X` of other live blocks (nothing leaked, every `free`
    matched); `lost = []` unless the call is `clear` and `c = "drop"`. -/
theorem set_unwound_call_ledger (hc : CfgOk cfg) (hnd : cfg.needsDrop = true) (env : Env)
    (op : SetOp) (other : Raw) (w : World) (h : TInv cfg w.t) (ho : TInv cfg other) {c : String}
    {w' : World} (hs : Set.call cfg env op other w = .panic c w') :
    ∃ new lostK, w'.log = new ++ w.log ∧
      List.Perm (kidsOf w'.t.elems ++ droppedK new ++ lostK)
        (kidsOf w.t.elems ++ Set.insK cfg env op other w) ∧
      (∀ X, hs_AllocInvL cfg w X → hs_AllocInvL cfg w' X) ∧
      (c ≠ "drop" → lostK = []) ∧ ((∀ c e, env.dropPanics c e = false) → lostK = []) ∧
      (op ≠ .clear → lostK = []) := by
  obtain ⟨lostK, ⟨new, l, k, f⟩, z1, z2, z3⟩ := set_call_ledger_panic hc hnd env op other w h ho hs
  exact ⟨new, lostK, l, k, f, z1, z2, z3⟩

/-- C04, one call on a pair of sets that unwinds:
    `stored(a') ++ stored(b') ++ dropped(new) ++ lost = stored(a) ++ stored(b) ++ moved in ++ clones created`,
    `lost = []` unless a destructor panicked inside `clear`; the allocator invariant of the pair is
    kept (no block leaked, no block freed twice). -/
theorem set_pair_unwound_call_ledger (hc : CfgOk cfg) (hnd : cfg.needsDrop = true) (env : Env)
    (c : SetCall) (s : Set.Pair) (ha : TInv cfg s.a) (hb : TInv cfg s.b) {cls : String}
    {s' : Set.Pair} (hst : Set.step2 cfg env c s = .panic cls s') :
    ∃ new lostK, s'.w.log = new ++ s.w.log ∧
      List.Perm (kidsOf s'.a.elems ++ kidsOf s'.b.elems ++ droppedK new ++ lostK)
        (kidsOf s.a.elems ++ kidsOf s.b.elems ++ c.insK cfg env s) ∧
      (sk_AllocInv2 cfg s → sk_AllocInv2 cfg s') ∧
      (cls ≠ "drop" → lostK = []) ∧ ((∀ c e, env.dropPanics c e = false) → lostK = []) ∧
      (c.op ≠ .clear → lostK = []) := by
  obtain ⟨lostK, ⟨new, l, k, a⟩, z1, z2, z3⟩ := set_step2_ledger_panic hc hnd env c s ha hb hst
  exact ⟨new, lostK, l, k, a, z1, z2, z3⟩

/-- C04, histories on a fresh pair of sets with any number of caught panics: every key object that
    was moved in or created by `Clone` is stored (in `a` or `b`), dropped, handed back or lost —
    exactly one of these; `lost = []` unless a `clear` ended in a destructor's panic; every `free`
    was matched and the live blocks are exactly the two sets' blocks; both sets are valid; with
    pairwise distinct identities nothing is stored twice, dropped twice, handed back twice, dropped
    and handed back, or released while still stored. -/
theorem set_pair_no_double_drop_with_panics (hc : CfgOk cfg) (hnd : cfg.needsDrop = true)
    (env : Env) (cs : List SetCall) (s0 : Set.Pair) (ha : s0.a = Raw.new cfg.W)
    (hb : s0.b = Raw.new cfg.W) (hl0 : s0.w.log = []) {obs : List Map.Obs} {sf : Set.Pair}
    (hrun : Set.run2 cfg env cs s0 = some (obs, sf)) :
    (∃ lostK, List.Perm (kidsOf sf.a.elems ++ kidsOf sf.b.elems ++ droppedK sf.w.log ++
          Set.returnedK2 (cs.zip obs) ++ lostK) (Set.insK2 cfg env cs s0) ∧
        ((∀ p ∈ cs.zip obs, Set.lossy p = false) → lostK = [])) ∧
    sk_AllocInv2 cfg sf ∧ TInv cfg sf.a ∧ TInv cfg sf.b ∧
    ((Set.insK2 cfg env cs s0).Nodup →
      (kidsOf sf.a.elems ++ kidsOf sf.b.elems ++ droppedK sf.w.log ++
        Set.returnedK2 (cs.zip obs)).Nodup) :=
  set_no_double_drop_panics hc hnd env cs s0 ha hb hl0 hrun

/-- The same from any two valid tables. -/
theorem set_pair_ledger_with_panics_from (hc : CfgOk cfg) (hnd : cfg.needsDrop = true) (env : Env)
    (cs : List SetCall) (s sf : Set.Pair) (obs : List Map.Obs) (ha : TInv cfg s.a)
    (hb : TInv cfg s.b) (hrun : Set.run2 cfg env cs s = some (obs, sf)) :
    ∃ new lostK, sf.w.log = new ++ s.w.log ∧
      List.Perm (kidsOf sf.a.elems ++ kidsOf sf.b.elems ++ droppedK new ++
          Set.returnedK2 (cs.zip obs) ++ lostK)
        (kidsOf s.a.elems ++ kidsOf s.b.elems ++ Set.insK2 cfg env cs s) ∧
      (sk_AllocInv2 cfg s → sk_AllocInv2 cfg sf) ∧ TInv cfg sf.a ∧ TInv cfg sf.b ∧
      ((∀ p ∈ cs.zip obs, Set.lossy p = false) → lostK = []) :=
  set_run2_ledger_panics_from hc hnd env cs s sf obs ha hb hrun

/-! ### non-vacuity: an evaluated pair history with five different panics (SSE2 scanner) -/

def pCfg : Cfg := { ops := Sse2.ops }

/-- The 10th `Hash` call, the 7th `Eq` call and the 2nd `Clone` call panic; so does the 3rd
    destructor call. -/
def pEnv : Env :=
  { hash := fun c k => if c == 9 then none else some (k * 2654435761),
    eq := fun c q e => if c == 6 then none else some (q == e.k),
    clone := fun c _ => if c == 1 then none else some (1000 + c, 0),
    pred := fun c _ => some (c % 2 == 0, 7),
    allocOk := fun _ => true, dropPanics := fun j _ => j == 2 }

/-- `a = {1, 2}`, `b = {2, 3, 4}`; `a |= &b` unwinds in `Eq` inside the `insert` of the first clone
    (object 1000: created, then dropped by the unwinding); `a.insert(5)`; `get_or_insert_with`
    unwinds in `Hash` before its closure runs (object 60 never exists); a duplicate insert (11
    dropped); `b.clear()` — the destructor of 40 panics, 21 and 30 are leaked by the guard;
    `a.take(2)`; `b ^= &a` unwinds in `Clone`; `a.contains(3)`. -/
def pOps : List SetCall :=
  [ ⟨.a, .insert 1 10⟩, ⟨.a, .insert 2 20⟩, ⟨.b, .insert 2 21⟩, ⟨.b, .insert 3 30⟩,
    ⟨.b, .insert 4 40⟩, ⟨.a, .bitorAssign⟩, ⟨.a, .insert 5 50⟩, ⟨.b, .getOrInsertWith 6 7 60⟩,
    ⟨.a, .insert 1 11⟩, ⟨.b, .clear⟩, ⟨.a, .take 2⟩, ⟨.b, .bitxorAssign⟩, ⟨.a, .contains 3⟩ ]

/-- (per call "ret" or the panic class; stored in `a`; stored in `b`; dropped; handed back; moved in
    + clones created; live blocks; which calls are `Set.lossy`). -/
def pSummary : Option (List String × List Nat × List Nat × List Nat × List Nat × List Nat ×
    List (Nat × Nat) × List Bool) :=
  match Set.run2 pCfg pEnv pOps (Set.Pair.new pCfg) with
  | some (obs, sf) =>
    some (obs.map (fun o => match o with | .ret _ => "ret" | .panic c => c),
      kidsOf sf.a.elems, kidsOf sf.b.elems, droppedK sf.w.log, Set.returnedK2 (pOps.zip obs),
      Set.insK2 pCfg pEnv pOps (Set.Pair.new pCfg), liveBlocks sf.w.log,
      (pOps.zip obs).map Set.lossy)
  | none => none

/-- Eight key objects entered the accounting (seven moved in, the clone 1000) = 2 stored in `a` (10,
    50) + 0 in `b` + 3 dropped (1000: the unwound `|=`; 11: duplicate insert; 40: the panicking
    destructor in `clear`) + 1 handed back (20) + 2 LOST (21, 30: leaked by `clear`'s guard — the
    only lossy call). Two blocks live, none freed twice. -/
theorem pair_panics_example :
    pSummary = some (["ret", "ret", "ret", "ret", "ret", "eq", "ret", "hash", "ret", "drop", "ret",
        "clone", "ret"], [10, 50], [], [40, 11, 1000], [20], [10, 20, 21, 30, 40, 1000, 50, 11],
      [(88, 16), (52, 16)],
      [false, false, false, false, false, false, false, false, false, true, false, false, false]) := by
  rfl

/-- … and the general theorem applies to it (its hypotheses are satisfiable); the identities that
    entered are pairwise distinct, so nothing was dropped twice. -/
theorem pair_panics_no_double_drop (hs : GroupSpec Sse2.ops) {obs : List Map.Obs} {sf : Set.Pair}
    (hrun : Set.run2 pCfg pEnv pOps (Set.Pair.new pCfg) = some (obs, sf)) :
    (kidsOf sf.a.elems ++ kidsOf sf.b.elems ++ droppedK sf.w.log ++
      Set.returnedK2 (pOps.zip obs)).Nodup ∧ sk_AllocInv2 pCfg sf := by
  have hc : CfgOk pCfg := ⟨hs, by decide⟩
  obtain ⟨_, al, _, _, nd⟩ := set_pair_no_double_drop_with_panics hc rfl pEnv pOps
    (Set.Pair.new pCfg) rfl rfl rfl hrun
  exact ⟨nd (by decide +kernel), al⟩

#print axioms set_unwound_call_ledger
#print axioms set_pair_unwound_call_ledger
#print axioms set_pair_no_double_drop_with_panics
#print axioms set_pair_ledger_with_panics_from
#print axioms pair_panics_example
#print axioms pair_panics_no_double_drop

end Hb.C04S
