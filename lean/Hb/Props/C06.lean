/-
C06 — `HashTable<T>`: a multiset with caller-supplied hashes and equality closures.

A `HashTable` never hashes or compares by itself: every look-up gets a `hash` and a closure
`eq : &T → bool` (`env.eq call probe element`, an arbitrary oracle here: stateful, unlawful, possibly
panicking), every insertion gets the element's `hash` and a re-hash closure (`env.hash`). The only
assumption is the contract of the type: the re-hash closure returns for a stored element the hash it
was inserted with — `H key` (`hh : ∀ c k, env.hash c k = some (H k)`, and `hash = H e.k` at
insertion). Under it the table-level invariant `TblInv cfg H t` (structural invariant + every stored
element carries the tag of `H key` and is reachable by the probe sequence of `H key`; NO
"keys are distinct" clause) is established by `new()` and preserved by every operation
(`every_sequence_keeps_invariant`), and in every state satisfying it:

* a look-up with hash `H e.k` and a closure accepting the stored `e` returns a stored element the
  closure accepted (`find_finds_stored`; `find_lawful` for `|x| x.key == q`);
* whatever a look-up returns is stored NOW — never something removed — for every closure
  (`find_never_returns_removed`);
* `len()` is the number of stored elements, duplicates counted (`len_counts_duplicates`,
  `insert_unique_counts_duplicates`);
* `iter_hash(h)` yields every bucket whose element was inserted with `h`, and no bucket twice
  (`iterHash_complete_nodup`).

All statements hold for both scanner back-ends and all table sizes (`CfgOk cfg`).
-/
import Hb.Proofs.TableSpec
import Hb.Proofs.ApiBulk
import Hb.Proofs.Probe
import Mathlib.Logic.Relation
namespace Hb.C06
open Hb

variable {cfg : Cfg}

/-! ### look-ups -/

/-- `find(H e.k, eq)` with a closure that accepts the stored element `e` (and never panics)
    returns `Some` stored element on which the closure answered `true` — `e` itself if the closure
    accepts nothing else. -/
theorem find_finds_stored (hc : CfgOk cfg) (env : Env) (H : Nat → Nat)
    (w : World) (h : TblInv cfg H w.t) {i : Nat} {e : Elem} (he : w.t.slots[i]?.join = some e)
    (q : Nat) (hyes : ∀ c, env.eq c q e = some true) (htot : ∀ c x, env.eq c q x ≠ none) :
    ∃ e' w', Table.findElem cfg env (H e.k) q w = .ok (some e', w') ∧ w'.t = w.t ∧
      w'.log = w.log ∧ e' ∈ w.t.elems ∧ (∃ c, env.eq c q e' = some true) ∧
      ((∀ c x, x ∈ w.t.elems → env.eq c q x = some true → x = e) → e' = e) :=
  Table.find_finds_stored hc (probe_covers cfg hc.spec.width) env H w h he q hyes htot

/-- `find(H q, |x| x.key == q)`: a stored element with key `q` if there is one, else `None`. -/
theorem find_lawful (hc : CfgOk cfg) (env : Env) (H : Nat → Nat) (hl : Lawful env H) (q : Nat)
    (w : World) (h : TblInv cfg H w.t) :
    ∃ r w', Table.findElem cfg env (H q) q w = .ok (r, w') ∧ w'.t = w.t ∧ w'.log = w.log ∧
      (∀ x, r = some x → x ∈ w.t.elems ∧ x.k = q) ∧
      (r = none ↔ ∀ x ∈ w.t.elems, x.k ≠ q) :=
  Table.find_lawful hc (probe_covers cfg hc.spec.width) env H hl q w h

/-- For EVERY hash and closure, under the structural invariant alone: whatever `find` returns is
    stored now (so nothing that was removed is ever returned); no fault; table untouched. -/
theorem find_never_returns_removed (hc : CfgOk cfg) (env : Env) (hash q : Nat) (w : World)
    (h : Inv cfg w.t) :
    match Table.findElem cfg env hash q w with
    | .ok (r, w') => w'.t = w.t ∧ w'.log = w.log ∧ ∀ x, r = some x → x ∈ w.t.elems
    | .panic c w' => c = "eq" ∧ w'.t = w.t ∧ w'.log = w.log
    | .abort => False
    | .fault _ => False :=
  Table.find_returns_stored hc (probe_covers cfg hc.spec.width) env hash q w h

/-- `find_mut(hash, eq).map(|e| e.v = nv)`: only the payload of the found element changes. -/
theorem find_mut_spec (hc : CfgOk cfg) (env : Env) (H : Nat → Nat) (hash q nv : Nat) (w : World)
    (h : TblInv cfg H w.t) :
    match Table.findMut cfg env hash q nv w with
    | .ok (r, w') => TblInv cfg H w'.t ∧ w'.log = w.log ∧ w'.t.items = w.t.items ∧
        (r = none → w'.t = w.t) ∧
        (∀ x, r = some x → ∃ i old, w.t.slots[i]?.join = some old ∧ x = Table.setV cfg old nv ∧
          w'.t = { w.t with slots := w.t.slots.setIfInBounds i (some x) })
    | .panic c w' => c = "eq" ∧ w'.t = w.t ∧ w'.log = w.log
    | .abort => False
    | .fault _ => False :=
  Table.findMut_spec hc (probe_covers cfg hc.spec.width) env H hash q nv w h

/-! ### `len`, `insert_unique` -/

/-- `len()` = number of stored elements, duplicates counted. -/
theorem len_counts_duplicates (hc : CfgOk cfg) {t : Raw} (h : Inv cfg t) :
    t.items = t.elems.length := Table.len_eq_length hc h

/-- `insert_unique(H e.k, e, hasher)` adds exactly `e` to the multiset — also when an equal element
    is already stored — and `len()` grows by one. -/
theorem insert_unique_counts_duplicates (hc : CfgOk cfg) (env : Env) (H : Nat → Nat)
    (hh : ∀ c k, env.hash c k = some (H k)) (e : Elem) (w : World) (h : TblInv cfg H w.t) :
    match Table.insertUnique cfg env (H e.k) e w with
    | .ok w' => TblInv cfg H w'.t ∧ List.Perm w'.t.elems (e :: w.t.elems) ∧
        w'.t.items = w.t.items + 1 ∧ w'.t.elems.length = w.t.elems.length + 1
    | .panic _ _ => True
    | .abort => True
    | .fault _ => False :=
  Table.insertUnique_spec hc (probe_covers cfg hc.spec.width) env H hh e w h

/-! ### entries -/

/-- `find_entry` + `OccupiedEntry::remove` (+ `VacantEntry::insert` of a new element with the same
    hash): the removed element is returned, the new one lands in the same bucket. -/
theorem remove_then_reinsert (hc : CfgOk cfg) (env : Env) (H : Nat → Nat) (hash q : Nat)
    (re : Option Elem) (w : World) (h : TblInv cfg H w.t)
    (hre : ∀ ne, re = some ne → H ne.k = hash) :
    match Table.findEntryRemove cfg env hash q re w with
    | .ok (none, w') => w'.t = w.t
    | .ok (some old, w') =>
      ∃ idx, w.t.slots[idx]?.join = some old ∧ (∃ c, env.eq c q old = some true) ∧
        TblInv cfg H w'.t ∧ w'.t.mask = w.t.mask ∧
        (re = none → w'.t.slots = w.t.slots.setIfInBounds idx none ∧
          w'.t.items + 1 = w.t.items ∧ List.Perm (old :: w'.t.elems) w.t.elems) ∧
        (∀ ne, re = some ne → w'.t.slots = w.t.slots.setIfInBounds idx (some ne) ∧
          w'.t.items = w.t.items ∧ List.Perm (old :: w'.t.elems) (ne :: w.t.elems))
    | .panic c w' => (c = "eq" ∨ c = "drop") ∧ w'.t = w.t
    | .abort => False
    | .fault _ => False :=
  Table.findEntryRemove_spec hc (probe_covers cfg hc.spec.width) env H hash q re w h hre

/-- `entry(hash, eq, hasher)` = `reserve(1)`, then the search. -/
theorem entry_spec (hc : CfgOk cfg) (env : Env) (H : Nat → Nat)
    (hh : ∀ c k, env.hash c k = some (H k)) (hash q : Nat) (w : World) (h : TblInv cfg H w.t) :
    match Table.entry cfg env hash q w with
    | .ok (.ok idx, w') =>
      TblInv cfg H w'.t ∧ List.Perm w'.t.elems w.t.elems ∧ w'.t.items = w.t.items ∧
      idx < w'.t.buckets ∧ ∃ x c, w'.t.slots[idx]?.join = some x ∧ env.eq c q x = some true
    | .ok (.error slot, w') =>
      TblInv cfg H w'.t ∧ List.Perm w'.t.elems w.t.elems ∧ w'.t.items = w.t.items ∧
      findInsertSlot cfg w'.t hash = .ok slot ∧ 0 < w'.t.gl ∧ w'.t.alloc = true ∧
      (∀ x ∈ w'.t.elems, H x.k = hash → ¬ ∀ c, env.eq c q x = some true)
    | .panic c _ => c = "capacity" ∨ c = "hash" ∨ c = "eq"
    | .abort => True
    | .fault _ => False :=
  Table.entry_spec hc (probe_covers cfg hc.spec.width) env H hh hash q w h

/-- `entry` with a lawful closure: Occupied iff some stored element has the key. -/
theorem entry_lawful (hc : CfgOk cfg) (env : Env) (H : Nat → Nat) (hl : Lawful env H) (q : Nat)
    (w : World) (h : TblInv cfg H w.t) :
    match Table.entry cfg env (H q) q w with
    | .ok (.ok idx, w') =>
      TblInv cfg H w'.t ∧ List.Perm w'.t.elems w.t.elems ∧
      ∃ x, w'.t.slots[idx]?.join = some x ∧ x.k = q ∧ x ∈ w.t.elems
    | .ok (.error slot, w') =>
      TblInv cfg H w'.t ∧ List.Perm w'.t.elems w.t.elems ∧
      findInsertSlot cfg w'.t (H q) = .ok slot ∧ ∀ x ∈ w.t.elems, x.k ≠ q
    | .panic _ _ => True
    | .abort => True
    | .fault _ => False :=
  Table.entry_lawful hc (probe_covers cfg hc.spec.width) env H hl q w h

/-- `entry(..).insert(new)`. -/
theorem entry_insert (hc : CfgOk cfg) (env : Env) (H : Nat → Nat)
    (hh : ∀ c k, env.hash c k = some (H k)) (hash q : Nat) (ne : Elem) (w : World)
    (h : TblInv cfg H w.t) (hne : H ne.k = hash)
    (hcl : ∀ c x, env.eq c q x = some true → H x.k = hash) :
    match Table.entryInsert cfg env hash q ne w with
    | .ok (true, w') =>
      TblInv cfg H w'.t ∧ w'.t.items = w.t.items ∧
      ∃ old, (∃ c, env.eq c q old = some true) ∧ List.Perm (old :: w'.t.elems) (ne :: w.t.elems)
    | .ok (false, w') =>
      TblInv cfg H w'.t ∧ w'.t.items = w.t.items + 1 ∧ List.Perm w'.t.elems (ne :: w.t.elems) ∧
      (∀ x ∈ w.t.elems, H x.k = hash → ¬ ∀ c, env.eq c q x = some true)
    | .panic c w' => c = "drop" → TblInv cfg H w'.t ∧ w'.t.items = w.t.items
    | .abort => True
    | .fault _ => False :=
  Table.entryInsert_spec hc (probe_covers cfg hc.spec.width) env H hh hash q ne w h hne hcl

/-- `entry(..).or_insert(new)`. -/
theorem entry_or_insert (hc : CfgOk cfg) (env : Env) (H : Nat → Nat)
    (hh : ∀ c k, env.hash c k = some (H k)) (hash q : Nat) (ne : Elem) (w : World)
    (h : TblInv cfg H w.t) (hne : H ne.k = hash) :
    match Table.entryOrInsert cfg env hash q ne w with
    | .ok (true, w') =>
      TblInv cfg H w'.t ∧ w'.t.items = w.t.items ∧ List.Perm w'.t.elems w.t.elems ∧
      ∃ x ∈ w.t.elems, ∃ c, env.eq c q x = some true
    | .ok (false, w') =>
      TblInv cfg H w'.t ∧ w'.t.items = w.t.items + 1 ∧ List.Perm w'.t.elems (ne :: w.t.elems) ∧
      (∀ x ∈ w.t.elems, H x.k = hash → ¬ ∀ c, env.eq c q x = some true)
    | .panic c w' => c = "drop" → TblInv cfg H w'.t ∧ List.Perm w'.t.elems w.t.elems
    | .abort => True
    | .fault _ => False :=
  Table.entryOrInsert_spec hc (probe_covers cfg hc.spec.width) env H hh hash q ne w h hne

/-- `entry(..).and_modify(|e| e.v = nv)`. -/
theorem entry_and_modify (hc : CfgOk cfg) (env : Env) (H : Nat → Nat)
    (hh : ∀ c k, env.hash c k = some (H k)) (hash q nv : Nat) (w : World) (h : TblInv cfg H w.t) :
    match Table.entryAndModify cfg env hash q nv w with
    | .ok (true, w') =>
      TblInv cfg H w'.t ∧ w'.t.items = w.t.items ∧
      ∃ old, (∃ c, env.eq c q old = some true) ∧
        List.Perm (old :: w'.t.elems) (Table.setV cfg old nv :: w.t.elems)
    | .ok (false, w') =>
      TblInv cfg H w'.t ∧ w'.t.items = w.t.items ∧ List.Perm w'.t.elems w.t.elems
    | .panic _ _ => True
    | .abort => True
    | .fault _ => False :=
  Table.entryAndModify_spec hc (probe_covers cfg hc.spec.width) env H hh hash q nv w h

/-! ### `iter_hash` -/

/-- `iter_hash(hash)`: never a fault; no bucket twice (all table sizes, tables smaller than a
    group included); every yielded bucket is live; every bucket whose element was inserted with
    `hash` is yielded. -/
theorem iterHash_complete_nodup (hc : CfgOk cfg) (H : Nat → Nat) {t : Raw} (h : TblInv cfg H t)
    (hash : Nat) :
    ∃ l, Table.iterHash cfg t hash = .ok l ∧ l.Nodup ∧
      (∀ i ∈ l, i < t.buckets ∧ isFull (t.ctrlAt i) = true ∧ ∃ e, t.slots[i]?.join = some e) ∧
      (∀ (i : Nat) (e : Elem), t.slots[i]?.join = some e → H e.k = hash → i ∈ l) := by
  obtain ⟨l, a1, a2, a3, a4⟩ :=
    Table.iterHash_spec hc (probe_covers cfg hc.spec.width) h.inv hash
  refine ⟨l, a1, a2, fun i hi => ⟨(a3 i hi).1, (a3 i hi).2.1, (a3 i hi).2.2.1⟩, fun i e he hk => ?_⟩
  exact a4 i (h.inv.slot_lt he) (hk ▸ h.tag i e he) (hk ▸ h.reach i e he)

/-- The same under the structural invariant alone (any contents): no bucket twice, every yielded
    bucket is live and carries the tag (up to the lowest-bit over-report of the portable scanner,
    C18), every reachable bucket carrying the tag is yielded. -/
theorem iterHash_structural (hc : CfgOk cfg) {t : Raw} (h : Inv cfg t) (hash : Nat) :
    ∃ l, Table.iterHash cfg t hash = .ok l ∧ l.Nodup ∧
      (∀ i ∈ l, i < t.buckets ∧ isFull (t.ctrlAt i) = true ∧ (∃ e, t.slots[i]?.join = some e) ∧
        (t.ctrlAt i = tagFull cfg.bits hash ∨ t.ctrlAt i = tagFull cfg.bits hash ^^^ 1)) ∧
      (∀ i, i < t.buckets → t.ctrlAt i = tagFull cfg.bits hash → Reachable cfg t hash i → i ∈ l) :=
  Table.iterHash_spec hc (probe_covers cfg hc.spec.width) h hash

/-! ### bulk operations (the `HashMap` code paths with the table's environment) -/

/-- `retain`: the accounting of `retain_spec` (ApiBulk.lean) and `TblInv` on every exit. -/
theorem retain_table (hc : CfgOk cfg) (env : Env) (H : Nat → Nat) (w : World)
    (h : TblInv cfg H w.t) :
    match Map.retain cfg (Table.envFor cfg env) w with
    | .ok w' => TblInv cfg H w'.t ∧
        w'.t.elems = retainKept (Table.envFor cfg env) w.pc w.t.elems ∧
        (retainKept (Table.envFor cfg env) w.pc w.t.elems).length +
          (retainDropped (Table.envFor cfg env) w.pc w.t.elems).length = w.t.items
    | .panic _ w' => TblInv cfg H w'.t
    | .abort => False
    | .fault _ => False := by
  have h1 := retain_spec hc (Table.envFor cfg env) w h.tinv
  have h2 := retain_tblInv hc (Table.envFor cfg env) H w h
  cases hr : Map.retain cfg (Table.envFor cfg env) w with
  | ok w' => rw [hr] at h1 h2; exact ⟨h2, h1.2.1, h1.2.2.2.2⟩
  | panic c w' => rw [hr] at h2; exact h2
  | abort => rw [hr] at h1; exact h1
  | fault f => rw [hr] at h1; exact h1

/-- `extract_if` (`next` × `k`, then dropped): what is handed out is gone from the table, the rest
    stays; `TblInv` on every exit. -/
theorem extract_if_table (hc : CfgOk cfg) (env : Env) (H : Nat → Nat) (k : Nat) (w : World)
    (h : TblInv cfg H w.t) :
    match Map.extractIf cfg (Table.envFor cfg env) k w with
    | .ok (out, w') => TblInv cfg H w'.t ∧ w'.log = w.log ∧ ∃ n, n ≤ w.t.items ∧
        out = retainKept (Table.envFor cfg env) w.pc (w.t.elems.take n) ∧
        w'.t.elems = retainDropped (Table.envFor cfg env) w.pc (w.t.elems.take n) ++ w.t.elems.drop n
    | .panic _ w' => TblInv cfg H w'.t
    | .abort => False
    | .fault _ => False := by
  have h1 := extractIf_spec hc (Table.envFor cfg env) k w h.tinv
  have h2 := extractIf_tblInv hc (Table.envFor cfg env) H k w h
  cases hr : Map.extractIf cfg (Table.envFor cfg env) k w with
  | ok pr =>
    obtain ⟨out, w'⟩ := pr
    rw [hr] at h1 h2
    obtain ⟨_, a2, n, a3, a4, a5, _⟩ := h1
    exact ⟨h2, a2, n, a3, a4, a5⟩
  | panic c w' => rw [hr] at h2; exact h2
  | abort => rw [hr] at h1; exact h1
  | fault f => rw [hr] at h1; exact h1

/-- `drain()` (`next` × `k`, then dropped or forgotten): the first `k` elements are handed out and
    the table is empty afterwards on every exit. -/
theorem drain_table (hc : CfgOk cfg) (env : Env) (H : Nat → Nat) (k : Nat) (forget : Bool)
    (w : World) (h : TblInv cfg H w.t) :
    match Map.drain cfg (Table.envFor cfg env) k forget w with
    | .ok (out, w') => out = w.t.elems.take k ∧ TblInv cfg H w'.t ∧ w'.t.elems = []
    | .panic _ w' => TblInv cfg H w'.t ∧ w'.t.elems = []
    | .abort => False
    | .fault _ => False := by
  have h1 := drain_spec hc (Table.envFor cfg env) k forget w h.tinv
  have hnew : TblInv cfg H (Raw.new cfg.W) ∧ (Raw.new cfg.W).elems = [] :=
    ⟨TblInv.new hc H, by simp [Raw.elems, Raw.new]⟩
  cases hr : Map.drain cfg (Table.envFor cfg env) k forget w with
  | ok pr =>
    obtain ⟨out, w'⟩ := pr
    rw [hr] at h1
    obtain ⟨a1, _, a3, a4⟩ := h1
    refine ⟨a1, ?_⟩
    cases forget with
    | true => rw [a3 rfl]; exact hnew
    | false =>
      obtain ⟨⟨_, b2, _, b4, _⟩, _⟩ := a4 rfl
      exact ⟨TblInv.of_elems_nil b2 b4, b4⟩
  | panic c w' =>
    rw [hr] at h1
    obtain ⟨_, _, a3, _⟩ := h1
    show TblInv cfg H w'.t ∧ w'.t.elems = []
    rw [a3]; exact hnew
  | abort => rw [hr] at h1; exact h1
  | fault f => rw [hr] at h1; exact h1

/-- `clear()`: the table is empty afterwards on every exit (also when a destructor panics). -/
theorem clear_table (hc : CfgOk cfg) (env : Env) (H : Nat → Nat) (w : World)
    (h : TblInv cfg H w.t) :
    match clear cfg env w with
    | .ok w' => TblInv cfg H w'.t ∧ w'.t.elems = [] ∧ w'.t.items = 0
    | .panic c w' => c = "drop" ∧ TblInv cfg H w'.t ∧ w'.t.elems = [] ∧ w'.t.items = 0
    | .abort => False
    | .fault _ => False := by
  have h1 := clear_spec hc env w h.tinv
  cases hr : clear cfg env w with
  | ok w' =>
    rw [hr] at h1
    obtain ⟨⟨a1, a2, a3, _⟩, _⟩ := h1
    exact ⟨TblInv.of_elems_nil a1 a3, a3, a2⟩
  | panic c w' =>
    rw [hr] at h1
    obtain ⟨a0, ⟨a1, a2, a3, _⟩, _⟩ := h1
    exact ⟨a0, TblInv.of_elems_nil a1 a3, a3, a2⟩
  | abort => rw [hr] at h1; exact h1
  | fault f => rw [hr] at h1; exact h1

/-- `reserve(n, hasher)`: same multiset, room for `n` more, `TblInv` again. -/
theorem reserve_table (hc : CfgOk cfg) (env : Env) (H : Nat → Nat)
    (hh : ∀ c k, env.hash c k = some (H k)) (n : Nat) (w w' : World) (h : TblInv cfg H w.t)
    (hr : reserve cfg env n w = .ok w') :
    TblInv cfg H w'.t ∧ List.Perm w'.t.elems w.t.elems ∧ w'.t.items = w.t.items ∧ n ≤ w'.t.gl := by
  have hp := probe_covers cfg hc.spec.width
  have h1 := reserve_spec hc hp env n w h.tinv
  rw [hr] at h1
  exact ⟨reserve_tblInv hc hp env H hh n w w' h hr, h1.2.2.1, h1.2.1, h1.2.2.2.2.1⟩

/-- `shrink_to(m, hasher)` / `shrink_to_fit`: same multiset, `TblInv` again. -/
theorem shrink_table (hc : CfgOk cfg) (env : Env) (H : Nat → Nat)
    (hh : ∀ c k, env.hash c k = some (H k)) (m : Nat) (w w' : World) (h : TblInv cfg H w.t)
    (hr : shrinkTo cfg env m w = .ok w') :
    TblInv cfg H w'.t ∧ List.Perm w'.t.elems w.t.elems ∧ w'.t.items = w.t.items := by
  have hp := probe_covers cfg hc.spec.width
  have h1 := shrinkTo_spec hc hp env m w h.tinv
  rw [hr] at h1
  exact ⟨shrinkTo_tblInv hc hp env H hh m w w' h hr, h1.2.1, h1.2.2.1⟩

/-- `get_many_mut` on a table (element type of non-zero size, see C15): on success the writes go
    to payloads only and `TblInv` holds again; otherwise the table is unchanged. -/
theorem get_many_mut_table (hc : CfgOk cfg) (env : Env) (H : Nat → Nat) (any : Bool)
    (reqs : List (Nat × Nat)) (w : World) (h : TblInv cfg H w.t) (hsz : cfg.size ≠ 0 ∨ cfg.zstDupFixed = true) :
    match Table.getManyMut cfg env any reqs w with
    | .ok (rs, w') => TblInv cfg H w'.t ∧ rs.length = reqs.length ∧ w'.t.items = w.t.items
    | .panic _ w' => w'.t = w.t
    | .abort => False
    | .fault _ => False := by
  rcases Table.getManyMut_spec_partial hc (probe_covers cfg hc.spec.width) env any reqs w h.inv hsz
    with ⟨w', a1, _, a3, _⟩ | ⟨idxs, w1, _, _, b3, _, (⟨_, b5⟩ | ⟨_, rs, s', b5, b6, b7, b8⟩)⟩
  · rw [a1]; exact a3
  · rw [b5]; exact b3
  · rw [b5]
    exact ⟨Table.getManyMut_tblInv h b7 b8, b6, rfl⟩

/-! ### every sequence of operations -/

/-- `HashTable::new()` satisfies the invariant, for every `H`. -/
theorem new_table (hc : CfgOk cfg) (H : Nat → Nat) :
    TblInv cfg H (Raw.new cfg.W) ∧ (Raw.new cfg.W).items = 0 := ⟨TblInv.new hc H, rfl⟩

/-- **Every sequence of operations keeps the invariant.** `R w w'` is any relation each of whose
    steps is the normal return of one of the listed operations — or, for the operations that run no
    re-hash closure, a caught unwind out of it. Then every state reachable from a state satisfying
    `TblInv` (e.g. `new()`) satisfies `TblInv`, hence all the look-up / `len` / `iter_hash` statements
    above. Closures are arbitrary throughout; `hh` is the contract on the re-hash closure, the side
    conditions on `insert_unique` / entries say that a new element is inserted under its own hash
    (and, for `entry(..).insert`, that `eq` accepts only elements with the entry's hash). -/
theorem every_sequence_keeps_invariant (hc : CfgOk cfg) (env : Env) (H : Nat → Nat)
    (hh : ∀ c k, env.hash c k = some (H k)) (hsz : cfg.size ≠ 0 ∨ cfg.zstDupFixed = true) (R : World → World → Prop)
    (hR : ∀ w w', R w w' →
      (∃ hash q r, Table.findElem cfg env hash q w = .ok (r, w')) ∨
      (∃ hash q c, Table.findElem cfg env hash q w = .panic c w') ∨
      (∃ hash q nv r, Table.findMut cfg env hash q nv w = .ok (r, w')) ∨
      (∃ hash q nv c, Table.findMut cfg env hash q nv w = .panic c w') ∨
      (∃ e, Table.insertUnique cfg env (H e.k) e w = .ok w') ∨
      (∃ hash q re r, (∀ ne, re = some ne → H ne.k = hash) ∧
        Table.findEntryRemove cfg env hash q re w = .ok (r, w')) ∨
      (∃ hash q re c, (∀ ne, re = some ne → H ne.k = hash) ∧
        Table.findEntryRemove cfg env hash q re w = .panic c w') ∨
      (∃ hash q ne b, H ne.k = hash ∧ (∀ c x, env.eq c q x = some true → H x.k = hash) ∧
        Table.entryInsert cfg env hash q ne w = .ok (b, w')) ∨
      (∃ hash q ne b, H ne.k = hash ∧ Table.entryOrInsert cfg env hash q ne w = .ok (b, w')) ∨
      (∃ hash q nv b, Table.entryAndModify cfg env hash q nv w = .ok (b, w')) ∨
      (Map.retain cfg (Table.envFor cfg env) w = .ok w') ∨
      (∃ c, Map.retain cfg (Table.envFor cfg env) w = .panic c w') ∨
      (∃ k out, Map.extractIf cfg (Table.envFor cfg env) k w = .ok (out, w')) ∨
      (∃ k c, Map.extractIf cfg (Table.envFor cfg env) k w = .panic c w') ∨
      (∃ k forget out, Map.drain cfg (Table.envFor cfg env) k forget w = .ok (out, w')) ∨
      (∃ k forget c, Map.drain cfg (Table.envFor cfg env) k forget w = .panic c w') ∨
      (clear cfg env w = .ok w') ∨
      (∃ c, clear cfg env w = .panic c w') ∨
      (∃ n, reserve cfg env n w = .ok w') ∨
      (∃ m, shrinkTo cfg env m w = .ok w') ∨
      (∃ any reqs rs, Table.getManyMut cfg env any reqs w = .ok (rs, w')) ∨
      (∃ any reqs c, Table.getManyMut cfg env any reqs w = .panic c w'))
    (w w' : World) (hseq : Relation.ReflTransGen R w w') (h : TblInv cfg H w.t) :
    TblInv cfg H w'.t := by
  induction hseq with
  | refl => exact h
  | @tail w1 w2 _ hstep ih =>
    rcases hR w1 w2 hstep with
      ⟨hash, q, r, e⟩ | ⟨hash, q, c, e⟩ | ⟨hash, q, nv, r, e⟩ | ⟨hash, q, nv, c, e⟩ | ⟨x, e⟩ |
      ⟨hash, q, re, r, hre, e⟩ | ⟨hash, q, re, c, hre, e⟩ | ⟨hash, q, ne, b, hne, hcl, e⟩ |
      ⟨hash, q, ne, b, hne, e⟩ | ⟨hash, q, nv, b, e⟩ | e | ⟨c, e⟩ | ⟨k, out, e⟩ | ⟨k, c, e⟩ |
      ⟨k, fg, out, e⟩ | ⟨k, fg, c, e⟩ | e | ⟨c, e⟩ | ⟨n, e⟩ | ⟨m, e⟩ | ⟨any, reqs, rs, e⟩ |
      ⟨any, reqs, c, e⟩
    · have := find_never_returns_removed hc env hash q w1 ih.inv
      rw [e] at this; rw [this.1]; exact ih
    · have := find_never_returns_removed hc env hash q w1 ih.inv
      rw [e] at this; rw [this.2.1]; exact ih
    · have := find_mut_spec hc env H hash q nv w1 ih
      rw [e] at this; exact this.1
    · have := find_mut_spec hc env H hash q nv w1 ih
      rw [e] at this; rw [this.2.1]; exact ih
    · have := insert_unique_counts_duplicates hc env H hh x w1 ih
      rw [e] at this; exact this.1
    · have := remove_then_reinsert hc env H hash q re w1 ih hre
      rw [e] at this
      cases r with
      | none => rw [this]; exact ih
      | some old => obtain ⟨_, _, _, a, _⟩ := this; exact a
    · have := remove_then_reinsert hc env H hash q re w1 ih hre
      rw [e] at this; rw [this.2]; exact ih
    · have := entry_insert hc env H hh hash q ne w1 ih hne hcl
      rw [e] at this
      cases b <;> exact this.1
    · have := entry_or_insert hc env H hh hash q ne w1 ih hne
      rw [e] at this
      cases b <;> exact this.1
    · have := entry_and_modify hc env H hh hash q nv w1 ih
      rw [e] at this
      cases b <;> exact this.1
    · have := retain_table hc env H w1 ih
      rw [e] at this; exact this.1
    · have := retain_table hc env H w1 ih
      rw [e] at this; exact this
    · have := extract_if_table hc env H k w1 ih
      rw [e] at this; exact this.1
    · have := extract_if_table hc env H k w1 ih
      rw [e] at this; exact this
    · have := drain_table hc env H k fg w1 ih
      rw [e] at this; exact this.2.1
    · have := drain_table hc env H k fg w1 ih
      rw [e] at this; exact this.1
    · have := clear_table hc env H w1 ih
      rw [e] at this; exact this.1
    · have := clear_table hc env H w1 ih
      rw [e] at this; exact this.2.1
    · exact (reserve_table hc env H hh n w1 w2 ih e).1
    · exact (shrink_table hc env H hh m w1 w2 ih e).1
    · have := get_many_mut_table hc env H any reqs w1 ih hsz
      rw [e] at this; exact this.1
    · have := get_many_mut_table hc env H any reqs w1 ih hsz
      rw [e] at this; rw [this]; exact ih

#print axioms find_finds_stored
#print axioms find_lawful
#print axioms find_never_returns_removed
#print axioms find_mut_spec
#print axioms len_counts_duplicates
#print axioms insert_unique_counts_duplicates
#print axioms remove_then_reinsert
#print axioms entry_spec
#print axioms entry_lawful
#print axioms entry_insert
#print axioms entry_or_insert
#print axioms entry_and_modify
#print axioms iterHash_complete_nodup
#print axioms iterHash_structural
#print axioms retain_table
#print axioms extract_if_table
#print axioms drain_table
#print axioms clear_table
#print axioms reserve_table
#print axioms shrink_table
#print axioms get_many_mut_table
#print axioms new_table
#print axioms every_sequence_keeps_invariant
end Hb.C06
