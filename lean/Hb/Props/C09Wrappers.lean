/-
C09 for the PUBLIC iterator types — "in every state, iter, iter_mut, keys, values, values_mut,
into_iter, into_keys, into_values and drain (and the HashSet / HashTable counterparts) yield every
stored element exactly once and nothing else, and after exhaustion keep returning None; at every
step size_hint() is (r, Some(r)) and len() is r for the true remaining count r; fold/for_each visits
the same elements as repeated next(); a cloned iterator continues independently from the same
position; default-constructed iterators are empty."

`Hb/Props/C09.lean` states this for the shared engine `RawIter`.  Here it is stated for the wrapper
types themselves, as modelled impl by impl in `Hb/Model/IterWrap.lean` (every `next`, `size_hint`,
`len`, `fold`, `clone`, `default` forwards to the same method of the `inner` field, as in the source),
for every table `t` with `Inv cfg t` and every scanner with `CfgOk cfg`.

Rust type (impl lines read)                                          → `Kind` / `OKind`
  map::Iter       map.rs:2155-2169, 3155-3201 (new: 754)            → `Kind.mapIter`
  map::IterMut    map.rs:2204-2224, 3203-3248 (new: 799)            → `Kind.mapIterMut`      (no Clone)
  map::Keys       map.rs:2456-2468, 3302-3340 (new: 650)            → `Kind.mapKeys`
  map::Values     map.rs:2504-2516, 3342-3380 (new: 682)            → `Kind.mapValues`
  map::ValuesMut  map.rs:2651-2653, 3382-3420 (new: 720)            → `Kind.mapValuesMut`    (no Clone)
  set::Iter       set.rs:1647-1649, 1778-1820 (new: 290)            → `Kind.setIter`
  table::Iter     table.rs:1956-2013 (new: 686)                     → `Kind.tableIter`
  table::IterMut  table.rs:2029-2074 (new: 737)                     → `Kind.tableIterMut`    (no Clone)
  map::IntoIter   map.rs:2256-2258, 3260-3294 (new: 3148)           → `OKind.mapIntoIter`
  map::IntoKeys   map.rs:2300-2340 (new: 1035)                      → `OKind.mapIntoKeys`
  map::IntoValues map.rs:2378-2418 (new: 1063)                      → `OKind.mapIntoValues`
  map::Drain      map.rs:2552-2554, 3430-3456 (new: 888)            → `OKind.mapDrain`       (no Default)
  set::IntoIter   set.rs:1658-1660, 1828-1866 (new: 1771)           → `OKind.setIntoIter`
  set::Drain      set.rs:1669-1671, 1875-1905 (new: 348)            → `OKind.setDrain`       (no Default)
  table::IntoIter table.rs:2226-2274 (new: 1131)                    → `OKind.tableIntoIter`
  table::Drain    table.rs:2298-2328 (new: 903)                     → `OKind.tableDrain`     (no Default)
  underneath: RawIter raw/mod.rs:3659-3729, RawIntoIter :3851-3932, RawDrain :3935-4006.
-/
import Hb.Proofs.IterWrapSpec
namespace Hb.C09W
open Hb Hb.IW

variable {cfg : Cfg} {t : Raw}

/-! ### what is yielded, per type -/

/-- The items each borrowing wrapper type must yield: one per full bucket `i`, ascending — the pair
    for `map::Iter`/`IterMut` (map.rs:3168, 3216), the key for `Keys` (map.rs:3314) and `set::Iter`
    (set.rs:1798), the value for `Values`/`ValuesMut` (map.rs:3354, 3394), the element for
    `table::Iter`/`IterMut` (table.rs:1974, 2046). -/
theorem items_by_kind (t : Raw) :
    wrapItems .mapIter t = t.fullList.map (fun i => .pair i (ab_elem t i)) ∧
    wrapItems .mapIterMut t = t.fullList.map (fun i => .pair i (ab_elem t i)) ∧
    wrapItems .mapKeys t = t.fullList.map (fun i => .key i (ab_elem t i).k (ab_elem t i).kid) ∧
    wrapItems .mapValues t = t.fullList.map (fun i => .val i (ab_elem t i).vid (ab_elem t i).v) ∧
    wrapItems .mapValuesMut t = t.fullList.map (fun i => .val i (ab_elem t i).vid (ab_elem t i).v) ∧
    wrapItems .setIter t = t.fullList.map (fun i => .key i (ab_elem t i).k (ab_elem t i).kid) ∧
    wrapItems .tableIter t = t.fullList.map (fun i => .elem i (ab_elem t i)) ∧
    wrapItems .tableIterMut t = t.fullList.map (fun i => .elem i (ab_elem t i)) :=
  ⟨rfl, rfl, rfl, rfl, rfl, rfl, rfl, rfl⟩

/-- The buckets behind the expected items are exactly the buckets holding a live element, each once,
    ascending; there are `items` of them. -/
theorem items_are_the_live_buckets (hc : CfgOk cfg) (h : Inv cfg t) (k : Kind) :
    (wrapItems k t).map Item.bucket = t.fullList ∧ t.fullList.Pairwise (· < ·) ∧
    (wrapItems k t).length = t.items ∧
    ∀ i, i ∈ t.fullList ↔ i < t.buckets ∧ isFull (t.ctrlAt i) = true :=
  ⟨wrapItems_buckets k t, fullList_sorted t, wrapItems_length hc h k, mem_fullList t⟩

/-! ### borrowing wrappers: `iter`, `iter_mut`, `keys`, `values`, `values_mut`, `HashSet::iter`,
    `HashTable::iter`, `HashTable::iter_mut` -/

/-- `Iterator::next` of every borrowing wrapper (map.rs:3168, 3216, 3314, 3354, 3394; set.rs:1798;
    table.rs:1974, 2046) is one `RawIter::next` (raw/mod.rs:3695) followed by the bucket read and the
    projection of its type: no impl skips, repeats or re-projects. -/
theorem next_forwards (w : Wrap) :
    w.next cfg t = nextMap id w.setRaw (stepVia w.kind.proj cfg t w.raw) :=
  Wrap.next_eq w

/-- `Iterator::fold` of every borrowing wrapper is overridden (map.rs:3183, 3231, 3326, 3366, 3406;
    set.rs:1806; table.rs:1986, 2058) and is one `RawIter::fold` (raw/mod.rs:3719) whose closure reads
    the bucket and applies the projection of the type. -/
theorem fold_forwards (w : Wrap) :
    w.fold cfg t =
      match w.raw.fold cfg t with
      | .error f => .error f
      | .ok idxs => (readAll t idxs).map (·.map fun x => w.kind.proj x.1 x.2) :=
  Wrap.fold_eq w

/-- Repeated `next()` on a fresh iterator of any of the eight borrowing types yields every stored
    element exactly once (the projection of each full bucket, ascending) and nothing else, and then
    `None` for every further call (`n` arbitrary). -/
theorem next_yields_each_once (hc : CfgOk cfg) (h : Inv cfg t) (k : Kind) (n : Nat) :
    ∃ w w', Wrap.new cfg t k = .ok w ∧
      w.nextN cfg t n = .ok (((wrapItems k t).take n).map some ++ List.replicate (n - t.items) none, w') ∧
      (wrapItems k t).map Item.bucket = t.fullList ∧ t.fullList.Pairwise (· < ·) ∧
      (wrapItems k t).length = t.items :=
  wrap_next_all hc h k n

/-- `FusedIterator` (map.rs:3201, 3248, 3340, 3380, 3420; set.rs:1820; table.rs:2002, 2074): once all
    items were yielded, `next()` returns `None` and leaves the iterator unchanged. -/
theorem fused (hc : CfgOk cfg) (h : Inv cfg t) {w : Wrap} {p : Nat} (hw : WrapOk cfg t w p)
    (hp : t.items ≤ p) : w.next cfg t = .ok (none, w) :=
  wrap_fused hc h hw hp

/-- `size_hint` (map.rs:3179, 3227, 3322, 3362, 3402; set.rs:1802; table.rs:1982, 2054) and
    `ExactSizeIterator::len` (map.rs:3196, 3244, 3336, 3376, 3416; set.rs:1816; table.rs:1997, 2069)
    after `p` calls of `next`: `(r, Some(r))` and `r`, with `r = items - p` the true remaining count. -/
theorem size_hint_exact (hc : CfgOk cfg) (h : Inv cfg t) (k : Kind) (p : Nat) :
    ∃ w os w', Wrap.new cfg t k = .ok w ∧ w.nextN cfg t p = .ok (os, w') ∧
      w'.sizeHint = (t.items - p, some (t.items - p)) ∧ w'.len = .ok (t.items - p) :=
  wrap_size_hint_exact hc h k p

/-- `fold`/`for_each` after any prefix of `p` calls of `next` visits exactly the items that further
    calls of `next` would return (and those are the items from position `p` on). -/
theorem fold_eq_next (hc : CfgOk cfg) (h : Inv cfg t) (k : Kind) (p : Nat) :
    ∃ w os w', Wrap.new cfg t k = .ok w ∧ w.nextN cfg t p = .ok (os, w') ∧
      w'.fold cfg t = .ok ((wrapItems k t).drop p) ∧
      ∀ n, ∃ w'', w'.nextN cfg t n =
        .ok ((((wrapItems k t).drop p).take n).map some ++ List.replicate (n - (t.items - p)) none, w'') :=
  wrap_fold_eq_next hc h k p

/-- `Clone` (map.rs:2161 `Iter`, 2461 `Keys`, 2509 `Values`; set.rs:1778; table.rs:2005; none for
    `IterMut`, `ValuesMut`, `table::IterMut`): the clone is at the same position, and advancing it by
    any number of calls does not change what the original yields, and vice versa. -/
theorem clone_independent (hc : CfgOk cfg) (h : Inv cfg t) (k : Kind) (p : Nat) :
    ∃ w os w1, Wrap.new cfg t k = .ok w ∧ w.nextN cfg t p = .ok (os, w1) ∧
      (k.isClone = false → w1.clone = none) ∧
      (k.isClone = true → ∃ c, w1.clone = some c ∧ c = w1 ∧
        (∃ x c1 w2, c.next cfg t = .ok (x, c1) ∧ w1.next cfg t = .ok (x, w2)) ∧
        ∀ q n, ∃ c' w', c.nextN cfg t q = .ok (itemsFrom k t p q, c') ∧
          w1.nextN cfg t n = .ok (itemsFrom k t p n, w')) :=
  wrap_clone_independent hc h k p

/-- `Default` (map.rs:3155, 3203, 3302, 3342, 3382; set.rs:1786; table.rs:1961, 2034; all via
    `RawIter::default` = `RawTableInner::NEW.iter()`, raw/mod.rs:3683): an empty iterator. -/
theorem default_empty (hc : CfgOk cfg) (k : Kind) :
    ∃ d, Wrap.default cfg k = .ok d ∧ d.kind = k ∧ (∀ t', d.next cfg t' = .ok (none, d)) ∧
      d.sizeHint = (0, some 0) ∧ d.len = .ok 0 ∧ d.fold cfg (Raw.new cfg.W) = .ok [] :=
  wrap_default_empty hc k

/-! ### owning wrappers: `into_iter`, `into_keys`, `into_values`, `drain`, and the `HashSet` /
    `HashTable` `into_iter` / `drain` -/

/-- The step-wise model of every owning wrapper (constructor, `next` × `n`, `Drop`) is the monolithic
    `Map.intoIter` (`RawIntoIter`, raw/mod.rs:3851-3932) resp. `Map.drain` (`RawDrain`, :3935-4006) of
    `Hb/Model/Api.lean`, started in the world that already saw the per-step drops of `IntoKeys`
    (map.rs:2316, the value half) / `IntoValues` (map.rs:2394, the key half). -/
theorem owning_is_raw (hc : CfgOk cfg) (env : Env) (k : OKind) (n : Nat) (w : World) (h : Inv cfg w.t)
    (hq : KeyDropsQuiet env k) :
    Own.run cfg env k n w =
      withItems ((ownItems k w.t).take n)
        (if k.isDrain then Map.drain cfg env n false (preWorld cfg env k (w.t.elems.take n) w)
         else Map.intoIter cfg env n (preWorld cfg env k (w.t.elems.take n) w)) :=
  own_run_eq hc env k n w h hq

/-- Any cut point `n` (map.rs:3272 `IntoIter::next`, 2316 `IntoKeys::next`, 2394 `IntoValues::next`,
    3434 `Drain::next`; set.rs:1840, 1879; table.rs:2248, 2305; then `Drop`): the `n` calls yield the
    first `min n items` stored elements; dropping the iterator drops every element NOT yielded exactly
    once; `IntoKeys`/`IntoValues` dropped the other half of every yielded pair exactly once; the block
    is freed once (`into_*`) or emptied in place (`drain`); nothing else is logged. -/
theorem yielded_plus_dropped_is_stored (hc : CfgOk cfg) (env : Env) (k : OKind) (n : Nat) (w : World)
    (h : TInvB cfg w.t) (hq : KeyDropsQuiet env k) :
    match Own.run cfg env k n w with
    | .ok (xs, w') =>
      xs = (ownItems k w.t).take n ∧ xs.length = min n w.t.items ∧
      (k.isDrain = true → EmptiedOf cfg w.t w'.t) ∧ (k.isDrain = false → w'.t = Raw.new cfg.W) ∧
      w'.log =
        (if k.isDrain = false ∧ w.t.alloc = true then
            [Ev.free (layoutOf cfg w.t.buckets).size (layoutOf cfg w.t.buckets).align] else []) ++
          dropEvs cfg (w.t.elems.drop n).reverse ++ stepEvs cfg k (w.t.elems.take n) ++ w.log
    | .panic c w' => c = "drop" ∧ cfg.needsDrop = true ∧
        ∃ ds e rest, w.t.elems.drop n = ds ++ e :: rest ∧
          w'.log = dropEvs cfg (ds ++ [e]).reverse ++ stepEvs cfg k (w.t.elems.take n) ++ w.log
    | .abort => False
    | .fault _ => False :=
  own_run_spec hc env k n w h hq

/-- `size_hint` (map.rs:3276, 2320, 2398, 3438; set.rs:1848, 1887; table.rs:2252, 2309) and `len`
    (map.rs:3290, 2335, 2413, 3452; set.rs:1862, 1901; table.rs:2269, 2323) of the owning wrappers are
    exact after every number `n` of calls, and the wrappers are fused. -/
theorem owning_size_hint_exact (hc : CfgOk cfg) (env : Env) (k : OKind) (n : Nat) (w : World)
    (h : Inv cfg w.t) (hq : KeyDropsQuiet env k) :
    ∃ o w0 o' w1, Own.new cfg k w = .ok (o, w0) ∧
      Own.nextN cfg env n o w0 = .ok ((ownItems k w.t).take n, o', w1) ∧
      o'.sizeHint = (w.t.items - n, some (w.t.items - n)) ∧ o'.len = .ok (w.t.items - n) ∧
      (w.t.items ≤ n → ∀ w2, o'.next cfg env w2 = .ok (none, o', w2)) :=
  own_size_hint_exact hc env k n w h hq

/-- Total consumption (`fold`, map.rs:3280, 2324, 2402, 3442; set.rs:1852, 1891; table.rs:2256, 2313 —
    all end in the inherited `fold` of `RawIntoIter`/`RawDrain`, i.e. `next` until `None`, then drop):
    every stored element is yielded exactly once, nothing is left for `Drop`. -/
theorem owning_total_consumption (hc : CfgOk cfg) (env : Env) (k : OKind) (w : World)
    (h : TInvB cfg w.t) (hq : KeyDropsQuiet env k) :
    ∃ w', Own.fold cfg env k w = .ok (ownItems k w.t, w') ∧
      (ownItems k w.t).map Item.bucket = w.t.fullList ∧ (ownItems k w.t).length = w.t.items ∧
      (k.isDrain = true → EmptiedOf cfg w.t w'.t) ∧ (k.isDrain = false → w'.t = Raw.new cfg.W) ∧
      w'.log =
        (if k.isDrain = false ∧ w.t.alloc = true then
            [Ev.free (layoutOf cfg w.t.buckets).size (layoutOf cfg w.t.buckets).align] else []) ++
          stepEvs cfg k w.t.elems ++ w.log :=
  own_fold_spec hc env k w h hq

/-- `IntoKeys::next` (map.rs:2316, `self.inner.next().map(|(k, _)| k)`): the value object of the
    yielded pair is dropped in that very call, and nothing else happens. -/
theorem into_keys_drops_value {env : Env} {o : Own} {r : RawOwn} {i : Nat} {e : Elem} (w : World)
    (hk : o.kind = .mapIntoKeys) (hr : o.raw.next cfg = .ok (some (i, e), r)) :
    o.next cfg env w = .ok (some (.key i e.k e.kid), { o with raw := r }, Map.dropVal cfg e.vid w) :=
  intoKeys_next_drops w hk hr

/-- `IntoValues::next` (map.rs:2394, `self.inner.next().map(|(_, v)| v)`): the key object of the
    yielded pair is dropped in that very call; if its destructor panics the call does not return. -/
theorem into_values_drops_key {env : Env} {o : Own} {r : RawOwn} {i : Nat} {e : Elem} (w : World)
    (hk : o.kind = .mapIntoValues) (hr : o.raw.next cfg = .ok (some (i, e), r)) :
    (env.dropPanics w.dc ⟨0, e.kid, 0, 0⟩ = false ∨ cfg.needsDrop = false →
      o.next cfg env w = .ok (some (.val i e.vid e.v), { o with raw := r }, (dropKey cfg env e.kid w).2)) ∧
    (env.dropPanics w.dc ⟨0, e.kid, 0, 0⟩ = true ∧ cfg.needsDrop = true →
      ∀ x, o.next cfg env w ≠ .ok x) ∧
    (dropKey cfg env e.kid w).2.log = (if cfg.needsDrop then [Ev.dropK e.kid] else []) ++ w.log :=
  intoValues_next_drops w hk hr

/-- Cross-check: the step-wise `IntoKeys` (map.rs:2300-2340) agrees with the monolithic `Map.intoKeys`
    model of `Hb/Model/Entry.lean` that the correspondence harness runs against the real crate. -/
theorem into_keys_matches_harness_model (hc : CfgOk cfg) (env : Env) (n : Nat) (w : World)
    (h : Inv cfg w.t) :
    Own.run cfg env .mapIntoKeys n w =
      withItems ((ownItems .mapIntoKeys w.t).take n) (Map.intoKeys cfg env n w) :=
  own_intoKeys_eq_entry hc env n w h

/-- `Default` of the owning wrappers (map.rs:3260, 2304, 2382; set.rs:1828; table.rs:2233, via
    `RawIntoIter::default`, raw/mod.rs:3908) is empty; the `Drain` types have no `Default`. -/
theorem owning_default_empty (hc : CfgOk cfg) (env : Env) (k : OKind) :
    (k.isDrain = true → Own.default cfg k = none) ∧
    (k.isDrain = false → ∃ d, Own.default cfg k = some (.ok d) ∧ d.kind = k ∧
      d.sizeHint = (0, some 0) ∧ d.len = .ok 0 ∧ ∀ w, d.next cfg env w = .ok (none, d, w)) :=
  own_default_empty hc env k

/-! ### non-vacuity: a concrete 4-bucket table with 3 elements (SSE2 scanner, width 16) -/

def exCfg : Cfg := { ops := Sse2.ops }

/-- Buckets 0, 1, 2 hold `(k, kid, vid, v)` = `(10,101,201,7)`, `(20,102,202,8)`, `(30,103,203,9)`. -/
def exT : Raw :=
  { mask := 3
    ctrl := #[0x11, 0x12, 0x22, 255, 255, 255, 255, 255, 255, 255, 255, 255, 255, 255, 255, 255,
              0x11, 0x12, 0x22, 255]
    slots := #[some ⟨10, 101, 201, 7⟩, some ⟨20, 102, 202, 8⟩, some ⟨30, 103, 203, 9⟩, none]
    items := 3, gl := 0, alloc := true }

def exEnv : Env :=
  { hash := fun _ _ => some 0, eq := fun _ _ _ => some false, clone := fun c _ => some (c, c),
    pred := fun _ _ => some (true, 0), allocOk := fun _ => true, dropPanics := fun _ _ => false }

/-- `n` calls of `next` on a fresh wrapper of kind `k` over `exT`. -/
def exNexts (k : Kind) (n : Nat) : Except String (List (Option Item)) :=
  match Wrap.new exCfg exT k with
  | .error f => .error f
  | .ok w => (w.nextN exCfg exT n).map (·.1)

/-- One `next`, then `(size_hint, len, fold, what 3 more `next`s on the clone return)`. -/
def exAfterOne (k : Kind) :
    Except String ((Nat × Option Nat) × Except String Nat × Except String (List Item) ×
      Option (Except String (List (Option Item)))) :=
  match Wrap.new exCfg exT k with
  | .error f => .error f
  | .ok w =>
    match w.next exCfg exT with
    | .error f => .error f
    | .ok (_, w1) =>
      .ok (w1.sizeHint, w1.len, w1.fold exCfg exT,
        w1.clone.map fun c => (c.nextN exCfg exT 3).map (·.1))

example : invB exCfg exT = true := by decide
example : exT.fullList = [0, 1, 2] := by decide

example : exNexts .mapIter 5 = .ok [some (.pair 0 ⟨10, 101, 201, 7⟩), some (.pair 1 ⟨20, 102, 202, 8⟩),
    some (.pair 2 ⟨30, 103, 203, 9⟩), none, none] := by rfl
example : exNexts .mapIterMut 4 = .ok [some (.pair 0 ⟨10, 101, 201, 7⟩),
    some (.pair 1 ⟨20, 102, 202, 8⟩), some (.pair 2 ⟨30, 103, 203, 9⟩), none] := by rfl
example : exNexts .mapKeys 5 = .ok [some (.key 0 10 101), some (.key 1 20 102), some (.key 2 30 103),
    none, none] := by rfl
example : exNexts .mapValues 4 = .ok [some (.val 0 201 7), some (.val 1 202 8), some (.val 2 203 9),
    none] := by rfl
example : exNexts .mapValuesMut 2 = .ok [some (.val 0 201 7), some (.val 1 202 8)] := by rfl
example : exNexts .setIter 4 = .ok [some (.key 0 10 101), some (.key 1 20 102), some (.key 2 30 103),
    none] := by rfl
example : exNexts .tableIter 4 = .ok [some (.elem 0 ⟨10, 101, 201, 7⟩),
    some (.elem 1 ⟨20, 102, 202, 8⟩), some (.elem 2 ⟨30, 103, 203, 9⟩), none] := by rfl
example : exNexts .tableIterMut 1 = .ok [some (.elem 0 ⟨10, 101, 201, 7⟩)] := by rfl

/-- After one `next`: `size_hint = (2, Some(2))`, `len = 2`, `fold` visits buckets 1 and 2, the clone
    yields buckets 1, 2 and then `None`. -/
example : exAfterOne .mapKeys =
    .ok ((2, some 2), .ok 2, .ok [.key 1 20 102, .key 2 30 103],
      some (.ok [some (.key 1 20 102), some (.key 2 30 103), none])) := by rfl
example : exAfterOne .mapValuesMut =
    .ok ((2, some 2), .ok 2, .ok [.val 1 202 8, .val 2 203 9], none) := by rfl
example : exAfterOne .tableIter =
    .ok ((2, some 2), .ok 2, .ok [.elem 1 ⟨20, 102, 202, 8⟩, .elem 2 ⟨30, 103, 203, 9⟩],
      some (.ok [some (.elem 1 ⟨20, 102, 202, 8⟩), some (.elem 2 ⟨30, 103, 203, 9⟩), none])) := by rfl

/-- A default `set::Iter`: `next` is `None`, `size_hint` is `(0, Some(0))`. -/
example : (match Wrap.default exCfg .setIter with
    | .ok d => (match d.next exCfg exT with | .ok (x, _) => x.isNone | _ => false) &&
        d.sizeHint == (0, some 0)
    | _ => false) = true := by rfl

/-- What an owning run leaves: the items, the log (newest first), whether the collection is empty. -/
def exRun (k : OKind) (n : Nat) : Option (List Item × List Ev × Nat × Bool) :=
  match Own.run exCfg exEnv k n { t := exT } with
  | .ok (xs, w') => some (xs, w'.log, w'.t.items, w'.t.alloc)
  | _ => none

/-- `into_keys`, two `next`s, drop: keys of buckets 0 and 1 yielded, their values dropped at once,
    element 2 dropped by `Drop`, block (52 bytes, align 16) freed. -/
example : exRun .mapIntoKeys 2 =
    some ([.key 0 10 101, .key 1 20 102],
      [.free 52 16, .dropV 203, .dropK 103, .dropV 202, .dropV 201], 0, false) := by rfl
/-- `into_values`: the keys of the yielded pairs are dropped instead. -/
example : exRun .mapIntoValues 2 =
    some ([.val 0 201 7, .val 1 202 8],
      [.free 52 16, .dropV 203, .dropK 103, .dropK 102, .dropK 101], 0, false) := by rfl
/-- `drain`, one `next`, drop: the other two are dropped, the block stays with the (emptied) map. -/
example : exRun .mapDrain 1 =
    some ([.pair 0 ⟨10, 101, 201, 7⟩], [.dropV 203, .dropK 103, .dropV 202, .dropK 102], 0, true) := by rfl
/-- `HashTable::into_iter` consumed completely (`fold`): nothing left to drop. -/
example : (match Own.fold exCfg exEnv .tableIntoIter { t := exT } with
    | .ok (xs, w') => some (xs, w'.log)
    | _ => none) =
    some ([.elem 0 ⟨10, 101, 201, 7⟩, .elem 1 ⟨20, 102, 202, 8⟩, .elem 2 ⟨30, 103, 203, 9⟩],
      [.free 52 16]) := by rfl
/-- `HashSet::drain` consumed completely. -/
example : exRun .setDrain 7 =
    some ([.key 0 10 101, .key 1 20 102, .key 2 30 103], [], 0, true) := by rfl

#print axioms items_by_kind
#print axioms items_are_the_live_buckets
#print axioms next_forwards
#print axioms fold_forwards
#print axioms next_yields_each_once
#print axioms fused
#print axioms size_hint_exact
#print axioms fold_eq_next
#print axioms clone_independent
#print axioms default_empty
#print axioms owning_is_raw
#print axioms yielded_plus_dropped_is_stored
#print axioms owning_size_hint_exact
#print axioms owning_total_consumption
#print axioms into_keys_drops_value
#print axioms into_values_drops_key
#print axioms into_keys_matches_harness_model
#print axioms owning_default_empty

end Hb.C09W
