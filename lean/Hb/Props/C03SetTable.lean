/-
C03 (and the returning part of C04) for `HashTable` histories and for histories on a PAIR of
`HashSet`s — thin restatements of `Hb/Proofs/SetTableLedger.lean`.

Vocabulary. Every element carries an object identity (`Elem.kid`; a table / set element is ONE
object, the `vid` component of a table element is carried along and obeys the same equation).
`kidsOf t.elems` = identities stored in table `t`; `droppedK log` = identities whose destructor the
collection ran (one log entry per destructor call); `List.Perm` = equality of multisets, i.e.
"exactly once". `liveBlocks log` = blocks `(size, align)` obtained from the allocator and not yet
returned; `freesMatched log` = every `free` returned a block that was live at that moment, with the
layout it was requested with; `hs_blockOf cfg t` = the block table `t` owns (none for the
unallocated singleton); `hs_AllocInv cfg w` = `freesMatched w.log ∧ liveBlocks w.log = hs_blockOf
cfg w.t`.

`HashTable` (`TableOp`, `Table.stepH`, `Table.runH`): `Table.insH op` = elements MOVED IN
(`insert_unique e`, `entry(..).insert(ne)`, `entry(..).or_insert(ne)`, `find_entry` + `remove` +
`VacantEntry::insert(ne)`); `Table.retH op r` = elements HANDED BACK BY VALUE (`OccupiedEntry::
remove`, what `extract_if` / `drain` yielded). The hashes the caller supplies, the re-hash closure
and the `eq` closures are ARBITRARY: ownership does not depend on look-ups being right.

`HashSet` pairs (`SetCall`, `Set.step2`, `Set.run2`): `Set.insK2` = objects moved in by the caller
(`insert`, `replace`, `get_or_insert`, `entry(..)`), the object `get_or_insert_with`'s closure makes
when it runs, and the CLONES `|=` / `^=` create from elements of the other set (`Set.bitorClones`,
`Set.bitxorClones` — the identities `Clone` returned during the call; counted as moved in when
created, as `run2_ledger` of `PairHistory.lean` does for `clone`); `Set.returnedK2` = elements
handed back by `take` / `replace` / `OccupiedEntry::remove`.

Scope: element type with drop glue (`cfg.needsDrop = true`, otherwise there is no destructor call
to count), `CfgOk cfg`, EVERY environment (`Hash` / `Eq` / `Clone` / predicate answers arbitrary and
call-number dependent, any allocator answers), histories in which every call RETURNS (no observed
panic), no `mem::forget`-ed drain (`Table.NoForget`: it leaks the not yet yielded elements and the
block by design — the same exclusion as `hs_NoForget` in `C03.lean`).
Calls that UNWIND (C04's "no element is dropped twice; leaks only after a destructor panic") are
covered for `HashTable` (`table_unwound_call_ledger`, `table_no_double_drop_with_panics`). NOT covered:
the unwinding ledger for `HashSet` pairs — only the validity of both sets after an unwind is proved
(`C02SetTable.lean`); for `HashMap` see `C04.no_double_drop`.
-/
import Hb.Proofs.SetTableLedger
namespace Hb.C03ST
open Hb

variable {cfg : Cfg}

/-! ## `HashTable` -/

/-- C03, one call: "Every key and value moved into a collection is either dropped exactly once or
    moved out to the caller exactly once — whether it leaves by removal, overwrite, clear,
    retain/extract_if, drain (fully, partly or not consumed), … shrink — and a value returned to the
    caller is not also dropped by the collection." One returned `HashTable` call, every environment,
    every caller-supplied hash: stored-after ++ dropped-by-this-call ++ handed-back = stored-before
    ++ moved-in, as multisets of object identities; the allocator invariant is kept. -/
theorem table_call_ledger (hc : CfgOk cfg) (hnd : cfg.needsDrop = true) (env : Env) (op : TableOp)
    (w : World) (h : TInv cfg w.t) (hop : ∀ n, op ≠ .drain n true) {r : TRet} {w' : World}
    (hs : Table.stepH cfg env op w = .ok (r, w')) :
    ∃ new, w'.log = new ++ w.log ∧
      List.Perm (kidsOf w'.t.elems ++ droppedK new ++ kidsOf (Table.retH op r))
        (kidsOf w.t.elems ++ kidsOf (Table.insH op)) ∧
      List.Perm (vidsOf w'.t.elems ++ droppedV new ++ vidsOf (Table.retH op r))
        (vidsOf w.t.elems ++ vidsOf (Table.insH op)) ∧
      (hs_AllocInv cfg w → hs_AllocInv cfg w') :=
  table_stepH_ledger hc hnd env op w h hop hs

/-- C03, whole histories from `HashTable::new()`: "Every key and value moved into a collection is
    either dropped exactly once or moved out to the caller exactly once … and a value returned to
    the caller is not also dropped by the collection. Every block obtained from the allocator is
    returned exactly once with the layout it was requested with." At the end of the history:
    `stored ++ dropped ++ handed back = moved in`; all frees matched and the only live block is the
    table's own. -/
theorem table_released_exactly_once (hc : CfgOk cfg) (hnd : cfg.needsDrop = true) (env : Env)
    (ops : List TableOp) (w0 : World) (h0 : w0.t = Raw.new cfg.W) (hl0 : w0.log = [])
    (hnf : Table.NoForget ops) {obs : List Table.TObs} {wf : World}
    (hrun : Table.runH cfg env ops w0 = some (obs, wf)) (hret : ∀ o ∈ obs, ∃ r, o = .ret r) :
    List.Perm (kidsOf wf.t.elems ++ droppedK wf.log ++ kidsOf (Table.returnedH (ops.zip obs)))
      (kidsOf (Table.insHs ops)) ∧
    List.Perm (vidsOf wf.t.elems ++ droppedV wf.log ++ vidsOf (Table.returnedH (ops.zip obs)))
      (vidsOf (Table.insHs ops)) ∧
    hs_AllocInv cfg wf ∧ TInv cfg wf.t :=
  table_runH_ledger hc hnd env ops w0 h0 hl0 hnf hrun hret

/-- C03: "Every block obtained from the allocator is returned exactly once with the layout it was
    requested with … A collection that was never given an element or a capacity owns no block at
    all." After EVERY prefix of the history: every `free` so far was matched, the live blocks are
    exactly the table's own block, and a table that is the unallocated singleton owns none. -/
theorem table_allocator_balanced_along_history (hc : CfgOk cfg) (hnd : cfg.needsDrop = true)
    (env : Env) (ops : List TableOp) (w0 : World) (h0 : w0.t = Raw.new cfg.W) (hl0 : w0.log = [])
    (hnf : Table.NoForget ops) {obs : List Table.TObs} {wf : World}
    (hrun : Table.runH cfg env ops w0 = some (obs, wf)) (hret : ∀ o ∈ obs, ∃ r, o = .ret r) :
    ∀ w ∈ Table.statesH cfg env ops w0,
      freesMatched w.log ∧ liveBlocks w.log = hs_blockOf cfg w.t ∧
      (w.t.alloc = false → liveBlocks w.log = []) :=
  table_runH_allocInv hc hnd env ops w0 h0 hl0 hnf hrun hret

/-- C03: "… or drop of the collection … and after the collection is dropped nothing remains
    allocated." After additionally dropping the table (destructors do not panic) nothing is stored,
    every element moved in was dropped exactly once or handed back exactly once, no block is live
    and every `free` was matched. -/
theorem table_drop_releases_everything (hc : CfgOk cfg) (hnd : cfg.needsDrop = true) (env : Env)
    (hdp : ∀ c e, env.dropPanics c e = false) (ops : List TableOp)
    (w0 : World) (h0 : w0.t = Raw.new cfg.W) (hl0 : w0.log = []) (hnf : Table.NoForget ops)
    {obs : List Table.TObs} {wf : World} (hrun : Table.runH cfg env ops w0 = some (obs, wf))
    (hret : ∀ o ∈ obs, ∃ r, o = .ret r) :
    ∃ wd, dropInnerTable cfg env wf.t { wf with t := Raw.new cfg.W } = .ok wd ∧
      wd.t = Raw.new cfg.W ∧
      List.Perm (droppedK wd.log ++ kidsOf (Table.returnedH (ops.zip obs)))
        (kidsOf (Table.insHs ops)) ∧
      List.Perm (droppedV wd.log ++ vidsOf (Table.returnedH (ops.zip obs)))
        (vidsOf (Table.insHs ops)) ∧
      liveBlocks wd.log = [] ∧ freesMatched wd.log :=
  table_dropAll_ledger hc hnd env hdp ops w0 h0 hl0 hnf hrun hret

/-- C03 / C04 (returning calls): "a value returned to the caller is not also dropped by the
    collection"; "no element is dropped twice". With pairwise distinct identities moved in: nothing
    is stored twice, dropped twice or handed back twice; nothing handed back is dropped or still
    stored; nothing dropped is still stored. -/
theorem table_no_double_drop (hc : CfgOk cfg) (hnd : cfg.needsDrop = true) (env : Env)
    (ops : List TableOp) (w0 : World) (h0 : w0.t = Raw.new cfg.W) (hl0 : w0.log = [])
    (hnf : Table.NoForget ops) {obs : List Table.TObs} {wf : World}
    (hrun : Table.runH cfg env ops w0 = some (obs, wf)) (hret : ∀ o ∈ obs, ∃ r, o = .ret r)
    (hK : (kidsOf (Table.insHs ops)).Nodup) :
    (kidsOf wf.t.elems).Nodup ∧ (droppedK wf.log).Nodup ∧
    (kidsOf (Table.returnedH (ops.zip obs))).Nodup ∧
    (∀ x ∈ kidsOf (Table.returnedH (ops.zip obs)),
      x ∉ droppedK wf.log ∧ x ∉ kidsOf wf.t.elems) ∧
    (∀ x ∈ droppedK wf.log, x ∉ kidsOf wf.t.elems) :=
  table_runH_no_double_drop hc hnd env ops w0 h0 hl0 hnf hrun hret hK

/-- C04, one `HashTable` call that UNWINDS (any callback, any position): "no element is dropped
    twice; leaks only after a destructor panic". `stored after ++ dropped ++ lost = stored before ++
    moved in` (the elements the call moved in are dropped by the unwinding), with `lost = []` and
    no block leaked unless the panic is a destructor's (`c = "drop"`; never if no destructor
    panics) or the call is an `extract_if` whose predicate panicked after elements had been yielded
    (they are with the caller); only a `drain` can leak its block; all frees stay matched. -/
theorem table_unwound_call_ledger (hc : CfgOk cfg) (hnd : cfg.needsDrop = true) (env : Env)
    (op : TableOp) (w : World) (h : TInv cfg w.t) (hop : ∀ n, op ≠ .drain n true) {c : String}
    {w' : World} (hs : Table.stepH cfg env op w = .panic c w') :
    ∃ (new : List Ev) (lostK lostV : List Nat) (leaked : List (Nat × Nat)), w'.log = new ++ w.log ∧
      List.Perm (kidsOf w'.t.elems ++ droppedK new ++ lostK)
        (kidsOf w.t.elems ++ kidsOf (Table.insH op)) ∧
      List.Perm (vidsOf w'.t.elems ++ droppedV new ++ lostV)
        (vidsOf w.t.elems ++ vidsOf (Table.insH op)) ∧
      (∀ L, hs_AllocInvL cfg w L → hs_AllocInvL cfg w' (leaked ++ L)) ∧
      ((∀ n f, op ≠ .drain n f) → leaked = []) ∧
      ((∀ c e, env.dropPanics c e = false) →
        leaked = [] ∧ ((∀ n, op ≠ .extractIf n) → lostK = [] ∧ lostV = [])) ∧
      (c ≠ "drop" → leaked = [] ∧ ((∀ n, op ≠ .extractIf n) → lostK = [] ∧ lostV = [])) :=
  table_step_ledger_panic hc hnd env op w h hop hs

/-- C04, `HashTable` histories WITH panics (calls may return or unwind; panics are caught and the
    history goes on): `stored ++ dropped ++ handed back ++ lost = moved in` for some `lost` that is
    empty unless a destructor panicked or an `extract_if` unwound (`Table.lossy`); with pairwise
    distinct identities moved in, no object is dropped twice, handed back twice, dropped and handed
    back, or released while still stored. -/
theorem table_no_double_drop_with_panics (hc : CfgOk cfg) (hnd : cfg.needsDrop = true) (env : Env)
    (ops : List TableOp) (w0 : World) (h0 : w0.t = Raw.new cfg.W) (hl0 : w0.log = [])
    (hnf : Table.NoForget ops) {obs : List Table.TObs} {wf : World}
    (hrun : Table.runH cfg env ops w0 = some (obs, wf)) :
    (∃ lostK, List.Perm (kidsOf wf.t.elems ++ droppedK wf.log ++
          kidsOf (Table.returnedH (ops.zip obs)) ++ lostK) (kidsOf (Table.insHs ops)) ∧
        ((∀ p ∈ ops.zip obs, Table.lossy p = false) → lostK = [])) ∧
    ((kidsOf (Table.insHs ops)).Nodup →
      (kidsOf wf.t.elems ++ droppedK wf.log ++ kidsOf (Table.returnedH (ops.zip obs))).Nodup) :=
  table_no_double_drop_panics hc hnd env ops w0 h0 hl0 hnf hrun

/-! ## pairs of `HashSet`s -/

/-- C03, one call on a pair of sets (`target.op(&other)`, either side): every key object stored in
    either set before, moved in, or created by `Clone` during the call (`|=`, `^=`) is afterwards in
    exactly one of {set `a`, set `b`, the destructor log of this call, the return value}; whatever
    the log was before, if its live blocks were the blocks of `a` and `b` with all frees matched,
    this still holds afterwards. -/
theorem set_pair_call_ledger (hc : CfgOk cfg) (hnd : cfg.needsDrop = true) (env : Env) (c : SetCall)
    (s : Set.Pair) (ha : TInv cfg s.a) (hb : TInv cfg s.b) {r : Ret} {s' : Set.Pair}
    (hst : Set.step2 cfg env c s = .ret r s') :
    ∃ new, s'.w.log = new ++ s.w.log ∧
      List.Perm (kidsOf s'.a.elems ++ kidsOf s'.b.elems ++ droppedK new ++ Set.retK c.op r)
        (kidsOf s.a.elems ++ kidsOf s.b.elems ++ c.insK cfg env s) ∧
      (∀ L, freesMatched L →
        List.Perm (liveBlocks L) (hs_blockOf cfg s.a ++ hs_blockOf cfg s.b) →
        freesMatched (new ++ L) ∧
          List.Perm (liveBlocks (new ++ L)) (hs_blockOf cfg s'.a ++ hs_blockOf cfg s'.b)) :=
  set_step2_ledger hc hnd env c s ha hb hst

/-- C03, whole histories on `(HashSet::new(), HashSet::new())`: "Every key … moved into a collection
    is either dropped exactly once or moved out to the caller exactly once … Every block obtained
    from the allocator is returned exactly once with the layout it was requested with."
    `stored(a) ++ stored(b) ++ dropped ++ handed back = moved in ++ clones created`; all frees
    matched; the live blocks are exactly the blocks of `a` and `b`. -/
theorem set_pair_released_exactly_once (hc : CfgOk cfg) (hnd : cfg.needsDrop = true) (env : Env)
    (cs : List SetCall) (s0 : Set.Pair) (ha : s0.a = Raw.new cfg.W) (hb : s0.b = Raw.new cfg.W)
    (hl0 : s0.w.log = []) {obs : List Map.Obs} {sf : Set.Pair}
    (hrun : Set.run2 cfg env cs s0 = some (obs, sf)) (hret : ∀ o ∈ obs, ∃ r, o = .ret r) :
    List.Perm (kidsOf sf.a.elems ++ kidsOf sf.b.elems ++ droppedK sf.w.log ++
        Set.returnedK2 (cs.zip obs)) (Set.insK2 cfg env cs s0) ∧
    freesMatched sf.w.log ∧
    List.Perm (liveBlocks sf.w.log) (hs_blockOf cfg sf.a ++ hs_blockOf cfg sf.b) ∧
    TInv cfg sf.a ∧ TInv cfg sf.b :=
  set_run2_ledger hc hnd env cs s0 ha hb hl0 hrun hret

/-- C03, allocator along a set-pair history: after EVERY prefix all frees are matched and the live
    blocks are the blocks of `a` and of `b`; "a collection that was never given an element or a
    capacity owns no block at all" — while both sets are unallocated singletons nothing is live. -/
theorem set_pair_allocator_balanced_along_history (hc : CfgOk cfg) (hnd : cfg.needsDrop = true)
    (env : Env) (cs : List SetCall) (s0 : Set.Pair) (ha : s0.a = Raw.new cfg.W)
    (hb : s0.b = Raw.new cfg.W) (hl0 : s0.w.log = []) {obs : List Map.Obs} {sf : Set.Pair}
    (hrun : Set.run2 cfg env cs s0 = some (obs, sf)) (hret : ∀ o ∈ obs, ∃ r, o = .ret r) :
    ∀ s ∈ Set.states2 cfg env cs s0,
      freesMatched s.w.log ∧
      List.Perm (liveBlocks s.w.log) (hs_blockOf cfg s.a ++ hs_blockOf cfg s.b) ∧
      (s.a.alloc = false → s.b.alloc = false → liveBlocks s.w.log = []) :=
  set_run2_allocInv hc hnd env cs s0 ha hb hl0 hrun hret

/-- C03: "… and after the collection is dropped nothing remains allocated." After dropping set `a`
    and then set `b` (destructors do not panic): every key object moved in or created by `Clone`
    was dropped exactly once or handed back exactly once; no block is live; every `free` matched. -/
theorem set_pair_drop_releases_everything (hc : CfgOk cfg) (hnd : cfg.needsDrop = true) (env : Env)
    (hdp : ∀ c e, env.dropPanics c e = false) (cs : List SetCall) (s0 : Set.Pair)
    (ha : s0.a = Raw.new cfg.W) (hb : s0.b = Raw.new cfg.W) (hl0 : s0.w.log = [])
    {obs : List Map.Obs} {sf : Set.Pair} (hrun : Set.run2 cfg env cs s0 = some (obs, sf))
    (hret : ∀ o ∈ obs, ∃ r, o = .ret r) :
    ∃ w1 wd, dropInnerTable cfg env sf.a { sf.w with t := Raw.new cfg.W } = .ok w1 ∧
      dropInnerTable cfg env sf.b w1 = .ok wd ∧ wd.t = Raw.new cfg.W ∧
      List.Perm (droppedK wd.log ++ Set.returnedK2 (cs.zip obs)) (Set.insK2 cfg env cs s0) ∧
      liveBlocks wd.log = [] ∧ freesMatched wd.log :=
  set_dropAll2_ledger hc hnd env hdp cs s0 ha hb hl0 hrun hret

/-- C03 / C04 (returning calls), pairs of sets: with pairwise distinct identities moved in / created
    by `Clone`, no key object is stored twice (within one set or across the two), dropped twice or
    handed back twice; nothing handed back is dropped or still stored; nothing dropped is stored. -/
theorem set_pair_no_double_drop (hc : CfgOk cfg) (hnd : cfg.needsDrop = true) (env : Env)
    (cs : List SetCall) (s0 : Set.Pair) (ha : s0.a = Raw.new cfg.W) (hb : s0.b = Raw.new cfg.W)
    (hl0 : s0.w.log = []) {obs : List Map.Obs} {sf : Set.Pair}
    (hrun : Set.run2 cfg env cs s0 = some (obs, sf)) (hret : ∀ o ∈ obs, ∃ r, o = .ret r)
    (hK : (Set.insK2 cfg env cs s0).Nodup) :
    (kidsOf sf.a.elems ++ kidsOf sf.b.elems).Nodup ∧ (droppedK sf.w.log).Nodup ∧
    (Set.returnedK2 (cs.zip obs)).Nodup ∧
    (∀ x ∈ Set.returnedK2 (cs.zip obs),
      x ∉ droppedK sf.w.log ∧ x ∉ kidsOf sf.a.elems ++ kidsOf sf.b.elems) ∧
    (∀ x ∈ droppedK sf.w.log, x ∉ kidsOf sf.a.elems ++ kidsOf sf.b.elems) :=
  set_run2_no_double_drop hc hnd env cs s0 ha hb hl0 hrun hret hK

/-! ## non-vacuity: evaluated histories (SSE2 scanner) -/

/-- `eq` closures compare keys, the predicate answers by call parity, `Clone` numbers its results
    1000, 1001, …; the re-hash closure is `k ↦ 7 k`. -/
def tEnv : Env :=
  { hash := fun _ k => some (k * 7), eq := fun _ q e => some (q == e.k),
    clone := fun c _ => some (1000 + c, 0), pred := fun c _ => some (c % 2 == 0, 7),
    allocOk := fun _ => true, dropPanics := fun _ _ => false }

/-- A table history: `insert_unique` of two elements with the SAME key (duplicates, objects 10 and
    11) and of key 2; `find_entry(1)` + `remove` + `VacantEntry::insert` (object 10 comes back, 12 goes
    in); `entry(3).insert` vacant, then occupied (30 is dropped, 31 stored); `entry(2).or_insert` on
    an occupied entry (21 dropped); `find_entry(9)` absent with a replacement (90 dropped); two more
    inserts; `find`, `find_mut`; `extract_if` × 2; a partly consumed `drain` (one element taken, the
    rest dropped); `reserve`; two inserts; `find_entry(6)` + `remove`; `shrink_to_fit`; `len`. -/
def tOps : List TableOp :=
  [ .insertUnique 7 ⟨1, 10, 0, 0⟩, .insertUnique 7 ⟨1, 11, 0, 1⟩, .insertUnique 14 ⟨2, 20, 0, 0⟩,
    .findEntryRemove 7 1 (some ⟨1, 12, 0, 5⟩), .entryInsert 21 3 ⟨3, 30, 0, 0⟩,
    .entryInsert 21 3 ⟨3, 31, 0, 0⟩, .entryOrInsert 14 2 ⟨2, 21, 0, 0⟩,
    .findEntryRemove 99 9 (some ⟨9, 90, 0, 0⟩), .insertUnique 28 ⟨4, 40, 0, 0⟩,
    .insertUnique 35 ⟨5, 50, 0, 0⟩, .find 7 1, .findMut 14 2 9, .extractIf 2, .drain 1 false,
    .reserve 20, .insertUnique 42 ⟨6, 60, 0, 0⟩, .insertUnique 49 ⟨7, 70, 0, 0⟩,
    .findEntryRemove 42 6 none, .shrinkTo 0, .len ]

/-- The allocator events of a log, newest first. -/
def allocEvs (l : List Ev) : List Ev :=
  l.filter (fun ev => match ev with | .alloc _ _ => true | .free _ _ => true | _ => false)

/-- (every call returned; stored; dropped by the table; handed back; moved in). -/
def tSummary : Option (Bool × List Nat × List Nat × List Nat × List Nat) :=
  match Table.runH { ops := Sse2.ops } tEnv tOps { t := Raw.new 16 } with
  | some (obs, wf) =>
    some (obs.all (fun o => match o with | .ret _ => true | .panic _ => false),
      kidsOf wf.t.elems, droppedK wf.log, kidsOf (Table.returnedH (tOps.zip obs)),
      kidsOf (Table.insHs tOps))
  | none => none

/-- (live blocks; allocator events newest first; after the drop of the table: dropped, live
    blocks). -/
def tAllocSummary : Option (List (Nat × Nat) × List Ev × Option (List Nat × List (Nat × Nat))) :=
  match Table.runH { ops := Sse2.ops } tEnv tOps { t := Raw.new 16 } with
  | some (_, wf) =>
    some (liveBlocks wf.log, allocEvs wf.log,
      match dropInnerTable { ops := Sse2.ops } tEnv wf.t { wf with t := Raw.new 16 } with
      | .ok wd => some (droppedK wd.log, liveBlocks wd.log)
      | _ => none)
  | none => none

/-- The evaluated ledger of the table history: 12 objects moved in = 1 stored (70) + 6 dropped by
    the table (30: overwritten through `entry().insert`; 21: `or_insert` on an occupied entry; 90:
    replacement for an absent entry; 31, 20, 11: the rest of the partly consumed drain) + 5 handed
    back (10: `OccupiedEntry::remove`; 12, 40: `extract_if`; 50: `drain`; 60: `remove`). One block
    live (the table's, 4 buckets), three earlier blocks freed with the layouts they were requested
    with; after the drop of the table 70 is dropped too and nothing is live. -/
example :
    tSummary = some (true, [70], [11, 20, 31, 90, 21, 30], [10, 12, 40, 50, 60],
      [10, 11, 20, 12, 30, 31, 21, 90, 40, 50, 60, 70]) := by
  rfl

example :
    tAllocSummary = some ([(52, 16)],
      [.free 304 16, .alloc 52 16, .free 88 16, .alloc 304 16, .free 52 16, .alloc 88 16,
        .alloc 52 16],
      some ([70, 11, 20, 31, 90, 21, 30], [])) := by
  rfl

theorem tOps_noForget : Table.NoForget tOps := by
  intro op hop
  simp only [tOps, List.mem_cons, List.not_mem_nil, or_false] at hop
  rcases hop with rfl | rfl | rfl | rfl | rfl | rfl | rfl | rfl | rfl | rfl | rfl | rfl | rfl | rfl |
    rfl | rfl | rfl | rfl | rfl | rfl <;> intro n hn <;> cases hn

/-- … and the general theorems apply to it (their hypotheses are satisfiable). `hs` is
    `sse2_groupSpec` of `Hb/Proofs/Group.lean` (not imported here). -/
example (hs : GroupSpec Sse2.ops) {obs : List Table.TObs} {wf : World}
    (hrun : Table.runH { ops := Sse2.ops } tEnv tOps { t := Raw.new 16 } = some (obs, wf))
    (hret : ∀ o ∈ obs, ∃ r, o = .ret r) :
    List.Perm (kidsOf wf.t.elems ++ droppedK wf.log ++ kidsOf (Table.returnedH (tOps.zip obs)))
      (kidsOf (Table.insHs tOps)) ∧
    hs_AllocInv { ops := Sse2.ops } wf ∧
    ∃ wd, dropInnerTable { ops := Sse2.ops } tEnv wf.t { wf with t := Raw.new 16 } = .ok wd ∧
      List.Perm (droppedK wd.log ++ kidsOf (Table.returnedH (tOps.zip obs)))
        (kidsOf (Table.insHs tOps)) ∧
      liveBlocks wd.log = [] ∧ freesMatched wd.log := by
  have hc : CfgOk { ops := Sse2.ops } := ⟨hs, by decide⟩
  obtain ⟨k, _, a, _⟩ := table_released_exactly_once hc rfl tEnv tOps { t := Raw.new 16 } rfl rfl
    tOps_noForget hrun hret
  obtain ⟨wd, d1, _, d3, _, d5, d6⟩ := table_drop_releases_everything hc rfl tEnv (fun _ _ => rfl)
    tOps { t := Raw.new 16 } rfl rfl tOps_noForget hrun hret
  exact ⟨k, a, wd, d1, d3, d5, d6⟩

/-- A lawful hasher, `Eq` on keys, `Clone` numbering its results 1000, 1001, …. -/
def sEnv : Env :=
  { hash := fun _ k => some (k * 2654435761), eq := fun _ q e => some (q == e.k),
    clone := fun c _ => some (1000 + c, 0), pred := fun c _ => some (c % 2 == 0, 7),
    allocOk := fun _ => true, dropPanics := fun _ _ => false }

/-- A history on a pair of sets: `a = {1, 2}`, `b = {2, 3}`; a duplicate insert into `a` (object 11
    is dropped); `a |= &b` (element 3 of `b` is cloned: object 1000); `b ^= &a` (2 and 3 are removed
    from `b` and dropped, 1 is cloned: object 1001); `a.take(2)` (object 20 comes back);
    `a.replace(3)` (the clone 1000 comes back, 31 is stored); `get_or_insert_with` on an absent
    value (its closure makes object 50) and on a present one (the closure does not run, object 51
    never exists); `union`, `is_subset` (observations); `entry(5)` + `remove` (52 dropped, 50 comes
    back); `a -= &b`; `b.get_or_insert(3)`; `a &= &b`; `b.shrink_to_fit()`. -/
def sOps : List SetCall :=
  [ ⟨.a, .insert 1 10⟩, ⟨.a, .insert 2 20⟩, ⟨.b, .insert 2 21⟩, ⟨.b, .insert 3 30⟩,
    ⟨.a, .insert 1 11⟩, ⟨.a, .bitorAssign⟩, ⟨.b, .bitxorAssign⟩, ⟨.a, .take 2⟩,
    ⟨.a, .replace ⟨3, 31, 0, 0⟩⟩, ⟨.b, .getOrInsertWith 5 5 50⟩, ⟨.b, .getOrInsertWith 5 5 51⟩,
    ⟨.a, .union⟩, ⟨.a, .isSubset⟩, ⟨.b, .entryRemove ⟨5, 52, 0, 0⟩⟩, ⟨.a, .subAssign⟩,
    ⟨.b, .getOrInsert ⟨3, 32, 0, 0⟩⟩, ⟨.a, .bitandAssign⟩, ⟨.b, .shrinkTo 0⟩ ]

/-- (every call returned; stored in `a`; stored in `b`; dropped; handed back; moved in + clones
    created). -/
def sSummary : Option (Bool × List Nat × List Nat × List Nat × List Nat × List Nat) :=
  match Set.run2 { ops := Sse2.ops } sEnv sOps (Set.Pair.new { ops := Sse2.ops }) with
  | some (obs, sf) =>
    some (obs.all (fun o => match o with | .ret _ => true | .panic _ => false),
      kidsOf sf.a.elems, kidsOf sf.b.elems, droppedK sf.w.log, Set.returnedK2 (sOps.zip obs),
      Set.insK2 { ops := Sse2.ops } sEnv sOps (Set.Pair.new { ops := Sse2.ops }))
  | none => none

/-- (live blocks; allocator events newest first; after the drop of both sets: dropped, live
    blocks). -/
def sAllocSummary : Option (List (Nat × Nat) × List Ev × Option (List Nat × List (Nat × Nat))) :=
  match Set.run2 { ops := Sse2.ops } sEnv sOps (Set.Pair.new { ops := Sse2.ops }) with
  | some (_, sf) =>
    some (liveBlocks sf.w.log, allocEvs sf.w.log,
      match dropInnerTable { ops := Sse2.ops } sEnv sf.a { sf.w with t := Raw.new 16 } with
      | .ok w1 =>
        match dropInnerTable { ops := Sse2.ops } sEnv sf.b w1 with
        | .ok wd => some (droppedK wd.log, liveBlocks wd.log)
        | _ => none
      | _ => none)
  | none => none

/-- The evaluated ledger of the set-pair history: 11 key objects entered the accounting (9 moved in
    by the caller — 51 never existed and is not among them — and the 2 clones 1000, 1001) = 1 stored
    in `a` (31) + 2 stored in `b` (1001, 32) + 5 dropped (11: duplicate insert; 21, 30: removed by
    `^=`; 52: the key of the `entry`; 10: removed by `-=`) + 3 handed back (20: `take`; 1000:
    `replace`; 50: `OccupiedEntry::remove`). Two blocks live (one per set), two freed with their own
    layouts; after the drop of both sets everything is dropped and nothing is live. -/
example :
    sSummary = some (true, [31], [1001, 32], [10, 52, 30, 21, 11], [20, 1000, 50],
      [10, 20, 21, 30, 11, 1000, 1001, 31, 50, 52, 32]) := by
  rfl

example :
    sAllocSummary = some ([(52, 16), (52, 16)],
      [.free 88 16, .alloc 52 16, .free 52 16, .alloc 88 16, .alloc 52 16, .alloc 52 16],
      some ([32, 1001, 31, 10, 52, 30, 21, 11], [])) := by
  rfl

/-- … and the general theorems apply to it (their hypotheses are satisfiable). -/
example (hs : GroupSpec Sse2.ops) {obs : List Map.Obs} {sf : Set.Pair}
    (hrun : Set.run2 { ops := Sse2.ops } sEnv sOps (Set.Pair.new { ops := Sse2.ops }) =
      some (obs, sf)) (hret : ∀ o ∈ obs, ∃ r, o = .ret r) :
    List.Perm (kidsOf sf.a.elems ++ kidsOf sf.b.elems ++ droppedK sf.w.log ++
        Set.returnedK2 (sOps.zip obs))
      (Set.insK2 { ops := Sse2.ops } sEnv sOps (Set.Pair.new { ops := Sse2.ops })) ∧
    freesMatched sf.w.log ∧
    List.Perm (liveBlocks sf.w.log)
      (hs_blockOf { ops := Sse2.ops } sf.a ++ hs_blockOf { ops := Sse2.ops } sf.b) ∧
    ∃ w1 wd, dropInnerTable { ops := Sse2.ops } sEnv sf.a { sf.w with t := Raw.new 16 } = .ok w1 ∧
      dropInnerTable { ops := Sse2.ops } sEnv sf.b w1 = .ok wd ∧
      List.Perm (droppedK wd.log ++ Set.returnedK2 (sOps.zip obs))
        (Set.insK2 { ops := Sse2.ops } sEnv sOps (Set.Pair.new { ops := Sse2.ops })) ∧
      liveBlocks wd.log = [] ∧ freesMatched wd.log := by
  have hc : CfgOk { ops := Sse2.ops } := ⟨hs, by decide⟩
  obtain ⟨k, f, l, _⟩ := set_pair_released_exactly_once hc rfl sEnv sOps
    (Set.Pair.new { ops := Sse2.ops }) rfl rfl rfl hrun hret
  obtain ⟨w1, wd, d1, d2, _, d4, d5, d6⟩ := set_pair_drop_releases_everything hc rfl sEnv
    (fun _ _ => rfl) sOps (Set.Pair.new { ops := Sse2.ops }) rfl rfl rfl hrun hret
  exact ⟨k, f, l, w1, wd, d1, d2, d4, d5, d6⟩

#print axioms table_call_ledger
#print axioms table_released_exactly_once
#print axioms table_allocator_balanced_along_history
#print axioms table_drop_releases_everything
#print axioms table_no_double_drop
#print axioms table_unwound_call_ledger
#print axioms table_no_double_drop_with_panics
#print axioms set_pair_call_ledger
#print axioms set_pair_released_exactly_once
#print axioms set_pair_allocator_balanced_along_history
#print axioms set_pair_drop_releases_everything
#print axioms set_pair_no_double_drop
#print axioms tOps_noForget

end Hb.C03ST
