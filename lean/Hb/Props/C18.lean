/-
C18 — Behaviour is identical for the SIMD and the portable group scanner.

Each scanner primitive agrees with its byte-by-byte definition on every group of control bytes
(`ValidGroup`: 7-bit tags, DELETED, EMPTY), except that the portable tag match may additionally
report a byte that differs from the tag only in its lowest bit, at a lane above a true match.
The table layer of the model (and all theorems about it) uses a scanner only through `GroupSpec`.

The portable word tricks are proved twice: `Hb/Proofs/Group.lean` closes them with `bv_decide` (native
axioms), `Hb/Proofs/GroupKernel.lean` / `GroupKernelSpec.lean` re-prove the same statements with kernel
reasoning only (bit extensionality of the packed word, `decide +kernel` over the eight lane bits, and
the borrow chain of the tag-match subtraction in `Nat` by `omega`). The theorems below use the
kernel-only versions, so their axioms are `propext`, `Classical.choice`, `Quot.sound`.
-/
import Hb.Proofs.GroupKernelSpec
namespace Hb.C18
open Hb

/-- The 16-byte SSE2 scanner meets the byte-wise specification (no caveat: its tag match is exact). -/
theorem sse2_spec : GroupSpec Sse2.ops := sse2_groupSpec

/-- The portable 8-byte word scanner meets the byte-wise specification with the tag-match caveat. -/
theorem generic_spec : GroupSpec Generic.ops := generic_groupSpec_k

/-- SSE2 tag match is exactly the byte-wise one, for every tag byte. -/
theorem sse2_matchTag_exact (g : List Nat) (t : Nat) (h : g.length = 16) :
    Sse2.ops.matchTag g t = Spec.matchTag g t := (Sse2.matchTag_spec g t h).2

/-- The caveat, stated outright: an extra lane reported by the portable tag match holds `tag ^^^ 1`
    and lies above a lane holding the tag itself. -/
theorem portable_false_positive : ∀ g t, ValidGroup 8 g → t < 128 →
    ∀ i ∈ Generic.ops.matchTag g t, g.getD i 0 ≠ t →
      (g.getD i 0 = t ^^^ 1 ∧ ∃ j, j < i ∧ g.getD j 0 = t) :=
  generic_matchTag_false_positive_k

/-- match-empty / match-empty-or-deleted / match-full / bulk convert: both back-ends equal the same
    byte-wise function, hence each other lane for lane (on a common prefix the only difference is
    the group width). -/
theorem primitives_agree (g8 g16 : List Nat) (h8 : ValidGroup 8 g8) (h16 : ValidGroup 16 g16) :
    Generic.ops.matchEmpty g8 = Spec.matchEmpty g8 ∧ Sse2.ops.matchEmpty g16 = Spec.matchEmpty g16 ∧
    Generic.ops.matchSpecial g8 = Spec.matchSpecial g8 ∧ Sse2.ops.matchSpecial g16 = Spec.matchSpecial g16 ∧
    Generic.ops.matchFull g8 = Spec.matchFull g8 ∧ Sse2.ops.matchFull g16 = Spec.matchFull g16 ∧
    Generic.ops.convert g8 = Spec.convert g8 ∧ Sse2.ops.convert g16 = Spec.convert g16 ∧
    Generic.ops.emptyLeadingZeros g8 = Spec.emptyLeadingZeros g8 ∧
    Sse2.ops.emptyLeadingZeros g16 = Spec.emptyLeadingZeros g16 ∧
    Generic.ops.emptyTrailingZeros g8 = Spec.emptyTrailingZeros g8 ∧
    Sse2.ops.emptyTrailingZeros g16 = Spec.emptyTrailingZeros g16 :=
  ⟨generic_groupSpec_k.matchEmpty g8 h8, sse2_groupSpec.matchEmpty g16 h16,
   generic_groupSpec_k.matchSpecial g8 h8, sse2_groupSpec.matchSpecial g16 h16,
   generic_groupSpec_k.matchFull g8 h8, sse2_groupSpec.matchFull g16 h16,
   generic_groupSpec_k.convert g8 h8, sse2_groupSpec.convert g16 h16,
   generic_groupSpec_k.lz g8 h8, sse2_groupSpec.lz g16 h16,
   generic_groupSpec_k.tz g8 h8, sse2_groupSpec.tz g16 h16⟩

/-! The false positive is real (so the caveat is not vacuous), and SSE2 does not have it. -/
example : Generic.ops.matchTag [0x10, 0x11, 255, 255, 255, 255, 255, 255] 0x10 = [0, 1] := by
  decide +kernel
example : Sse2.ops.matchTag
    [0x10, 0x11, 255, 255, 255, 255, 255, 255, 255, 255, 255, 255, 255, 255, 255, 255] 0x10 = [0] := by
  decide +kernel

#print axioms sse2_spec
#print axioms generic_spec
#print axioms sse2_matchTag_exact
#print axioms portable_false_positive
#print axioms primitives_agree
end Hb.C18
