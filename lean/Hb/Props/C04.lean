/-
C04 — A panic in any user callback leaves a valid collection and no double drop.

Theorems about the two guarded growth paths (hasher panic inside `resize_inner` and inside
`rehash_in_place`) for EVERY environment, table state and panic position, plus the machine-checked
witness of defect F1 (the guard as shipped in 0.15.2, `cfg.guardAlways = false`, with an element
type without drop glue) and its repaired twin. `cfg.guardAlways = true` is the code after the
`fix:` commit in /repo; the correspondence check forces the model to follow the code.
The API-level statements for EVERY history with panics at ANY callback invocation are below:
`valid_after_any_panic` (the collection is valid after every unwound call) and `no_double_drop`
(the ownership ledger across unwinds), with `unwound_call_ledger` saying exactly which objects an
unwound call may lose (only after a destructor panic, or because a partially run `extract_if`/`drain`
had already handed them to the caller).
-/
import Hb.Proofs.Resize
import Hb.Proofs.Rehash
import Hb.Proofs.Probe
import Hb.Proofs.LedgerPanic
import Hb.Proofs.HistoryX
namespace Hb.C04
open Hb

variable {cfg : Cfg}

/-- A hasher panic while the table is being grown into a new allocation leaves the contents (indeed
    the whole table) unchanged, and the new block is returned to the allocator: nothing leaks. The
    only other panic is the documented "capacity overflow" of the infallible API, also without any
    change. Growth never faults (no undefined behaviour), whatever the callbacks do. -/
theorem resize_atomic (hc : CfgOk cfg) (hp : ProbeCovers cfg) (env : Env) (capacity : Nat)
    (fb : Fallibility) (w : World) (h : Inv cfg w.t) (hlo : w.t.LayoutOk cfg)
    (hcap : w.t.items ≤ capacity) :
    (∀ c w', resizeInner cfg env capacity fb w = .panic c w' →
      (c = "capacity" ∧ fb = .infallible ∧ w' = w) ∨
      (c = "hash" ∧ w'.t = w.t ∧ ∃ b,
        w'.log = .free (layoutOf cfg b).size (layoutOf cfg b).align ::
                 .alloc (layoutOf cfg b).size (layoutOf cfg b).align :: w.log)) ∧
    (∀ f, resizeInner cfg env capacity fb w ≠ .fault f) := by
  have hs := resizeInner_spec_partial hc hp env capacity fb w h hlo hcap
  constructor
  · intro c w' hr
    rw [hr] at hs
    rcases hs with hs | ⟨h1, _, h3, b, _, _, _, h7, _⟩
    · exact Or.inl hs
    · exact Or.inr ⟨h1, h3, b, h7⟩
  · intro f hf
    rw [hf] at hs
    exact hs

/-- A hasher panic during an in-place rehash: the unwind guard leaves a valid table (`Inv`), whose
    `len` equals the number of stored elements; every element that was in the table is either still
    present or has been dropped exactly once (`w'.t.elems ++ ds` is a permutation of the old
    contents and exactly `ds` is logged as dropped); nothing new appears. -/
theorem rehash_unwind (hc : CfgOk cfg) (hp : ProbeCovers cfg) (env : Env) (w : World)
    (h : Inv cfg w.t) (ha : w.t.alloc = true) {c : String} {w' : World}
    (hr : rehashInPlace cfg env w = .panic c w')
    (hrun : cfg.needsDrop = true ∨ cfg.guardAlways = true) :
    c = "hash" ∧ Inv cfg w'.t ∧ w'.t.items = w'.t.elems.length ∧
    ∃ ds, List.Perm (w'.t.elems ++ ds) w.t.elems ∧ w'.log = dropEvs cfg ds ++ w.log := by
  have hs := rehashInPlace_spec hc hp env w h ha
  rw [hr] at hs
  obtain ⟨hcl, _, hrn, _⟩ := hs
  obtain ⟨a1, _, a3, _, ds, a5, a6⟩ := hrn hrun
  exact ⟨hcl, a1, a3, ds, a5, a6⟩

/-- In-place rehash never faults and never aborts, for any hasher behaviour. -/
theorem rehash_no_fault (hc : CfgOk cfg) (hp : ProbeCovers cfg) (env : Env) (w : World)
    (h : Inv cfg w.t) (ha : w.t.alloc = true) :
    (∀ f, rehashInPlace cfg env w ≠ .fault f) ∧ rehashInPlace cfg env w ≠ .abort :=
  rehashInPlace_no_fault hc hp env w h ha

/-- Without a panic, in-place rehash loses nothing, drops nothing and reclaims every tombstone. -/
theorem rehash_ok (hc : CfgOk cfg) (hp : ProbeCovers cfg) (env : Env) (w w' : World)
    (h : Inv cfg w.t) (ha : w.t.alloc = true) (hr : rehashInPlace cfg env w = .ok w') :
    Inv cfg w'.t ∧ w'.t.items = w.t.items ∧ w'.t.countCtrl (· == DELETED) = 0 ∧
    List.Perm w'.t.elems w.t.elems ∧ w'.log = w.log := by
  have hs := rehashInPlace_spec hc hp env w h ha
  rw [hr] at hs
  exact ⟨hs.1, hs.2.2.1, hs.2.2.2.1, hs.2.2.2.2.2.1, hs.2.2.2.2.2.2⟩

/-- VALID AFTER ANY PANIC, whole modelled API: whatever callback panics at whatever invocation (hasher,
    `Eq`, predicate, destructor — `env` is arbitrary), after every call of every history — returned or
    unwound — the table satisfies the API invariant and `len` = number of stored elements; nothing is
    undefined behaviour. (`MapOpX` = basic calls + every entry-API family + try_insert + extend +
    get_many_mut + Index.) -/
theorem valid_after_any_panic (hc : CfgOk cfg) (hg : GuardRuns cfg) (env : Env) (op : MapOpX)
    (w : World) (h : TInv cfg w.t) :
    match Map.stepX cfg env op w with
    | .ok (_, w') => TInv cfg w'.t ∧ w'.t.items = w'.t.elems.length
    | .panic _ w' => TInv cfg w'.t ∧ w'.t.items = w'.t.elems.length
    | .abort => ∃ j, env.allocOk j = false
    | .fault _ => False :=
  stepX_safe hc hg env op w h

/-- NO DOUBLE DROP, for every environment, every panic position and every history (element type with
    drop glue so that destructor calls are visible; no `mem::forget`-ed drain): if the identities
    passed in are pairwise distinct, then at the end of the history — however many calls unwound —
    no key/value object was dropped twice or returned twice, and no dropped or returned object is
    still stored. -/
theorem no_double_drop (hc : CfgOk cfg) (hnd : cfg.needsDrop = true) (env : Env)
    (ops : List MapOp) (w0 : World) (h0 : w0.t = Raw.new cfg.W) (hl0 : w0.log = [])
    (hnf : hs_NoForget ops) {obs : List Map.Obs} {wf : World}
    (hrun : Map.run cfg env ops w0 = some (obs, wf))
    (hK : (insertedK ops).Nodup) (hV : (insertedV ops).Nodup) :
    ((droppedK wf.log).Nodup ∧ (returnedK (ops.zip obs)).Nodup ∧
      (∀ x ∈ returnedK (ops.zip obs), x ∉ droppedK wf.log ∧ x ∉ kidsOf wf.t.elems) ∧
      (∀ x ∈ droppedK wf.log, x ∉ kidsOf wf.t.elems)) ∧
    ((droppedV wf.log).Nodup ∧ (returnedV (ops.zip obs)).Nodup ∧
      (∀ x ∈ returnedV (ops.zip obs), x ∉ droppedV wf.log ∧ x ∉ vidsOf wf.t.elems) ∧
      (∀ x ∈ droppedV wf.log, x ∉ vidsOf wf.t.elems)) :=
  no_double_drop_parts hc hnd env ops w0 h0 hl0 hnf hrun hK hV

/-- The full ledger of a history with panics: every object passed in is stored, dropped once,
    returned once, or `lost`; `lost` is empty unless a destructor panicked or an `extract_if` unwound
    after yielding; all frees are matched; the live blocks are the table's own plus `leaked`, and
    `leaked` is empty unless a `drain`'s `Drop` unwound (see `drain_drop_panic_leaks_block`). -/
theorem ledger_with_panics (hc : CfgOk cfg) (hnd : cfg.needsDrop = true) (env : Env)
    (ops : List MapOp) (w0 : World) (h0 : w0.t = Raw.new cfg.W) (hl0 : w0.log = [])
    (hnf : hs_NoForget ops) {obs : List Map.Obs} {wf : World}
    (hrun : Map.run cfg env ops w0 = some (obs, wf)) :
    ∃ (lostK lostV : List Nat) (leaked : List (Nat × Nat)),
      List.Perm (kidsOf wf.t.elems ++ droppedK wf.log ++ returnedK (ops.zip obs) ++ lostK)
        (insertedK ops) ∧
      List.Perm (vidsOf wf.t.elems ++ droppedV wf.log ++ returnedV (ops.zip obs) ++ lostV)
        (insertedV ops) ∧
      hs_AllocInvL cfg wf leaked ∧ TInv cfg wf.t ∧
      ((∀ p ∈ ops.zip obs, lp_isDrainPanic p = false) → leaked = [] ∧ hs_AllocInv cfg wf) ∧
      (((∀ c e, env.dropPanics c e = false) ∨ (∀ p ∈ ops.zip obs, lp_isDropPanic p = false)) →
        leaked = [] ∧ hs_AllocInv cfg wf ∧
        ((∀ p ∈ ops.zip obs, lp_isExtractPanic p = false) → lostK = [] ∧ lostV = [])) :=
  run_ledger_panics hc hnd env ops w0 h0 hl0 hnf hrun

/-- Machine-checked witness that the allocator part cannot be stated more strongly: a destructor panic
    inside the `Drop` of a `Drain` leaves the collection as the valid unallocated singleton while its
    block stays allocated (a leak after a destructor panic — never a double free). -/
theorem drain_drop_panic_leaks_block :
    ∃ obs wf, Map.run { ops := Sse2.ops } lpLeakEnv lpLeakOps { t := Raw.new 16 } = some (obs, wf) ∧
      ¬ hs_AllocInv { ops := Sse2.ops } wf ∧ liveBlocks wf.log = [(52, 16)] ∧
      hs_blockOf { ops := Sse2.ops } wf.t = [] :=
  lpLeak_not_allocInv

/-- F1 (genuine defect of hashbrown 0.15.2, repaired by the `fix:` commit in /repo): with the guard
    as shipped and an element type without drop glue, a hasher panic during `reserve` → in-place
    rehash leaves `items = 6` with a single FULL control byte — the structural invariant is broken
    (`len()` exceeds the number of elements; iteration then walks past the control bytes). -/
theorem F1_defect_witness :
    invB f1Cfg f1Table = true ∧
    panicSummary f1Cfg (reserve f1Cfg f1Env 1 { t := f1Table }) = some ("hash", false, 6, 1) :=
  ⟨rehash_guard_defect_witness.1, rehash_guard_defect_witness.2.1⟩

/-- The same input with the repaired guard: the table is valid after the unwind. -/
theorem F1_fixed_witness :
    panicSummary f1CfgFixed (reserve f1CfgFixed f1Env 1 { t := f1Table }) = some ("hash", true, 1, 1) :=
  rehash_guard_fixed_witness.1

#print axioms resize_atomic
#print axioms rehash_unwind
#print axioms rehash_no_fault
#print axioms rehash_ok
#print axioms valid_after_any_panic
#print axioms no_double_drop
#print axioms ledger_with_panics
#print axioms drain_drop_panic_leaks_block
#print axioms F1_defect_witness
#print axioms F1_fixed_witness
end Hb.C04
