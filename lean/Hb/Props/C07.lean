/-
C07 — `HashSet` algebra and single-set semantics.

"For every pair of HashSets built by any histories, union, intersection, difference and
symmetric_difference yield exactly the mathematical result with each element once,
is_subset/is_superset/is_disjoint/== give the mathematical answer, and the operator forms agree with
them. insert/replace/take/get_or_insert/get_or_insert_with/remove follow set semantics."

Setting of every theorem: two tables `a b : Raw` satisfying the lawful invariant `InvL cfg H`
(the hypothesis is the invariant, not a history: any layout, capacity, tombstones), an arbitrary
hash function `H`, a lawful environment (`Hash = H`, `Eq` = equality of keys), either scanner
(`CfgOk cfg`). `keys t` are the stored keys in bucket order; the target set `self` is `w.t`.
The probe-sequence hypothesis of the underlying lemmas is discharged here with `probe_covers`, the
growth hypothesis `GrowthOk` of `SetSpec.lean` with `reserve_invL` (`GrowLawful.lean`) and
`reserve_spec` (`ApiGrow.lean`), see `growth_layer_ok`. `LayoutOk` ("the layout of the table's own
block is computable", true of every table the allocator produced) is the side condition under which
the growth layer is proved; operations that may grow carry it.
-/
import Hb.Proofs.SetSpec
import Hb.Proofs.Probe
import Hb.Proofs.ApiGrow
import Hb.Proofs.GrowLawful
namespace Hb.C07
open Hb

variable {cfg : Cfg} {env : Env} {H : Nat → Nat}

/-! ### the growth layer meets what the set layer needs from it -/

/-- `reserve(n)`, whenever it returns: `InvL` and `LayoutOk` hold again, same contents up to order,
    room for `n` more elements. For every lawful environment (the allocator may refuse). -/
theorem growth_layer_ok (hc : CfgOk cfg) (hl : Lawful env H) : GrowthOk cfg env H := by
  intro n w w1 h hlay hr
  have hp := probe_covers cfg hc.spec.width
  have h1 := reserve_invL hc hp env H hl n w w1 h hlay hr
  have h2 := reserve_spec hc hp env n w ⟨h.toInv, hlay⟩
  rw [hr] at h2
  obtain ⟨a1, _, a3, _, a5, _⟩ := h2
  exact ⟨h1, a1.2, a3, a5⟩

/-! ### look-up in the other operand, iteration order -/

/-- `t.contains(k)` answers membership in the key set and leaves the target set and the log alone
    (also through the `is_empty()` shortcut). -/
theorem contains_other (hc : CfgOk cfg) (hl : Lawful env H) {t : Raw} (h : InvL cfg H t) (k : Nat)
    (w : World) :
    ∃ w', Set.containsIn cfg env t k w = .ok (decide (k ∈ keys t), w') ∧ w'.t = w.t ∧
      w'.log = w.log :=
  containsIn_spec hc (probe_covers cfg hc.spec.width) hl h k w

/-- `t.iter()` yields exactly the stored elements in bucket order, each once. -/
theorem iter_order (hc : CfgOk cfg) {t : Raw} (h : Inv cfg t) : Set.elemsOf cfg t = .ok t.elems :=
  elemsOf_spec hc h

/-- Stored keys are pairwise distinct. -/
theorem keys_nodup {t : Raw} (h : InvL cfg H t) : (keys t).Nodup := ss_keys_nodup h

/-! ### the four lazy set operations -/

/-- `a.difference(&b)` yields exactly the elements of `a` whose key is not in `b`, in `a`'s bucket
    order, each once; `a` is untouched. -/
theorem difference_exact (hc : CfgOk cfg) (hl : Lawful env H) {a b : Raw} (ha : InvL cfg H a)
    (hb : InvL cfg H b) (w : World) :
    ∃ ys w', Set.difference cfg env b { w with t := a } = .ok (ys, w') ∧ w'.t = a ∧
      ys = a.elems.filter (fun e => decide (e.k ∉ keys b)) ∧ (ys.map (·.k)).Nodup ∧
      ∀ k, k ∈ ys.map (·.k) ↔ k ∈ keys a ∧ k ∉ keys b := by
  obtain ⟨w', h1, h2, _⟩ :=
    difference_spec hc (probe_covers cfg hc.spec.width) hl { w with t := a } ha hb
  exact ⟨_, w', h1, h2, rfl, ss_diff_nodup ha b, fun k => ss_mem_diff_keys⟩

/-- `a.intersection(&b)` iterates the smaller set and filters by the larger one; as keys it is a
    permutation of `keys a` filtered by `b`: each common key exactly once, nothing else. -/
theorem intersection_exact (hc : CfgOk cfg) (hl : Lawful env H) {a b : Raw} (ha : InvL cfg H a)
    (hb : InvL cfg H b) (w : World) :
    ∃ ys w', Set.intersection cfg env b { w with t := a } = .ok (ys, w') ∧ w'.t = a ∧
      (a.items ≤ b.items → ys = a.elems.filter (fun e => decide (e.k ∈ keys b))) ∧
      (b.items < a.items → ys = b.elems.filter (fun e => decide (e.k ∈ keys a))) ∧
      (ys.map (·.k)).Perm ((keys a).filter fun k => decide (k ∈ keys b)) ∧
      (ys.map (·.k)).Nodup ∧ ∀ k, k ∈ ys.map (·.k) ↔ k ∈ keys a ∧ k ∈ keys b := by
  obtain ⟨w', h1, h2, _⟩ :=
    intersection_spec hc (probe_covers cfg hc.spec.width) hl { w with t := a } ha hb
  refine ⟨_, w', h1, h2, ?_, ?_, ss_inter_perm ha hb, ss_inter_nodup ha hb,
    fun k => ss_mem_inter_keys⟩
  · intro hle; show ss_inter a b = _; rw [ss_inter, if_pos hle]
  · intro hlt; show ss_inter a b = _; rw [ss_inter, if_neg (by omega)]

/-- `a.union(&b)`: all of the larger set, then what the smaller one adds; every key of `a` or `b`
    exactly once. -/
theorem union_exact (hc : CfgOk cfg) (hl : Lawful env H) {a b : Raw} (ha : InvL cfg H a)
    (hb : InvL cfg H b) (w : World) :
    ∃ ys w', Set.union cfg env b { w with t := a } = .ok (ys, w') ∧ w'.t = a ∧
      (a.items ≤ b.items →
        ys = b.elems ++ a.elems.filter (fun e => decide (e.k ∉ keys b))) ∧
      (b.items < a.items →
        ys = a.elems ++ b.elems.filter (fun e => decide (e.k ∉ keys a))) ∧
      (ys.map (·.k)).Nodup ∧ ∀ k, k ∈ ys.map (·.k) ↔ k ∈ keys a ∨ k ∈ keys b := by
  obtain ⟨w', h1, h2, _⟩ :=
    union_spec hc (probe_covers cfg hc.spec.width) hl { w with t := a } ha hb
  refine ⟨_, w', h1, h2, ?_, ?_, ss_union_nodup ha hb, fun k => ss_mem_union_keys⟩
  · intro hle; show ss_union a b = _; rw [ss_union, if_pos hle]; rfl
  · intro hlt; show ss_union a b = _; rw [ss_union, if_neg (by omega)]; rfl

/-- `a.symmetric_difference(&b)` = `a ∖ b` then `b ∖ a`; every key of exactly one operand, once. -/
theorem symmetricDifference_exact (hc : CfgOk cfg) (hl : Lawful env H) {a b : Raw}
    (ha : InvL cfg H a) (hb : InvL cfg H b) (w : World) :
    ∃ ys w', Set.symmetricDifference cfg env b { w with t := a } = .ok (ys, w') ∧ w'.t = a ∧
      ys = a.elems.filter (fun e => decide (e.k ∉ keys b)) ++
        b.elems.filter (fun e => decide (e.k ∉ keys a)) ∧
      (ys.map (·.k)).Nodup ∧
      ∀ k, k ∈ ys.map (·.k) ↔ (k ∈ keys a ∧ k ∉ keys b) ∨ (k ∈ keys b ∧ k ∉ keys a) := by
  obtain ⟨w', h1, h2, _⟩ :=
    symmetricDifference_spec hc (probe_covers cfg hc.spec.width) hl { w with t := a } ha hb
  exact ⟨_, w', h1, h2, rfl, ss_symdiff_nodup ha hb, fun k => ss_mem_symdiff_keys⟩

/-! ### `size_hint` of the four iterators brackets the number of elements they yield -/

theorem size_hints_sound (hc : CfgOk cfg) {a b : Raw} (ha : InvL cfg H a) (hb : InvL cfg H b) :
    ((Set.differenceHint a b).1 ≤ (ss_diff a b).length ∧
      (ss_diff a b).length ≤ (Set.differenceHint a b).2) ∧
    ((Set.intersectionHint a b).1 ≤ (ss_inter a b).length ∧
      (ss_inter a b).length ≤ (Set.intersectionHint a b).2) ∧
    ((Set.unionHint a b).1 ≤ (ss_union a b).length ∧
      (ss_union a b).length ≤ (Set.unionHint a b).2) ∧
    ((Set.symmetricDifferenceHint a b).1 ≤ (ss_symdiff a b).length ∧
      (ss_symdiff a b).length ≤ (Set.symmetricDifferenceHint a b).2) :=
  ⟨difference_sizeHint_sound hc ha hb, intersection_sizeHint_sound hc ha hb,
    union_sizeHint_sound hc ha hb, symmetricDifference_sizeHint_sound hc ha hb⟩

/-! ### predicates -/

theorem is_subset_exact (hc : CfgOk cfg) (hl : Lawful env H) {a b : Raw} (ha : InvL cfg H a)
    (hb : InvL cfg H b) (w : World) :
    ∃ r w', Set.isSubset cfg env b { w with t := a } = .ok (r, w') ∧ w'.t = a ∧
      (r = true ↔ ∀ k ∈ keys a, k ∈ keys b) := by
  obtain ⟨r, w', h1, h2, _, h4⟩ :=
    isSubset_spec hc (probe_covers cfg hc.spec.width) hl { w with t := a } ha hb
  exact ⟨r, w', h1, h2, h4⟩

theorem is_superset_exact (hc : CfgOk cfg) (hl : Lawful env H) {a b : Raw} (ha : InvL cfg H a)
    (hb : InvL cfg H b) (w : World) :
    ∃ r w', Set.isSuperset cfg env b { w with t := a } = .ok (r, w') ∧ w'.t = a ∧
      (r = true ↔ ∀ k ∈ keys b, k ∈ keys a) := by
  obtain ⟨r, w', h1, h2, _, h4⟩ :=
    isSuperset_spec hc (probe_covers cfg hc.spec.width) hl { w with t := a } ha hb
  exact ⟨r, w', h1, h2, h4⟩

theorem is_disjoint_exact (hc : CfgOk cfg) (hl : Lawful env H) {a b : Raw} (ha : InvL cfg H a)
    (hb : InvL cfg H b) (w : World) :
    ∃ r w', Set.isDisjoint cfg env b { w with t := a } = .ok (r, w') ∧ w'.t = a ∧
      (r = true ↔ ∀ k ∈ keys a, k ∉ keys b) := by
  obtain ⟨r, w', h1, h2, _, h4⟩ :=
    isDisjoint_spec hc (probe_covers cfg hc.spec.width) hl { w with t := a } ha hb
  exact ⟨r, w', h1, h2, h4⟩

theorem eq_exact (hc : CfgOk cfg) (hl : Lawful env H) {a b : Raw} (ha : InvL cfg H a)
    (hb : InvL cfg H b) (w : World) :
    ∃ r w', Set.setEq cfg env b { w with t := a } = .ok (r, w') ∧ w'.t = a ∧
      (r = true ↔ ∀ k, k ∈ keys a ↔ k ∈ keys b) := by
  obtain ⟨r, w', h1, h2, _, h4⟩ :=
    setEq_spec hc (probe_covers cfg hc.spec.width) hl { w with t := a } ha hb
  exact ⟨r, w', h1, h2, h4⟩

theorem eq_symmetric (hc : CfgOk cfg) (hl : Lawful env H) {a b : Raw} (ha : InvL cfg H a)
    (hb : InvL cfg H b) (w : World) :
    ∃ r w1 w2, Set.setEq cfg env b { w with t := a } = .ok (r, w1) ∧
      Set.setEq cfg env a { w with t := b } = .ok (r, w2) :=
  setEq_symm hc (probe_covers cfg hc.spec.width) hl ha hb w

/-! ### assigning operator forms agree with the lazy forms on contents -/

/-- `a &= &b`: never a fault; unless a destructor panics, `a` keeps exactly its own objects whose
    key is in `b`. -/
theorem bitand_assign_exact (hc : CfgOk cfg) (hl : Lawful env H) {a b : Raw} (ha : InvL cfg H a)
    (hb : InvL cfg H b) (w : World) :
    ∃ w', InvL cfg H w'.t ∧
      ((Set.bitandAssign cfg env b { w with t := a } = .ok w' ∧
          (∀ x, x ∈ w'.t.elems ↔ x ∈ a.elems ∧ x.k ∈ keys b) ∧
          ∀ k, k ∈ keys w'.t ↔ k ∈ keys a ∧ k ∈ keys b) ∨
        Set.bitandAssign cfg env b { w with t := a } = .panic "drop" w') := by
  obtain ⟨w', h1, h2⟩ :=
    bitandAssign_spec hc (probe_covers cfg hc.spec.width) hl { w with t := a } ha hb
  refine ⟨w', h1, ?_⟩
  rcases h2 with ⟨h2, h3⟩ | h2
  · refine Or.inl ⟨h2, h3, fun k => ?_⟩
    rw [ss_mem_keys_of_elems h3]
    simp only [keys, List.mem_map]
    constructor
    · rintro ⟨x, hx, hp, rfl⟩; exact ⟨⟨x, hx, rfl⟩, hp⟩
    · rintro ⟨⟨x, hx, rfl⟩, hp⟩; exact ⟨x, hx, hp, rfl⟩
  · exact Or.inr h2

/-- `a -= &b` (both strategies): never a fault; unless a destructor panics, `a` keeps exactly its
    own objects whose key is not in `b`. -/
theorem sub_assign_exact (hc : CfgOk cfg) (hl : Lawful env H) {a b : Raw} (ha : InvL cfg H a)
    (hb : InvL cfg H b) (w : World) :
    ∃ w', InvL cfg H w'.t ∧
      ((Set.subAssign cfg env b { w with t := a } = .ok w' ∧
          (∀ x, x ∈ w'.t.elems ↔ x ∈ a.elems ∧ x.k ∉ keys b) ∧
          ∀ k, k ∈ keys w'.t ↔ k ∈ keys a ∧ k ∉ keys b) ∨
        Set.subAssign cfg env b { w with t := a } = .panic "drop" w') := by
  obtain ⟨w', h1, h2⟩ :=
    subAssign_spec hc (probe_covers cfg hc.spec.width) hl { w with t := a } ha hb
  refine ⟨w', h1, ?_⟩
  rcases h2 with ⟨h2, h3⟩ | h2
  · refine Or.inl ⟨h2, h3, fun k => ?_⟩
    rw [ss_mem_keys_of_elems h3]
    simp only [keys, List.mem_map]
    constructor
    · rintro ⟨x, hx, hp, rfl⟩; exact ⟨⟨x, hx, rfl⟩, hp⟩
    · rintro ⟨⟨x, hx, rfl⟩, hp⟩; exact ⟨x, hx, hp, rfl⟩
  · exact Or.inr h2

/-- `a |= &b`: whenever it returns (the allocator may refuse), `a` keeps all its objects and its key set is the union. -/
theorem bitor_assign_exact (hc : CfgOk cfg) (hl : SetLawful env H) {a b : Raw} (ha : InvL cfg H a) (hlay : a.LayoutOk cfg)
    (hb : InvL cfg H b) (w w' : World)
    (hr : Set.bitorAssign cfg env b { w with t := a } = .ok w') :
    InvL cfg H w'.t ∧ (∀ x, x ∈ a.elems → x ∈ w'.t.elems) ∧
      (∀ k, k ∈ keys w'.t ↔ k ∈ keys a ∨ k ∈ keys b) ∧ w'.t.LayoutOk cfg :=
  bitorAssign_spec_of_growth hc (probe_covers cfg hc.spec.width) hl (growth_layer_ok hc hl.toLawful)
    { w with t := a } w' ha hlay
    hb hr

/-- `a ^= &b`: whenever it returns, the key set is the symmetric difference. -/
theorem bitxor_assign_exact (hc : CfgOk cfg) (hl : SetLawful env H) {a b : Raw} (ha : InvL cfg H a) (hlay : a.LayoutOk cfg)
    (hb : InvL cfg H b) (w w' : World)
    (hr : Set.bitxorAssign cfg env b { w with t := a } = .ok w') :
    InvL cfg H w'.t ∧
      (∀ k, k ∈ keys w'.t ↔ (k ∈ keys a ∧ k ∉ keys b) ∨ (k ∉ keys a ∧ k ∈ keys b)) ∧
      w'.t.LayoutOk cfg :=
  bitxorAssign_spec_of_growth hc (probe_covers cfg hc.spec.width) hl (growth_layer_ok hc hl.toLawful)
    { w with t := a } w' ha hlay
    hb hr

/-! ### operator forms that build a new set (`&a | &b`, `&`, `^`, `-`) agree with the lazy forms -/

/-- `&a | &b`, `&a & &b`, `&a ^ &b`, `&a - &b` (`iterator.cloned().collect()`): whenever they return
    (the allocator may refuse), the new set satisfies `InvL`, `a` is untouched and the new key set
    is the union / intersection / symmetric difference / difference. -/
theorem operator_forms_exact (hc : CfgOk cfg) (hl : SetLawful env H) {a b : Raw} (ha : InvL cfg H a) (hb : InvL cfg H b) (w : World)
    (r : Raw) (w' : World) :
    (Set.bitor cfg env b { w with t := a } = .ok (r, w') →
      InvL cfg H r ∧ w'.t = a ∧ ∀ k, k ∈ keys r ↔ k ∈ keys a ∨ k ∈ keys b) ∧
    (Set.bitand cfg env b { w with t := a } = .ok (r, w') →
      InvL cfg H r ∧ w'.t = a ∧ ∀ k, k ∈ keys r ↔ k ∈ keys a ∧ k ∈ keys b) ∧
    (Set.bitxor cfg env b { w with t := a } = .ok (r, w') →
      InvL cfg H r ∧ w'.t = a ∧
        ∀ k, k ∈ keys r ↔ (k ∈ keys a ∧ k ∉ keys b) ∨ (k ∈ keys b ∧ k ∉ keys a)) ∧
    (Set.sub cfg env b { w with t := a } = .ok (r, w') →
      InvL cfg H r ∧ w'.t = a ∧ ∀ k, k ∈ keys r ↔ k ∈ keys a ∧ k ∉ keys b) :=
  ⟨bitor_spec_of_growth hc (probe_covers cfg hc.spec.width) hl (growth_layer_ok hc hl.toLawful) { w with t := a } ha hb,
    bitand_spec_of_growth hc (probe_covers cfg hc.spec.width) hl (growth_layer_ok hc hl.toLawful) { w with t := a } ha hb,
    bitxor_spec_of_growth hc (probe_covers cfg hc.spec.width) hl (growth_layer_ok hc hl.toLawful) { w with t := a } ha hb,
    sub_spec_of_growth hc (probe_covers cfg hc.spec.width) hl (growth_layer_ok hc hl.toLawful) { w with t := a } ha hb⟩

/-! ### single-set semantics -/

/-- `take` moves out the stored object with that key (if any); everything else stays. -/
theorem take_semantics (hc : CfgOk cfg) (hl : Lawful env H) (k : Nat) (w : World)
    (h : InvL cfg H w.t) :
    ∃ r w', Set.take cfg env k w = .ok (r, w') ∧ InvL cfg H w'.t ∧
      (∀ x, x ∈ w'.t.elems ↔ x ∈ w.t.elems ∧ x.k ≠ k) ∧
      (∀ e, r = some e → e ∈ w.t.elems ∧ e.k = k) ∧ (r = none → k ∉ keys w.t ∧ w'.t = w.t) := by
  obtain ⟨r, w', h1, h2, _, h4, h5, h6⟩ := take_spec hc (probe_covers cfg hc.spec.width) hl k w h
  exact ⟨r, w', h1, h2, h4, h5, h6⟩

/-- `remove` reports presence and removes exactly that key (the stored object's destructor may
    panic after the element has left the table). -/
theorem remove_semantics (hc : CfgOk cfg) (hl : Lawful env H) (k : Nat) (w : World)
    (h : InvL cfg H w.t) :
    ∃ w', (Set.remove cfg env k w = .ok (decide (k ∈ keys w.t), w') ∨
        (k ∈ keys w.t ∧ Set.remove cfg env k w = .panic "drop" w')) ∧
      InvL cfg H w'.t ∧ (∀ x, x ∈ w'.t.elems ↔ x ∈ w.t.elems ∧ x.k ≠ k) :=
  remove_spec hc (probe_covers cfg hc.spec.width) hl k w h

/-- `insert`, whenever its `reserve(1)` (after hashing) returns (automatic when there is room, see
    `insert_semantics_with_room`; otherwise the allocator may refuse): an absent value is stored and `true` reported; a present value
    leaves the stored object in place and reports `false`. -/
theorem insert_semantics (hc : CfgOk cfg) (hl : Lawful env H) (k kid : Nat)
    {w w1 : World} (h : InvL cfg H w.t) (hlay : w.t.LayoutOk cfg)
    (hr : reserve cfg env 1 { w with hc := w.hc + 1 } = .ok w1) :
    (k ∉ keys w.t → ∃ w', Set.insert cfg env k kid w = .ok (true, w') ∧ InvL cfg H w'.t ∧
      ∀ x, x ∈ w'.t.elems ↔ x = Set.elemOf k kid ∨ x ∈ w.t.elems) ∧
    (k ∈ keys w.t → ∃ old w', old ∈ w.t.elems ∧ old.k = k ∧
      (Set.insert cfg env k kid w = .ok (false, w') ∨
        Set.insert cfg env k kid w = .panic "drop" w') ∧ InvL cfg H w'.t ∧
      ∀ x, x ∈ w'.t.elems ↔ x = { old with vid := 0, v := 0 } ∨ (x ∈ w.t.elems ∧ x.k ≠ k)) :=
  insert_spec_of_growth hc (probe_covers cfg hc.spec.width) hl k kid 
    (GrewTo.of_growthOk (growth_layer_ok hc hl) h hlay hr)

/-- The same without any growth hypothesis when the table has room (`growth_left > 0`). -/
theorem insert_semantics_with_room (hc : CfgOk cfg) (hl : Lawful env H) (k kid : Nat) (w : World)
    (h : InvL cfg H w.t) (hlay : w.t.LayoutOk cfg) (hroom : 0 < w.t.gl) :
    (k ∉ keys w.t → ∃ w', Set.insert cfg env k kid w = .ok (true, w') ∧ InvL cfg H w'.t ∧
      ∀ x, x ∈ w'.t.elems ↔ x = Set.elemOf k kid ∨ x ∈ w.t.elems) ∧
    (k ∈ keys w.t → ∃ old w', old ∈ w.t.elems ∧ old.k = k ∧
      (Set.insert cfg env k kid w = .ok (false, w') ∨
        Set.insert cfg env k kid w = .panic "drop" w') ∧ InvL cfg H w'.t ∧
      ∀ x, x ∈ w'.t.elems ↔ x = { old with vid := 0, v := 0 } ∨ (x ∈ w.t.elems ∧ x.k ≠ k)) :=
  insert_spec_of_growth hc (probe_covers cfg hc.spec.width) hl k kid (GrewTo.of_room h hlay hroom)

/-- `replace` stores the NEW object and returns the old one. -/
theorem replace_semantics (hc : CfgOk cfg) (hl : Lawful env H) (e : Elem)
    {w w1 : World} (h : InvL cfg H w.t) (hlay : w.t.LayoutOk cfg)
    (hr : reserve cfg env 1 { w with hc := w.hc + 1 } = .ok w1) :
    (e.k ∉ keys w.t → ∃ w', Set.replace cfg env e w = .ok (none, w') ∧ InvL cfg H w'.t ∧
      ∀ x, x ∈ w'.t.elems ↔ x = e ∨ x ∈ w.t.elems) ∧
    (e.k ∈ keys w.t → ∃ old w', old ∈ w.t.elems ∧ old.k = e.k ∧
      Set.replace cfg env e w = .ok (some old, w') ∧ InvL cfg H w'.t ∧
      ∀ x, x ∈ w'.t.elems ↔ x = e ∨ (x ∈ w.t.elems ∧ x.k ≠ e.k)) :=
  replace_spec_of_growth hc (probe_covers cfg hc.spec.width) hl e 
    (GrewTo.of_growthOk (growth_layer_ok hc hl) h hlay hr)

/-- `get_or_insert` keeps the OLD object for a present value. -/
theorem get_or_insert_semantics (hc : CfgOk cfg) (hl : Lawful env H) (e : Elem)
    {w w1 : World} (h : InvL cfg H w.t) (hlay : w.t.LayoutOk cfg)
    (hr : reserve cfg env 1 { w with hc := w.hc + 1 } = .ok w1) :
    (e.k ∉ keys w.t → ∃ w', Set.getOrInsert cfg env e w = .ok (e, w') ∧ InvL cfg H w'.t ∧
      ∀ x, x ∈ w'.t.elems ↔ x = e ∨ x ∈ w.t.elems) ∧
    (e.k ∈ keys w.t → ∃ old w', old ∈ w.t.elems ∧ old.k = e.k ∧
      (Set.getOrInsert cfg env e w = .ok (old, w') ∨
        Set.getOrInsert cfg env e w = .panic "drop" w') ∧ InvL cfg H w'.t ∧
      ∀ x, x ∈ w'.t.elems ↔ x ∈ w.t.elems) :=
  getOrInsert_spec_of_growth hc (probe_covers cfg hc.spec.width) hl e 
    (GrewTo.of_growthOk (growth_layer_ok hc hl) h hlay hr)

/-- `get_or_insert_with` refuses (panics, class `notequiv`) to store a value that is not equivalent
    to the probe; the set is unchanged. -/
theorem get_or_insert_with_semantics (hc : CfgOk cfg) (hl : Lawful env H)
    (k k2 kid2 : Nat) {w w1 : World} (h : InvL cfg H w.t) (hlay : w.t.LayoutOk cfg)
    (hr : reserve cfg env 1 { w with hc := w.hc + 1 } = .ok w1) :
    (k ∈ keys w.t → ∃ old w', old ∈ w.t.elems ∧ old.k = k ∧
      Set.getOrInsertWith cfg env k k2 kid2 w = .ok (old, w') ∧ InvL cfg H w'.t ∧
      ∀ x, x ∈ w'.t.elems ↔ x ∈ w.t.elems) ∧
    (k ∉ keys w.t → k2 = k → ∃ w',
      Set.getOrInsertWith cfg env k k2 kid2 w = .ok (Set.elemOf k2 kid2, w') ∧ InvL cfg H w'.t ∧
      ∀ x, x ∈ w'.t.elems ↔ x = Set.elemOf k2 kid2 ∨ x ∈ w.t.elems) ∧
    (k ∉ keys w.t → k2 ≠ k → ∃ w',
      Set.getOrInsertWith cfg env k k2 kid2 w = .panic "notequiv" w' ∧ InvL cfg H w'.t ∧
      ∀ x, x ∈ w'.t.elems ↔ x ∈ w.t.elems) :=
  getOrInsertWith_spec_of_growth hc (probe_covers cfg hc.spec.width) hl k k2 kid2 
    (GrewTo.of_growthOk (growth_layer_ok hc hl) h hlay hr)

/-- With room in the table the refusal needs no growth hypothesis at all. -/
theorem get_or_insert_with_refuses (hc : CfgOk cfg) (hl : Lawful env H) (k k2 kid2 : Nat)
    (w : World) (h : InvL cfg H w.t) (hlay : w.t.LayoutOk cfg) (hroom : 0 < w.t.gl)
    (habs : k ∉ keys w.t) (hne : k2 ≠ k) :
    ∃ w', Set.getOrInsertWith cfg env k k2 kid2 w = .panic "notequiv" w' ∧ InvL cfg H w'.t ∧
      ∀ x, x ∈ w'.t.elems ↔ x ∈ w.t.elems :=
  (getOrInsertWith_spec_of_growth hc (probe_covers cfg hc.spec.width) hl k k2 kid2
    (GrewTo.of_room h hlay hroom)).2.2 habs hne

/-! ### non-vacuity: the two concrete tables of `SetSpec.lean` satisfy the hypotheses -/

example : invLB ssCfg ssH ssA = true ∧ invLB ssCfg ssH ssB = true := by decide +kernel
example : ssOut (Set.union ssCfg ssEnv ssB { t := ssA }) =
    some [(2, 202), (3, 203), (10, 210), (5, 205), (7, 207), (1, 101), (21, 121)] := by
  decide +kernel

#print axioms contains_other
#print axioms iter_order
#print axioms keys_nodup
#print axioms difference_exact
#print axioms intersection_exact
#print axioms union_exact
#print axioms symmetricDifference_exact
#print axioms size_hints_sound
#print axioms is_subset_exact
#print axioms is_superset_exact
#print axioms is_disjoint_exact
#print axioms eq_exact
#print axioms eq_symmetric
#print axioms bitand_assign_exact
#print axioms sub_assign_exact
#print axioms bitor_assign_exact
#print axioms bitxor_assign_exact
#print axioms growth_layer_ok
#print axioms operator_forms_exact
#print axioms take_semantics
#print axioms remove_semantics
#print axioms insert_semantics
#print axioms insert_semantics_with_room
#print axioms replace_semantics
#print axioms get_or_insert_semantics
#print axioms get_or_insert_with_semantics
#print axioms get_or_insert_with_refuses
end Hb.C07
