/-
C08 — Capacity contract: reserved room is real, unused room costs nothing.

`capacity() = items + growth_left`. All statements are for every table state satisfying `TInv`
(any mix of occupied slots and tombstones), every hasher/allocator behaviour, every element layout.
-/
import Hb.Proofs.ApiGrow
import Hb.Proofs.Probe
namespace Hb.C08
open Hb

variable {cfg : Cfg}

/-- `capacity()` is never less than `len()`. -/
theorem capacity_ge_len (t : Raw) : t.items ≤ t.capacity := (Hb.capacity_ge_len t).2

/-- After `reserve(n)`: `capacity ≥ len + n`; contents unchanged (as a multiset), nothing dropped;
    when the room was already there nothing at all happens. Never a fault. -/
theorem reserve_contract (hc : CfgOk cfg) (env : Env) (n : Nat) (w : World) (h : TInv cfg w.t) :
    match reserve cfg env n w with
    | .ok w' =>
      TInv cfg w'.t ∧ w'.t.items = w.t.items ∧ List.Perm w'.t.elems w.t.elems ∧
      w.t.items + n ≤ w'.t.items + w'.t.gl ∧ n ≤ w'.t.gl ∧
      (0 < n → w'.t.alloc = true) ∧
      (∀ ev ∈ w'.log, AllocOnly w.log ev) ∧ (n ≤ w.t.gl → w' = w)
    | .panic c w' =>
      (c = "capacity" ∧ w' = w) ∨
      (c = "hash" ∧ w'.t.mask = w.t.mask ∧
        (GuardRuns cfg → TInv cfg w'.t ∧ ∃ ds, List.Perm (w'.t.elems ++ ds) w.t.elems ∧
          ∀ ev ∈ w'.log, AllocOnly w.log ev ∨ ev ∈ dropEvs cfg ds))
    | .abort => True
    | .fault _ => False :=
  reserve_spec hc (probe_covers cfg hc.spec.width) env n w h

/-- `with_capacity(n)`: `capacity ≥ n`; `with_capacity(0)` (and `new`) allocate nothing. -/
theorem with_capacity_contract (hc : CfgOk cfg) (env : Env) (n : Nat) (w : World) :
    match withCapacity cfg env n w with
    | .ok w' =>
      TInv cfg w'.t ∧ n ≤ w'.t.items + w'.t.gl ∧ w'.t.items = 0 ∧ w'.t.elems = [] ∧
      (n = 0 → w'.t = Raw.new cfg.W ∧ w'.log = w.log) ∧ (∀ ev ∈ w'.log, AllocOnly w.log ev)
    | .panic c w' => c = "capacity" ∧ w' = w
    | .abort => env.allocOk w.ac = false
    | .fault _ => False :=
  withCapacity_spec hc env n w

/-- Reserving within the existing capacity is a no-op: no allocator request, no rehash. -/
theorem no_alloc_within_capacity (env : Env) (n : Nat) (w : World) (hle : n ≤ w.t.gl) :
    reserve cfg env n w = .ok w ∧ tryReserve cfg env n w = .ok (.ok (), w) :=
  Hb.no_alloc_within_capacity env n w hle

/-- Inserting while `capacity() - len() = growth_left > 0` performs no allocation (the whole world
    except the table is unchanged, the bucket count stays), and consumes at most one unit of room —
    so `capacity() - len()` fresh keys can be inserted without any allocator request. -/
theorem insert_within_capacity_no_alloc (hc : CfgOk cfg) (env : Env) (hash : Nat) (e : Elem)
    (w : World) (h : TInv cfg w.t) (hgl : 0 < w.t.gl) :
    ∃ idx t', rawInsert cfg env hash e w = .ok (idx, { w with t := t' }) ∧
      t'.mask = w.t.mask ∧ t'.alloc = w.t.alloc ∧ w.t.gl ≤ t'.gl + 1 ∧ t'.gl ≤ w.t.gl ∧
      t'.items = w.t.items + 1 ∧ TInv cfg t' :=
  rawInsert_no_alloc hc (probe_covers cfg hc.spec.width) env hash e w h hgl

/-- `shrink_to(m)` / `shrink_to_fit` (m = 0): never loses or changes an element, never enlarges the
    bucket count, leaves `capacity ≥ max(len, min(m, previous capacity))`, frees the allocation when
    the collection is empty and `m = 0`, and otherwise leaves at most the bucket count a fresh
    `with_capacity(max(len, m))` would choose. -/
theorem shrink_contract (hc : CfgOk cfg) (env : Env) (m : Nat) (w : World) (h : TInv cfg w.t) :
    match shrinkTo cfg env m w with
    | .ok w' =>
      TInv cfg w'.t ∧ List.Perm w'.t.elems w.t.elems ∧ w'.t.items = w.t.items ∧
      w'.t.buckets ≤ w.t.buckets ∧
      max w.t.items (min m (w.t.items + w.t.gl)) ≤ w'.t.items + w'.t.gl ∧
      (w' = w ∨ max w.t.items m ≤ w'.t.items + w'.t.gl) ∧
      ((w.t.items = 0 ∧ m = 0) → w'.t = Raw.new cfg.W ∧ w'.log = freeEvs cfg w.t ++ w.log) ∧
      (w'.t.alloc = true → ∀ b,
        capacityToBuckets cfg.bits cfg.W cfg.size (max w.t.items m) = some b → w'.t.buckets ≤ b) ∧
      (∀ ev ∈ w'.log, AllocOnly w.log ev)
    | .panic c w' => ((c = "capacity" ∧ w' = w) ∨ c = "hash") ∧ w'.t = w.t ∧ TInv cfg w'.t
    | .abort => True
    | .fault _ => False :=
  shrinkTo_spec hc (probe_covers cfg hc.spec.width) env m w h

/-- `allocation_size()` equals the bytes held from the allocator: the size of the layout of the
    table's own bucket count, `0` for an unallocated table. -/
theorem allocation_size_exact (h : TInv cfg t) :
    allocationSize cfg t = .ok (if t.alloc then (layoutOf cfg t.buckets).size else 0) :=
  allocationSize_spec h

/-- `new()` owns no block and satisfies the invariant. -/
theorem new_allocates_nothing (hc : CfgOk cfg) :
    TInv cfg (Raw.new cfg.W) ∧ (Raw.new cfg.W).alloc = false ∧ (Raw.new cfg.W).capacity = 0 :=
  ⟨TInv.new hc, rfl, rfl⟩

#print axioms capacity_ge_len
#print axioms reserve_contract
#print axioms with_capacity_contract
#print axioms no_alloc_within_capacity
#print axioms insert_within_capacity_no_alloc
#print axioms shrink_contract
#print axioms allocation_size_exact
#print axioms new_allocates_nothing
end Hb.C08
