/-
C03 — Every element and every allocation is released exactly once.

Vocabulary (`Hb/Proofs/History.lean`): every key object and value object carries an identity
(`Elem.kid`, `Elem.vid`); `insertedK/V ops` = identities passed in by the `insert` calls of a
history; `droppedK/V log` = identities whose destructor the collection ran (`Ev.dropK/dropV` in the
log, one entry per destructor call); `returnedK/V (ops.zip obs)` = identities handed back to the
caller BY VALUE (old value of an overwriting `insert`, value of `remove`, pair of `remove_entry`,
elements yielded by `extract_if` / `drain`; not `get`/`get_mut`/`iter`, which hand out references);
`kidsOf/vidsOf t.elems` = identities still stored. `List.Perm` of these lists is equality of
multisets, i.e. "exactly once". `liveBlocks log` = blocks (size, align) requested and not yet
returned; `freesMatched log` = every `free` returned a block that was live, with its own layout.

Scope: element types with drop glue (`needsDrop = true`, otherwise there is no destructor to count),
histories over `MapOp` (insert / overwrite, get, get_mut, remove, remove_entry, clear, reserve,
try_reserve, shrink_to, retain, extract_if × n, drain × n then drop, iteration) without
`mem::forget`, that run to their end without an observed panic (a panicking destructor or callback
leaks by design: `clear_spec`, `drain_spec`, … in `ApiBulk.lean` give "at most once" there), for
EVERY environment otherwise (any hasher / `Eq` / predicate answers, any allocator answers).
`into_iter` and `clone_from` are not `MapOp`s; their per-call accounting is `intoIter_spec`,
`cloneFrom_spec` in `Hb/Proofs/ApiBulk.lean`.

Extended scope (`released_exactly_once_all_calls`, `LedgerX.lean`): the same ledger over `MapOpX`
histories — additionally `entry` / `entry_ref` / `rustc_entry` / `raw_entry_mut` with any method chain,
`raw_entry`, `try_insert`, `extend`, `get_many_mut`, `Index`; `insertedKXs/VXs` = objects the caller
passes in (the key of `entry`, the values held by the chain, the elements of `try_insert`/`extend`, …),
`returnedKX/VX` = objects handed back (removed entries, `into_key`, the rejected value inside
`OccupiedError`, values replaced by `OccupiedEntry::insert`, …). Histories WITH observed panics:
`at_most_once_with_panics` (`LedgerPanic.lean`): nothing is dropped or returned twice, whatever
unwinds.
-/
import Hb.Proofs.History
import Hb.Proofs.LedgerX
import Hb.Proofs.LedgerPanic
namespace Hb.C03
open Hb

variable {cfg : Cfg}

/-- Key objects: at the end of the history every key object passed in is in exactly one of
    {stored, dropped by the collection, returned to the caller}, each exactly once; after the drop
    of the collection every one was dropped exactly once or returned exactly once. -/
theorem released_exactly_once_keys (hc : CfgOk cfg) (hnd : cfg.needsDrop = true) (env : Env)
    (ops : List MapOp) (w0 : World) (h0 : w0.t = Raw.new cfg.W) (hl0 : w0.log = [])
    (hnf : hs_NoForget ops) {obs : List Map.Obs} {wf : World}
    (hrun : Map.run cfg env ops w0 = some (obs, wf)) (hret : ∀ o ∈ obs, ∃ r, o = .ret r) :
    List.Perm (kidsOf wf.t.elems ++ droppedK wf.log ++ returnedK (ops.zip obs)) (insertedK ops) ∧
    ((∀ c e, env.dropPanics c e = false) →
      ∃ wd, dropInnerTable cfg env wf.t { wf with t := Raw.new cfg.W } = .ok wd ∧
        wd.t = Raw.new cfg.W ∧
        List.Perm (droppedK wd.log ++ returnedK (ops.zip obs)) (insertedK ops)) := by
  refine ⟨(run_ledger hc hnd env ops w0 h0 hl0 hnf hrun hret).1, fun hdp => ?_⟩
  obtain ⟨wd, a, b, c, _⟩ := dropAll_ledger hc hnd env hdp ops w0 h0 hl0 hnf hrun hret
  exact ⟨wd, a, b, c⟩

/-- Value objects: the same. -/
theorem released_exactly_once_values (hc : CfgOk cfg) (hnd : cfg.needsDrop = true) (env : Env)
    (ops : List MapOp) (w0 : World) (h0 : w0.t = Raw.new cfg.W) (hl0 : w0.log = [])
    (hnf : hs_NoForget ops) {obs : List Map.Obs} {wf : World}
    (hrun : Map.run cfg env ops w0 = some (obs, wf)) (hret : ∀ o ∈ obs, ∃ r, o = .ret r) :
    List.Perm (vidsOf wf.t.elems ++ droppedV wf.log ++ returnedV (ops.zip obs)) (insertedV ops) ∧
    ((∀ c e, env.dropPanics c e = false) →
      ∃ wd, dropInnerTable cfg env wf.t { wf with t := Raw.new cfg.W } = .ok wd ∧
        wd.t = Raw.new cfg.W ∧
        List.Perm (droppedV wd.log ++ returnedV (ops.zip obs)) (insertedV ops)) := by
  refine ⟨(run_ledger hc hnd env ops w0 h0 hl0 hnf hrun hret).2.1, fun hdp => ?_⟩
  obtain ⟨wd, a, b, _, c, _⟩ := dropAll_ledger hc hnd env hdp ops w0 h0 hl0 hnf hrun hret
  exact ⟨wd, a, b, c⟩

/-- With pairwise distinct inserted identities: an object returned to the caller is not also
    dropped by the collection nor still stored; nothing is dropped twice, returned twice, or
    dropped while still stored. -/
theorem returned_not_dropped (hc : CfgOk cfg) (hnd : cfg.needsDrop = true) (env : Env)
    (ops : List MapOp) (w0 : World) (h0 : w0.t = Raw.new cfg.W) (hl0 : w0.log = [])
    (hnf : hs_NoForget ops) {obs : List Map.Obs} {wf : World}
    (hrun : Map.run cfg env ops w0 = some (obs, wf)) (hret : ∀ o ∈ obs, ∃ r, o = .ret r)
    (hk : (insertedK ops).Nodup) (hv : (insertedV ops).Nodup) :
    ((droppedK wf.log).Nodup ∧ (returnedK (ops.zip obs)).Nodup ∧
      (∀ x ∈ returnedK (ops.zip obs), x ∉ droppedK wf.log ∧ x ∉ kidsOf wf.t.elems) ∧
      (∀ x ∈ droppedK wf.log, x ∉ kidsOf wf.t.elems)) ∧
    ((droppedV wf.log).Nodup ∧ (returnedV (ops.zip obs)).Nodup ∧
      (∀ x ∈ returnedV (ops.zip obs), x ∉ droppedV wf.log ∧ x ∉ vidsOf wf.t.elems) ∧
      (∀ x ∈ droppedV wf.log, x ∉ vidsOf wf.t.elems)) := by
  obtain ⟨k, v, _⟩ := run_ledger hc hnd env ops w0 h0 hl0 hnf hrun hret
  exact ⟨(hs_nodup_parts k hk).2, (hs_nodup_parts v hv).2⟩

/-- Allocator: throughout, every `free` is matched and the only live block is the table's own
    (with the layout of its own bucket count); after the drop of the collection nothing remains
    allocated. -/
theorem allocator_balanced (hc : CfgOk cfg) (hnd : cfg.needsDrop = true) (env : Env)
    (ops : List MapOp) (w0 : World) (h0 : w0.t = Raw.new cfg.W) (hl0 : w0.log = [])
    (hnf : hs_NoForget ops) {obs : List Map.Obs} {wf : World}
    (hrun : Map.run cfg env ops w0 = some (obs, wf)) (hret : ∀ o ∈ obs, ∃ r, o = .ret r) :
    (freesMatched wf.log ∧ liveBlocks wf.log = hs_blockOf cfg wf.t) ∧
    ((∀ c e, env.dropPanics c e = false) →
      ∃ wd, dropInnerTable cfg env wf.t { wf with t := Raw.new cfg.W } = .ok wd ∧
        liveBlocks wd.log = [] ∧ freesMatched wd.log) := by
  refine ⟨(run_ledger hc hnd env ops w0 h0 hl0 hnf hrun hret).2.2.1, fun hdp => ?_⟩
  obtain ⟨wd, a, _, _, _, b, c⟩ := dropAll_ledger hc hnd env hdp ops w0 h0 hl0 hnf hrun hret
  exact ⟨wd, a, b, c⟩

/-- A collection that was never given an element or a capacity owns no block: `new()` is the
    unallocated singleton and any history of look-ups, removals, `clear`, `retain`, `extract_if`,
    `drain`, iteration on it (every environment) leaves it so and logs nothing — no allocator
    request in particular. -/
theorem never_allocated_owns_nothing (hc : CfgOk cfg) (env : Env) :
    (Raw.new cfg.W).alloc = false ∧
    ∀ (ops : List MapOp) (w0 : World), (∀ op ∈ ops, hs_QueryOp op) → w0.t = Raw.new cfg.W →
      ∃ obs wf, Map.run cfg env ops w0 = some (obs, wf) ∧ wf.t = Raw.new cfg.W ∧
        wf.log = w0.log :=
  Hb.never_allocated_owns_nothing hc env

/-- The ledger over the WHOLE modelled API (every entry-API family with any chain, try_insert, extend,
    get_many_mut, Index, interleaved with the basic calls), every environment, histories without an
    observed panic: after the drop of the collection every key object and value object that was passed
    in was dropped exactly once or handed back exactly once; nothing stays allocated; every free is
    matched. -/
theorem released_exactly_once_all_calls (hc : CfgOk cfg) (hnd : cfg.needsDrop = true) (env : Env)
    (hdp : ∀ c e, env.dropPanics c e = false) (ops : List MapOpX)
    (w0 : World) (h0 : w0.t = Raw.new cfg.W) (hl0 : w0.log = []) (hnf : hx_NoForget ops)
    {obs : List Map.ObsX} {wf : World} (hrun : Map.runX cfg env ops w0 = some (obs, wf))
    (hret : ∀ o ∈ obs, ∃ r, o = .ret r) :
    (List.Perm (kidsOf wf.t.elems ++ droppedK wf.log ++ returnedKX (ops.zip obs)) (insertedKXs ops) ∧
     List.Perm (vidsOf wf.t.elems ++ droppedV wf.log ++ returnedVX (ops.zip obs)) (insertedVXs ops) ∧
     hs_AllocInv cfg wf) ∧
    ∃ wd, dropInnerTable cfg env wf.t { wf with t := Raw.new cfg.W } = .ok wd ∧
      wd.t = Raw.new cfg.W ∧
      List.Perm (droppedK wd.log ++ returnedKX (ops.zip obs)) (insertedKXs ops) ∧
      List.Perm (droppedV wd.log ++ returnedVX (ops.zip obs)) (insertedVXs ops) ∧
      liveBlocks wd.log = [] ∧ freesMatched wd.log := by
  obtain ⟨k, v, a, _⟩ := runX_ledger hc hnd env ops w0 h0 hl0 hnf hrun hret
  exact ⟨⟨k, v, a⟩, dropAllX_ledger hc hnd env hdp ops w0 h0 hl0 hnf hrun hret⟩

/-- Histories in which calls DO unwind (any callback, any position): stored + dropped + returned
    objects form a sub-multiset of those passed in — nothing is released twice, nothing that was
    released is still stored — all frees are matched and the table's own block is live. -/
theorem at_most_once_with_panics (hc : CfgOk cfg) (hnd : cfg.needsDrop = true) (env : Env)
    (ops : List MapOp) (w0 : World) (h0 : w0.t = Raw.new cfg.W) (hl0 : w0.log = [])
    (hnf : hs_NoForget ops) {obs : List Map.Obs} {wf : World}
    (hrun : Map.run cfg env ops w0 = some (obs, wf)) :
    List.Subperm (kidsOf wf.t.elems ++ droppedK wf.log ++ returnedK (ops.zip obs)) (insertedK ops) ∧
    List.Subperm (vidsOf wf.t.elems ++ droppedV wf.log ++ returnedV (ops.zip obs)) (insertedV ops) ∧
    freesMatched wf.log ∧ List.Subperm (hs_blockOf cfg wf.t) (liveBlocks wf.log) :=
  run_ledger_panics_subperm hc hnd env ops w0 h0 hl0 hnf hrun

#print axioms released_exactly_once_all_calls
#print axioms at_most_once_with_panics
#print axioms released_exactly_once_keys
#print axioms released_exactly_once_values
#print axioms returned_not_dropped
#print axioms allocator_balanced
#print axioms never_allocated_owns_nothing

end Hb.C03
