/-
Property C16 -- the REQUIREMENT side (hand-written specification; nothing here is generated and
nothing here was copied from the `Send`/`Sync` impls).

  "A collection, iterator, drain or entry type can be sent to or shared with another thread only
   when the key, value, hasher and allocator types it gives access to allow it (shared iterators
   need Sync contents, mutable and owning ones need Send contents).  A type that hands out
   mutable access to elements is invariant in every type it can write through, while read-only
   and owning iterators may be covariant. ..."

For every public type of `hash_map`, `hash_set`, `hash_table` (+ the rayon adaptors) and every
generic *type* parameter of it, one row says what kind of access a value of the type has to
values of that parameter.  Each row was derived by reading the struct definition (fields cited
in the comments, /repo/src/{map,set,table,raw_entry,rustc_entry}.rs and
external_trait_impls/rayon/{map,set,table,raw}.rs) and, for `exclRead`, its construction sites.

Access kinds and the marker rule they induce (standard Rust rules for `T`, `&T`, `&mut T`):

  kind      | what the type holds / can do with X            | for `Send` needs | for `Sync` needs
  ----------+------------------------------------------------+------------------+-----------------
  owning    | owns X values (collection, into-iter, drain     | X: Send          | X: Sync
            | that moves elements out, stored closure)        |                  |
  mutable   | obtained from `&mut Collection`; hands out      | X: Send          | X: Sync
            | `&mut X` or can move X values *into* the        |                  |
            | collection  (=> must be INVARIANT in X)         |                  |
  shared    | obtained from `&Collection` (or a caller's      | X: Sync          | X: Sync
            | `&X`): other aliases may be live elsewhere      |                  |
  exclRead  | obtained only from `&mut Collection` (nobody    | X: Send  or      | X: Sync
            | else can touch X for the borrow) but X is only  | X: Sync          |
            | ever *read* (`&X`) or not touched at all         |                  |
            | through this type                                |                  |

`exclRead` is the one non-textbook kind.  Justification: a `&X` reborrowed from a unique borrow
may cross threads if `X: Sync` (like any `&X`) **or** if `X: Send` (like the `&mut X` it was
derived from; no other thread can observe X during the borrow).  Either bound is sound, no bound
is not.  It is used for the *key* of the mutable map iterators (they yield `(&K, &mut V)`), for
the hasher reference kept by the raw-entry types, and for the allocator of the drain types
(which keep the table exclusively borrowed but never touch its allocator).
-/
namespace Hb.Props.C16

inductive Access where
  | shared | exclRead | mutable | owning
  deriving DecidableEq, Repr

structure ReqRow where
  typeName : String
  param    : String
  access   : Access
  deriving DecidableEq, Repr

open Access in
/-- The requirement table. -/
def req : List ReqRow := [
  -- ───────────────────────────── hash_map (src/map.rs) ─────────────────────────────
  -- HashMap { hash_builder: S, table: RawTable<(K, V), A> }
  ⟨"hash_map::HashMap", "K", owning⟩, ⟨"hash_map::HashMap", "V", owning⟩,
  ⟨"hash_map::HashMap", "S", owning⟩, ⟨"hash_map::HashMap", "A", owning⟩,
  -- Iter<'a,K,V> { inner: RawIter<(K,V)>, marker: PhantomData<(&'a K, &'a V)> }; from `iter(&self)`; Clone
  ⟨"hash_map::Iter", "K", shared⟩, ⟨"hash_map::Iter", "V", shared⟩,
  -- IterMut<'a,K,V> { inner: RawIter<(K,V)>, marker: PhantomData<(&'a K, &'a mut V)> }; only from
  -- `iter_mut(&mut self)`; yields (&'a K, &'a mut V)
  ⟨"hash_map::IterMut", "K", exclRead⟩, ⟨"hash_map::IterMut", "V", mutable⟩,
  -- IntoIter<K,V,A> { inner: RawIntoIter<(K,V),A> } owns the allocation (and A) and the elements
  ⟨"hash_map::IntoIter", "K", owning⟩, ⟨"hash_map::IntoIter", "V", owning⟩, ⟨"hash_map::IntoIter", "A", owning⟩,
  -- IntoKeys / IntoValues { inner: IntoIter<K,V,A> }
  ⟨"hash_map::IntoKeys", "K", owning⟩, ⟨"hash_map::IntoKeys", "V", owning⟩, ⟨"hash_map::IntoKeys", "A", owning⟩,
  ⟨"hash_map::IntoValues", "K", owning⟩, ⟨"hash_map::IntoValues", "V", owning⟩, ⟨"hash_map::IntoValues", "A", owning⟩,
  -- Keys / Values { inner: Iter<'a,K,V> }  (both still *hold* the other component by `&`)
  ⟨"hash_map::Keys", "K", shared⟩, ⟨"hash_map::Keys", "V", shared⟩,
  ⟨"hash_map::Values", "K", shared⟩, ⟨"hash_map::Values", "V", shared⟩,
  -- Drain<'a,K,V,A> { inner: RawDrain<'a,(K,V),A> }: moves every element out (owning); the table
  -- stays exclusively borrowed (RawDrain { table: RawTableInner, orig_table: NonNull<RawTableInner>,
  -- marker: PhantomData<&'a RawTable<T,A>> }) but `alloc` is never read or written
  ⟨"hash_map::Drain", "K", owning⟩, ⟨"hash_map::Drain", "V", owning⟩, ⟨"hash_map::Drain", "A", exclRead⟩,
  -- ExtractIf<'a,K,V,F,A> { f: F, inner: RawExtractIf { iter, table: &'a mut RawTable<(K,V),A> } };
  -- F: FnMut(&K, &mut V) -> bool; matching elements are moved out
  ⟨"hash_map::ExtractIf", "K", owning⟩, ⟨"hash_map::ExtractIf", "V", mutable⟩,
  ⟨"hash_map::ExtractIf", "F", owning⟩, ⟨"hash_map::ExtractIf", "A", mutable⟩,
  -- ValuesMut<'a,K,V> { inner: IterMut<'a,K,V> } yields &'a mut V; keys held, never exposed
  ⟨"hash_map::ValuesMut", "K", exclRead⟩, ⟨"hash_map::ValuesMut", "V", mutable⟩,
  -- Entry = Occupied(OccupiedEntry) | Vacant(VacantEntry)
  ⟨"hash_map::Entry", "K", mutable⟩, ⟨"hash_map::Entry", "V", mutable⟩,
  ⟨"hash_map::Entry", "S", mutable⟩, ⟨"hash_map::Entry", "A", mutable⟩,
  -- OccupiedEntry { hash, elem: Bucket<(K,V)>, table: &'a mut HashMap<K,V,S,A> }
  ⟨"hash_map::OccupiedEntry", "K", mutable⟩, ⟨"hash_map::OccupiedEntry", "V", mutable⟩,
  ⟨"hash_map::OccupiedEntry", "S", mutable⟩, ⟨"hash_map::OccupiedEntry", "A", mutable⟩,
  -- VacantEntry { hash, key: K, table: &'a mut HashMap<K,V,S,A> }  (insert moves K, V into the map)
  ⟨"hash_map::VacantEntry", "K", mutable⟩, ⟨"hash_map::VacantEntry", "V", mutable⟩,
  ⟨"hash_map::VacantEntry", "S", mutable⟩, ⟨"hash_map::VacantEntry", "A", mutable⟩,
  -- EntryRef = Occupied(OccupiedEntry) | Vacant(VacantEntryRef)
  ⟨"hash_map::EntryRef", "K", mutable⟩, ⟨"hash_map::EntryRef", "Q", shared⟩, ⟨"hash_map::EntryRef", "V", mutable⟩,
  ⟨"hash_map::EntryRef", "S", mutable⟩, ⟨"hash_map::EntryRef", "A", mutable⟩,
  -- VacantEntryRef { hash, key: &'b Q, table: &'a mut HashMap<K,V,S,A> }  (`&'b Q` is the caller's)
  ⟨"hash_map::VacantEntryRef", "K", mutable⟩, ⟨"hash_map::VacantEntryRef", "Q", shared⟩,
  ⟨"hash_map::VacantEntryRef", "V", mutable⟩, ⟨"hash_map::VacantEntryRef", "S", mutable⟩,
  ⟨"hash_map::VacantEntryRef", "A", mutable⟩,
  -- OccupiedError { entry: OccupiedEntry<'a,K,V,S,A>, value: V }  (owns one V *and* can write the map's)
  ⟨"hash_map::OccupiedError", "K", mutable⟩, ⟨"hash_map::OccupiedError", "V", mutable⟩,
  ⟨"hash_map::OccupiedError", "S", mutable⟩, ⟨"hash_map::OccupiedError", "A", mutable⟩,
  -- ───────────────────────────── raw entry API (src/raw_entry.rs) ─────────────────────────────
  -- RawEntryBuilderMut { map: &'a mut HashMap<K,V,S,A> }
  ⟨"hash_map::RawEntryBuilderMut", "K", mutable⟩, ⟨"hash_map::RawEntryBuilderMut", "V", mutable⟩,
  ⟨"hash_map::RawEntryBuilderMut", "S", mutable⟩, ⟨"hash_map::RawEntryBuilderMut", "A", mutable⟩,
  -- RawOccupiedEntryMut { elem, table: &'a mut RawTable<(K,V),A>, hash_builder: &'a S }
  -- RawVacantEntryMut   {       table: &'a mut RawTable<(K,V),A>, hash_builder: &'a S }
  -- RawEntryMut = Occupied(..) | Vacant(..).   The `&'a S` is only ever created by splitting the
  -- `&'a mut HashMap` of a RawEntryBuilderMut (raw_entry.rs `search`, and `replace_entry_with`),
  -- so it is exclusive for 'a and read-only: exclRead.  key_mut()/into_key() hand out `&mut K`.
  ⟨"hash_map::RawEntryMut", "K", mutable⟩, ⟨"hash_map::RawEntryMut", "V", mutable⟩,
  ⟨"hash_map::RawEntryMut", "S", exclRead⟩, ⟨"hash_map::RawEntryMut", "A", mutable⟩,
  ⟨"hash_map::RawOccupiedEntryMut", "K", mutable⟩, ⟨"hash_map::RawOccupiedEntryMut", "V", mutable⟩,
  ⟨"hash_map::RawOccupiedEntryMut", "S", exclRead⟩, ⟨"hash_map::RawOccupiedEntryMut", "A", mutable⟩,
  ⟨"hash_map::RawVacantEntryMut", "K", mutable⟩, ⟨"hash_map::RawVacantEntryMut", "V", mutable⟩,
  ⟨"hash_map::RawVacantEntryMut", "S", exclRead⟩, ⟨"hash_map::RawVacantEntryMut", "A", mutable⟩,
  -- RawEntryBuilder { map: &'a HashMap<K,V,S,A> }
  ⟨"hash_map::RawEntryBuilder", "K", shared⟩, ⟨"hash_map::RawEntryBuilder", "V", shared⟩,
  ⟨"hash_map::RawEntryBuilder", "S", shared⟩, ⟨"hash_map::RawEntryBuilder", "A", shared⟩,
  -- ───────────────────────────── rustc entry API (src/rustc_entry.rs) ─────────────────────────────
  -- RustcOccupiedEntry { elem, table: &'a mut RawTable<(K,V),A> }
  -- RustcVacantEntry   { hash, key: K, table: &'a mut RawTable<(K,V),A> };  RustcEntry = either
  ⟨"hash_map::RustcEntry", "K", mutable⟩, ⟨"hash_map::RustcEntry", "V", mutable⟩, ⟨"hash_map::RustcEntry", "A", mutable⟩,
  ⟨"hash_map::RustcOccupiedEntry", "K", mutable⟩, ⟨"hash_map::RustcOccupiedEntry", "V", mutable⟩,
  ⟨"hash_map::RustcOccupiedEntry", "A", mutable⟩,
  ⟨"hash_map::RustcVacantEntry", "K", mutable⟩, ⟨"hash_map::RustcVacantEntry", "V", mutable⟩,
  ⟨"hash_map::RustcVacantEntry", "A", mutable⟩,
  -- ───────────────────────────── hash_map::rayon (external_trait_impls/rayon/map.rs) ─────────────
  -- ParIter / ParKeys / ParValues { inner: RawParIter<(K,V)>, marker: PhantomData<(&'a K, &'a V)> }; Clone
  ⟨"hash_map::rayon::ParIter", "K", shared⟩, ⟨"hash_map::rayon::ParIter", "V", shared⟩,
  ⟨"hash_map::rayon::ParKeys", "K", shared⟩, ⟨"hash_map::rayon::ParKeys", "V", shared⟩,
  ⟨"hash_map::rayon::ParValues", "K", shared⟩, ⟨"hash_map::rayon::ParValues", "V", shared⟩,
  -- ParIterMut / ParValuesMut { inner: RawParIter<(K,V)>, marker: PhantomData<(&'a K, &'a mut V)> };
  -- only from `&'a mut HashMap` (par_iter_mut / par_values_mut)
  ⟨"hash_map::rayon::ParIterMut", "K", exclRead⟩, ⟨"hash_map::rayon::ParIterMut", "V", mutable⟩,
  ⟨"hash_map::rayon::ParValuesMut", "K", exclRead⟩, ⟨"hash_map::rayon::ParValuesMut", "V", mutable⟩,
  -- IntoParIter { inner: RawIntoParIter { table: RawTable<(K,V),A> } }
  ⟨"hash_map::rayon::IntoParIter", "K", owning⟩, ⟨"hash_map::rayon::IntoParIter", "V", owning⟩,
  ⟨"hash_map::rayon::IntoParIter", "A", owning⟩,
  -- ParDrain { inner: RawParDrain { table: NonNull<RawTable<T,A>>, marker: PhantomData<&'a RawTable<T,A>> } };
  -- from `par_drain(&mut self)`; elements moved out, allocator never touched (clear / clear_no_drop)
  ⟨"hash_map::rayon::ParDrain", "K", owning⟩, ⟨"hash_map::rayon::ParDrain", "V", owning⟩,
  ⟨"hash_map::rayon::ParDrain", "A", exclRead⟩,
  -- ───────────────────────────── hash_set (src/set.rs) ─────────────────────────────
  -- HashSet { map: HashMap<T, (), S, A> }
  ⟨"hash_set::HashSet", "T", owning⟩, ⟨"hash_set::HashSet", "S", owning⟩, ⟨"hash_set::HashSet", "A", owning⟩,
  -- Iter<'a,K> { iter: Keys<'a,K,()> }
  ⟨"hash_set::Iter", "K", shared⟩,
  -- IntoIter<K,A> { iter: map::IntoIter<K,(),A> }
  ⟨"hash_set::IntoIter", "K", owning⟩, ⟨"hash_set::IntoIter", "A", owning⟩,
  -- Drain<'a,K,A> { iter: map::Drain<'a,K,(),A> }
  ⟨"hash_set::Drain", "K", owning⟩, ⟨"hash_set::Drain", "A", exclRead⟩,
  -- ExtractIf<'a,K,F,A> { f: F, inner: RawExtractIf<'a,(K,()),A> };  F: FnMut(&K) -> bool
  ⟨"hash_set::ExtractIf", "K", owning⟩, ⟨"hash_set::ExtractIf", "F", owning⟩, ⟨"hash_set::ExtractIf", "A", mutable⟩,
  -- Intersection / Difference { iter: Iter<'a,T>, other: &'a HashSet<T,S,A> }
  ⟨"hash_set::Intersection", "T", shared⟩, ⟨"hash_set::Intersection", "S", shared⟩, ⟨"hash_set::Intersection", "A", shared⟩,
  ⟨"hash_set::Difference", "T", shared⟩, ⟨"hash_set::Difference", "S", shared⟩, ⟨"hash_set::Difference", "A", shared⟩,
  -- SymmetricDifference { iter: Chain<Difference, Difference> };  Union { iter: Chain<Iter, Difference> }
  ⟨"hash_set::SymmetricDifference", "T", shared⟩, ⟨"hash_set::SymmetricDifference", "S", shared⟩,
  ⟨"hash_set::SymmetricDifference", "A", shared⟩,
  ⟨"hash_set::Union", "T", shared⟩, ⟨"hash_set::Union", "S", shared⟩, ⟨"hash_set::Union", "A", shared⟩,
  -- Entry / OccupiedEntry { inner: map::OccupiedEntry<'a,T,(),S,A> } / VacantEntry { inner: map::VacantEntry<..> }
  ⟨"hash_set::Entry", "T", mutable⟩, ⟨"hash_set::Entry", "S", mutable⟩, ⟨"hash_set::Entry", "A", mutable⟩,
  ⟨"hash_set::OccupiedEntry", "T", mutable⟩, ⟨"hash_set::OccupiedEntry", "S", mutable⟩, ⟨"hash_set::OccupiedEntry", "A", mutable⟩,
  ⟨"hash_set::VacantEntry", "T", mutable⟩, ⟨"hash_set::VacantEntry", "S", mutable⟩, ⟨"hash_set::VacantEntry", "A", mutable⟩,
  -- ───────────────────────────── hash_set::rayon (external_trait_impls/rayon/set.rs) ─────────────
  ⟨"hash_set::rayon::IntoParIter", "T", owning⟩, ⟨"hash_set::rayon::IntoParIter", "A", owning⟩,
  ⟨"hash_set::rayon::ParDrain", "T", owning⟩, ⟨"hash_set::rayon::ParDrain", "A", exclRead⟩,
  -- ParIter { inner: map::ParKeys<'a,T,()> }
  ⟨"hash_set::rayon::ParIter", "T", shared⟩,
  -- Par{Difference,SymmetricDifference,Intersection,Union} { a: &'a HashSet<T,S,A>, b: &'a HashSet<T,S,A> }
  ⟨"hash_set::rayon::ParDifference", "T", shared⟩, ⟨"hash_set::rayon::ParDifference", "S", shared⟩,
  ⟨"hash_set::rayon::ParDifference", "A", shared⟩,
  ⟨"hash_set::rayon::ParSymmetricDifference", "T", shared⟩, ⟨"hash_set::rayon::ParSymmetricDifference", "S", shared⟩,
  ⟨"hash_set::rayon::ParSymmetricDifference", "A", shared⟩,
  ⟨"hash_set::rayon::ParIntersection", "T", shared⟩, ⟨"hash_set::rayon::ParIntersection", "S", shared⟩,
  ⟨"hash_set::rayon::ParIntersection", "A", shared⟩,
  ⟨"hash_set::rayon::ParUnion", "T", shared⟩, ⟨"hash_set::rayon::ParUnion", "S", shared⟩,
  ⟨"hash_set::rayon::ParUnion", "A", shared⟩,
  -- ───────────────────────────── hash_table (src/table.rs) ─────────────────────────────
  -- HashTable { raw: RawTable<T,A> }
  ⟨"hash_table::HashTable", "T", owning⟩, ⟨"hash_table::HashTable", "A", owning⟩,
  -- Entry = Occupied | Vacant;  OccupiedEntry { hash, bucket, table: &'a mut HashTable<T,A> };
  -- VacantEntry { hash, insert_slot, table: &'a mut HashTable<T,A> };  AbsentEntry { table: &'a mut HashTable<T,A> }
  ⟨"hash_table::Entry", "T", mutable⟩, ⟨"hash_table::Entry", "A", mutable⟩,
  ⟨"hash_table::OccupiedEntry", "T", mutable⟩, ⟨"hash_table::OccupiedEntry", "A", mutable⟩,
  ⟨"hash_table::VacantEntry", "T", mutable⟩, ⟨"hash_table::VacantEntry", "A", mutable⟩,
  ⟨"hash_table::AbsentEntry", "T", mutable⟩, ⟨"hash_table::AbsentEntry", "A", mutable⟩,
  -- Iter { inner: RawIter<T>, marker: PhantomData<&'a T> };  IterMut { .., PhantomData<&'a mut T> }
  ⟨"hash_table::Iter", "T", shared⟩,
  ⟨"hash_table::IterMut", "T", mutable⟩,
  -- IterHash { inner: RawIterHash<T>, marker: PhantomData<&'a T> };  IterHashMut { .., PhantomData<&'a mut T> }
  ⟨"hash_table::IterHash", "T", shared⟩,
  ⟨"hash_table::IterHashMut", "T", mutable⟩,
  -- IntoIter { inner: RawIntoIter<T,A> };  Drain { inner: RawDrain<'a,T,A> }
  ⟨"hash_table::IntoIter", "T", owning⟩, ⟨"hash_table::IntoIter", "A", owning⟩,
  ⟨"hash_table::Drain", "T", owning⟩, ⟨"hash_table::Drain", "A", exclRead⟩,
  -- ExtractIf<'a,T,F,A> { f: F, inner: RawExtractIf<'a,T,A> };  F: FnMut(&mut T) -> bool
  ⟨"hash_table::ExtractIf", "T", mutable⟩, ⟨"hash_table::ExtractIf", "F", owning⟩, ⟨"hash_table::ExtractIf", "A", mutable⟩,
  -- ───────────────────────────── hash_table::rayon (external_trait_impls/rayon/table.rs) ─────────
  ⟨"hash_table::rayon::ParIter", "T", shared⟩,
  ⟨"hash_table::rayon::ParIterMut", "T", mutable⟩,
  ⟨"hash_table::rayon::IntoParIter", "T", owning⟩, ⟨"hash_table::rayon::IntoParIter", "A", owning⟩,
  ⟨"hash_table::rayon::ParDrain", "T", owning⟩, ⟨"hash_table::rayon::ParDrain", "A", exclRead⟩
]

/-- What a marker impl must say about a parameter. -/
inductive Need where
  | send | sync | sendOrSync
  deriving DecidableEq, Repr

/-- The rule for `impl Send for T`. -/
def needForSend : Access → Need
  | .owning => .send
  | .mutable => .send
  | .shared => .sync
  | .exclRead => .sendOrSync

/-- The rule for `impl Sync for T`: everything reachable through `&T` must be `Sync`. -/
def needForSync : Access → Need
  | _ => .sync

/-- Known deviations: rows for which the impl found in the tree carries *no* sufficient bound.
Each entry is `(typeName, param, trait)`.  They are excluded from `send_requires`/`sync_requires`
and `waivers_are_exact` proves each of them really is a deviation (a stale waiver breaks the
build).  See /verif/notes/C16_NOTES.md, finding C16-F1.

`unsafe impl<T: Send, A: Allocator> Send for RawParDrain<'_, T, A> {}`
(external_trait_impls/rayon/raw.rs) puts no bound at all on the allocator although the three
`ParDrain` types keep the table (allocator included) exclusively borrowed.  By inspection the
allocator is never touched through them (`drive_unindexed`, `Drop` only call `clear`,
`clear_no_drop`, element reads), so this is judged benign -- but it is weaker than the sequential
`Drain` (which requires `A: Send`) and weaker than the rule above, so it is recorded, not hidden. -/
def waivers : List (String × String × String) := [
  ("hash_map::rayon::ParDrain", "A", "Send"),
  ("hash_set::rayon::ParDrain", "A", "Send"),
  ("hash_table::rayon::ParDrain", "A", "Send")
]

/-- Types that are expected to have *no* positive impl of the trait (stronger than required, so
fine for the property; listed so that the obligation corpus knows, and so that a change is
noticed -- `not_implemented_exact` in C16.lean).
`IterHash`/`IterHashMut` hold a `RawIterHash` (raw pointers, no manual impl);
`ParDrain` holds `NonNull<RawTable>` and only has a manual `Send` impl. -/
def notImplemented : List (String × String) := [
  ("hash_table::IterHash", "Send"), ("hash_table::IterHash", "Sync"),
  ("hash_table::IterHashMut", "Send"), ("hash_table::IterHashMut", "Sync"),
  ("hash_map::rayon::ParDrain", "Sync"),
  ("hash_set::rayon::ParDrain", "Sync"),
  ("hash_table::rayon::ParDrain", "Sync")
]

end Hb.Props.C16
