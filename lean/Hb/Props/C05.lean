/-
C05 — Broken `Hash` / `Eq` implementations cannot cause undefined behaviour.

The environment `env : Env` of the model answers every `Hash`, `Eq` and predicate call by CALL
NUMBER: `env.hash c k`, `env.eq c q e`, `env.pred c e` are arbitrary functions of the call counter.
Hence "for every `env`" covers: different hashes for the same key on different calls, equal keys
with different hashes, an `Eq` that is not reflexive / symmetric / transitive, fresh pseudo-random
answers on every call, and callbacks that panic at any call (`none`). All theorems below are for
every `env`, every history, both group widths, every element layout.

Look-up RESULTS are unspecified for such environments (nothing is claimed about them); what is
claimed is: no undefined behaviour, termination, `len()` = number of elements yielded, and every
stored element dropped exactly once (the last for histories that run without an observed panic, and
element types with drop glue so that destructor calls are visible in the log).
-/
import Hb.Proofs.History
import Hb.Proofs.HistoryX
namespace Hb.C05
open Hb

variable {cfg : Cfg}

/-- Whatever `Hash` / `Eq` / predicates answer (and whenever they panic): no call and no history of
    calls is undefined behaviour; after every call, returned or unwound, the table is valid and
    `len` is the number of stored elements; only a refusing allocator can cut a history short. -/
theorem broken_hash_eq_safe (hc : CfgOk cfg) (hg : GuardRuns cfg) (env : Env) :
    (∀ (op : MapOp) (w : World), TInv cfg w.t →
      match Map.step cfg env op w with
      | .ok (_, w') => TInv cfg w'.t ∧ w'.t.items = w'.t.elems.length
      | .panic _ w' => TInv cfg w'.t ∧ w'.t.items = w'.t.elems.length
      | .abort => env.allocOk w.ac = false
      | .fault _ => False) ∧
    (∀ (ops : List MapOp) (w0 : World), w0.t = Raw.new cfg.W →
      Map.runFaults cfg env ops w0 = false ∧
      (∀ obs w, Map.run cfg env ops w0 = some (obs, w) →
        TInv cfg w.t ∧ w.t.items = w.t.elems.length) ∧
      ((∀ j, env.allocOk j = true) → ∃ obs w, Map.run cfg env ops w0 = some (obs, w))) :=
  ⟨fun op w h => step_safe hc hg env op w h, fun ops w0 h0 => run_safe hc hg env ops w0 h0⟩

/-- The same over the WHOLE modelled API (`MapOpX`: additionally `entry` / `entry_ref` / `rustc_entry`
    / `raw_entry_mut` with any method chain and any caller-supplied hash, `raw_entry`, `try_insert`,
    `extend`, `get_many_mut`, `Index`): with arbitrary call-dependent `Hash`/`Eq` answers and panics no
    history is undefined behaviour, and the table is valid with `len` = stored elements after every
    call, returned or unwound. -/
theorem broken_hash_eq_safe_all_calls (hc : CfgOk cfg) (hg : GuardRuns cfg) (env : Env)
    (ops : List MapOpX) (w0 : World) (h0 : TInv cfg w0.t) :
    Map.runXFaults cfg env ops w0 = false ∧
    (∀ obs w, Map.runX cfg env ops w0 = some (obs, w) → TInv cfg w.t ∧ w.t.items = w.t.elems.length) ∧
    ((∀ j, env.allocOk j = true) → ∃ obs w, Map.runX cfg env ops w0 = some (obs, w)) :=
  runX_safe_from hc hg env ops w0 h0

/-- After ANY history with ANY `Hash`/`Eq`: `len()` is exactly the number of buckets an iterator
    visits, the number of elements `.iter p` yields for `p ≥ len`, and the number a complete `drain`
    hands out. -/
theorem len_equals_yielded (hc : CfgOk cfg) (hg : GuardRuns cfg) (env : Env) (ops : List MapOp)
    (w0 : World) (h0 : w0.t = Raw.new cfg.W) {obs : List Map.Obs} {w : World}
    (hrun : Map.run cfg env ops w0 = some (obs, w)) :
    w.t.fullList.length = w.t.items ∧ w.t.elems.length = w.t.items ∧
    (∀ p, Map.step cfg env (.iter p) w = .ok (.elems (w.t.elems.take p), w) ∧
      (w.t.items ≤ p → (w.t.elems.take p).length = w.t.items)) ∧
    (∀ k fg out w', Map.drain cfg env k fg w = .ok (out, w') →
      out = w.t.elems.take k ∧ out.length = min k w.t.items ∧
      (w.t.items ≤ k → out.length = w.t.items)) :=
  iteration_counts_len hc env w ((run_safe hc hg env ops w0 h0).2.1 obs w hrun).1

/-- Every call terminates (a loop that runs out of fuel is a `.fault`, and no call faults); in
    particular a look-up in ANY valid table — absent key, every free bucket a tombstone, any `Eq` —
    returns, or propagates the panic of `Eq`, leaving table and log untouched. -/
theorem lookups_terminate (hc : CfgOk cfg) (hg : GuardRuns cfg) (env : Env) :
    (∀ op w, TInv cfg w.t → ∀ f, Map.step cfg env op w ≠ .fault f) ∧
    (∀ hash q w, Inv cfg w.t →
      (∃ r w', find cfg env hash q w = .ok (r, w') ∧ w'.t = w.t ∧ w'.log = w.log ∧ w'.hc = w.hc ∧
        ∀ idx, r = some idx → idx < w.t.buckets ∧ isFull (w.t.ctrlAt idx) = true ∧
          ∃ e, w.t.slots[idx]?.join = some e) ∨
      (∃ w', find cfg env hash q w = .panic "eq" w' ∧ w'.t = w.t ∧ w'.log = w.log)) :=
  every_call_terminates hc hg env

/-- With ANY (non-panicking but otherwise arbitrary, call-dependent) `Hash`/`Eq`/predicate: for a
    history without a forgotten drain that runs without an observed panic, followed by the drop of
    the collection, every key object and every value object that was ever passed in was dropped by
    the collection exactly once or handed back to the caller exactly once (the two lists together
    are a permutation of the inserted identities), nothing remains allocated and every `free` was
    matched. -/
theorem elements_dropped_once (hc : CfgOk cfg) (hnd : cfg.needsDrop = true) (env : Env)
    (hdp : ∀ c e, env.dropPanics c e = false) (ops : List MapOp)
    (w0 : World) (h0 : w0.t = Raw.new cfg.W) (hl0 : w0.log = []) (hnf : hs_NoForget ops)
    {obs : List Map.Obs} {wf : World} (hrun : Map.run cfg env ops w0 = some (obs, wf))
    (hret : ∀ o ∈ obs, ∃ r, o = .ret r) :
    ∃ wd, dropInnerTable cfg env wf.t { wf with t := Raw.new cfg.W } = .ok wd ∧
      wd.t = Raw.new cfg.W ∧
      List.Perm (droppedK wd.log ++ returnedK (ops.zip obs)) (insertedK ops) ∧
      List.Perm (droppedV wd.log ++ returnedV (ops.zip obs)) (insertedV ops) ∧
      liveBlocks wd.log = [] ∧ freesMatched wd.log :=
  dropAll_ledger hc hnd env hdp ops w0 h0 hl0 hnf hrun hret

#print axioms broken_hash_eq_safe
#print axioms broken_hash_eq_safe_all_calls
#print axioms len_equals_yielded
#print axioms lookups_terminate
#print axioms elements_dropped_once

end Hb.C05
