/-
C01 — HashMap equals a sequential key-value map for every history and hasher.

`AL.Step P op l r l'` (Hb/Model/Spec.lean) is the reference association list: "on the abstract map
`l`, call `op` may return `r` and leave `l'`". The theorems say that for EVERY deterministic hash
function `H` (the hypothesis `Lawful env H` only says that the hasher is a function of the key and
that `Eq` is key equality — all-colliding, constant, adversarial position/tag plans are instances),
every history of the covered calls, every capacity history (growth, shrinking, tombstones, in-place
rehash, tables smaller/equal/larger than a group) and both scanners (`CfgOk`), each call returns
what the reference returns and the table holds a permutation of the reference's pairs, each key once.
-/
import Hb.Proofs.Refine
namespace Hb.C01
open Hb

variable {cfg : Cfg}

/-- Whole histories from `new()`: the observed returns are related, call by call, to an
    association-list trace starting from the empty map; the final contents are a permutation of the
    final abstract map, whose keys are pairwise distinct. (`ops` ranges over insert, get/get_mut/
    contains_key/get_key_value (one model call `get`), remove, remove_entry, clear, reserve,
    try_reserve, shrink_to(_fit), retain. The only non-return outcome is the documented "capacity
    overflow" panic of insert/reserve, which leaves the map unchanged.) -/
theorem history_refines (hc : CfgOk cfg) {env : Env} {H : Nat → Nat} {P : AL.Pred}
    (hlp : LawfulP env H P) (ops : List MapOp) (hb : ∀ op ∈ ops, op.basic = true)
    (w0 : World) (h0 : w0.t = Raw.new cfg.W) :
    ∃ os wf lf, Map.run cfg env ops w0 = some (os, wf) ∧ AL.Trace P ops [] os lf ∧
      List.Perm wf.t.elems lf ∧ lf.keysNodup ∧ RI cfg H wf.t :=
  C01_run_refines hc hlp ops hb w0 h0

/-- One call from any state satisfying the representation invariant. -/
theorem call_refines (hc : CfgOk cfg) {env : Env} {H : Nat → Nat} {P : AL.Pred}
    (hlp : LawfulP env H P) (op : MapOp) (hop : op.basic = true) (w : World) (h : RI cfg H w.t) :
    (∃ r w' l', Map.step cfg env op w = .ok (r, w') ∧ AL.Step P op w.t.elems r l' ∧
      List.Perm w'.t.elems l' ∧ RI cfg H w'.t) ∨
    (∃ w', Map.step cfg env op w = .panic "capacity" w' ∧ w'.t = w.t ∧ op.mayOverflow = true) :=
  step_refines' hc hlp op hop w h

/-- Inserting under an already-present equal key replaces the value, returns the old value and keeps
    the ORIGINALLY STORED key object (the new key object is dropped). -/
theorem insert_keeps_stored_key (hc : CfgOk cfg) {env : Env} {H : Nat → Nat}
    (hl : Lawful env H) (halloc : ∀ j, env.allocOk j = true)
    (hnd : ∀ c e, env.dropPanics c e = false) (e : Elem) (w : World) (h : RI cfg H w.t) :
    (∃ r w', Map.insert cfg env e w = .ok (r, w') ∧ RI cfg H w'.t ∧
      match AL.find w.t.elems e.k with
      | none => r = none ∧ List.Perm w'.t.elems (e :: w.t.elems) ∧
          dropsOf w'.log = dropsOf w.log
      | some old => r = some (old.vid, old.v) ∧
          List.Perm w'.t.elems (AL.setVal w.t.elems e.k e.vid e.v) ∧
          dropsOf w'.log = (if cfg.needsDrop then [Ev.dropK e.kid] else []) ++ dropsOf w.log) ∨
    (∃ w', Map.insert cfg env e w = .panic "capacity" w' ∧ w'.t = w.t ∧
      w'.log = (if cfg.needsDrop then [Ev.dropV e.vid, Ev.dropK e.kid] else []) ++ w.log) :=
  insert_refines hc (growthLawful hc hc.probe) hl halloc hnd e w h

/-- A look-up finds exactly the pair stored under that key. It depends on the probe only through its
    hash and through `Eq` (`env.hash`/`env.eq` take the key value `k`), so every equivalent borrowed
    form — which by `Lawful` hashes and compares like the key — finds the same entry. -/
theorem lookup_spec (hc : CfgOk cfg) {env : Env} {H : Nat → Nat} (hl : Lawful env H) (k : Nat)
    (w : World) (h : RI cfg H w.t) :
    ∃ w', Map.get cfg env k w = .ok (AL.find w.t.elems k, w') ∧ w'.t = w.t ∧ w'.log = w.log :=
  get_refines hc hl k w h

/-- `retain` keeps exactly the pairs whose predicate call answered `true`, with the payloads the
    predicate wrote through `&mut`; the others are dropped exactly once. -/
theorem retain_spec (hc : CfgOk cfg) {env : Env} {H : Nat → Nat} {P : AL.Pred}
    (hlp : LawfulP env H P) (w : World) (h : RI cfg H w.t) :
    ∃ w', Map.retain cfg env w = .ok w' ∧ RI cfg H w'.t ∧
      List.Perm w'.t.elems (AL.retain P w.t.elems) ∧
      w'.log = dropEvs cfg (AL.removed P w.t.elems).reverse ++ w.log :=
  retain_refines hc hlp w h

/-- Growth into a new allocation and in-place rehash re-establish the hash-dependent invariant
    (every element tagged with its hash, reachable by its probe sequence, keys distinct). -/
theorem growth_keeps_findability (hc : CfgOk cfg) : GrowthLawful cfg := growthLawful hc hc.probe

/-- The key stays findable across removals of other keys: erasing never changes whether any probe
    window contains an EMPTY byte (tombstone rule). -/
theorem tombstone_rule (hc : CfgOk cfg) {t : Raw} (h : Inv cfg t) {idx : Nat} (hi : idx < t.buckets)
    (hf : isFull (t.ctrlAt idx) = true) {e : Elem} {t' : Raw}
    (hr : removeAt cfg t idx = .ok (e, t')) :
    ∀ pos, pos < t.buckets → windowHasEmpty cfg t' pos = windowHasEmpty cfg t pos :=
  erase_keeps_windows hc h hi hf hr

/-! Non-vacuity: a concrete lawful environment and history, evaluated through `Map.run` on both
    scanners, match the specification (see `rfOps`, `rfObs` in Hb/Proofs/Refine.lean). -/
example : LawfulP rfEnv rfH rfP := rfEnv_lawfulP

#print axioms history_refines
#print axioms call_refines
#print axioms insert_keeps_stored_key
#print axioms lookup_spec
#print axioms retain_spec
#print axioms growth_keeps_findability
#print axioms tombstone_rule
end Hb.C01
