/-
C01 — HashMap equals a sequential key-value map for every history and hasher.

`AL.Step P op l r l'` (Hb/Model/Spec.lean) is the reference association list: "on the abstract map
`l`, call `op` may return `r` and leave `l'`". The theorems say that for EVERY deterministic hash
function `H` (the hypothesis `Lawful env H` only says that the hasher is a function of the key and
that `Eq` is key equality — all-colliding, constant, adversarial position/tag plans are instances),
every history of the covered calls, every capacity history (growth, shrinking, tombstones, in-place
rehash, tables smaller/equal/larger than a group) and both scanners (`CfgOk`), each call returns
what the reference returns and the table holds a permutation of the reference's pairs, each key once.
-/
import Hb.Proofs.Refine
import Hb.Proofs.RefineX
namespace Hb.C01
open Hb

variable {cfg : Cfg}

/-- Whole histories from `new()`: the observed returns are related, call by call, to an
    association-list trace starting from the empty map; the final contents are a permutation of the
    final abstract map, whose keys are pairwise distinct. (`ops` ranges over insert, get/get_mut/
    contains_key/get_key_value (one model call `get`), remove, remove_entry, clear, reserve,
    try_reserve, shrink_to(_fit), retain. The only non-return outcome is the documented "capacity
    overflow" panic of insert/reserve, which leaves the map unchanged.) -/
theorem history_refines (hc : CfgOk cfg) {env : Env} {H : Nat → Nat} {P : AL.Pred}
    (hlp : LawfulP env H P) (ops : List MapOp) (hb : ∀ op ∈ ops, op.basic = true)
    (w0 : World) (h0 : w0.t = Raw.new cfg.W) :
    ∃ os wf lf, Map.run cfg env ops w0 = some (os, wf) ∧ AL.Trace P ops [] os lf ∧
      List.Perm wf.t.elems lf ∧ lf.keysNodup ∧ RI cfg H wf.t :=
  C01_run_refines hc hlp ops hb w0 h0

/-- THE WHOLE MODELLED API IN ONE HISTORY (`MapOpX`, Hb/Model/MapOpsX.lean): the basic calls above
    interleaved in any order with `entry` / `entry_ref` / `rustc_entry` / `raw_entry_mut` followed by any
    method chain, `raw_entry` look-ups, `try_insert`, `extend`, `get_many_mut` and `Index`. `AL.StepX`
    (Hb/Proofs/SpecX.lean) is the reference association list for these calls: the observation is the
    reference's return value or its documented panic (`"dup"` for `get_many_mut` naming one present key
    twice, `"nokey"` for `map[k]` of an absent key, `"capacity"` = the capacity-overflow panic, which
    leaves the map unchanged), and the final contents are a permutation of the reference's pairs, each
    key once. `contract H` only constrains raw-entry builders that take a caller-supplied hash (it must
    be the key's hash — the documented contract; `rawLook_wrong_hash_misses` in C14 shows it is needed);
    `basicOk` excludes only `extract_if`/`drain`/`iter` (covered by C10/C09). -/
theorem history_refines_all_calls (hc : CfgOk cfg) {env : Env} {H : Nat → Nat} {P : AL.Pred}
    (hlp : LawfulP env H P) (ops : List MapOpX) (hct : ∀ op ∈ ops, op.contract H)
    (hb : ∀ op ∈ ops, op.basicOk = true) (w0 : World) (h0 : w0.t = Raw.new cfg.W) :
    ∃ os wf lf, Map.runX cfg env ops w0 = some (os, wf) ∧ AL.TraceX P H ops [] os lf ∧
      List.Perm wf.t.elems lf ∧ lf.keysNodup ∧ RI cfg H wf.t :=
  historyX_refines hc hlp ops hct hb w0 h0

/-- One call of the extended API from any state satisfying the representation invariant. -/
theorem call_refines_all_calls (hc : CfgOk cfg) {env : Env} {H : Nat → Nat} {P : AL.Pred}
    (hlp : LawfulP env H P) (op : MapOpX) (hct : op.contract H) (hb : op.basicOk = true)
    (w : World) (h : RI cfg H w.t) :
    (∃ r w' l', Map.stepX cfg env op w = .ok (r, w') ∧ AL.StepX P H op w.t.elems (.ret r) l' ∧
      List.Perm w'.t.elems l' ∧ RI cfg H w'.t) ∨
    (∃ c w' l', Map.stepX cfg env op w = .panic c w' ∧ AL.StepX P H op w.t.elems (.panic c) l' ∧
      List.Perm w'.t.elems l' ∧ RI cfg H w'.t) :=
  stepX_refines hc hlp op hct hb w h

/-- The reference is pinned down (not vacuous): on a given abstract map an extended call has at most
    one returning outcome (up to the unspecified `try_reserve` result), and `entry(k).or_insert(v)`,
    `try_insert`, `extend`, `get_many_mut` mean what the documentation says. -/
theorem reference_is_functional {P : AL.Pred} {H : Nat → Nat} {op : MapOpX} {l l1 l2 : AL} {r1 r2 : RetX}
    (h1 : AL.StepX P H op l (.ret r1) l1) (h2 : AL.StepX P H op l (.ret r2) l2) :
    l1 = l2 ∧ ((∀ n, op ≠ .base (.tryReserve n)) → r1 = r2) :=
  AL.StepX.ret_functional h1 h2

/-- One call from any state satisfying the representation invariant. -/
theorem call_refines (hc : CfgOk cfg) {env : Env} {H : Nat → Nat} {P : AL.Pred}
    (hlp : LawfulP env H P) (op : MapOp) (hop : op.basic = true) (w : World) (h : RI cfg H w.t) :
    (∃ r w' l', Map.step cfg env op w = .ok (r, w') ∧ AL.Step P op w.t.elems r l' ∧
      List.Perm w'.t.elems l' ∧ RI cfg H w'.t) ∨
    (∃ w', Map.step cfg env op w = .panic "capacity" w' ∧ w'.t = w.t ∧ op.mayOverflow = true) :=
  step_refines' hc hlp op hop w h

/-- Inserting under an already-present equal key replaces the value, returns the old value and keeps
    the ORIGINALLY STORED key object (the new key object is dropped). -/
theorem insert_keeps_stored_key (hc : CfgOk cfg) {env : Env} {H : Nat → Nat}
    (hl : Lawful env H) (halloc : ∀ j, env.allocOk j = true)
    (hnd : ∀ c e, env.dropPanics c e = false) (e : Elem) (w : World) (h : RI cfg H w.t) :
    (∃ r w', Map.insert cfg env e w = .ok (r, w') ∧ RI cfg H w'.t ∧
      match AL.find w.t.elems e.k with
      | none => r = none ∧ List.Perm w'.t.elems (e :: w.t.elems) ∧
          dropsOf w'.log = dropsOf w.log
      | some old => r = some (old.vid, old.v) ∧
          List.Perm w'.t.elems (AL.setVal w.t.elems e.k e.vid e.v) ∧
          dropsOf w'.log = (if cfg.needsDrop then [Ev.dropK e.kid] else []) ++ dropsOf w.log) ∨
    (∃ w', Map.insert cfg env e w = .panic "capacity" w' ∧ w'.t = w.t ∧
      w'.log = (if cfg.needsDrop then [Ev.dropV e.vid, Ev.dropK e.kid] else []) ++ w.log) :=
  insert_refines hc (growthLawful hc hc.probe) hl halloc hnd e w h

/-- A look-up finds exactly the pair stored under that key. It depends on the probe only through its
    hash and through `Eq` (`env.hash`/`env.eq` take the key value `k`), so every equivalent borrowed
    form — which by `Lawful` hashes and compares like the key — finds the same entry. -/
theorem lookup_spec (hc : CfgOk cfg) {env : Env} {H : Nat → Nat} (hl : Lawful env H) (k : Nat)
    (w : World) (h : RI cfg H w.t) :
    ∃ w', Map.get cfg env k w = .ok (AL.find w.t.elems k, w') ∧ w'.t = w.t ∧ w'.log = w.log :=
  get_refines hc hl k w h

/-- `retain` keeps exactly the pairs whose predicate call answered `true`, with the payloads the
    predicate wrote through `&mut`; the others are dropped exactly once. -/
theorem retain_spec (hc : CfgOk cfg) {env : Env} {H : Nat → Nat} {P : AL.Pred}
    (hlp : LawfulP env H P) (w : World) (h : RI cfg H w.t) :
    ∃ w', Map.retain cfg env w = .ok w' ∧ RI cfg H w'.t ∧
      List.Perm w'.t.elems (AL.retain P w.t.elems) ∧
      w'.log = dropEvs cfg (AL.removed P w.t.elems).reverse ++ w.log :=
  retain_refines hc hlp w h

/-- Growth into a new allocation and in-place rehash re-establish the hash-dependent invariant
    (every element tagged with its hash, reachable by its probe sequence, keys distinct). -/
theorem growth_keeps_findability (hc : CfgOk cfg) : GrowthLawful cfg := growthLawful hc hc.probe

/-- The key stays findable across removals of other keys: erasing never changes whether any probe
    window contains an EMPTY byte (tombstone rule). -/
theorem tombstone_rule (hc : CfgOk cfg) {t : Raw} (h : Inv cfg t) {idx : Nat} (hi : idx < t.buckets)
    (hf : isFull (t.ctrlAt idx) = true) {e : Elem} {t' : Raw}
    (hr : removeAt cfg t idx = .ok (e, t')) :
    ∀ pos, pos < t.buckets → windowHasEmpty cfg t' pos = windowHasEmpty cfg t pos :=
  erase_keeps_windows hc h hi hf hr

/-! Non-vacuity: a concrete lawful environment and history, evaluated through `Map.run` on both
    scanners, match the specification (see `rfOps`, `rfObs` in Hb/Proofs/Refine.lean). -/
example : LawfulP rfEnv rfH rfP := rfEnv_lawfulP

#print axioms history_refines
#print axioms history_refines_all_calls
#print axioms call_refines_all_calls
#print axioms reference_is_functional
#print axioms call_refines
#print axioms insert_keeps_stored_key
#print axioms lookup_spec
#print axioms retain_spec
#print axioms growth_keeps_findability
#print axioms tombstone_rule
end Hb.C01
