/-
C13 — Insert/remove churn is reclaimed: bounded memory, guaranteed termination.

For EVERY environment (any hash plan, even inconsistent or panicking hashers — `GuardRuns` is the
repaired unwind guard), every interleaving of insert / get / get_mut / remove / remove_entry of
unbounded length starting from `new()` (no explicit reservation): with `peak` the maximum of `len()`
over the whole run, the usable capacity never exceeds `max 14 (4·peak)`, the bucket count never
exceeds 4× what `with_capacity(n)` would choose for any `n ≥ peak`, and the bytes held never exceed
4× that layout. Tombstones are reclaimed in place (same bucket count, no allocator event) whenever
at most half the capacity is live. Every look-up terminates, also for absent keys in a table
saturated with tombstones.
-/
import Hb.Proofs.Churn
import Hb.Proofs.ChurnX
import Hb.Proofs.FindSpec
import Hb.Proofs.Probe
namespace Hb.C13
open Hb

variable {cfg : Cfg}

/-- Capacity is bounded by a fixed multiple of the peak live size, for every churn history. -/
theorem churn_capacity_bound (hc : CfgOk cfg) (hg : GuardRuns cfg) (env : Env)
    (ops : List MapOp) (hops : ∀ op ∈ ops, ChurnOp op) (w0 : World) (h0 : w0.t = Raw.new cfg.W)
    (obs : List Map.Obs) (w : World) (hrun : Map.run cfg env ops w0 = some (obs, w)) :
    TInv cfg w.t ∧ bucketMaskToCapacity w.t.mask ≤ max 14 (4 * Map.runPeak cfg env ops w0) :=
  churn_bound hc (probe_covers cfg hc.spec.width) hg env ops hops w0 h0 obs w hrun

/-- The same bound when insertions and removals ALSO go through the entry-style APIs: histories of
    `MapOpX` whose calls are insert / get / get_mut / remove / remove_entry, `entry` / `entry_ref` /
    `rustc_entry` / `raw_entry_mut` with ANY method chain (vacant inserts, occupied removes, in-place
    replacement), `raw_entry`, `try_insert`, `get_many_mut`, `Index` — every environment, unbounded
    length. (`extend` is excluded because it reserves from the iterator's size hint: that is an explicit
    reservation, and `extend_reserves_from_hint` is the machine-checked witness that it exceeds the
    bound.) -/
theorem churn_capacity_bound_all_insert_remove_paths (hc : CfgOk cfg) (hg : GuardRuns cfg) (env : Env)
    (ops : List MapOpX) (hops : ∀ op ∈ ops, ChurnOpXR op) (w0 : World) (h0 : w0.t = Raw.new cfg.W)
    (obs : List Map.ObsX) (w : World) (hrun : Map.runX cfg env ops w0 = some (obs, w)) :
    TInv cfg w.t ∧ bucketMaskToCapacity w.t.mask ≤ max 14 (4 * Map.runXPeak cfg env ops w0) :=
  churnXR_bound hc hg env ops hops w0 h0 obs w hrun

/-- Bytes held ≤ 4× the layout `with_capacity(n)` would allocate, for the extended histories. -/
theorem churn_bytes_bound_all_insert_remove_paths (hc : CfgOk cfg) (hg : GuardRuns cfg)
    (env : Env) (ops : List MapOpX) (hops : ∀ op ∈ ops, ChurnOpXR op) (w0 : World)
    (h0 : w0.t = Raw.new cfg.W) (obs : List Map.ObsX) (w : World)
    (hrun : Map.runX cfg env ops w0 = some (obs, w))
    (n b : Nat) (hn : n ≠ 0) (hpk : Map.runXPeak cfg env ops w0 ≤ n)
    (hb : capacityToBuckets cfg.bits cfg.W cfg.size n = some b) :
    ∃ s, allocationSize cfg w.t = .ok s ∧
      (∀ l, calculateLayoutFor cfg.bits cfg.W cfg.size (ctrlAlignOf cfg) b = some l →
        s ≤ 4 * l.size) ∧
      (∀ L, calculateLayoutFor cfg.bits cfg.W cfg.size (ctrlAlignOf cfg) (4 * b) = some L →
        s ≤ L.size) :=
  churnX_bound_bytes hc hg env ops hops w0 h0 obs w hrun n b hn hpk hb

/-- Why `extend` is not a churn operation: one `extend` of 20 pairs carrying the same key has peak
    `len` 1 and ends with 32 buckets (capacity 28 > max 14 (4·1)) — it reserved for the size hint. -/
theorem extend_reserves_from_hint :
    Map.runXPeak { ops := Generic.ops } chEnv cxExtOps { t := Raw.new 8 } = 1 ∧
    cxSummary { ops := Generic.ops } chEnv cxExtOps { t := Raw.new 8 } = some (31, 1, 27, 0) ∧
    ¬ bucketMaskToCapacity 31 ≤ max 14 (4 * 1) := extend_breaks_churn_bound

/-- `runPeak` really is the peak: it dominates `len()` at the start of the run. -/
theorem peak_dominates (env : Env) (ops : List MapOp) (w : World) :
    w.t.items ≤ Map.runPeak cfg env ops w := Map.runPeak_ge_start env ops w

/-- Bucket count ≤ 4 × the bucket count of `with_capacity(n)` whenever the live size stayed ≤ n. -/
theorem churn_buckets_bound (hc : CfgOk cfg) (hg : GuardRuns cfg) (env : Env) (ops : List MapOp)
    (hops : ∀ op ∈ ops, ChurnOp op) (w0 : World) (h0 : w0.t = Raw.new cfg.W) (obs : List Map.Obs)
    (w : World) (hrun : Map.run cfg env ops w0 = some (obs, w)) (n b : Nat) (hn : n ≠ 0)
    (hpk : Map.runPeak cfg env ops w0 ≤ n)
    (hb : capacityToBuckets cfg.bits cfg.W cfg.size n = some b) : w.t.buckets ≤ 4 * b :=
  churn_bound_buckets_rel hc (probe_covers cfg hc.spec.width) hg env ops hops w0 h0 obs w hrun n b hn hpk hb

/-- Bytes held ≤ 4 × the allocation of `with_capacity(n)` (and ≤ the layout of 4·b buckets). -/
theorem churn_bytes_bound (hc : CfgOk cfg) (hg : GuardRuns cfg) (env : Env) (ops : List MapOp)
    (hops : ∀ op ∈ ops, ChurnOp op) (w0 : World) (h0 : w0.t = Raw.new cfg.W) (obs : List Map.Obs)
    (w : World) (hrun : Map.run cfg env ops w0 = some (obs, w)) (n b : Nat) (hn : n ≠ 0)
    (hpk : Map.runPeak cfg env ops w0 ≤ n)
    (hb : capacityToBuckets cfg.bits cfg.W cfg.size n = some b) :
    ∃ s, allocationSize cfg w.t = .ok s ∧
      (∀ l, calculateLayoutFor cfg.bits cfg.W cfg.size (ctrlAlignOf cfg) b = some l →
        s ≤ 4 * l.size) ∧
      (∀ L, calculateLayoutFor cfg.bits cfg.W cfg.size (ctrlAlignOf cfg) (4 * b) = some L →
        s ≤ L.size) :=
  churn_bound_bytes hc (probe_covers cfg hc.spec.width) hg env ops hops w0 h0 obs w hrun n b hn hpk hb

/-- Slots freed by removals are reclaimed in place instead of driving growth: when the table is out
    of room (`growth_left = 0`) but at most half full, `reserve(1)` keeps the bucket count, removes
    every tombstone, loses nothing and does not touch the allocator. -/
theorem tombstones_reclaimed_in_place (hc : CfgOk cfg) (env : Env) (w : World)
    (h : TInv cfg w.t) (hgl : w.t.gl = 0)
    (hhalf : w.t.items + 1 ≤ bucketMaskToCapacity w.t.mask / 2) :
    match reserve cfg env 1 w with
    | .ok w' =>
      TInv cfg w'.t ∧ w'.t.mask = w.t.mask ∧ w'.t.items = w.t.items ∧
      w'.t.countCtrl (· == DELETED) = 0 ∧
      w'.t.gl = bucketMaskToCapacity w.t.mask - w.t.items ∧
      List.Perm w'.t.elems w.t.elems ∧ w'.log = w.log
    | .panic c w' => c = "hash" ∧ w'.t.mask = w.t.mask
    | .abort => False
    | .fault _ => False :=
  tombstones_reclaimed hc (probe_covers cfg hc.spec.width) env w h hgl hhalf

/-- One insert grows the capacity at most to `max 14 (4·len)`. -/
theorem insert_growth_step (hc : CfgOk cfg) (env : Env) (e : Elem) (w : World) (h : TInv cfg w.t) :
    match Map.insert cfg env e w with
    | .ok (_, w') =>
      bucketMaskToCapacity w'.t.mask ≤ max (bucketMaskToCapacity w.t.mask) (max 14 (4 * w.t.items))
    | .panic _ w' =>
      bucketMaskToCapacity w'.t.mask ≤ max (bucketMaskToCapacity w.t.mask) (max 14 (4 * w.t.items))
    | .abort => True
    | .fault _ => True :=
  grow_step_bound_sharp hc (probe_covers cfg hc.spec.width) env e w h

/-- Every look-up terminates without a fault in every state satisfying the structural invariant —
    in particular for an absent key in a table saturated with tombstones — whatever `Eq` answers. -/
theorem lookup_terminates (hc : CfgOk cfg) (env : Env) (hash q : Nat) (w : World)
    (h : Inv cfg w.t) :
    (∃ r w', find cfg env hash q w = .ok (r, w') ∧ w'.t = w.t ∧ w'.log = w.log ∧ w'.hc = w.hc ∧
      ∀ idx, r = some idx → idx < w.t.buckets ∧ isFull (w.t.ctrlAt idx) = true ∧
        ∃ e, w.t.slots[idx]?.join = some e) ∨
    (∃ w', find cfg env hash q w = .panic "eq" w' ∧ w'.t = w.t ∧ w'.log = w.log) :=
  find_total hc (probe_covers cfg hc.spec.width) env hash q w h

#print axioms churn_capacity_bound
#print axioms churn_capacity_bound_all_insert_remove_paths
#print axioms churn_bytes_bound_all_insert_remove_paths
#print axioms extend_reserves_from_hint
#print axioms peak_dominates
#print axioms churn_buckets_bound
#print axioms churn_bytes_bound
#print axioms tombstones_reclaimed_in_place
#print axioms insert_growth_step
#print axioms lookup_terminates
end Hb.C13
