/-
C08 / C12 / C13 for `HashSet` and `HashTable` histories (thin restatements of
`Hb/Proofs/SetTableCapacity.lean`), every environment.

Histories: `Table.runH` / `Table.statesH` over `TableOp` from `HashTable::new()` and `Set.run2` /
`Set.states2` over `SetCall` from `(HashSet::new(), HashSet::new())`; a panic is caught and the
history goes on. `CfgOk cfg` = the group scanner meets its spec; `GuardRuns cfg` = the unwind guard of
`rehash_in_place` runs (drop glue, or the F1 repair).
-/
import Hb.Proofs.SetTableCapacity
namespace Hb.C13ST
open Hb

variable {cfg : Cfg}

/-! ### C13 — churn bound -/

/-- C13, `HashTable`: "For any interleaving of insertions and removals in which the number of live
    elements never exceeds n and no capacity is explicitly reserved, the table's allocation never
    exceeds a fixed multiple of the space needed for n elements: slots freed by removals are reused
    or reclaimed in place instead of driving growth." Capacity form: after any history of
    `TableChurnOp`s (all of `TableOp` except `reserve` / `shrink_to`) from `new()`,
    `capacity ≤ max 14 (4 * peak)`, `peak` = the largest `len()` over the states of the history. -/
theorem table_churn_capacity_bound (hc : CfgOk cfg) (hg : GuardRuns cfg) (env : Env)
    (ops : List TableOp) (hops : ∀ op ∈ ops, TableChurnOp op) (w0 : World)
    (h0 : w0.t = Raw.new cfg.W) (obs : List Table.TObs) (w : World)
    (hrun : Table.runH cfg env ops w0 = some (obs, w)) :
    TInv cfg w.t ∧
    bucketMaskToCapacity w.t.mask ≤ max 14 (4 * Table.runHPeak cfg env ops w0) :=
  table_churn_bound hc hg env ops hops w0 h0 obs w hrun

/-- C13, `HashTable`: the bound holds after every prefix of the history ("never exceeds"). -/
theorem table_churn_capacity_bound_always (hc : CfgOk cfg) (hg : GuardRuns cfg) (env : Env)
    (pre post : List TableOp) (hops : ∀ op ∈ pre ++ post, TableChurnOp op) (w0 : World)
    (h0 : w0.t = Raw.new cfg.W) (obs : List Table.TObs) (w : World)
    (hrun : Table.runH cfg env (pre ++ post) w0 = some (obs, w)) :
    ∃ obs1 wm, Table.runH cfg env pre w0 = some (obs1, wm) ∧ TInv cfg wm.t ∧
      bucketMaskToCapacity wm.t.mask ≤ max 14 (4 * Table.runHPeak cfg env (pre ++ post) w0) :=
  table_churn_bound_prefix hc hg env pre post hops w0 h0 obs w hrun

/-- `Table.runHPeak` really is the peak: it dominates `len()` in every state of the history. -/
theorem table_peak_dominates (env : Env) (ops : List TableOp) (w0 : World) :
    ∀ w ∈ Table.statesH cfg env ops w0, w.t.items ≤ Table.runHPeak cfg env ops w0 :=
  Table.runHPeak_ge_states env ops w0

/-- C13, `HashTable`, bucket-count form: `buckets ≤ max 16 (32 * peak / 7)`. -/
theorem table_churn_buckets_bound (hc : CfgOk cfg) (hg : GuardRuns cfg) (env : Env)
    (ops : List TableOp) (hops : ∀ op ∈ ops, TableChurnOp op) (w0 : World)
    (h0 : w0.t = Raw.new cfg.W) (obs : List Table.TObs) (w : World)
    (hrun : Table.runH cfg env ops w0 = some (obs, w)) :
    w.t.buckets ≤ max 16 (32 * Table.runHPeak cfg env ops w0 / 7) :=
  table_churn_bound_buckets hc hg env ops hops w0 h0 obs w hrun

/-- C13, `HashTable`, "a fixed multiple of the space needed for n elements" — the multiple is 4: if
    the live size never exceeds `n ≥ 1`, at most four times the buckets `with_capacity(n)` chooses. -/
theorem table_churn_buckets_rel (hc : CfgOk cfg) (hg : GuardRuns cfg) (env : Env)
    (ops : List TableOp) (hops : ∀ op ∈ ops, TableChurnOp op) (w0 : World)
    (h0 : w0.t = Raw.new cfg.W) (obs : List Table.TObs) (w : World)
    (hrun : Table.runH cfg env ops w0 = some (obs, w))
    (n b : Nat) (hn : n ≠ 0) (hpk : Table.runHPeak cfg env ops w0 ≤ n)
    (hb : capacityToBuckets cfg.bits cfg.W cfg.size n = some b) : w.t.buckets ≤ 4 * b :=
  table_churn_bound_buckets_rel hc hg env ops hops w0 h0 obs w hrun n b hn hpk hb

/-- C13, `HashTable`, bytes: `allocation_size()` ≤ 4 × the block `with_capacity(n)` allocates, and
    ≤ the block of `4 * b` buckets. -/
theorem table_churn_bytes_bound (hc : CfgOk cfg) (hg : GuardRuns cfg) (env : Env)
    (ops : List TableOp) (hops : ∀ op ∈ ops, TableChurnOp op) (w0 : World)
    (h0 : w0.t = Raw.new cfg.W) (obs : List Table.TObs) (w : World)
    (hrun : Table.runH cfg env ops w0 = some (obs, w))
    (n b : Nat) (hn : n ≠ 0) (hpk : Table.runHPeak cfg env ops w0 ≤ n)
    (hb : capacityToBuckets cfg.bits cfg.W cfg.size n = some b) :
    ∃ s, allocationSize cfg w.t = .ok s ∧
      (∀ l, calculateLayoutFor cfg.bits cfg.W cfg.size (ctrlAlignOf cfg) b = some l →
        s ≤ 4 * l.size) ∧
      (∀ L, calculateLayoutFor cfg.bits cfg.W cfg.size (ctrlAlignOf cfg) (4 * b) = some L →
        s ≤ L.size) :=
  table_churn_bound_bytes hc hg env ops hops w0 h0 obs w hrun n b hn hpk hb

/-- C13, one `HashTable` call: the capacity afterwards is at most the larger of the old capacity and
    `max 14 (4 * len)` (`len` before the call); never a fault; the table stays valid. -/
theorem table_growth_step (hc : CfgOk cfg) (hg : GuardRuns cfg) (env : Env) (op : TableOp)
    (hop : TableChurnOp op) (w : World) (h : TInv cfg w.t) :
    match Table.stepH cfg env op w with
    | .ok (_, w') =>
      TInv cfg w'.t ∧ bucketMaskToCapacity w'.t.mask ≤
        max (bucketMaskToCapacity w.t.mask) (max 14 (4 * w.t.items))
    | .panic _ w' =>
      TInv cfg w'.t ∧ bucketMaskToCapacity w'.t.mask ≤
        max (bucketMaskToCapacity w.t.mask) (max 14 (4 * w.t.items))
    | .abort => True
    | .fault _ => False :=
  table_grow_step_bound hc hg env op hop w h

/-- C13, `HashSet`: the same clause for histories of calls on a pair of sets without `reserve` /
    `shrink_to` (`SetChurnOp`; the assigning operators `|=` `&=` `^=` `-=` are included — none of them
    reserves from a size hint): for each side `capacity ≤ max 14 (4 * peak of that side)`.
    `Set.run2Peak` counts `len(self) + len(rhs)` for the state a `|=` / `^=` call is issued in (their
    insertions happen one by one inside the call). -/
theorem set_churn_capacity_bound (hc : CfgOk cfg) (hg : GuardRuns cfg) (env : Env)
    (cs : List SetCall) (hops : ∀ c ∈ cs, SetChurnOp c.op) (s0 : Set.Pair)
    (ha : s0.a = Raw.new cfg.W) (hb : s0.b = Raw.new cfg.W)
    (obs : List Map.Obs) (sf : Set.Pair) (hrun : Set.run2 cfg env cs s0 = some (obs, sf)) :
    ∀ side, TInv cfg (sf.tbl side) ∧
      bucketMaskToCapacity (sf.tbl side).mask ≤ max 14 (4 * Set.run2Peak cfg env side cs s0) :=
  set_churn_bound hc hg env cs hops s0 ha hb obs sf hrun

/-- `Set.run2Peak` dominates `len()` of the side in every pair of the history. -/
theorem set_peak_dominates (env : Env) (side : Side) (cs : List SetCall) (s0 : Set.Pair) :
    ∀ s ∈ Set.states2 cfg env cs s0, (s.tbl side).items ≤ Set.run2Peak cfg env side cs s0 :=
  Set.run2Peak_ge_states env side cs s0

/-- C13, `HashSet`, buckets and bytes: the fixed multiple is 4. -/
theorem set_churn_buckets_bytes_bound (hc : CfgOk cfg) (hg : GuardRuns cfg) (env : Env)
    (cs : List SetCall) (hops : ∀ c ∈ cs, SetChurnOp c.op) (s0 : Set.Pair)
    (ha : s0.a = Raw.new cfg.W) (hb : s0.b = Raw.new cfg.W)
    (obs : List Map.Obs) (sf : Set.Pair) (hrun : Set.run2 cfg env cs s0 = some (obs, sf))
    (side : Side) (n b : Nat) (hn : n ≠ 0) (hpk : Set.run2Peak cfg env side cs s0 ≤ n)
    (hbk : capacityToBuckets cfg.bits cfg.W cfg.size n = some b) :
    (sf.tbl side).buckets ≤ max 16 (32 * Set.run2Peak cfg env side cs s0 / 7) ∧
    (sf.tbl side).buckets ≤ 4 * b ∧
    ∃ sz, allocationSize cfg (sf.tbl side) = .ok sz ∧
      (∀ l, calculateLayoutFor cfg.bits cfg.W cfg.size (ctrlAlignOf cfg) b = some l →
        sz ≤ 4 * l.size) ∧
      (∀ L, calculateLayoutFor cfg.bits cfg.W cfg.size (ctrlAlignOf cfg) (4 * b) = some L →
        sz ≤ L.size) :=
  set_churn_bound_bytes hc hg env cs hops s0 ha hb obs sf hrun side n b hn hpk hbk

/-- C13, one call on a pair of sets: both tables stay valid; each side's capacity stays below the
    larger of its old capacity and `max 14 (4 * (len + extra))`. -/
theorem set_growth_step (hc : CfgOk cfg) (hg : GuardRuns cfg) (env : Env) (c : SetCall)
    (hop : SetChurnOp c.op) (s : Set.Pair) (ha : TInv cfg s.a) (hb : TInv cfg s.b) :
    match Set.step2 cfg env c s with
    | .ret _ s' => (TInv cfg s'.a ∧ TInv cfg s'.b) ∧ ∀ side,
        bucketMaskToCapacity (s'.tbl side).mask ≤ max (bucketMaskToCapacity (s.tbl side).mask)
          (max 14 (4 * ((s.tbl side).items + Set.callExtra c s side)))
    | .panic _ s' => (TInv cfg s'.a ∧ TInv cfg s'.b) ∧ ∀ side,
        bucketMaskToCapacity (s'.tbl side).mask ≤ max (bucketMaskToCapacity (s.tbl side).mask)
          (max 14 (4 * ((s.tbl side).items + Set.callExtra c s side)))
    | .abort => True
    | .fault _ => False := by
  have := sc_step2 hc hg env c hop s ⟨ha, hb⟩
  generalize Set.step2 cfg env c s = r at this ⊢
  match r, this with
  | .ret _ _, h => exact h
  | .panic _ _, h => exact h
  | .abort, _ => trivial
  | .fault _, h => exact h

/-! ### C13 — termination -/

/-- C13: "Every operation, including a lookup of an absent key in a table saturated with
    removed-slot markers, terminates." `HashTable::find` with any hash and any `eq`, any state
    satisfying the structural invariant: returns or unwinds with `eq`'s panic, table untouched. -/
theorem c13_table_find_terminates (hc : CfgOk cfg) (env : Env) (hash q : Nat) (w : World)
    (h : Inv cfg w.t) :
    (∃ r w', Table.findElem cfg env hash q w = .ok (r, w') ∧ w'.t = w.t ∧
      ∀ e, r = some e → ∃ idx, idx < w.t.buckets ∧ w.t.slots[idx]?.join = some e) ∨
    (∃ w', Table.findElem cfg env hash q w = .panic "eq" w' ∧ w'.t = w.t) :=
  table_find_terminates hc env hash q w h

/-- C13, termination: `HashSet::contains` / `get`, any state satisfying the API invariant. -/
theorem c13_set_lookup_terminates (hc : CfgOk cfg) (env : Env) (k : Nat) (w : World)
    (h : TInv cfg w.t) :
    ((∃ b w', Set.contains cfg env k w = .ok (b, w') ∧ w'.t = w.t) ∨
     (∃ c w', Set.contains cfg env k w = .panic c w' ∧ w'.t = w.t)) ∧
    ((∃ r w', Set.get cfg env k w = .ok (r, w') ∧ w'.t = w.t) ∨
     (∃ c w', Set.get cfg env k w = .panic c w' ∧ w'.t = w.t)) :=
  set_lookup_terminates hc env k w h

/-- C13, termination in histories: every call of every `HashTable` / `HashSet` history terminates
    without fault (the fuel-bounded loops of the model never run out: `runHFaults` / `run2Faults`
    are `false`), and the history runs to its end unless the allocator refuses a request. -/
theorem c13_histories_terminate (hc : CfgOk cfg) (hg : GuardRuns cfg) (env : Env) :
    (∀ (ops : List TableOp) (w0 : World), w0.t = Raw.new cfg.W →
      Table.runHFaults cfg env ops w0 = false ∧
      ((∀ j, env.allocOk j = true) → ∃ obs w, Table.runH cfg env ops w0 = some (obs, w))) ∧
    (∀ (cs : List SetCall) (s0 : Set.Pair), s0.a = Raw.new cfg.W → s0.b = Raw.new cfg.W →
      Set.run2Faults cfg env cs s0 = false ∧
      ((∀ j, env.allocOk j = true) → ∃ obs sf, Set.run2 cfg env cs s0 = some (obs, sf))) :=
  ⟨fun ops w0 h0 => ⟨(table_runH_safe hc hg env ops w0 h0).1, (table_runH_safe hc hg env ops w0 h0).2.2.2⟩,
   fun cs s0 ha hb => ⟨(set_run2_safe hc hg env cs s0 ha hb).1, (set_run2_safe hc hg env cs s0 ha hb).2.2.2⟩⟩

/-! ### C08 — capacity / allocation -/

/-- C08: "clear and drain keep the allocation" — `clear` (the same `RawTable::clear` behind HashMap,
    HashSet, HashTable), any valid state, also when a destructor panics. -/
theorem c08_clear_keeps_allocation (hc : CfgOk cfg) (env : Env) (w : World) (h : TInv cfg w.t) :
    match clear cfg env w with
    | .ok w' =>
      TInv cfg w'.t ∧ w'.t.alloc = w.t.alloc ∧ w'.t.mask = w.t.mask ∧ w'.t.items = 0 ∧
      w'.t.elems = [] ∧ allocationSize cfg w'.t = allocationSize cfg w.t ∧ w'.ac = w.ac ∧
      w'.log = dropEvs cfg w.t.elems.reverse ++ w.log
    | .panic c w' =>
      c = "drop" ∧ TInv cfg w'.t ∧ w'.t.alloc = w.t.alloc ∧ w'.t.mask = w.t.mask ∧
      w'.t.items = 0 ∧ w'.t.elems = [] ∧ allocationSize cfg w'.t = allocationSize cfg w.t ∧
      w'.ac = w.ac ∧ ∃ ds, w'.log = dropEvs cfg ds ++ w.log
    | .abort => False
    | .fault _ => False :=
  clear_keeps_allocation hc env w h

/-- C08: "clear and drain keep the allocation" — `drain`: same block when the `Drain` is dropped
    normally; the unallocated singleton (block leaked, not freed) when it is forgotten or a
    destructor panics in `Drain::drop`. -/
theorem c08_drain_keeps_allocation (hc : CfgOk cfg) (env : Env) (k : Nat) (forget : Bool)
    (w : World) (h : TInv cfg w.t) :
    match Map.drain cfg env k forget w with
    | .ok (out, w') =>
      out = w.t.elems.take k ∧
      (forget = false →
        TInv cfg w'.t ∧ w'.t.alloc = w.t.alloc ∧ w'.t.mask = w.t.mask ∧ w'.t.items = 0 ∧
        w'.t.elems = [] ∧ allocationSize cfg w'.t = allocationSize cfg w.t ∧ w'.ac = w.ac ∧
        w'.log = dropEvs cfg (w.t.elems.drop k).reverse ++ w.log) ∧
      (forget = true → w' = { w with t := Raw.new cfg.W })
    | .panic c w' =>
      c = "drop" ∧ forget = false ∧ w'.t = Raw.new cfg.W ∧ w'.ac = w.ac ∧
      ∃ ds, w'.log = dropEvs cfg ds ++ w.log
    | .abort => False
    | .fault _ => False :=
  drain_keeps_allocation hc env k forget w h

/-- C08: "new(), default() and with_capacity(0) allocate nothing". -/
theorem c08_with_capacity_zero_allocates_nothing (cfg : Cfg) (env : Env) (w : World) :
    withCapacity cfg env 0 w = .ok { w with t := Raw.new cfg.W } ∧
    (Raw.new cfg.W).alloc = false ∧ (Raw.new cfg.W).capacity = 0 ∧
    allocationSize cfg (Raw.new cfg.W) = .ok 0 :=
  with_capacity_zero_allocates_nothing cfg env w

/-- C08: "shrink_to(m) and shrink_to_fit never lose or change an element and never enlarge the
    allocation" — with the byte form of "never enlarge". -/
theorem c08_shrink_never_enlarges (hc : CfgOk cfg) (env : Env) (m : Nat) (w : World)
    (h : TInv cfg w.t) :
    match shrinkTo cfg env m w with
    | .ok w' =>
      TInv cfg w'.t ∧ List.Perm w'.t.elems w.t.elems ∧ w'.t.items = w.t.items ∧
      w'.t.buckets ≤ w.t.buckets ∧
      max w.t.items (min m w.t.capacity) ≤ w'.t.capacity ∧
      ∃ s s', allocationSize cfg w.t = .ok s ∧ allocationSize cfg w'.t = .ok s' ∧ s' ≤ s
    | .panic _ w' => w'.t = w.t
    | .abort => True
    | .fault _ => False :=
  shrink_never_enlarges hc env m w h

/-- C08 in every reachable state of a `HashTable` history: "capacity() is never less than len()",
    "allocation_size() equals the bytes currently held from the allocator", and the contracts of the
    next `reserve(n)` ("at least len()+n"), `shrink_to(m)`, `clear`, `drain` call, whatever the
    history did before (panics included). -/
theorem c08_table_in_history (hc : CfgOk cfg) (hg : GuardRuns cfg) (env : Env)
    (ops : List TableOp) (w0 : World) (h0 : w0.t = Raw.new cfg.W) :
    ∀ w ∈ Table.statesH cfg env ops w0,
      w.t.items ≤ w.t.capacity ∧
      allocationSize cfg w.t = .ok (if w.t.alloc then (layoutOf cfg w.t.buckets).size else 0) ∧
      (∀ n, match Table.stepH cfg env (.reserve n) w with
        | .ok (_, w') =>
          TInv cfg w'.t ∧ w'.t.items = w.t.items ∧ List.Perm w'.t.elems w.t.elems ∧
          w.t.items + n ≤ w'.t.capacity ∧ (w.t.items + n ≤ w.t.capacity → w' = w)
        | .panic c w' => (c = "capacity" ∧ w' = w) ∨ (c = "hash" ∧ w'.t.mask = w.t.mask)
        | .abort => True
        | .fault _ => False) ∧
      (∀ m, match Table.stepH cfg env (.shrinkTo m) w with
        | .ok (_, w') =>
          TInv cfg w'.t ∧ List.Perm w'.t.elems w.t.elems ∧ w'.t.items = w.t.items ∧
          w'.t.buckets ≤ w.t.buckets ∧
          max w.t.items (min m w.t.capacity) ≤ w'.t.capacity ∧
          ∃ s s', allocationSize cfg w.t = .ok s ∧ allocationSize cfg w'.t = .ok s' ∧ s' ≤ s
        | .panic _ w' => w'.t = w.t
        | .abort => True
        | .fault _ => False) ∧
      (match Table.stepH cfg env .clear w with
        | .ok (_, w') =>
          w'.t.alloc = w.t.alloc ∧ w'.t.mask = w.t.mask ∧ w'.t.items = 0 ∧
          allocationSize cfg w'.t = allocationSize cfg w.t ∧ w'.ac = w.ac
        | .panic _ w' =>
          w'.t.alloc = w.t.alloc ∧ w'.t.mask = w.t.mask ∧ w'.t.items = 0 ∧
          allocationSize cfg w'.t = allocationSize cfg w.t ∧ w'.ac = w.ac
        | .abort => False
        | .fault _ => False) ∧
      (∀ n fg, match Table.stepH cfg env (.drain n fg) w with
        | .ok (_, w') =>
          (fg = false → w'.t.alloc = w.t.alloc ∧ w'.t.mask = w.t.mask ∧ w'.t.items = 0 ∧
            allocationSize cfg w'.t = allocationSize cfg w.t ∧ w'.ac = w.ac) ∧
          (fg = true → w' = { w with t := Raw.new cfg.W })
        | .panic _ w' => fg = false ∧ w'.t = Raw.new cfg.W ∧ w'.ac = w.ac
        | .abort => False
        | .fault _ => False) := by
  intro w hw
  have hT := table_states_TInv hc hg env ops w0 h0 w hw
  exact ⟨(tc_state_facts hT).1, (tc_state_facts hT).2, fun n => table_reserve_step hc env n w hT,
    fun m => table_shrink_step hc env m w hT, table_clear_step hc env w hT,
    fun n fg => table_drain_step hc env n fg w hT⟩

/-- C08 in every reachable state of a `HashSet` pair history, either side (`(s.view side).1` is the
    world the call on `side` runs in, `.2` its right operand — `Set.step2` is `Set.call` on them). -/
theorem c08_set_in_history (hc : CfgOk cfg) (hg : GuardRuns cfg) (env : Env)
    (cs : List SetCall) (s0 : Set.Pair) (ha : s0.a = Raw.new cfg.W) (hb : s0.b = Raw.new cfg.W) :
    ∀ s ∈ Set.states2 cfg env cs s0, ∀ side : Side,
      (s.view side).1.t.items ≤ (s.view side).1.t.capacity ∧
      allocationSize cfg (s.view side).1.t =
        .ok (if (s.view side).1.t.alloc then (layoutOf cfg (s.view side).1.t.buckets).size else 0) ∧
      (∀ n, match Set.call cfg env (.reserve n) (s.view side).2 (s.view side).1 with
        | .ok (_, w') =>
          TInv cfg w'.t ∧ w'.t.items = (s.view side).1.t.items ∧
          List.Perm w'.t.elems (s.view side).1.t.elems ∧
          (s.view side).1.t.items + n ≤ w'.t.capacity ∧
          ((s.view side).1.t.items + n ≤ (s.view side).1.t.capacity → w' = (s.view side).1)
        | .panic c w' =>
          (c = "capacity" ∧ w' = (s.view side).1) ∨ (c = "hash" ∧ w'.t.mask = (s.view side).1.t.mask)
        | .abort => True
        | .fault _ => False) ∧
      (∀ m, match Set.call cfg env (.shrinkTo m) (s.view side).2 (s.view side).1 with
        | .ok (_, w') =>
          TInv cfg w'.t ∧ List.Perm w'.t.elems (s.view side).1.t.elems ∧
          w'.t.items = (s.view side).1.t.items ∧ w'.t.buckets ≤ (s.view side).1.t.buckets ∧
          max (s.view side).1.t.items (min m (s.view side).1.t.capacity) ≤ w'.t.capacity ∧
          ∃ sz sz', allocationSize cfg (s.view side).1.t = .ok sz ∧
            allocationSize cfg w'.t = .ok sz' ∧ sz' ≤ sz
        | .panic _ w' => w'.t = (s.view side).1.t
        | .abort => True
        | .fault _ => False) ∧
      (match Set.call cfg env .clear (s.view side).2 (s.view side).1 with
        | .ok (_, w') =>
          w'.t.alloc = (s.view side).1.t.alloc ∧ w'.t.mask = (s.view side).1.t.mask ∧
          w'.t.items = 0 ∧ allocationSize cfg w'.t = allocationSize cfg (s.view side).1.t ∧
          w'.ac = (s.view side).1.ac
        | .panic _ w' =>
          w'.t.alloc = (s.view side).1.t.alloc ∧ w'.t.mask = (s.view side).1.t.mask ∧
          w'.t.items = 0 ∧ allocationSize cfg w'.t = allocationSize cfg (s.view side).1.t ∧
          w'.ac = (s.view side).1.ac
        | .abort => False
        | .fault _ => False) := by
  intro s hs side
  have hT := (set_states_TInv hc hg env cs s0 ha hb s hs side).1
  exact ⟨(tc_state_facts hT).1, (tc_state_facts hT).2,
    fun n => set_reserve_call hc env n _ _ hT, fun m => set_shrink_call hc env m _ _ hT,
    set_clear_call hc env _ _ hT⟩

/-! ### C12 — `try_reserve` -/

/-- C12 in every reachable state of a `HashTable` history: "try_reserve either succeeds with
    capacity() >= len()+additional, or returns CapacityOverflow or AllocError ...; on an error the
    collection's contents, len() and allocation are exactly as before". (Remark: the table model has
    no `try_reserve` of its own — `HashTable::try_reserve` = `RawTable::try_reserve` =
    `Hb.tryReserve`, the function of `Hb/Props/C12.lean`, here with the table's re-hash closure.) -/
theorem c12_table_try_reserve_in_history (hc : CfgOk cfg) (hg : GuardRuns cfg) (env : Env)
    (ops : List TableOp) (w0 : World) (h0 : w0.t = Raw.new cfg.W) :
    ∀ w ∈ Table.statesH cfg env ops w0, ∀ additional,
      match tryReserve cfg (Table.envFor cfg env) additional w with
      | .ok (.ok (), w') =>
        TInv cfg w'.t ∧ w'.t.items = w.t.items ∧ List.Perm w'.t.elems w.t.elems ∧
        w.t.items + additional ≤ w'.t.capacity ∧ (additional ≤ w.t.gl → w' = w)
      | .ok (.error e, w') =>
        w'.t = w.t ∧ w'.log = w.log ∧
        (e = .capacityOverflow ∨ ∃ sz al, e = .allocError sz al ∧ env.allocOk w.ac = false)
      | .panic c w' => c = "hash" ∧ w'.t.mask = w.t.mask ∧ TInv cfg w'.t
      | .abort => False
      | .fault _ => False :=
  table_try_reserve_in_history hc hg env ops w0 h0

/-- C12 in every reachable state of a `HashSet` pair history, either side (`HashSet::try_reserve` =
    `self.map.try_reserve` = `RawTable::try_reserve` = `Hb.tryReserve`). -/
theorem c12_set_try_reserve_in_history (hc : CfgOk cfg) (hg : GuardRuns cfg) (env : Env)
    (cs : List SetCall) (s0 : Set.Pair) (ha : s0.a = Raw.new cfg.W) (hb : s0.b = Raw.new cfg.W) :
    ∀ s ∈ Set.states2 cfg env cs s0, ∀ (side : Side) (additional : Nat),
      match tryReserve cfg env additional (s.view side).1 with
      | .ok (.ok (), w') =>
        TInv cfg w'.t ∧ w'.t.items = (s.view side).1.t.items ∧
        List.Perm w'.t.elems (s.view side).1.t.elems ∧
        (s.view side).1.t.items + additional ≤ w'.t.capacity ∧
        (additional ≤ (s.view side).1.t.gl → w' = (s.view side).1)
      | .ok (.error e, w') =>
        w'.t = (s.view side).1.t ∧ w'.log = (s.view side).1.log ∧
        (e = .capacityOverflow ∨
          ∃ sz al, e = .allocError sz al ∧ env.allocOk (s.view side).1.ac = false)
      | .panic c w' => c = "hash" ∧ w'.t.mask = (s.view side).1.t.mask ∧ TInv cfg w'.t
      | .abort => False
      | .fault _ => False :=
  set_try_reserve_in_history hc hg env cs s0 ha hb

/-! ### non-vacuity -/

/-- A `HashTable` churn history, portable group width: 120 calls (`insert_unique i`,
    `find_entry(i - 3).remove()`), 60 elements pass through, at most 4 live: never more than 8 buckets. -/
example :
    tcOpsA.length = 120 ∧ (∀ op ∈ tcOpsA, TableChurnOp op) ∧
    Table.runHPeak { ops := Generic.ops } chEnv tcOpsA { t := Raw.new 8 } = 4 ∧
    tcSummary { ops := Generic.ops } chEnv tcOpsA { t := Raw.new 8 } = some (7, 3, 4, 0) :=
  table_churn_example_small

/-- In-place reclamation in a `HashTable` history: after 25 calls 16 buckets, 3 live, 11 tombstones,
    `growth_left = 0`; the 26th call rehashes in place (same mask, no tombstone). -/
example :
    tcSummary { ops := Generic.ops } chEnv (tcOpsB.take 25) { t := Raw.new 8 } =
      some (15, 3, 0, 11) ∧
    tcSummary { ops := Generic.ops } chEnv (tcOpsB.take 26) { t := Raw.new 8 } =
      some (15, 4, 10, 0) ∧
    tcSummary { ops := Generic.ops } chEnv tcOpsB { t := Raw.new 8 } = some (15, 3, 11, 0) :=
  ⟨table_churn_example_reclaim.2.2.2.1, table_churn_example_reclaim.2.2.2.2.1,
    table_churn_example_reclaim.2.2.2.2.2⟩

/-- The hypotheses of `table_churn_capacity_bound` are satisfiable (instantiated on `tcOpsB`). -/
example (hs : GroupSpec Generic.ops) :
    ∀ obs w, Table.runH { ops := Generic.ops } chEnv tcOpsB { t := Raw.new 8 } = some (obs, w) →
      bucketMaskToCapacity w.t.mask ≤ 36 ∧ w.t.buckets ≤ 41 :=
  table_churn_example_bound hs

/-- A `HashSet` churn history: 120 calls, 60 elements pass through set `a`, at most 4 live: never
    more than 8 buckets. -/
example :
    scOpsC.length = 120 ∧ (∀ c ∈ scOpsC, SetChurnOp c.op) ∧
    Set.run2Peak { ops := Generic.ops } chEnv .a scOpsC (Set.Pair.new { ops := Generic.ops }) = 4 ∧
    scSummary { ops := Generic.ops } chEnv scOpsC (Set.Pair.new { ops := Generic.ops }) =
      some ((7, 3, 4, 0), (0, 0, 0, 0)) :=
  set_churn_example_small

/-- `a |= &b` / `a ^= &b` in a churn history on a pair (80 calls): `a` stays at 8 buckets, `b` at 4. -/
example :
    (∀ c ∈ scOpsA, SetChurnOp c.op) ∧
    Set.run2Peak { ops := Generic.ops } scEnv .a scOpsA (Set.Pair.new { ops := Generic.ops }) = 4 ∧
    Set.run2Peak { ops := Generic.ops } scEnv .b scOpsA (Set.Pair.new { ops := Generic.ops }) = 2 ∧
    scSummary { ops := Generic.ops } scEnv scOpsA (Set.Pair.new { ops := Generic.ops }) =
      some ((7, 2, 5, 0), (3, 0, 3, 0)) :=
  ⟨set_churn_example_operators.2.1, set_churn_example_operators_peak.1,
    set_churn_example_operators_peak.2, set_churn_example_operators.2.2⟩

/-- In-place reclamation in a `HashSet` history (`get_or_insert` at call 26). -/
example :
    scSummary { ops := Generic.ops } chEnv (scOpsB.take 25) (Set.Pair.new { ops := Generic.ops }) =
      some ((15, 3, 0, 11), (0, 0, 0, 0)) ∧
    scSummary { ops := Generic.ops } chEnv (scOpsB.take 26) (Set.Pair.new { ops := Generic.ops }) =
      some ((15, 4, 10, 0), (0, 0, 0, 0)) :=
  ⟨set_churn_example_reclaim.2.2.2.1, set_churn_example_reclaim.2.2.2.2.1⟩

/-- `with_capacity(0)` evaluated. -/
example : (withCapacity { ops := Generic.ops } chEnv 0 { t := Raw.new 8 }) =
    .ok { t := Raw.new 8 } := rfl

#print axioms table_churn_capacity_bound
#print axioms table_churn_capacity_bound_always
#print axioms table_peak_dominates
#print axioms table_churn_buckets_bound
#print axioms table_churn_buckets_rel
#print axioms table_churn_bytes_bound
#print axioms table_growth_step
#print axioms set_churn_capacity_bound
#print axioms set_peak_dominates
#print axioms set_churn_buckets_bytes_bound
#print axioms set_growth_step
#print axioms c13_table_find_terminates
#print axioms c13_set_lookup_terminates
#print axioms c13_histories_terminate
#print axioms c08_clear_keeps_allocation
#print axioms c08_drain_keeps_allocation
#print axioms c08_with_capacity_zero_allocates_nothing
#print axioms c08_shrink_never_enlarges
#print axioms c08_table_in_history
#print axioms c08_set_in_history
#print axioms c12_table_try_reserve_in_history
#print axioms c12_set_try_reserve_in_history
end Hb.C13ST
