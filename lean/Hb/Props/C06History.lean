/-
C06 (second file) — the HISTORY statement for `HashTable<T>`.

`Hb/Props/C06.lean` proves each `HashTable` call from ANY state satisfying the table invariant
`TblInv cfg H t`. This file states the property over whole histories against a reference MULTISET:

* `TableOp` (`Hb/Model/TableOpsH.lean`): `find`, `find_mut`, `insert_unique`, `find_entry` +
  `OccupiedEntry::remove` (+ re-insertion through the returned `VacantEntry`), `entry(..).insert` /
  `.or_insert` / `.and_modify`, `retain`, `extract_if`, `drain`, `clear`, `reserve`, `shrink_to(_fit)`,
  `get_many_mut`, and the observations `iter_hash`, `iter`, `len`. `Table.stepH` dispatches to the model
  functions the driver executes (`Hb/Driver/TableOps.lean`, same `Table.envFor cfg env`), `Table.runH`
  folds a history; a panic is caught and the history goes on (`Map.runX` convention), `runH = none`
  means `fault` or `abort`.
* Reference (`Hb/Proofs/TableHistory.lean`): the state is a `List Elem` read up to `List.Perm`.
  `TRef.Core cfg H ev l op o l'` lists, per call and per outcome (return value or caught panic class),
  what may be observed and what is stored afterwards; `TRef.Step` closes it under permutation of the
  states; `TRef.Trace` chains steps. Closures are ARBITRARY oracles (`ev.eq call probe element`,
  `ev.pred call element`), so look-ups are under-determined: they return SOME stored element the
  closure accepted (`TRef.Acc`), or `None` only if no stored element inserted with that hash is accepted
  at every call (`TRef.NoneOk`); with the lawful closure `|x| x.key == q` the step is fully determined
  (`TRef.Step.find_lawful`: `Some` element with key `q` iff one is stored, never a panic). Bulk calls
  visit the elements in some order, calling the predicate with consecutive call numbers
  (`retainKept` / `retainDropped` of `Hb/Proofs/ApiBulk.lean`), also on the unwinding exits.

Hypotheses of every theorem below: `CfgOk cfg` (both scanners, `usize ≥ 16` bits); the contract of the
type `hh : ∀ c k, env.hash c k = some (H k)` (the re-hash closure returns the hash the element was
inserted with); `hsz` (elements of non-zero size, or the F2 repair of `get_many_mut`); `contract`:
`insert_unique` / `VacantEntry::insert` / `entry(..)` insert the new element under its own hash, and for
`entry(..).insert` the closure accepts only elements with the entry's hash (the side conditions of
`C06.every_sequence_keeps_invariant`). NOTHING is assumed about equality closures, predicates,
destructors (all may be stateful and panic) or the allocator: a refusing allocator is the only way a
history ends early (`handle_alloc_error`, `runH = none` with `runHFaults = false`).
-/
import Hb.Proofs.TableHistory
namespace Hb.C06H
open Hb

variable {cfg : Cfg}

/-- **Every history of `HashTable` calls from `HashTable::new()`**: never undefined behaviour; with a
    never-refusing allocator it runs to its end; after EVERY prefix that ran to its end the
    observations (returns and caught panics) are a trace of the reference multiset from `[]`, the
    table satisfies `TblInv`, stores exactly the reference's elements (duplicates counted) and
    `len()` is their number. -/
theorem table_history_refines (hc : CfgOk cfg) (env : Env) (H : Nat → Nat)
    (hh : ∀ c k, env.hash c k = some (H k)) (hsz : cfg.size ≠ 0 ∨ cfg.zstDupFixed = true)
    (ops : List TableOp) (hct : ∀ op ∈ ops, op.contract H env) (w0 : World)
    (h0 : w0.t = Raw.new cfg.W) :
    Table.runHFaults cfg env ops w0 = false ∧
    ((∀ j, env.allocOk j = true) → ∃ os wf, Table.runH cfg env ops w0 = some (os, wf)) ∧
    ∀ pre post, ops = pre ++ post → ∀ os w, Table.runH cfg env pre w0 = some (os, w) →
      ∃ ref, TRef.Trace cfg H (Table.envFor cfg env) pre [] os ref ∧ TblInv cfg H w.t ∧
        List.Perm w.t.elems ref ∧ w.t.items = ref.length :=
  Hb.table_history_refines hc env H hh hsz ops hct w0 h0

/-- **Every element inserted with hash `h` and not since removed is returned by a look-up with hash
    `h` and a matching closure**: after any history, for every element `e` of the reference
    multiset, `find(H e.k, eq)` with a closure accepting `e` (never panicking) returns a stored
    element the closure accepted; with the lawful closure and `q = e.k` it returns an element with
    key `e.k`. -/
theorem inserted_and_not_removed_is_found (hc : CfgOk cfg) (env : Env) (H : Nat → Nat)
    (hh : ∀ c k, env.hash c k = some (H k)) (hsz : cfg.size ≠ 0 ∨ cfg.zstDupFixed = true)
    (ops : List TableOp) (hct : ∀ op ∈ ops, op.contract H env) (w0 : World)
    (h0 : w0.t = Raw.new cfg.W) (os : List Table.TObs) (wf : World)
    (hrun : Table.runH cfg env ops w0 = some (os, wf)) :
    ∃ ref, TRef.Trace cfg H (Table.envFor cfg env) ops [] os ref ∧ List.Perm wf.t.elems ref ∧
      ∀ e ∈ ref,
        (∀ q, (∀ c, env.eq c q e = some true) → (∀ c x, env.eq c q x ≠ none) →
          ∃ e' w', Table.stepH cfg env (.find (H e.k) q) wf = .ok (.elem (some e'), w') ∧
            e' ∈ ref ∧ (∃ c, env.eq c q e' = some true) ∧ w'.t = wf.t) ∧
        (Lawful env H →
          ∃ e' w', Table.stepH cfg env (.find (H e.k) e.k) wf = .ok (.elem (some e'), w') ∧
            e' ∈ ref ∧ e'.k = e.k ∧ w'.t = wf.t) :=
  Hb.inserted_and_not_removed_is_found hc env H hh hsz ops hct w0 h0 os wf hrun

/-- **Nothing that was removed is ever returned**: after any history, whatever `find(hash, eq)`
    returns — any hash, any closure — is in the reference multiset at that time (and the closure
    accepted it). -/
theorem removed_is_never_returned (hc : CfgOk cfg) (env : Env) (H : Nat → Nat)
    (hh : ∀ c k, env.hash c k = some (H k)) (hsz : cfg.size ≠ 0 ∨ cfg.zstDupFixed = true)
    (ops : List TableOp) (hct : ∀ op ∈ ops, op.contract H env) (w0 : World)
    (h0 : w0.t = Raw.new cfg.W) (os : List Table.TObs) (wf : World)
    (hrun : Table.runH cfg env ops w0 = some (os, wf)) :
    ∃ ref, TRef.Trace cfg H (Table.envFor cfg env) ops [] os ref ∧ List.Perm wf.t.elems ref ∧
      ∀ hash q x w', Table.stepH cfg env (.find hash q) wf = .ok (.elem (some x), w') →
        x ∈ ref ∧ (∃ c, env.eq c q x = some true) ∧ w'.t = wf.t :=
  Hb.removed_is_never_returned hc env H hh hsz ops hct w0 h0 os wf hrun

/-- **`len()` equals the number of stored elements with duplicates counted**, after any history. -/
theorem len_counts_duplicates_history (hc : CfgOk cfg) (env : Env) (H : Nat → Nat)
    (hh : ∀ c k, env.hash c k = some (H k)) (hsz : cfg.size ≠ 0 ∨ cfg.zstDupFixed = true)
    (ops : List TableOp) (hct : ∀ op ∈ ops, op.contract H env) (w0 : World)
    (h0 : w0.t = Raw.new cfg.W) (os : List Table.TObs) (wf : World)
    (hrun : Table.runH cfg env ops w0 = some (os, wf)) :
    ∃ ref, TRef.Trace cfg H (Table.envFor cfg env) ops [] os ref ∧ List.Perm wf.t.elems ref ∧
      Table.stepH cfg env .len wf = .ok (.nat ref.length, wf) :=
  Hb.len_counts_duplicates_history hc env H hh hsz ops hct w0 h0 os wf hrun

/-- **`iter_hash(h)` yields every stored element that was inserted with hash `h` and yields no
    element twice**, after any history: pairwise distinct buckets, the yielded elements are a
    sub-multiset of the stored ones and contain every stored element whose key hashes to `h`, as
    often as it is stored. -/
theorem iter_hash_history (hc : CfgOk cfg) (env : Env) (H : Nat → Nat)
    (hh : ∀ c k, env.hash c k = some (H k)) (hsz : cfg.size ≠ 0 ∨ cfg.zstDupFixed = true)
    (ops : List TableOp) (hct : ∀ op ∈ ops, op.contract H env) (w0 : World)
    (h0 : w0.t = Raw.new cfg.W) (os : List Table.TObs) (wf : World)
    (hrun : Table.runH cfg env ops w0 = some (os, wf)) (hash : Nat) :
    ∃ ref idxs es, TRef.Trace cfg H (Table.envFor cfg env) ops [] os ref ∧
      List.Perm wf.t.elems ref ∧
      Table.stepH cfg env (.iterHash hash) wf = .ok (.hits idxs es, wf) ∧
      idxs.Nodup ∧ es.length = idxs.length ∧ List.Subperm es ref ∧
      List.Subperm (ref.filter fun x => H x.k == hash) es :=
  Hb.iter_hash_history hc env H hh hsz ops hct w0 h0 os wf hrun hash

#print axioms table_history_refines
#print axioms inserted_and_not_removed_is_found
#print axioms removed_is_never_returned
#print axioms len_counts_duplicates_history
#print axioms iter_hash_history
end Hb.C06H
