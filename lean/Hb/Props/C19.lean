/-
C19 — Parallel iteration visits each element exactly once under any split/schedule.

With the `rayon` feature every parallel iterator of hashbrown (`par_iter`, `par_iter_mut`,
`par_keys`, `par_values(_mut)`, `into_par_iter`, `par_drain` over maps, sets and tables) is a thin
adaptor over two producers in `external_trait_impls/rayon/raw.rs`: `ParIterProducer` and
`ParDrainProducer`, both wrapping a `RawIterRange` and splitting it with `RawIterRange::split`.
rayon decides *where* to split and *where* to stop splitting (a binary decision tree over the bucket
range) and on which threads the leaves run. The theorems quantify over

* every decision tree (`Par.Tree` / `Par.DTree`: every choice of split-or-consume at every node),
* every table satisfying the structural invariant `Inv` (every size — smaller than, equal to, larger
  than a group — and every occupancy pattern, tombstones included), both scanners (`CfgOk`),
* for `par_drain`, every per-leaf number of elements accepted before the consumer is full,

and state that the leaves partition the stored elements. What is NOT modelled (trusted): rayon's
scheduler and work stealing (that it drives the producer along *some* tree, runs every leaf exactly
once, and publishes memory between threads correctly), and that its reducers combine per-leaf
results in leaf order (used only for `any_split_tree_in_order`'s reading as `par_extend` order).

The CONSUMER side (`Hb/Model/ParCollect.lean`, `Hb/Proofs/ParCollectSpec.lean`): `helpers::collect`
(one `Vec` per leaf, `reduce` appends the right list after the left one), `par_extend` /
`from_par_iter` (reserve rule + one `extend` per collected chunk), and the parallel set predicates /
operations and `HashMap::par_eq` (`all` / `filter` / `chain` over the producer's leaves with
`contains`) — for every split tree, every early-exit pattern a short-circuiting `all` may show
(`StopsOk`), every lawful hasher: they equal their sequential counterparts (`par_*` theorems below).
-/
import Hb.Proofs.ParSpec
import Hb.Proofs.ParCollectSpec
namespace Hb.C19
open Hb Hb.Par

variable {cfg : Cfg} {t : Raw}

/-- `par_iter` & co.: whatever the split tree, the leaves taken together deliver every full bucket
    (= every stored element, `C09.full_iff_live`) exactly once: their concatenation is the
    duplicate-free list of full buckets. -/
theorem every_element_once (hc : CfgOk cfg) (h : Inv cfg t) (tr : Tree) :
    ∃ ls, splitLeaves cfg t tr = .ok ls ∧ ls.flatten = t.fullList ∧ ls.flatten.Nodup ∧
      ls.flatten.length = t.items ∧
      ∀ i, i ∈ ls.flatten ↔ i < t.buckets ∧ isFull (t.ctrlAt i) = true := by
  obtain ⟨ls, h1, h2⟩ := splitTree_exact hc h tr
  refine ⟨ls, h1, h2, ?_, ?_, ?_⟩
  · rw [h2]; exact (fullList_sorted t).imp (fun h => Nat.ne_of_lt h)
  · rw [h2]; exact fullList_length hc h
  · intro i; rw [h2]; exact mem_fullList t i

/-- The delivered multiset does not depend on the tree: any two trees deliver the same elements
    (even in the same left-to-right order), each once. -/
theorem any_split_tree (hc : CfgOk cfg) (h : Inv cfg t) (tr1 tr2 : Tree) :
    ∃ l1 l2, splitLeaves cfg t tr1 = .ok l1 ∧ splitLeaves cfg t tr2 = .ok l2 ∧
      l1.flatten = l2.flatten ∧ l1.flatten.Nodup :=
  splitTree_perm hc h tr1 tr2

/-- One split step (`RawIterRange::split`): declined, or two good halves whose yields concatenate
    to the original yield. -/
theorem split_is_partition (hc : CfgOk cfg) (h : Inv cfg t) (r : RawIterRange) (hr : Good cfg t r) :
    ∃ l o, RawIterRange.split cfg t r = .ok (l, o) ∧ Good cfg t l ∧
      match o with
      | none => yld t l = yld t r
      | some rr => Good cfg t rr ∧ yld t l ++ yld t rr = yld t r :=
  split_partition (iterGeo_of_inv hc h) r hr

/-- The leaves in left-to-right order reproduce the sequential iteration order (what an ordered
    reduction such as `helpers::collect` hands to `par_extend`). -/
theorem any_split_tree_in_order (hc : CfgOk cfg) (h : Inv cfg t) (tr : Tree) :
    ∃ ls it, splitLeaves cfg t tr = .ok ls ∧ RawIter.new cfg t = .ok it ∧
      RawIter.drainAll cfg t (t.buckets + 2) it [] = .ok ls.flatten ∧
      ls.flatten.Pairwise (· < ·) :=
  par_extend_order hc h tr

/-- `par_drain` with a short-circuiting consumer, any tree, any per-leaf stop counts: every stored
    element is either handed to a consumer or dropped by `ParDrainProducer::drop` — exactly once, never
    both (the ledger `consumed ++ dropped` over all leaves is the duplicate-free list of full
    buckets), and moving them out never reads a dead slot (`drainLeaves` does not fault). -/
theorem drain_drops_rest_once (hc : CfgOk cfg) (h : Inv cfg t) (hd : cfg.needsDrop = true)
    (dt : DTree) :
    ∃ outs es final, drainLeaves cfg t dt = .ok (outs, es, final) ∧
      (outs.map fun o => o.consumed ++ o.dropped).flatten = t.fullList ∧
      ((outs.map fun o => o.consumed ++ o.dropped).flatten).Nodup ∧
      es = t.fullList.filterMap (fun i => t.slots[i]?.join) := by
  obtain ⟨outs, h1, h2, _⟩ := parDrain_ledger hc h hd dt
  exact ⟨outs, _, _, h1, h2, by rw [h2]; exact (fullList_sorted t).imp (fun h => Nat.ne_of_lt h), rfl⟩

/-- The elements can be moved out in any order (any interleaving of the leaves): no slot is read
    twice, and afterwards no slot holds a live element. -/
theorem drain_any_schedule (hc : CfgOk cfg) (h : Inv cfg t) (l : List Nat) (hp : l.Perm t.fullList) :
    ∃ t', takeSlots l t = .ok (l.filterMap fun i => t.slots[i]?.join, t') ∧
      ∀ j : Nat, t'.slots[j]?.join = none :=
  takeSlots_any_order hc h l hp

/-- After `par_drain` the collection is empty and usable: the table left by the `clear_no_drop`
    guard has no items, the same allocation (`mask`, `alloc`), full capacity, and satisfies `Inv`
    (the precondition of every operation's correctness theorem). -/
theorem drain_leaves_empty_usable (hc : CfgOk cfg) (h : Inv cfg t) (hd : cfg.needsDrop = true)
    (dt : DTree) :
    ∃ outs es final, drainLeaves cfg t dt = .ok (outs, es, final) ∧ Inv cfg final ∧
      final.items = 0 ∧ final.mask = t.mask ∧ final.alloc = t.alloc ∧
      final.gl = bucketMaskToCapacity t.mask ∧ final.fullList = [] := by
  obtain ⟨outs, h1, _, h3, h4, h5, h6, h7⟩ := parDrain_ledger hc h hd dt
  refine ⟨outs, _, _, h1, h3, h4, h5, h6, h7, ?_⟩
  have := fullList_length hc h3
  rw [h4] at this
  exact List.eq_nil_of_length_eq_zero this

/-- Element types without drop glue (`needs_drop::<T>() = false`): nothing is dropped; what the
    consumers received is a sub-list of the stored elements. -/
theorem drain_consumed_sublist (hc : CfgOk cfg) (h : Inv cfg t) (dt : DTree) :
    ∃ it outs, RawIter.new cfg t = .ok it ∧ drainTree cfg t it.range dt = .ok outs ∧
      ((outs.map fun o => o.consumed).flatten).Sublist t.fullList := by
  obtain ⟨it, h1, _⟩ := rawIter_new_ok hc h
  obtain ⟨outs, h2, h3⟩ := parDrain_consumed hc h dt
  rw [h1] at h2
  exact ⟨it, outs, h1, h2, h3⟩

/-! Non-vacuity: the concrete tables of `ParSpec.lean` satisfy the hypotheses, and the functions
    evaluate to the expected leaves. -/
example : invB sse table64 = true := by decide +kernel
example : splitLeaves sse table64 tree3 = .ok [[0, 15], [16, 30], [48, 63]] := by rfl
example : splitLeaves sse table32 tree3 = .ok [[1, 4], [17, 20, 31]] := by rfl

/-! ### consumer side: collect / par_extend / from_par_iter / parallel set algebra -/

section collect
open Hb.ParCollect
variable {env : Env} {H : Nat → Nat}

/-- `helpers::collect`: for EVERY split tree over the input, the collected chunks concatenate to the
    input — same order, nothing lost, nothing duplicated — and the reported length is the input's. -/
theorem collect_preserves_order {α : Type} (tr : CTree) (xs : List α) :
    (collectTree tr xs).flatten = xs ∧ (collect tr xs).2 = xs.length :=
  ⟨collectTree_flatten tr xs, collect_len tr xs⟩

/-- `par_extend` = sequential `extend` of the whole sequence, for every split tree: same final map (up
    to permutation of buckets), same drops, same `len`; in particular the LAST value wins for a key that
    occurs in two different leaves. (The capacity may differ — each chunk reserves on its own — but
    `len ≤ capacity`; `capacity_differs_from_sequential` in ParCollectSpec is the evaluated witness.) -/
theorem par_extend_is_sequential_extend (hc : CfgOk cfg) (hl : Lawful env H)
    (halloc : ∀ j, env.allocOk j = true) (hnd : ∀ c e, env.dropPanics c e = false)
    (tr : CTree) (items : List Elem) (w : World) (h : RI cfg H w.t) :
    (∃ w', parExtend cfg env tr items w = .ok w' ∧ RI cfg H w'.t ∧
      List.Perm w'.t.elems (AL.insertAll w.t.elems items) ∧
      dropsOf w'.log = AL.insertDrops cfg w.t.elems items ++ dropsOf w.log ∧
      w'.t.items = (AL.insertAll w.t.elems items).length ∧ w'.t.items ≤ w'.t.capacity) ∨
    (∃ w', parExtend cfg env tr items w = .panic "capacity" w' ∧ RI cfg H w'.t) :=
  parExtend_spec hc hl halloc hnd tr items w h

theorem par_extend_last_wins (hc : CfgOk cfg) (hl : Lawful env H)
    (halloc : ∀ j, env.allocOk j = true) (hnd : ∀ c e, env.dropPanics c e = false)
    (tr : CTree) (pre post : List Elem) (e : Elem) (w w' : World) (h : RI cfg H w.t)
    (hlast : ∀ x ∈ post, x.k ≠ e.k)
    (hr : parExtend cfg env tr (pre ++ e :: post) w = .ok w') :
    ∃ s, AL.find w'.t.elems e.k = some s ∧ s.vid = e.vid ∧ s.v = e.v :=
  parExtend_last_wins hc hl halloc hnd tr pre post e w w' h hlast hr

/-- `from_par_iter` builds the map sequential `from_iter` builds, for every split tree. -/
theorem from_par_iter_is_from_iter (hc : CfgOk cfg) (hl : Lawful env H)
    (halloc : ∀ j, env.allocOk j = true) (hnd : ∀ c e, env.dropPanics c e = false)
    (tr : CTree) (items : List Elem) (w : World) (h : RI cfg H w.t) :
    (∃ w', fromParIter cfg env tr items w = .ok w' ∧ RI cfg H w'.t ∧
      List.Perm w'.t.elems (AL.insertAll [] items) ∧
      dropsOf w'.log =
        AL.insertDrops cfg [] items ++ dropEvs cfg w.t.elems.reverse ++ dropsOf w.log) ∨
    (∃ w', fromParIter cfg env tr items w = .panic "capacity" w' ∧ w'.t = Raw.new cfg.W) :=
  fromParIter_spec hc hl halloc hnd tr items w h

/-- The order of the reduce matters (the theorem above is not vacuous): appending the LEFT list after
    the right one makes the first value win on a concrete two-leaf input. -/
theorem reversed_reduce_breaks_last_wins :
    exKV (parExtendList enCfg glEnv (collectTree' (.node 1 .leaf .leaf) dupItems)
      { t := Raw.new 16 }) = some [(1, 12, 21, 100)] ∧
    exKV (parExtend enCfg glEnv (.node 1 .leaf .leaf) dupItems { t := Raw.new 16 }) =
      some [(1, 11, 22, 200)] ∧
    exKV (Map.extend enCfg glEnv dupItems { t := Raw.new 16 }) = some [(1, 11, 22, 200)] :=
  ⟨reversed_reduce_violates_last_wins.2.1, reversed_reduce_violates_last_wins.2.2.1,
   reversed_reduce_violates_last_wins.2.2.2.1⟩

/-- `par_is_subset` / `par_is_disjoint` / `par_eq` (sets) = their sequential counterparts = the
    mathematical answer, for every producer tree and every legal early-exit pattern. -/
theorem par_set_predicates (hc : CfgOk cfg) (hl : Lawful env H) {b : Raw} (w : World)
    (ha : InvL cfg H w.t) (hb : InvL cfg H b) (tr : Par.Tree) (stops : List Nat) :
    ((∀ ls, parLeaves cfg w.t tr = .ok ls →
        StopsOk (fun e : Elem => decide (e.k ∈ keys b) == true) ls stops) →
      (∃ r w' w'', parIsSubset cfg env b tr stops w = .ok (r, w') ∧
        Set.isSubset cfg env b w = .ok (r, w'') ∧ w'.t = w.t ∧ w'.log = w.log ∧
        (r = true ↔ ∀ k ∈ keys w.t, k ∈ keys b)) ∧
      (∃ r w' w'', parSetEq cfg env b tr stops w = .ok (r, w') ∧
        Set.setEq cfg env b w = .ok (r, w'') ∧ w'.t = w.t ∧ w'.log = w.log ∧
        (r = true ↔ ∀ k, k ∈ keys w.t ↔ k ∈ keys b))) ∧
    ((∀ ls, parLeaves cfg w.t tr = .ok ls →
        StopsOk (fun e : Elem => decide (e.k ∈ keys b) == false) ls stops) →
      ∃ r w' w'', parIsDisjoint cfg env b tr stops w = .ok (r, w') ∧
        Set.isDisjoint cfg env b w = .ok (r, w'') ∧ w'.t = w.t ∧ w'.log = w.log ∧
        (r = true ↔ ∀ k ∈ keys w.t, k ∉ keys b)) :=
  ⟨fun hs => ⟨parIsSubset_spec hc hl w ha hb tr stops hs, parSetEq_spec hc hl w ha hb tr stops hs⟩,
   fun hs => parIsDisjoint_spec hc hl w ha hb tr stops hs⟩

/-- `par_difference` yields exactly what sequential `difference` yields (same list, same order), for
    every producer tree; `par_intersection` yields the same keys as `intersection`. -/
theorem par_set_operations (hc : CfgOk cfg) (hl : Lawful env H) {b : Raw} (w : World)
    (ha : InvL cfg H w.t) (hb : InvL cfg H b) (tr : Par.Tree) :
    (∃ yss w' w'', parDifference cfg env b tr w = .ok (yss, w') ∧
      Set.difference cfg env b w = .ok (yss.flatten, w'') ∧ yss.flatten = ss_diff w.t b ∧
      w'.t = w.t ∧ w'.log = w.log) ∧
    (∃ yss w' ys w'', parIntersection cfg env b tr w = .ok (yss, w') ∧
      Set.intersection cfg env b w = .ok (ys, w'') ∧
      (yss.flatten.map (·.k)).Perm (ys.map (·.k)) ∧
      yss.flatten = w.t.elems.filter (fun e => decide (e.k ∈ keys b)) ∧
      (yss.flatten.map (·.k)).Nodup ∧ w'.t = w.t ∧ w'.log = w.log) :=
  ⟨parDifference_spec hc hl w ha hb tr, parIntersection_spec hc hl w ha hb tr⟩

end collect

#print axioms collect_preserves_order
#print axioms par_extend_is_sequential_extend
#print axioms par_extend_last_wins
#print axioms from_par_iter_is_from_iter
#print axioms reversed_reduce_breaks_last_wins
#print axioms par_set_predicates
#print axioms par_set_operations
#print axioms every_element_once
#print axioms any_split_tree
#print axioms split_is_partition
#print axioms any_split_tree_in_order
#print axioms drain_drops_rest_once
#print axioms drain_any_schedule
#print axioms drain_leaves_empty_usable
#print axioms drain_consumed_sublist
end Hb.C19
