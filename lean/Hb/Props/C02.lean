/-
C02 — The safe API is memory-safe for every program, element layout and hasher.

What is proved here is the INDEX / OWNERSHIP LOGIC of the raw-pointer core, on the executable model
(`Hb/Model/*.lean`, tied to the Rust code by the correspondence runs): every raw access of the real
code is a *checked* access in the model (`ctrlRd`/`ctrlWr`/`loadGroup`/`slotGet`/`slotPut`/
`slotTake`, see `Hb/Model/Raw.lean`) and each of the following ends in `Res.fault`:
  * a control-byte read/write or group load outside `[0, buckets + W)`, a write to the static
    singleton, a slot index outside `[0, buckets)`;
  * a read / move-out of a slot that does not hold a live element (uninitialised or already moved);
  * a write over a slot that still holds a live element (lost destructor / double ownership);
  * `unwrap_unchecked(None)`, `unreachable_unchecked`, `usize` underflow of `items`/`growth_left`;
  * a loop that would run past its data (every loop has explicit fuel).
The theorems say that NO history of safe calls reaches `fault`, for every element layout
(`cfg.size`, `cfg.align`, with or without drop glue), both group widths, every hasher / `Eq` /
predicate / destructor behaviour (including panics at any call) and every allocator behaviour,
including `mem::forget` of a part-consumed `drain`.

What the model CANNOT express (so C02 is partial at the machine level): pointer provenance and
aliasing (Stacked/Tree Borrows), reads of uninitialised *bytes* as such (slots are `Option Elem`,
"dead" is the only form of uninitialised), the SIMD loads themselves (groups are lists of bytes;
the back-ends are covered by `GroupSpec`, property C18), lifetimes of handed-out references
(`get` returns a copy of the element), code generation.  Layout facts (regions disjoint, inside the
block, aligned) are `layout_regions` below.
-/
import Hb.Proofs.History
import Hb.Proofs.HistoryX
import Hb.Props.C17
namespace Hb.C02
open Hb

variable {cfg : Cfg}

/-- No history of safe-API calls on a fresh collection reaches undefined behaviour, whatever the
    callbacks and the allocator do (panics are caught and the history continues on what unwinding
    left behind). -/
theorem no_undefined_behaviour (hc : CfgOk cfg) (hg : GuardRuns cfg) (env : Env)
    (ops : List MapOp) (w0 : World) (h0 : w0.t = Raw.new cfg.W) :
    Map.runFaults cfg env ops w0 = false :=
  (run_safe hc hg env ops w0 h0).1

/-- After every call — returned or unwound — the collection is a valid table whose `len` is the
    number of stored elements; a call is never undefined behaviour, and aborts only when the
    allocator refuses. The same at the end of every history, which is cut short only by
    `handle_alloc_error`. -/
theorem valid_after_every_call (hc : CfgOk cfg) (hg : GuardRuns cfg) (env : Env) :
    (∀ (op : MapOp) (w : World), TInv cfg w.t →
      match Map.step cfg env op w with
      | .ok (_, w') => TInv cfg w'.t ∧ w'.t.items = w'.t.elems.length
      | .panic _ w' => TInv cfg w'.t ∧ w'.t.items = w'.t.elems.length
      | .abort => env.allocOk w.ac = false
      | .fault _ => False) ∧
    (∀ (ops : List MapOp) (w0 : World), w0.t = Raw.new cfg.W →
      (∀ obs w, Map.run cfg env ops w0 = some (obs, w) →
        TInv cfg w.t ∧ w.t.items = w.t.elems.length) ∧
      ((∀ j, env.allocOk j = true) → ∃ obs w, Map.run cfg env ops w0 = some (obs, w))) :=
  ⟨fun op w h => step_safe hc hg env op w h,
   fun ops w0 h0 => (run_safe hc hg env ops w0 h0).2⟩

/-- The same for the WHOLE modelled `HashMap` API in one history (`MapOpX`): the calls above
    interleaved in any order with `entry` / `entry_ref` / `rustc_entry` / `raw_entry_mut` followed by
    any method chain (with ANY caller-supplied hash — no contract is assumed here), `raw_entry`
    look-ups, `try_insert`, `extend`, `get_many_mut` and `Index`: never undefined behaviour, a valid
    table with `len` = number of stored elements after every call (returned or unwound), for every
    environment; only a refusing allocator cuts a history short. -/
theorem no_undefined_behaviour_all_calls (hc : CfgOk cfg) (hg : GuardRuns cfg) (env : Env) :
    (∀ (op : MapOpX) (w : World), TInv cfg w.t →
      match Map.stepX cfg env op w with
      | .ok (_, w') => TInv cfg w'.t ∧ w'.t.items = w'.t.elems.length
      | .panic _ w' => TInv cfg w'.t ∧ w'.t.items = w'.t.elems.length
      | .abort => ∃ j, env.allocOk j = false
      | .fault _ => False) ∧
    (∀ (ops : List MapOpX) (w0 : World), w0.t = Raw.new cfg.W →
      Map.runXFaults cfg env ops w0 = false ∧
      (∀ obs w, Map.runX cfg env ops w0 = some (obs, w) →
        TInv cfg w.t ∧ w.t.items = w.t.elems.length) ∧
      ((∀ j, env.allocOk j = true) → ∃ obs w, Map.runX cfg env ops w0 = some (obs, w))) :=
  ⟨fun op w h => stepX_safe hc hg env op w h, fun ops w0 h0 => runX_safe hc hg env ops w0 h0⟩

/-- `mem::forget` of a part-consumed `drain`: the call hands out the first `k` elements, the
    collection is afterwards the valid empty singleton (nothing dangling: the old block is leaked
    with the forgotten iterator) and every further history on it is free of undefined behaviour. -/
theorem forgotten_drain_leaves_valid_empty (hc : CfgOk cfg) (hg : GuardRuns cfg) (env : Env)
    (k : Nat) (w : World) (h : TInv cfg w.t) :
    Map.step cfg env (.drain k true) w =
      .ok (.elems (w.t.elems.take k), { w with t := Raw.new cfg.W }) ∧
    TInv cfg (Raw.new cfg.W) ∧ (Raw.new cfg.W).items = 0 ∧ (Raw.new cfg.W).elems = [] ∧
    ∀ ops, Map.runFaults cfg env ops { w with t := Raw.new cfg.W } = false ∧
      ∀ obs wf, Map.run cfg env ops { w with t := Raw.new cfg.W } = some (obs, wf) →
        TInv cfg wf.t ∧ wf.t.items = wf.t.elems.length :=
  ⟨hs_drain_forget hc env k w h, TInv.new hc, rfl, rfl, fun ops =>
    ⟨(run_safe hc hg env ops { w with t := Raw.new cfg.W } rfl).1,
     (run_safe hc hg env ops { w with t := Raw.new cfg.W } rfl).2.1⟩⟩

/-- Layout of the block of any allocated valid table (C17 re-exported): for an element type whose
    alignment is a power of two and whose size is a multiple of it, the element regions
    `[ctrlOffset - (i+1)*size, ctrlOffset - i*size)`, `i < buckets`, are pairwise disjoint, lie
    inside the block below the control bytes, and each is aligned for the element type. -/
theorem layout_regions (hc : CfgOk cfg) {a : Nat} (hal : cfg.align = 2 ^ a)
    (hsz : cfg.size % cfg.align = 0) {t : Raw} (h : TInv cfg t) (ha : t.alloc = true) :
    ∃ l, calculateLayoutFor cfg.bits cfg.W cfg.size (ctrlAlignOf cfg) t.buckets = some l ∧
      (∀ i j, i < j → j < t.buckets → (j + 1) * cfg.size ≤ l.ctrlOffset ∧
        l.ctrlOffset - (j + 1) * cfg.size + cfg.size ≤ l.ctrlOffset - (i + 1) * cfg.size) ∧
      (∀ i, i < t.buckets → (l.ctrlOffset - (i + 1) * cfg.size) % cfg.align = 0) := by
  obtain ⟨l, hl⟩ := Option.isSome_iff_exists.1 (h.2 ha)
  obtain ⟨hpow, hmod⟩ := hs_ctrlAlign_ok hc hal
  exact ⟨l, hl, Hb.C17.elements_fit _ _ _ _ _ l hpow hl,
    Hb.C17.elements_aligned _ _ _ _ _ _ l hsz hmod hl⟩

#print axioms no_undefined_behaviour
#print axioms valid_after_every_call
#print axioms no_undefined_behaviour_all_calls
#print axioms forgotten_drain_leaves_valid_empty
#print axioms layout_regions

end Hb.C02
