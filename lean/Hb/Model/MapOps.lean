/-
Operation-level view of the HashMap model: one `MapOp` per public call, `Map.step` dispatching to
the Layer-2 functions, `Map.run` folding a history. The driver executes these same functions, so
the correspondence check ties exactly what the history theorems talk about.
-/
import Hb.Model.Api
namespace Hb

/-- Calls of the `HashMap` API covered by the history theorems. -/
inductive MapOp where
  | insert (e : Elem)
  | get (k : Nat)                 -- get / get_key_value / contains_key / get through a borrowed form
  | getMut (k nv : Nat)           -- get_mut(k).map(|v| *v = nv)
  | remove (k : Nat)
  | removeEntry (k : Nat)
  | clear
  | reserve (n : Nat)
  | tryReserve (n : Nat)
  | shrinkTo (m : Nat)            -- shrink_to_fit = shrinkTo 0
  | retain
  | extractIf (n : Nat)           -- next × n, then drop
  | drain (n : Nat) (forget : Bool)
  | iter (p : Nat)                -- observation only
deriving Repr

namespace Map

/-- Outcome of one call: what it returns (`Ret`) and the world afterwards. -/
def step (cfg : Cfg) (env : Env) (op : MapOp) (w : World) : Res (Ret × World) :=
  match op with
  | .insert e =>
    match insert cfg env e w with
    | .ok (r, w') => .ok (.val r, w')
    | .panic c w' => .panic c w'
    | .abort => .abort
    | .fault f => .fault f
  | .get k =>
    match get cfg env k w with
    | .ok (r, w') => .ok (.elem r, w')
    | .panic c w' => .panic c w'
    | .abort => .abort
    | .fault f => .fault f
  | .getMut k nv =>
    match getMut cfg env k nv w with
    | .ok (r, w') => .ok (.elem r, w')
    | .panic c w' => .panic c w'
    | .abort => .abort
    | .fault f => .fault f
  | .remove k =>
    match remove cfg env k w with
    | .ok (r, w') => .ok (.val r, w')
    | .panic c w' => .panic c w'
    | .abort => .abort
    | .fault f => .fault f
  | .removeEntry k =>
    match removeEntry cfg env k w with
    | .ok (r, w') => .ok (.elem r, w')
    | .panic c w' => .panic c w'
    | .abort => .abort
    | .fault f => .fault f
  | .clear =>
    match Hb.clear cfg env w with
    | .ok w' => .ok (.unit, w')
    | .panic c w' => .panic c w'
    | .abort => .abort
    | .fault f => .fault f
  | .reserve n =>
    match reserve cfg env n w with
    | .ok w' => .ok (.unit, w')
    | .panic c w' => .panic c w'
    | .abort => .abort
    | .fault f => .fault f
  | .tryReserve n =>
    match tryReserve cfg env n w with
    | .ok (r, w') => .ok (.tre r, w')
    | .panic c w' => .panic c w'
    | .abort => .abort
    | .fault f => .fault f
  | .shrinkTo m =>
    match Hb.shrinkTo cfg env m w with
    | .ok w' => .ok (.unit, w')
    | .panic c w' => .panic c w'
    | .abort => .abort
    | .fault f => .fault f
  | .retain =>
    match retain cfg env w with
    | .ok w' => .ok (.unit, w')
    | .panic c w' => .panic c w'
    | .abort => .abort
    | .fault f => .fault f
  | .extractIf n =>
    match extractIf cfg env n w with
    | .ok (l, w') => .ok (.elems l, w')
    | .panic c w' => .panic c w'
    | .abort => .abort
    | .fault f => .fault f
  | .drain n fg =>
    match drain cfg env n fg w with
    | .ok (l, w') => .ok (.elems l, w')
    | .panic c w' => .panic c w'
    | .abort => .abort
    | .fault f => .fault f
  | .iter p =>
    match iterObserve cfg w.t p with
    | .ok (pre, _, _, _) => .ok (.elems (pre.filterMap fun i => w.t.slots[i]?.join), w)
    | .error f => .fault f

/-- What the client observes of one call. A panic is caught (`catch_unwind`) and the history goes on
    with whatever unwinding left behind. -/
inductive Obs where
  | ret (r : Ret)
  | panic (cls : String)
deriving Repr

/-- Run a history. `none` = the implementation would have undefined behaviour (`fault`) or abort. -/
def run (cfg : Cfg) (env : Env) : List MapOp → World → Option (List Obs × World)
  | [], w => some ([], w)
  | op :: rest, w =>
    match step cfg env op w with
    | .ok (r, w') => (run cfg env rest w').map fun (os, wf) => (.ret r :: os, wf)
    | .panic c w' => (run cfg env rest w').map fun (os, wf) => (.panic c :: os, wf)
    | .abort => none
    | .fault _ => none

/-- The run hit a `fault` (undefined behaviour in the real code) somewhere. -/
def runFaults (cfg : Cfg) (env : Env) : List MapOp → World → Bool
  | [], _ => false
  | op :: rest, w =>
    match step cfg env op w with
    | .ok (_, w') => runFaults cfg env rest w'
    | .panic _ w' => runFaults cfg env rest w'
    | .abort => false
    | .fault _ => true

end Map
end Hb
