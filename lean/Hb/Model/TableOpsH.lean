/-
Operation-level view of the `HashTable` model (`Hb/Model/Table.lean`): one `TableOp` per public call
of `HashTable<T>` that the line protocol drives (`Hb/Driver/TableOps.lean`), `Table.stepH`
dispatching to the SAME Layer-2 functions the driver executes — with the table's view of the oracles
(`Table.envFor cfg env`), exactly as `execTableOp` does — and `Table.runH` folding a history and
recording what each call returned, or the class of the panic it ended in. A panic is caught
(`catch_unwind`) and the history goes on with whatever unwinding left behind, as in `Map.runX`;
`abort` (`handle_alloc_error`) and `fault` (undefined behaviour) end the run with `none`
(`Table.runHFaults` tells the two apart).

The caller supplies the hash of every probe / new element (`hash`), it does not consume the hash
oracle; the history theorems (`Hb/Proofs/TableHistory.lean`) assume `hash = H e.k` for the element
an inserting call stores.
-/
import Hb.Model.Table
import Hb.Model.MapOps
namespace Hb

/-- Calls of the `HashTable` API covered by the table-history theorem. -/
inductive TableOp where
  | find (hash q : Nat)                                   -- find / get: `find(hash, |x| eq(q, x))`
  | findMut (hash q nv : Nat)                             -- `find_mut(hash, eq).map(|e| e.v = nv)`
  | insertUnique (hash : Nat) (e : Elem)                  -- `insert_unique(hash, e, hasher)`
  | findEntryRemove (hash q : Nat) (re : Option Elem)     -- `find_entry` + `remove` (+ `VacantEntry::insert`)
  | entryInsert (hash q : Nat) (ne : Elem)                -- `entry(hash, eq, hasher).insert(ne)`
  | entryOrInsert (hash q : Nat) (ne : Elem)              -- `entry(..).or_insert(ne)`
  | entryAndModify (hash q nv : Nat)                      -- `entry(..).and_modify(|e| e.v = nv)`
  | retain
  | extractIf (n : Nat)                                   -- `next` × n, then drop
  | drain (n : Nat) (forget : Bool)
  | clear
  | reserve (n : Nat)
  | shrinkTo (m : Nat)                                    -- `shrink_to_fit` = `shrinkTo 0`
  | getManyMut (any : Bool) (reqs : List (Nat × Nat))     -- `(hash, q)` per request
  | iterHash (hash : Nat)                                 -- observation only
  | iter (p : Nat)                                        -- observation only
  | len                                                   -- observation only
deriving Repr

/-- What a `HashTable` call hands back. -/
inductive TRet where
  | unit
  | elem (e : Option Elem)
  | occ (occupied : Bool)
  | elems (l : List Elem)
  | many (l : List (Option Elem))
  /-- `iter_hash`: the buckets in yield order and the elements they hold. -/
  | hits (idxs : List Nat) (es : List Elem)
  | nat (n : Nat)
deriving Repr, DecidableEq

namespace Table

/-- Outcome of one call. Every closure-taking call runs with `envFor cfg env` (the driver's `env`). -/
def stepH (cfg : Cfg) (env : Env) (op : TableOp) (w : World) : Res (TRet × World) :=
  let env' := envFor cfg env
  match op with
  | .find hash q =>
    match findElem cfg env' hash q w with
    | .ok (r, w') => .ok (.elem r, w')
    | .panic c w' => .panic c w'
    | .abort => .abort
    | .fault f => .fault f
  | .findMut hash q nv =>
    match findMut cfg env' hash q nv w with
    | .ok (r, w') => .ok (.elem r, w')
    | .panic c w' => .panic c w'
    | .abort => .abort
    | .fault f => .fault f
  | .insertUnique hash e =>
    match insertUnique cfg env' hash e w with
    | .ok w' => .ok (.unit, w')
    | .panic c w' => .panic c w'
    | .abort => .abort
    | .fault f => .fault f
  | .findEntryRemove hash q re =>
    match findEntryRemove cfg env' hash q re w with
    | .ok (r, w') => .ok (.elem r, w')
    | .panic c w' => .panic c w'
    | .abort => .abort
    | .fault f => .fault f
  | .entryInsert hash q ne =>
    match entryInsert cfg env' hash q ne w with
    | .ok (b, w') => .ok (.occ b, w')
    | .panic c w' => .panic c w'
    | .abort => .abort
    | .fault f => .fault f
  | .entryOrInsert hash q ne =>
    match entryOrInsert cfg env' hash q ne w with
    | .ok (b, w') => .ok (.occ b, w')
    | .panic c w' => .panic c w'
    | .abort => .abort
    | .fault f => .fault f
  | .entryAndModify hash q nv =>
    match entryAndModify cfg env' hash q nv w with
    | .ok (b, w') => .ok (.occ b, w')
    | .panic c w' => .panic c w'
    | .abort => .abort
    | .fault f => .fault f
  | .retain =>
    match Map.retain cfg env' w with
    | .ok w' => .ok (.unit, w')
    | .panic c w' => .panic c w'
    | .abort => .abort
    | .fault f => .fault f
  | .extractIf n =>
    match Map.extractIf cfg env' n w with
    | .ok (l, w') => .ok (.elems l, w')
    | .panic c w' => .panic c w'
    | .abort => .abort
    | .fault f => .fault f
  | .drain n fg =>
    match Map.drain cfg env' n fg w with
    | .ok (l, w') => .ok (.elems l, w')
    | .panic c w' => .panic c w'
    | .abort => .abort
    | .fault f => .fault f
  | .clear =>
    match Hb.clear cfg env' w with
    | .ok w' => .ok (.unit, w')
    | .panic c w' => .panic c w'
    | .abort => .abort
    | .fault f => .fault f
  | .reserve n =>
    match Hb.reserve cfg env' n w with
    | .ok w' => .ok (.unit, w')
    | .panic c w' => .panic c w'
    | .abort => .abort
    | .fault f => .fault f
  | .shrinkTo m =>
    match Hb.shrinkTo cfg env' m w with
    | .ok w' => .ok (.unit, w')
    | .panic c w' => .panic c w'
    | .abort => .abort
    | .fault f => .fault f
  | .getManyMut any reqs =>
    match getManyMut cfg env' any reqs w with
    | .ok (l, w') => .ok (.many l, w')
    | .panic c w' => .panic c w'
    | .abort => .abort
    | .fault f => .fault f
  | .iterHash hash =>
    match iterHash cfg w.t hash with
    | .ok l => .ok (.hits l (l.filterMap fun i => w.t.slots[i]?.join), w)
    | .error f => .fault f
  | .iter p =>
    match Map.iterObserve cfg w.t p with
    | .ok (pre, _, _, _) => .ok (.elems (pre.filterMap fun i => w.t.slots[i]?.join), w)
    | .error f => .fault f
  | .len => .ok (.nat w.t.items, w)

/-- What the client observes of one call (a panic is caught and the history goes on). -/
inductive TObs where
  | ret (r : TRet)
  | panic (cls : String)
deriving Repr, DecidableEq

/-- Run a history. `none` = undefined behaviour (`fault`) or abort (`handle_alloc_error`). -/
def runH (cfg : Cfg) (env : Env) : List TableOp → World → Option (List TObs × World)
  | [], w => some ([], w)
  | op :: rest, w =>
    match stepH cfg env op w with
    | .ok (r, w') => (runH cfg env rest w').map fun (os, wf) => (.ret r :: os, wf)
    | .panic c w' => (runH cfg env rest w').map fun (os, wf) => (.panic c :: os, wf)
    | .abort => none
    | .fault _ => none

/-- The run hit a `fault` (undefined behaviour in the real code) somewhere. -/
def runHFaults (cfg : Cfg) (env : Env) : List TableOp → World → Bool
  | [], _ => false
  | op :: rest, w =>
    match stepH cfg env op w with
    | .ok (_, w') => runHFaults cfg env rest w'
    | .panic _ w' => runHFaults cfg env rest w'
    | .abort => false
    | .fault _ => true

/-- The run ended in `handle_alloc_error` (the allocator refused an infallible request). -/
def runHAborts (cfg : Cfg) (env : Env) : List TableOp → World → Bool
  | [], _ => false
  | op :: rest, w =>
    match stepH cfg env op w with
    | .ok (_, w') => runHAborts cfg env rest w'
    | .panic _ w' => runHAborts cfg env rest w'
    | .abort => true
    | .fault _ => false

end Table
end Hb
