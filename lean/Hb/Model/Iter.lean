/-
Layer 1 — raw iterators (`RawIterRange`, `RawIter`, `RawIterHash`; raw/mod.rs:3400-4165).
An iterator holds raw pointers into the table, so every step takes the *current* table.
Positions are bucket indices (the data pointer `Bucket` of the source is `base`).
-/
import Hb.Model.Raw
namespace Hb

structure RawIterRange where
  cur : List Nat      -- `current_group: BitMaskIter`, remaining lanes ascending
  base : Nat          -- bucket index of lane 0 of the current group (`data`)
  nextCtrl : Nat
  end_ : Nat
deriving Repr

/-- `RawIterRange::new(ctrl + start, data(start), len)`. -/
def RawIterRange.new (cfg : Cfg) (t : Raw) (start len : Nat) : Except String RawIterRange :=
  match loadGroup cfg.W t start with
  | .error f => .error f
  | .ok g => .ok { cur := cfg.ops.matchFull g, base := start, nextCtrl := start + cfg.W, end_ := start + len }

/-- `next_impl::<DO_CHECK_PTR_RANGE>`. -/
def RawIterRange.nextImpl (cfg : Cfg) (t : Raw) (check : Bool) :
    Nat → RawIterRange → Except String (Option Nat × RawIterRange)
  | 0, _ => .error "iterator walked past the control bytes"
  | fuel + 1, r =>
    match r.cur with
    | lane :: rest => .ok (some (r.base + lane), { r with cur := rest })
    | [] =>
      if check && r.nextCtrl ≥ r.end_ then .ok (none, r)
      else
        match loadGroup cfg.W t r.nextCtrl with
        | .error f => .error f
        | .ok g =>
          RawIterRange.nextImpl cfg t check fuel
            { r with cur := cfg.ops.matchFull g, base := r.base + cfg.W, nextCtrl := r.nextCtrl + cfg.W }

def iterFuel (t : Raw) : Nat := t.ctrl.size + 2

/-- `RawIterRange::split` (feature `rayon`, raw/mod.rs:3453). -/
def RawIterRange.split (cfg : Cfg) (t : Raw) (r : RawIterRange) :
    Except String (RawIterRange × Option RawIterRange) :=
  if r.end_ ≤ r.nextCtrl then .ok (r, none)
  else
    let len := r.end_ - r.nextCtrl
    let mid := (len / 2) / cfg.W * cfg.W          -- `(len / 2) & !(WIDTH - 1)`
    -- tail = new(next_ctrl + mid, data.next_n(W).next_n(mid), len - mid)
    match loadGroup cfg.W t (r.nextCtrl + mid) with
    | .error f => .error f
    | .ok g =>
      let tail : RawIterRange :=
        { cur := cfg.ops.matchFull g, base := r.base + cfg.W + mid,
          nextCtrl := r.nextCtrl + mid + cfg.W, end_ := r.nextCtrl + mid + (len - mid) }
      .ok ({ r with end_ := r.nextCtrl + mid }, some tail)

structure RawIter where
  range : RawIterRange
  items : Nat
deriving Repr

/-- `RawTableInner::iter` (raw/mod.rs:2022). -/
def RawIter.new (cfg : Cfg) (t : Raw) : Except String RawIter :=
  match RawIterRange.new cfg t 0 t.buckets with
  | .error f => .error f
  | .ok r => .ok { range := r, items := t.items }

/-- `RawIter::next` (raw/mod.rs:3692). -/
def RawIter.next (cfg : Cfg) (t : Raw) (it : RawIter) : Except String (Option Nat × RawIter) :=
  if it.items = 0 then .ok (none, it)
  else
    match it.range.nextImpl cfg t false (iterFuel t) with
    | .error f => .error f
    | .ok (none, _) => .error "next_impl::<false> returned None"
    | .ok (some i, r) => .ok (some i, { range := r, items := it.items - 1 })

/-- Repeated `next` until `None` against an unchanging table. -/
def RawIter.drainAll (cfg : Cfg) (t : Raw) : Nat → RawIter → List Nat → Except String (List Nat)
  | 0, _, acc => .ok acc.reverse
  | fuel + 1, it, acc =>
    match it.next cfg t with
    | .error f => .error f
    | .ok (none, _) => .ok acc.reverse
    | .ok (some i, it') => RawIter.drainAll cfg t fuel it' (i :: acc)

/-- `fold_impl` (raw/mod.rs:3545): buckets visited, in order. -/
def RawIterRange.foldImpl (cfg : Cfg) (t : Raw) :
    Nat → RawIterRange → Nat → List Nat → Except String (List Nat)
  | 0, _, _, _ => .error "fold_impl walked past the control bytes"
  | fuel + 1, r, n, acc =>
    -- `while let Some(index) = self.current_group.next()`: `n -= 1` per lane
    if r.cur.length > n then .error "fold_impl: n underflow"
    else
      let acc := (r.cur.map (r.base + ·)).reverse ++ acc
      let n := n - r.cur.length
      if n = 0 then .ok acc.reverse
      else
        match loadGroup cfg.W t r.nextCtrl with
        | .error f => .error f
        | .ok g =>
          RawIterRange.foldImpl cfg t fuel
            { r with cur := cfg.ops.matchFull g, base := r.base + cfg.W, nextCtrl := r.nextCtrl + cfg.W } n acc

/-- `RawIter::fold`. -/
def RawIter.fold (cfg : Cfg) (t : Raw) (it : RawIter) : Except String (List Nat) :=
  it.range.foldImpl cfg t (iterFuel t) it.items []

/-! ### `RawIterHash` (raw/mod.rs:4021) -/

structure RawIterHash where
  mask : Nat
  tag : Nat
  probe : ProbeSeq
  group : List Nat
  bits : List Nat
deriving Repr

def RawIterHash.new (cfg : Cfg) (t : Raw) (hash : Nat) : Except String RawIterHash :=
  let p := probeSeq cfg.bits t.mask hash
  let tag := tagFull cfg.bits hash
  match loadGroup cfg.W t p.pos with
  | .error f => .error f
  | .ok g => .ok { mask := t.mask, tag := tag, probe := p, group := g, bits := cfg.ops.matchTag g tag }

def RawIterHash.next (cfg : Cfg) (t : Raw) : Nat → RawIterHash → Except String (Option Nat × RawIterHash)
  | 0, _ => .error "probe sequence exhausted in RawIterHash"
  | fuel + 1, it =>
    match it.bits with
    | b :: rest => .ok (some ((it.probe.pos + b) &&& it.mask), { it with bits := rest })
    | [] =>
      if !(cfg.ops.matchEmpty it.group).isEmpty then .ok (none, it)
      else
        let p := it.probe.moveNext cfg.W it.mask
        match loadGroup cfg.W t p.pos with
        | .error f => .error f
        | .ok g =>
          RawIterHash.next cfg t fuel { it with probe := p, group := g, bits := cfg.ops.matchTag g it.tag }

def RawIterHash.all (cfg : Cfg) (t : Raw) : Nat → RawIterHash → List Nat → Except String (List Nat)
  | 0, _, acc => .ok acc.reverse
  | fuel + 1, it, acc =>
    match RawIterHash.next cfg t (probeFuel t) it with
    | .error f => .error f
    | .ok (none, _) => .ok acc.reverse
    | .ok (some i, it') => RawIterHash.all cfg t fuel it' (i :: acc)

end Hb
