/-
Layer 2 — `HashSet<T, S, A>` (`src/set.rs`), a wrapper over `HashMap<T, ()>`, function by function,
including the lazy set-algebra iterators (`Union`, `Intersection`, `Difference`,
`SymmetricDifference`), the operator forms (`&a | &b` … = `iterator.cloned().collect()`) and the
assigning operator forms (`a |= &b` …), with the exact order of `Hash` / `Eq` / `Clone` / `Drop`
calls and of removals / insertions.

Elements are `Elem` with `vid = 0`, `v = 0` (the value side is `()`).
In every function `w.t` is the target set (`self`); `other` is the right operand.
-/
import Hb.Model.Api
namespace Hb.Set

/-- A set element. -/
def elemOf (k kid : Nat) : Elem := ⟨k, kid, 0, 0⟩

/-- Environment as seen by a set: `()` has no identity (clones keep `vid = 0`), and predicates get
    `&T`, so they cannot mutate. -/
def envOf (env : Env) : Env :=
  { env with
    clone := fun c e => match env.clone c e with | some (kid, _) => some (kid, 0) | none => none
    pred := fun c e => match env.pred c e with | some (b, _) => some (b, e.v) | none => none }

/-- Destructors that run while unwinding never panic in the harness. -/
def envUnwinding (env : Env) : Env := { env with dropPanics := fun _ _ => false }

/-! ### single-set operations -/

/-- `insert` (set.rs:1092) = `self.map.insert(value, ()).is_none()`: for a present value the stored
    object stays and the new one is dropped. -/
def insert (cfg : Cfg) (env : Env) (k kid : Nat) (w : World) : Res (Bool × World) := do
  let (r, w') ← Map.insert cfg env (elemOf k kid) w
  pure (r.isNone, w')

/-- `get` (set.rs:888) = `map.get_key_value`. -/
def get (cfg : Cfg) (env : Env) (k : Nat) (w : World) : Res (Option Elem × World) :=
  Map.get cfg env k w

/-- `contains` (set.rs:862) = `map.contains_key`. -/
def contains (cfg : Cfg) (env : Env) (k : Nat) (w : World) : Res (Bool × World) := do
  let (r, w') ← Map.getInner cfg env k w
  pure (r.isSome, w')

/-- `remove` (set.rs:1175) = `map.remove(value).is_some()`: the stored object is dropped. -/
def remove (cfg : Cfg) (env : Env) (k : Nat) (w : World) : Res (Bool × World) := do
  let (r, w') ← Map.remove cfg env k w
  pure (r.isSome, w')

/-- `take` (set.rs:1201) = `map.remove_entry`. -/
def take (cfg : Cfg) (env : Env) (k : Nat) (w : World) : Res (Option Elem × World) :=
  Map.removeEntry cfg env k w

/-- `make_hash` + `HashMap::find_or_find_insert_slot` (map.rs:1804; `reserve(1)` first).
    `owned` is a by-value argument of the caller that is dropped if a callback unwinds.
    Returns `(hash, found index | insert slot, world)`. -/
def search (cfg : Cfg) (env : Env) (k : Nat) (owned : Option Elem) (w : World) :
    Res (Nat × Except Nat Nat × World) :=
  let r : Res (Nat × Except Nat Nat × World) := do
    let (h, w1) ← makeHash env k w
    let (r, w2) ← findOrFindInsertSlot cfg env h k w1
    pure (h, r, w2)
  match owned with
  | some e => r.onPanic (·.dropElemQuiet cfg e)
  | none => r

/-- `replace` (set.rs:1140): the NEW object is stored (`mem::replace` of the stored key), the old
    one is returned. -/
def replace (cfg : Cfg) (env : Env) (e : Elem) (w : World) : Res (Option Elem × World) := do
  let (h, r, w2) ← search cfg env e.k (some e) w
  match r with
  | .ok idx =>
    let old ← liftE (slotGet w2.t idx)
    pure (some old, { w2 with t := { w2.t with slots := w2.t.slots.setIfInBounds idx (some e) } })
  | .error slot =>
    let t' ← liftE (insertInSlot cfg w2.t h slot e)
    pure (none, { w2 with t := t' })

/-- `get_or_insert` (set.rs:914): for a present value the argument is dropped when the function
    returns; the stored element is returned. -/
def getOrInsert (cfg : Cfg) (env : Env) (e : Elem) (w : World) : Res (Elem × World) := do
  let (h, r, w2) ← search cfg env e.k (some e) w
  match r with
  | .ok idx =>
    let stored ← liftE (slotGet w2.t idx)
    let w3 ← dropKeyR cfg env e.kid w2
    pure (stored, w3)
  | .error slot =>
    let t' ← liftE (insertInSlot cfg w2.t h slot e)
    pure (e, { w2 with t := t' })

/-- `get_or_insert_with(&Q(k), |_| T::new(k2, kid2))` (set.rs:949): when `k` is absent the closure's
    value is checked with `value.equivalent(&new)` (one `Eq` call); a non-equivalent value panics
    (class `notequiv`), the new object is dropped by unwinding. The `reserve(1)` of the search has
    already happened. -/
def getOrInsertWith (cfg : Cfg) (env : Env) (k k2 kid2 : Nat) (w : World) : Res (Elem × World) := do
  let (h, r, w2) ← search cfg env k none w
  match r with
  | .ok idx =>
    let stored ← liftE (slotGet w2.t idx)
    pure (stored, w2)
  | .error slot =>
    let new := elemOf k2 kid2
    let w3 := { w2 with ec := w2.ec + 1 }
    match env.eq w2.ec k new with
    | none => .panic "eq" (w3.dropElemQuiet cfg new)
    | some false => .panic "notequiv" (w3.dropElemQuiet cfg new)
    | some true =>
      let t' ← liftE (insertInSlot cfg w3.t h slot new)
      pure (new, { w3 with t := t' })

/-- `HashMap::entry` (map.rs:1229): hash, `find` (no `reserve`, no `is_empty` shortcut); the owned
    key is dropped if a callback unwinds. -/
def entryFind (cfg : Cfg) (env : Env) (e : Elem) (w : World) : Res (Nat × Option Nat × World) :=
  let r : Res (Nat × Option Nat × World) := do
    let (h, w1) ← makeHash env e.k w
    let (r, w2) ← find cfg env h e.k w1
    pure (h, r, w2)
  r.onPanic (·.dropElemQuiet cfg e)

/-- `VacantEntry::insert` (set.rs:2529) = `RawTable::insert(hash, (key, ()), hasher)`. -/
def vacantInsert (cfg : Cfg) (env : Env) (h : Nat) (e : Elem) (w : World) : Res (Nat × World) :=
  (rawInsert cfg env h e w).onPanic (·.dropElemQuiet cfg e)

/-- `set.entry(value).insert().get()`: `Occupied` ⇒ the argument is dropped inside `entry`, the
    stored element stays. -/
def entryInsert (cfg : Cfg) (env : Env) (e : Elem) (w : World) : Res (Elem × World) := do
  let (h, r, w2) ← entryFind cfg env e w
  match r with
  | some idx =>
    let w3 ← dropKeyR cfg env e.kid w2
    let stored ← liftE (slotGet w3.t idx)
    pure (stored, w3)
  | none =>
    let (_, w3) ← vacantInsert cfg env h e w2
    pure (e, w3)

/-- `set.entry(value).or_insert()`. -/
def entryOrInsert (cfg : Cfg) (env : Env) (e : Elem) (w : World) : Res World := do
  let (_, w') ← entryInsert cfg env e w
  pure w'

/-- `match set.entry(value) { Occupied(o) => Some(o.remove()), Vacant(_) => None }`; a vacant entry
    is dropped together with the key it owns. -/
def entryRemove (cfg : Cfg) (env : Env) (e : Elem) (w : World) : Res (Option Elem × World) := do
  let (_, r, w2) ← entryFind cfg env e w
  let w3 ← dropKeyR cfg env e.kid w2
  match r with
  | some idx =>
    let (x, t') ← liftE (removeAt cfg w3.t idx)
    pure (some x, { w3 with t := t' })
  | none => pure (none, w3)

/-- `retain` (set.rs:368) = `map.retain(|k, _| f(k))`. -/
def retain (cfg : Cfg) (env : Env) (w : World) : Res World := Map.retain cfg (envOf env) w

/-- `extract_if` (set.rs:404), `next` × `k`, then dropped. -/
def extractIf (cfg : Cfg) (env : Env) (k : Nat) (w : World) : Res (List Elem × World) :=
  Map.extractIf cfg (envOf env) k w

def drain (cfg : Cfg) (env : Env) (k : Nat) (forget : Bool) (w : World) : Res (List Elem × World) :=
  Map.drain cfg env k forget w

def intoIter (cfg : Cfg) (env : Env) (k : Nat) (w : World) : Res (List Elem × World) :=
  Map.intoIter cfg env k w

/-- `Clone::clone` (set.rs:119) = `map.clone()`. -/
def cloneTable (cfg : Cfg) (env : Env) (w : World) : Res (Raw × World) :=
  Map.cloneTable cfg (envOf env) w

/-- `Clone::clone_from` (set.rs:125). -/
def cloneFrom (cfg : Cfg) (env : Env) (src : Raw) (w : World) : Res World :=
  Map.cloneFrom cfg (envOf env) src w

/-! ### look-ups in a table that is not the target -/

/-- `t.contains(elt)` = `get_inner` on table `t` (with the `is_empty()` shortcut that skips
    hashing); `w.t` is preserved, also when a callback unwinds. -/
def containsIn (cfg : Cfg) (env : Env) (t : Raw) (k : Nat) (w : World) : Res (Bool × World) :=
  let keep := w.t
  match Map.getInner cfg env k { w with t := t } with
  | .ok (r, w') => .ok (r.isSome, { w' with t := keep })
  | .panic c w' => .panic c { w' with t := keep }
  | .abort => .abort
  | .fault f => .fault f

/-- The elements of `t` in the order `t.iter()` yields them. -/
def elemsOf (cfg : Cfg) (t : Raw) : Except String (List Elem) :=
  match fullIndices cfg t t.items with
  | .error f => .error f
  | .ok idxs =>
    idxs.foldr (fun i acc =>
      match acc, slotGet t i with
      | .error f, _ => .error f
      | _, .error f => .error f
      | .ok l, .ok e => .ok (e :: l)) (.ok [])

/-! ### lazy set-algebra iterators

An iterator is described by the list of its *steps*: the element the underlying `Iter` yields next
and, for the filtered halves, the table that is probed with `contains` and the answer that lets the
element through. `Chain` = concatenation (the first half is exhausted before the second starts). -/

structure Step where
  e : Elem
  probe : Option (Raw × Bool)

def plain (l : List Elem) : List Step := l.map fun e => { e := e, probe := none }
def filtered (l : List Elem) (t : Raw) (want : Bool) : List Step :=
  l.map fun e => { e := e, probe := some (t, want) }

/-- `(smaller, larger)` of `union` / `intersection`: `self.len() <= other.len()`. -/
def smallerLarger (a b : Raw) : Raw × Raw := if a.items ≤ b.items then (a, b) else (b, a)

/-- `a.difference(b)` (set.rs:745): `a.iter()` filtered by `!b.contains`. -/
def differenceSteps (cfg : Cfg) (a b : Raw) : Except String (List Step) :=
  match elemsOf cfg a with
  | .error f => .error f
  | .ok l => .ok (filtered l b false)

/-- `a.intersection(b)` (set.rs:799): the smaller one is iterated, the larger one probed. -/
def intersectionSteps (cfg : Cfg) (a b : Raw) : Except String (List Step) :=
  let (s, l) := smallerLarger a b
  match elemsOf cfg s with
  | .error f => .error f
  | .ok xs => .ok (filtered xs l true)

/-- `a.union(b)` (set.rs:830) = `larger.iter().chain(smaller.difference(larger))`. -/
def unionSteps (cfg : Cfg) (a b : Raw) : Except String (List Step) :=
  let (s, l) := smallerLarger a b
  match elemsOf cfg l, differenceSteps cfg s l with
  | .error f, _ => .error f
  | _, .error f => .error f
  | .ok xs, .ok ys => .ok (plain xs ++ ys)

/-- `a.symmetric_difference(b)` (set.rs:774) = `a.difference(b).chain(b.difference(a))`. -/
def symmetricDifferenceSteps (cfg : Cfg) (a b : Raw) : Except String (List Step) :=
  match differenceSteps cfg a b, differenceSteps cfg b a with
  | .error f, _ => .error f
  | _, .error f => .error f
  | .ok xs, .ok ys => .ok (xs ++ ys)

def satSub (a b : Nat) : Nat := a - b

/-- `size_hint()` of the four iterators before the first `next` (all upper bounds are `Some`). -/
def unionHint (a b : Raw) : Nat × Nat :=
  let (s, l) := smallerLarger a b
  (l.items + satSub s.items l.items, l.items + s.items)
def intersectionHint (a b : Raw) : Nat × Nat := (0, (smallerLarger a b).1.items)
def differenceHint (a b : Raw) : Nat × Nat := (satSub a.items b.items, a.items)
def symmetricDifferenceHint (a b : Raw) : Nat × Nat :=
  (satSub a.items b.items + satSub b.items a.items, a.items + b.items)

/-- Drive an iterator to the end with `next`: the elements yielded, in order. -/
def yieldAll (cfg : Cfg) (env : Env) : List Step → World → List Elem → Res (List Elem × World)
  | [], w, acc => .ok (acc.reverse, w)
  | s :: rest, w, acc =>
    match s.probe with
    | none => yieldAll cfg env rest w (s.e :: acc)
    | some (t, want) =>
      match containsIn cfg env t s.e.k w with
      | .ok (b, w') => yieldAll cfg env rest w' (if b == want then s.e :: acc else acc)
      | .panic c w' => .panic c w'
      | .abort => .abort
      | .fault f => .fault f

/-- `iterator.next()` once: is there a first element? (`is_disjoint`) -/
def yieldsAny (cfg : Cfg) (env : Env) : List Step → World → Res (Bool × World)
  | [], w => .ok (false, w)
  | s :: rest, w =>
    match s.probe with
    | none => .ok (true, w)
    | some (t, want) =>
      match containsIn cfg env t s.e.k w with
      | .ok (b, w') => if b == want then .ok (true, w') else yieldsAny cfg env rest w'
      | .panic c w' => .panic c w'
      | .abort => .abort
      | .fault f => .fault f

def lazyOp (cfg : Cfg) (env : Env) (steps : Except String (List Step)) (w : World) :
    Res (List Elem × World) :=
  match steps with
  | .error f => .fault f
  | .ok s => yieldAll cfg env s w []

def union (cfg : Cfg) (env : Env) (other : Raw) (w : World) : Res (List Elem × World) :=
  lazyOp cfg env (unionSteps cfg w.t other) w
def intersection (cfg : Cfg) (env : Env) (other : Raw) (w : World) : Res (List Elem × World) :=
  lazyOp cfg env (intersectionSteps cfg w.t other) w
def difference (cfg : Cfg) (env : Env) (other : Raw) (w : World) : Res (List Elem × World) :=
  lazyOp cfg env (differenceSteps cfg w.t other) w
def symmetricDifference (cfg : Cfg) (env : Env) (other : Raw) (w : World) : Res (List Elem × World) :=
  lazyOp cfg env (symmetricDifferenceSteps cfg w.t other) w

/-! ### predicates -/

/-- `xs.all(|v| t.contains(v))` with the short circuit of `Iterator::all`. -/
def allIn (cfg : Cfg) (env : Env) (t : Raw) : List Elem → World → Res (Bool × World)
  | [], w => .ok (true, w)
  | e :: rest, w =>
    match containsIn cfg env t e.k w with
    | .ok (true, w') => allIn cfg env t rest w'
    | .ok (false, w') => .ok (false, w')
    | .panic c w' => .panic c w'
    | .abort => .abort
    | .fault f => .fault f

/-- `a.is_subset(b)` (set.rs:1045): `a.len() <= b.len() && a.iter().all(|v| b.contains(v))`. -/
def isSubsetOf (cfg : Cfg) (env : Env) (a b : Raw) (w : World) : Res (Bool × World) :=
  if a.items ≤ b.items then
    match elemsOf cfg a with
    | .error f => .fault f
    | .ok xs => allIn cfg env b xs w
  else .ok (false, w)

def isSubset (cfg : Cfg) (env : Env) (other : Raw) (w : World) : Res (Bool × World) :=
  isSubsetOf cfg env w.t other w

/-- `is_superset` (set.rs:1070) = `other.is_subset(self)`. -/
def isSuperset (cfg : Cfg) (env : Env) (other : Raw) (w : World) : Res (Bool × World) :=
  isSubsetOf cfg env other w.t w

/-- `is_disjoint` (set.rs:1024) = `self.intersection(other).next().is_none()`. -/
def isDisjoint (cfg : Cfg) (env : Env) (other : Raw) (w : World) : Res (Bool × World) :=
  match intersectionSteps cfg w.t other with
  | .error f => .fault f
  | .ok s => do
    let (b, w') ← yieldsAny cfg env s w
    pure (!b, w')

/-- `PartialEq` (set.rs:1229): equal `len` and `self.iter().all(|key| other.contains(key))`. -/
def setEq (cfg : Cfg) (env : Env) (other : Raw) (w : World) : Res (Bool × World) :=
  if w.t.items ≠ other.items then .ok (false, w)
  else
    match elemsOf cfg w.t with
    | .error f => .fault f
    | .ok xs => allIn cfg env other xs w

/-! ### operator forms producing a new set: `iterator.cloned().collect()`

`FromIterator` (set.rs:1272): an empty set with default hasher / allocator, `extend` =
`map.extend` (map.rs:4484): `reserve(size_hint().0)` (the set is empty), then `for_each` (= `fold`
of the chain) `insert(clone)`: per yielded element one `Clone`, then `HashMap::insert` into the
new set. If a callback unwinds, the partly built set is dropped (its clones, then its block). -/

/-- The `for_each` loop; `w.t` is the set being built. -/
def collectLoop (cfg : Cfg) (env : Env) : List Step → World → Res World
  | [], w => .ok w
  | s :: rest, w =>
    let cont (w : World) : Res World :=
      let w1 := { w with cc := w.cc + 1 }
      match (envOf env).clone w.cc s.e with
      | none => .panic "clone" w1
      | some (kid, _) =>
        match Map.insert cfg env { s.e with kid := kid } w1 with
        | .ok (_, w2) => collectLoop cfg env rest w2
        | .panic c w' => .panic c w'
        | .abort => .abort
        | .fault f => .fault f
    match s.probe with
    | none => cont w
    | some (t, want) =>
      match containsIn cfg env t s.e.k w with
      | .ok (b, w') => if b == want then cont w' else collectLoop cfg env rest w'
      | .panic c w' => .panic c w'
      | .abort => .abort
      | .fault f => .fault f

/-- Result set (to be printed and dropped by the caller) and the world with `t = self` again. -/
def collectOp (cfg : Cfg) (env : Env) (steps : Except String (List Step)) (lo : Nat) (w : World) :
    Res (Raw × World) :=
  let self := w.t
  match steps with
  | .error f => .fault f
  | .ok ss =>
    let build : Res World := do
      let w1 ← Hb.reserve cfg env lo { w with t := Raw.new cfg.W }
      collectLoop cfg env ss w1
    match build with
    | .ok w' => .ok (w'.t, { w' with t := self })
    | .panic c w' =>
      match dropInnerTable cfg (envUnwinding env) w'.t { w' with t := self } with
      | .ok w'' => .panic c w''
      | .panic _ w'' => .panic c w''
      | .abort => .abort
      | .fault f => .fault f
    | .abort => .abort
    | .fault f => .fault f

def bitor (cfg : Cfg) (env : Env) (other : Raw) (w : World) : Res (Raw × World) :=
  collectOp cfg env (unionSteps cfg w.t other) (unionHint w.t other).1 w
def bitand (cfg : Cfg) (env : Env) (other : Raw) (w : World) : Res (Raw × World) :=
  collectOp cfg env (intersectionSteps cfg w.t other) (intersectionHint w.t other).1 w
def bitxor (cfg : Cfg) (env : Env) (other : Raw) (w : World) : Res (Raw × World) :=
  collectOp cfg env (symmetricDifferenceSteps cfg w.t other) (symmetricDifferenceHint w.t other).1 w
def sub (cfg : Cfg) (env : Env) (other : Raw) (w : World) : Res (Raw × World) :=
  collectOp cfg env (differenceSteps cfg w.t other) (differenceHint w.t other).1 w

/-- The harness drops the result without logging its destructors; only the block's release shows. -/
def dropResultQuiet (cfg : Cfg) (r : Raw) (w : World) : Res World :=
  if r.isEmptySingleton then .ok w else freeBuckets cfg r.mask w

/-! ### assigning operator forms (modify `self` in place) -/

/-- `bitor_assign` (set.rs:1520): `for item in rhs { if !self.contains(item) { self.insert(item.clone()) } }`. -/
def bitorAssignLoop (cfg : Cfg) (env : Env) : List Elem → World → Res World
  | [], w => .ok w
  | e :: rest, w =>
    match Map.getInner cfg env e.k w with
    | .ok (some _, w1) => bitorAssignLoop cfg env rest w1
    | .ok (none, w1) =>
      let w2 := { w1 with cc := w1.cc + 1 }
      match (envOf env).clone w1.cc e with
      | none => .panic "clone" w2
      | some (kid, _) =>
        match Map.insert cfg env { e with kid := kid } w2 with
        | .ok (_, w3) => bitorAssignLoop cfg env rest w3
        | .panic c w' => .panic c w'
        | .abort => .abort
        | .fault f => .fault f
    | .panic c w' => .panic c w'
    | .abort => .abort
    | .fault f => .fault f

def bitorAssign (cfg : Cfg) (env : Env) (other : Raw) (w : World) : Res World :=
  match elemsOf cfg other with
  | .error f => .fault f
  | .ok xs => bitorAssignLoop cfg env xs w

/-- `HashMap::retain` (map.rs:917) with an arbitrary predicate that may consume tapes but leaves
    `w.t` alone: `false` ⇒ erase and drop in place. -/
def retainByLoop (cfg : Cfg) (env : Env) (p : Elem → World → Res (Bool × World)) :
    Nat → RawIter → World → Res World
  | 0, _, _ => .fault "retain does not terminate"
  | fuel + 1, it, w =>
    match it.next cfg w.t with
    | .error f => .fault f
    | .ok (none, _) => .ok w
    | .ok (some idx, it') =>
      match slotGet w.t idx with
      | .error f => .fault f
      | .ok e =>
        match p e w with
        | .ok (true, w1) => retainByLoop cfg env p fuel it' w1
        | .ok (false, w1) =>
          match removeAt cfg w1.t idx with
          | .error f => .fault f
          | .ok (x, t2) =>
            let (dp, w2) := dropElem cfg env x { w1 with t := t2 }
            if dp then .panic "drop" w2 else retainByLoop cfg env p fuel it' w2
        | .panic c w' => .panic c w'
        | .abort => .abort
        | .fault f => .fault f

def retainBy (cfg : Cfg) (env : Env) (p : Elem → World → Res (Bool × World)) (w : World) : Res World :=
  match RawIter.new cfg w.t with
  | .error f => .fault f
  | .ok it => retainByLoop cfg env p (w.t.buckets + 2) it w

/-- `bitand_assign` (set.rs:1555): `self.retain(|item| rhs.contains(item))`. -/
def bitandAssign (cfg : Cfg) (env : Env) (other : Raw) (w : World) : Res World :=
  retainBy cfg env (fun e w => containsIn cfg env other e.k w) w

/-- `bitxor_assign` (set.rs:1586): per item of `rhs`: hash, `find_or_find_insert_slot` (with its
    `reserve(1)`), found ⇒ `table.remove(bucket)` and the removed element is dropped, not found ⇒
    `insert_in_slot(hash, slot, (item.clone(), ()))`. -/
def bitxorAssignLoop (cfg : Cfg) (env : Env) : List Elem → World → Res World
  | [], w => .ok w
  | e :: rest, w =>
    match search cfg env e.k none w with
    | .ok (_, .ok idx, w2) =>
      match removeAt cfg w2.t idx with
      | .error f => .fault f
      | .ok (x, t') =>
        let (dp, w3) := dropElem cfg env x { w2 with t := t' }
        if dp then .panic "drop" w3 else bitxorAssignLoop cfg env rest w3
    | .ok (h, .error slot, w2) =>
      let w3 := { w2 with cc := w2.cc + 1 }
      match (envOf env).clone w2.cc e with
      | none => .panic "clone" w3
      | some (kid, _) =>
        match insertInSlot cfg w3.t h slot { e with kid := kid } with
        | .error f => .fault f
        | .ok t' => bitxorAssignLoop cfg env rest { w3 with t := t' }
    | .panic c w' => .panic c w'
    | .abort => .abort
    | .fault f => .fault f

def bitxorAssign (cfg : Cfg) (env : Env) (other : Raw) (w : World) : Res World :=
  match elemsOf cfg other with
  | .error f => .fault f
  | .ok xs => bitxorAssignLoop cfg env xs w

/-- `for item in rhs { self.remove(item); }`. -/
def removeAllLoop (cfg : Cfg) (env : Env) : List Elem → World → Res World
  | [], w => .ok w
  | e :: rest, w =>
    match Map.remove cfg env e.k w with
    | .ok (_, w') => removeAllLoop cfg env rest w'
    | .panic c w' => .panic c w'
    | .abort => .abort
    | .fault f => .fault f

/-- `sub_assign` (set.rs:1629): strategy switch on `rhs.len() < self.len()`. -/
def subAssign (cfg : Cfg) (env : Env) (other : Raw) (w : World) : Res World :=
  if other.items < w.t.items then
    match elemsOf cfg other with
    | .error f => .fault f
    | .ok xs => removeAllLoop cfg env xs w
  else
    retainBy cfg env (fun e w => do
      let (b, w') ← containsIn cfg env other e.k w
      pure (!b, w')) w

end Hb.Set
