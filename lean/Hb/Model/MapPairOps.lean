/-
Operation-level view of the HashMap model over a PAIR of maps: every single-map call of `MapOpX`
on either map, plus the calls that involve two collections or replace a collection — `clone()`,
`clone_from(&other)`, `==`, `into_iter()`, `from_iter` / `collect`, `mem::take`. A target selector
`Side` (which of the two maps is `self`; the other one is the second operand), `Map.step2`
dispatching to the Layer-2 functions of `Hb/Model/Api.lean` / `Entry.lean`, `Map.run2` folding a
history and recording what each call returned (or the class of the panic it ended in).

The state mirrors the driver (`Hb/Driver/Main.lean`, `Hb/Driver/MapOps.lean`, `EntryOps.lean`) and
the set-pair model `Hb/Model/SetOps.lean`: two tables and ONE world (event log, call counters of
`Hash` / `Eq` / `Clone` / predicate / allocator / `Drop`). The world's table field holds map `a`; map
`b` is kept next to it. A call on side `b` is executed on the world with `t := b` and `other := a`
and the two tables are put back afterwards, exactly as the driver does
(`(self, other) := if tgt == "a" then (st.a, st.b) else (st.b, st.a)`).

Two-collection calls, as the driver executes them:
* `cloneToOther` (`clone_to_other`): the old `other` is dropped first (`dropInnerTable`: its elements in
  bucket order, then its block), then `other := target.clone()`. If the drop or the `Clone` unwinds,
  `other` is left as `new()` (driver: `some (Raw.new cfg.W)`); the target is never touched.
* `cloneFrom` (`clone_from`): `target.clone_from(&other)`.
* `eq`: `target == other`.
* `intoIter k` (`into_iter k`): `target.into_iter()`, `next` × `k`, then the iterator is dropped; the
  target holds `HashMap::new()` from the first moment on.
* `fromIter items` (`from_iter`): the old target is dropped, then `target := HashMap::from_iter(items)`.
* `take`: `drop(mem::take(target))` — the target becomes `new()` (`Default`), the taken map is dropped.
-/
import Hb.Model.MapOpsX
import Hb.Model.SetOps
namespace Hb

/-- Calls on a pair of `HashMap`s. Binary calls are `target.op(&other)`. -/
inductive PairOp where
  | on (op : MapOpX)                    -- any single-map call on the target
  | cloneToOther                        -- `other = target.clone()` (old `other` dropped first)
  | cloneFrom                           -- `target.clone_from(&other)`
  | eq                                  -- `target == other`
  | intoIter (k : Nat)                  -- `target.into_iter()`, `next` × `k`, drop; target = `new()`
  | fromIter (items : List Elem)        -- `target = HashMap::from_iter(items)` (old target dropped)
  | take                                -- `drop(mem::take(target))`
deriving Repr

/-- One call of a pair history: the target map and the call. -/
structure PairCall where
  side : Side
  op : PairOp
deriving Repr

namespace Map

/-- Two maps and one world: `w.t` is map `a`, `b` is map `b`. -/
structure Pair where
  w : World
  b : Raw

/-- Map `a` of the pair. -/
def Pair.a (s : Pair) : Raw := s.w.t

/-- Fresh pair `(HashMap::new(), HashMap::new())` with an empty log and zero counters. -/
def Pair.new (cfg : Cfg) : Pair := { w := { t := Raw.new cfg.W }, b := Raw.new cfg.W }

/-- The world as the call sees it (`t` = the target map) and the other map. -/
def Pair.view (s : Pair) : Side → World × Raw
  | .a => (s.w, s.b)
  | .b => ({ s.w with t := s.b }, s.w.t)

/-- Put the world a call left behind (`w'.t` = the target afterwards) and the other map afterwards
    back into the pair. -/
def Pair.put (_s : Pair) (side : Side) (w' : World) (other' : Raw) : Pair :=
  match side with
  | .a => { w := w', b := other' }
  | .b => { w := { w' with t := other' }, b := w'.t }

/-- Re-tag the result of a Layer-2 function as `(return value, other map afterwards)`. -/
def wrap2 {α : Type} (f : α → RetX) (other : Raw) (r : Res (α × World)) : Res ((RetX × Raw) × World) :=
  match r with
  | .ok (x, w') => .ok ((f x, other), w')
  | .panic c w' => .panic c w'
  | .abort => .abort
  | .fault f => .fault f

/-- The same for functions returning `()`. -/
def wrapU2 (other : Raw) (r : Res World) : Res ((RetX × Raw) × World) :=
  match r with
  | .ok w' => .ok ((.unit, other), w')
  | .panic c w' => .panic c w'
  | .abort => .abort
  | .fault f => .fault f

/-- `other = target.clone()` as the driver's `clone_to_other` runs it: drop the old `other`, then
    clone the target (`w.t`); the result is the new `other`. -/
def cloneToOther (cfg : Cfg) (env : Env) (other : Raw) (w : World) : Res ((RetX × Raw) × World) :=
  match (dropInnerTable cfg env other w).bind fun w1 => Map.cloneTable cfg env w1 with
  | .ok (nt, w') => .ok ((.unit, nt), w')
  | .panic c w' => .panic c w'
  | .abort => .abort
  | .fault f => .fault f

/-- `drop(mem::take(target))`: the target holds `HashMap::default()` = `new()`, the taken map is
    dropped (elements in bucket order, then the block). -/
def takeDrop (cfg : Cfg) (env : Env) (w : World) : Res World :=
  let old := w.t
  dropInnerTable cfg env old { w with t := Raw.new cfg.W }

/-- One call with `w.t` = target map and `other` = the second map: dispatch to the functions the
    driver executes. Returns what the call hands back and the OTHER map afterwards (only
    `cloneToOther` changes it). -/
def call2 (cfg : Cfg) (env : Env) (op : PairOp) (other : Raw) (w : World) :
    Res ((RetX × Raw) × World) :=
  match op with
  | .on op => wrap2 id other (stepX cfg env op w)
  | .cloneToOther => cloneToOther cfg env other w
  | .cloneFrom => wrapU2 other (Map.cloneFrom cfg env other w)
  | .eq => wrap2 (fun b => .base (.bool b)) other (Map.mapEq cfg env other w)
  | .intoIter k => wrap2 (fun l => .base (.elems l)) other (Map.intoIter cfg env k w)
  | .fromIter items => wrapU2 other (Map.fromIter cfg env items w)
  | .take => wrapU2 other (takeDrop cfg env w)

/-- The other map after a call that unwound: `clone_to_other` has already given up the old `other`
    (the driver stores `new()`), every other call leaves it alone. -/
def otherOnPanic (cfg : Cfg) : PairOp → Raw → Raw
  | .cloneToOther, _ => Raw.new cfg.W
  | _, other => other

/-- Outcome of one call on a pair. -/
inductive Out2 where
  | ret (r : RetX) (s : Pair)
  | panic (cls : String) (s : Pair)     -- a callback panicked; `s` is what unwinding left behind
  | abort
  | fault (f : String)

/-- One call on the pair. -/
def step2 (cfg : Cfg) (env : Env) (c : PairCall) (s : Pair) : Out2 :=
  match call2 cfg env c.op (s.view c.side).2 (s.view c.side).1 with
  | .ok ((r, o'), w') => .ret r (s.put c.side w' o')
  | .panic cls w' => .panic cls (s.put c.side w' (otherOnPanic cfg c.op (s.view c.side).2))
  | .abort => .abort
  | .fault f => .fault f

/-- Run a history on a pair. A panic is caught (`catch_unwind`) and the history goes on with whatever
    unwinding left behind. `none` = the implementation would have undefined behaviour (`fault`) or
    abort. -/
def run2 (cfg : Cfg) (env : Env) : List PairCall → Pair → Option (List ObsX × Pair)
  | [], s => some ([], s)
  | c :: rest, s =>
    match step2 cfg env c s with
    | .ret r s' => (run2 cfg env rest s').map fun (os, sf) => (.ret r :: os, sf)
    | .panic cls s' => (run2 cfg env rest s').map fun (os, sf) => (.panic cls :: os, sf)
    | .abort => none
    | .fault _ => none

/-- The pair run hit a `fault` (undefined behaviour in the real code) somewhere. -/
def run2Faults (cfg : Cfg) (env : Env) : List PairCall → Pair → Bool
  | [], _ => false
  | c :: rest, s =>
    match step2 cfg env c s with
    | .ret _ s' => run2Faults cfg env rest s'
    | .panic _ s' => run2Faults cfg env rest s'
    | .abort => false
    | .fault _ => true

/-- The pair after every prefix of a history (the states the client can observe between calls);
    stops at an abort / fault. -/
def states2 (cfg : Cfg) (env : Env) : List PairCall → Pair → List Pair
  | [], s => [s]
  | c :: rest, s =>
    s :: (match step2 cfg env c s with
      | .ret _ s' => states2 cfg env rest s'
      | .panic _ s' => states2 cfg env rest s'
      | .abort => []
      | .fault _ => [])

end Map
end Hb
