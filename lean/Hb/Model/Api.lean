/-
Layer 2 — public API of `HashMap` (`src/map.rs`), `HashSet` (`src/set.rs`), `HashTable`
(`src/table.rs`) as thin layers over Layer 1, including the glue the properties talk about:
which key object is kept, which arguments are dropped, when `reserve(1)` happens.
-/
import Hb.Model.Iter
namespace Hb

/-! ### `Res` plumbing -/

def Res.bind {α β} (r : Res α) (f : α → Res β) : Res β :=
  match r with
  | .ok a => f a
  | .panic c w => .panic c w
  | .abort => .abort
  | .fault f => .fault f

instance : Monad Res where
  pure := .ok
  bind := Res.bind

def liftE {α} (x : Except String α) : Res α :=
  match x with
  | .ok a => .ok a
  | .error f => .fault f

/-- Apply `g` to the world left behind when `r` unwinds (arguments dropped during unwinding). -/
def Res.onPanic {α} (r : Res α) (g : World → World) : Res α :=
  match r with
  | .panic c w => .panic c (g w)
  | r => r

/-- Drop a key object owned by the running operation; a panicking destructor unwinds. -/
def dropKeyR (cfg : Cfg) (env : Env) (kid : Nat) (w : World) : Res World :=
  let (p, w') := dropKey cfg env kid w
  if p then .panic "drop" w' else .ok w'

/-- `make_hash(&hash_builder, key)`. -/
def makeHash (env : Env) (key : Nat) (w : World) : Res (Nat × World) :=
  let (h, w') := w.hashCall env key
  match h with
  | some h => .ok (h, w')
  | none => .panic "hash" w'

inductive Ret where
  | unit
  | bool (b : Bool)
  | nat (n : Nat)
  | elem (e : Option Elem)
  | val (v : Option (Nat × Nat))          -- `(vid, payload)`
  | elems (l : List Elem)
  | tre (e : Option TryReserveError)
  | pair (a b : Ret)
deriving Repr

namespace Map

/-- `HashMap::insert` (map.rs:1790). While hashing / searching, the arguments `k`, `v` are still
    owned by the call and are dropped if a callback unwinds. Afterwards `v` has been moved into the
    table; the spare key `k` is dropped on return (if that destructor panics, the old value sitting
    in the return slot is leaked, which is rustc's behaviour for a panicking local destructor). -/
def insert (cfg : Cfg) (env : Env) (e : Elem) (w : World) : Res (Option (Nat × Nat) × World) :=
  let search : Res (Nat × Except Nat Nat × World) :=
    (do
      let (h, w1) ← makeHash env e.k w
      let (r, w2) ← findOrFindInsertSlot cfg env h e.k w1
      pure (h, r, w2)).onPanic (·.dropElemQuiet cfg e)
  match search with
  | .panic c w' => .panic c w'
  | .abort => .abort
  | .fault f => .fault f
  | .ok (_, .ok idx, w2) =>
    match slotGet w2.t idx with
    | .error f => .fault f
    | .ok old =>
      let t' := { w2.t with slots := w2.t.slots.setIfInBounds idx (some { old with vid := e.vid, v := e.v }) }
      match dropKeyR cfg env e.kid { w2 with t := t' } with
      | .ok w3 => .ok (some (old.vid, old.v), w3)
      | .panic c w' => .panic c w'
      | .abort => .abort
      | .fault f => .fault f
  | .ok (h, .error slot, w2) =>
    match insertInSlot cfg w2.t h slot e with
    | .error f => .fault f
    | .ok t' => .ok (none, { w2 with t := t' })

/-- `get_inner` (map.rs:1345): the stored element, if any. -/
def getInner (cfg : Cfg) (env : Env) (k : Nat) (w : World) : Res (Option Nat × World) :=
  if w.t.items = 0 then .ok (none, w)
  else do
    let (h, w1) ← makeHash env k w
    find cfg env h k w1

/-- `get_key_value` / `get` / `contains_key`. -/
def get (cfg : Cfg) (env : Env) (k : Nat) (w : World) : Res (Option Elem × World) := do
  let (r, w1) ← getInner cfg env k w
  match r with
  | none => pure (none, w1)
  | some idx =>
    let e ← liftE (slotGet w1.t idx)
    pure (some e, w1)

/-- `get_mut(k).map(|v| *v = nv)`: the payload is overwritten in place. -/
def getMut (cfg : Cfg) (env : Env) (k nv : Nat) (w : World) : Res (Option Elem × World) := do
  let (r, w1) ← getInner cfg env k w
  match r with
  | none => pure (none, w1)
  | some idx =>
    let e ← liftE (slotGet w1.t idx)
    let e' := { e with v := nv }
    pure (some e', { w1 with t := { w1.t with slots := w1.t.slots.setIfInBounds idx (some e') } })

/-- `remove_entry` (map.rs:1993). -/
def removeEntry (cfg : Cfg) (env : Env) (k : Nat) (w : World) : Res (Option Elem × World) := do
  let (h, w1) ← makeHash env k w
  let (r, w2) ← find cfg env h k w1
  match r with
  | none => pure (none, w2)
  | some idx =>
    let (e, t') ← liftE (removeAt cfg w2.t idx)
    pure (some e, { w2 with t := t' })

/-- `remove` (map.rs:1954): the stored key is dropped, the value returned. -/
def remove (cfg : Cfg) (env : Env) (k : Nat) (w : World) : Res (Option (Nat × Nat) × World) := do
  let (r, w1) ← removeEntry cfg env k w
  match r with
  | none => pure (none, w1)
  | some e =>
    let w2 ← dropKeyR cfg env e.kid w1
    pure (some (e.vid, e.v), w2)

/-- `HashMap::reserve`. -/
def reserve (cfg : Cfg) (env : Env) (n : Nat) (w : World) : Res World := Hb.reserve cfg env n w

/-- `HashMap::try_reserve`. -/
def tryReserve (cfg : Cfg) (env : Env) (n : Nat) (w : World) :
    Res (Option TryReserveError × World) := do
  let (r, w') ← Hb.tryReserve cfg env n w
  match r with
  | .ok () => pure (none, w')
  | .error e => pure (some e, w')

/-- `retain` (map.rs:917): predicate once per element in iteration order; `false` ⇒ erase, drop. -/
def retainLoop (cfg : Cfg) (env : Env) : Nat → RawIter → World → Res World
  | 0, _, _ => .fault "retain does not terminate"
  | fuel + 1, it, w =>
    match it.next cfg w.t with
    | .error f => .fault f
    | .ok (none, _) => .ok w
    | .ok (some idx, it') =>
      match slotGet w.t idx with
      | .error f => .fault f
      | .ok e =>
        let w1 := { w with pc := w.pc + 1 }
        match env.pred w.pc e with
        | none => .panic "pred" w1
        | some (keep, nv) =>
          let e' := { e with v := nv }
          let t1 := { w1.t with slots := w1.t.slots.setIfInBounds idx (some e') }
          if keep then retainLoop cfg env fuel it' { w1 with t := t1 }
          else
            match removeAt cfg t1 idx with
            | .error f => .fault f
            | .ok (x, t2) =>
              let (p, w2) := dropElem cfg env x { w1 with t := t2 }
              if p then .panic "drop" w2 else retainLoop cfg env fuel it' w2

def retain (cfg : Cfg) (env : Env) (w : World) : Res World :=
  match RawIter.new cfg w.t with
  | .error f => .fault f
  | .ok it => retainLoop cfg env (w.t.buckets + 2) it w

/-- One `ExtractIf::next` (raw/mod.rs:4150). -/
def extractNext (cfg : Cfg) (env : Env) : Nat → RawIter → World → Res (Option Elem × RawIter × World)
  | 0, _, _ => .fault "extract_if does not terminate"
  | fuel + 1, it, w =>
    match it.next cfg w.t with
    | .error f => .fault f
    | .ok (none, it') => .ok (none, it', w)
    | .ok (some idx, it') =>
      match slotGet w.t idx with
      | .error f => .fault f
      | .ok e =>
        let w1 := { w with pc := w.pc + 1 }
        match env.pred w.pc e with
        | none => .panic "pred" w1
        | some (take, nv) =>
          let e' := { e with v := nv }
          let t1 := { w1.t with slots := w1.t.slots.setIfInBounds idx (some e') }
          if take then
            match removeAt cfg t1 idx with
            | .error f => .fault f
            | .ok (x, t2) => .ok (some x, it', { w1 with t := t2 })
          else extractNext cfg env fuel it' { w1 with t := t1 }

/-- `extract_if`, `next` called up to `k` times, then dropped. -/
def extractIfLoop (cfg : Cfg) (env : Env) : Nat → RawIter → World → List Elem → Res (List Elem × World)
  | 0, _, w, acc => .ok (acc.reverse, w)
  | k + 1, it, w, acc =>
    match extractNext cfg env (w.t.buckets + 2) it w with
    | .ok (none, _, w') => .ok (acc.reverse, w')
    | .ok (some x, it', w') => extractIfLoop cfg env k it' w' (x :: acc)
    | .panic c w' => .panic c w'
    | .abort => .abort
    | .fault f => .fault f

def extractIf (cfg : Cfg) (env : Env) (k : Nat) (w : World) : Res (List Elem × World) :=
  match RawIter.new cfg w.t with
  | .error f => .fault f
  | .ok it => extractIfLoop cfg env k it w []

/-- Move out up to `k` elements through a raw iterator over table `t` (`RawDrain::next` /
    `RawIntoIter::next`). -/
def takeLoop (cfg : Cfg) : Nat → RawIter → Raw → List Elem → Except String (List Elem × RawIter × Raw)
  | 0, it, t, acc => .ok (acc.reverse, it, t)
  | k + 1, it, t, acc =>
    match it.next cfg t with
    | .error f => .error f
    | .ok (none, it') => .ok (acc.reverse, it', t)
    | .ok (some idx, it') =>
      match slotTake t idx with
      | .error f => .error f
      | .ok (e, t') => takeLoop cfg k it' t' (e :: acc)

/-- `RawIter::drop_elements` (raw/mod.rs:3662) over a detached table. -/
def iterDropLoop (cfg : Cfg) (env : Env) : Nat → RawIter → Raw → World → Res (Bool × Raw × World)
  | 0, _, _, _ => .fault "drop_elements does not terminate"
  | fuel + 1, it, t, w =>
    match it.next cfg t with
    | .error f => .fault f
    | .ok (none, _) => .ok (false, t, w)
    | .ok (some idx, it') =>
      match slotTake t idx with
      | .error f => .fault f
      | .ok (e, t') =>
        let (p, w') := dropElem cfg env e w
        if p then .ok (true, t', w') else iterDropLoop cfg env fuel it' t' w'

def iterDropElements (cfg : Cfg) (env : Env) (it : RawIter) (t : Raw) (w : World) :
    Res (Bool × Raw × World) :=
  if cfg.needsDrop ∧ it.items ≠ 0 then iterDropLoop cfg env (t.buckets + 2) it t w
  else .ok (false, t, w)

/-- `drain()` (raw/mod.rs:1344), `next` × `k`, then drop (`forget = false`) or `mem::forget`. -/
def drain (cfg : Cfg) (env : Env) (k : Nat) (forget : Bool) (w : World) : Res (List Elem × World) :=
  match RawIter.new cfg w.t with
  | .error f => .fault f
  | .ok it =>
    -- the table is moved into the drain, the collection holds `NEW` meanwhile
    let held := w.t
    let w0 := { w with t := Raw.new cfg.W }
    match takeLoop cfg k it held [] with
    | .error f => .fault f
    | .ok (out, it', held') =>
      if forget then .ok (out, w0)
      else
        match iterDropElements cfg env it' held' w0 with
        | .ok (p, held'', w1) =>
          let back := clearNoDrop { held'' with slots := Array.replicate held''.slots.size none }
          -- a panicking destructor unwinds out of `RawDrain::drop` before the table is put back
          if p then .panic "drop" w1 else .ok (out, { w1 with t := back })
        | .panic c w' => .panic c w'
        | .abort => .abort
        | .fault f => .fault f

/-- `into_iter()` of the collection (replaced by a fresh `new()`), `next` × `k`, then drop. -/
def intoIter (cfg : Cfg) (env : Env) (k : Nat) (w : World) : Res (List Elem × World) :=
  match RawIter.new cfg w.t with
  | .error f => .fault f
  | .ok it =>
    let held := w.t
    let w0 := { w with t := Raw.new cfg.W }
    match takeLoop cfg k it held [] with
    | .error f => .fault f
    | .ok (out, it', held') =>
      match iterDropElements cfg env it' held' w0 with
      | .ok (p, _, w1) =>
        if p then .panic "drop" w1          -- allocation leaked
        else if held.isEmptySingleton then .ok (out, w1)
        else
          match freeBuckets cfg held.mask w1 with
          | .ok w2 => .ok (out, w2)
          | .panic c w' => .panic c w'
          | .abort => .abort
          | .fault f => .fault f
      | .panic c w' => .panic c w'
      | .abort => .abort
      | .fault f => .fault f

/-- Iterator observation (C09): `next` × `p`, then `clone`; the original is `fold`ed, the clone is
    drained with `next`; `size_hint` lower bounds recorded before every `next`.
    Returns `(prefix, folded rest, clone's rest, size hints)`. -/
def iterObserve (cfg : Cfg) (t : Raw) (p : Nat) :
    Except String (List Nat × List Nat × List Nat × List Nat) :=
  match RawIter.new cfg t with
  | .error f => .error f
  | .ok it =>
    let rec pre (k : Nat) (it : RawIter) (acc hints : List Nat) :
        Except String (List Nat × List Nat × RawIter) :=
      match k with
      | 0 => .ok (acc.reverse, hints.reverse, it)
      | k + 1 =>
        match it.next cfg t with
        | .error f => .error f
        | .ok (none, it') => .ok (acc.reverse, (it.items :: hints).reverse, it')
        | .ok (some i, it') => pre k it' (i :: acc) (it.items :: hints)
    match pre p it [] [] with
    | .error f => .error f
    | .ok (prefix_, hints, it1) =>
      match it1.fold cfg t, RawIter.drainAll cfg t (t.buckets + 2) it1 [] with
      | .error f, _ => .error f
      | _, .error f => .error f
      | .ok folded, .ok rest => .ok (prefix_, folded, rest, hints ++ [it1.items])

/-- `clone_from_impl` (raw/mod.rs:3290) into a fresh table with the source's bucket count: control
    bytes copied, then every element cloned in iteration order. A `Clone` panic drops the clones
    made so far (guard at :3297). `dst` has `src.buckets` buckets. -/
def cloneLoop (env : Env) (src : Raw) : List Nat → Raw → World → Res (Raw × World)
  | [], dst, w => .ok (dst, w)
  | i :: rest, dst, w =>
    match slotGet src i with
    | .error f => .fault f
    | .ok e =>
      let w1 := { w with cc := w.cc + 1 }
      match env.clone w.cc e with
      | none => .panic "clone" { w1 with t := dst }     -- caller applies its guard to `t`
      | some (kid, vid) =>
        match dst.slots[i]? with
        | some none =>
          cloneLoop env src rest { dst with slots := dst.slots.setIfInBounds i (some { e with kid := kid, vid := vid }) } w1
        | some (some _) => .fault s!"clone overwrites live slot {i}"
        | none => .fault s!"slot {i} of {dst.slots.size}"

/-- Guard of `clone_from_impl`: drop the clones already written (all live slots of `dst`). -/
def cloneGuardDrop (cfg : Cfg) (dst : Raw) (w : World) : World :=
  dst.slots.foldl (fun w s => match s with | some e => w.dropElemQuiet cfg e | none => w) w

/-- `RawTable::clone` (raw/mod.rs:3154): result table and world (`w.t` untouched = source). -/
def cloneTable (cfg : Cfg) (env : Env) (w : World) : Res (Raw × World) :=
  let src := w.t
  if src.isEmptySingleton then .ok (Raw.new cfg.W, w)
  else
    match newTable cfg env src.buckets .infallible w with
    | .ok (.error _, _) => .fault "unreachable_unchecked in clone"
    | .panic c w' => .panic c w'
    | .abort => .abort
    | .fault f => .fault f
    | .ok (.ok fresh, w1) =>
      let dst0 := { fresh with ctrl := src.ctrl }
      match fullIndices cfg src src.items with
      | .error f => .fault f
      | .ok idxs =>
        match cloneLoop env src idxs dst0 w1 with
        | .ok (dst, w2) => .ok ({ dst with items := src.items, gl := src.gl }, { w2 with t := src })
        | .panic c w' =>
          -- guard drops the clones; then `new_table` is dropped with `items = 0`: block freed
          let w'' := cloneGuardDrop cfg w'.t w'
          match freeBuckets cfg src.mask { w'' with t := src } with
          | .ok w3 => .panic c w3
          | r => r.bind fun _ => .fault "unreachable"
        | .abort => .abort
        | .fault f => .fault f

/-- `RawTable::clone_from` (raw/mod.rs:3187): `w.t` is the target, `src` the source. -/
def cloneFrom (cfg : Cfg) (env : Env) (src : Raw) (w : World) : Res World :=
  if src.isEmptySingleton then
    let old := w.t
    dropInnerTable cfg env old { w with t := Raw.new cfg.W }
  else
    -- guard: `clear_no_drop` on unwind
    let guard (w : World) : World :=
      { w with t := clearNoDrop { w.t with slots := Array.replicate w.t.slots.size none } }
    match dropElements cfg env w with
    | .panic c w' => .panic c (guard w')
    | .abort => .abort
    | .fault f => .fault f
    | .ok (true, w1) => .panic "drop" (guard w1)
    | .ok (false, w1) =>
      let w1 := { w1 with t := { w1.t with slots := Array.replicate w1.t.slots.size none } }
      let step2 : Res World :=
        if w1.t.buckets ≠ src.buckets then
          match newTable cfg env src.buckets .infallible w1 with
          | .ok (.error _, _) => .fault "unreachable_unchecked in clone_from"
          | .panic c w' => .panic c (guard w')
          | .abort => .abort
          | .fault f => .fault f
          | .ok (.ok fresh, w2) =>
            let old := w2.t
            let w3 := { w2 with t := fresh }
            if old.isEmptySingleton then .ok w3 else freeBuckets cfg old.mask w3
        else .ok w1
      match step2 with
      | .ok w4 =>
        let dst0 := { w4.t with ctrl := src.ctrl }
        match fullIndices cfg src src.items with
        | .error f => .fault f
        | .ok idxs =>
          match cloneLoop env src idxs dst0 w4 with
          | .ok (dst, w5) => .ok { w5 with t := { dst with items := src.items, gl := src.gl } }
          | .panic c w' =>
            let w'' := cloneGuardDrop cfg w'.t w'
            .panic c (guard w'')
          | .abort => .abort
          | .fault f => .fault f
      | r => r

/-- `PartialEq for HashMap` (map.rs:2092): `len` equal and every `(k, v)` of `a` found in `b`
    with an equal value. `w.t = a`. -/
def eqLoop (cfg : Cfg) (env : Env) (a : Raw) (b : Raw) : List Nat → World → Res (Bool × World)
  | [], w => .ok (true, w)
  | i :: rest, w =>
    match slotGet a i with
    | .error f => .fault f
    | .ok e =>
      match getInner cfg env e.k { w with t := b } with
      | .ok (none, w1) => .ok (false, w1)
      | .ok (some j, w1) =>
        match slotGet b j with
        | .error f => .fault f
        | .ok e' => if e.v = e'.v then eqLoop cfg env a b rest w1 else .ok (false, w1)
      | .panic c w' => .panic c w'
      | .abort => .abort
      | .fault f => .fault f

def mapEq (cfg : Cfg) (env : Env) (b : Raw) (w : World) : Res (Bool × World) :=
  let a := w.t
  if a.items ≠ b.items then .ok (false, w)
  else
    match fullIndices cfg a a.items with
    | .error f => .fault f
    | .ok idxs =>
      match eqLoop cfg env a b idxs w with
      | .ok (r, w') => .ok (r, { w' with t := a })
      | .panic c w' => .panic c { w' with t := a }
      | .abort => .abort
      | .fault f => .fault f

end Map

end Hb
