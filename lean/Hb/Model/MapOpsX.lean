/-
Extended operation-level view of the HashMap model: `MapOpX` adds to the basic calls of `MapOp` the
entry-style APIs (`entry`, `entry_ref`, `rustc_entry`, `raw_entry_mut`, `raw_entry`), `try_insert`,
`extend`, `get_many_mut` and `Index`, each followed by one complete method chain, so that ONE history
theorem speaks about every interleaving of all modelled `HashMap` calls. `Map.stepX` dispatches to the
same Layer-2 functions the driver executes (`Hb/Model/Entry.lean`), `Map.runX` folds a history.
-/
import Hb.Model.MapOps
import Hb.Model.Entry
namespace Hb
open Map (EChain RawChain RawMode EOut)

/-- Calls of the `HashMap` API covered by the extended history theorems. -/
inductive MapOpX where
  | base (op : MapOp)
  | entry (k kid : Nat) (c : EChain)                 -- map.entry(K(k,kid)) + chain
  | entryRef (k newkid : Nat) (c : EChain)           -- map.entry_ref(&Q(k)) + chain
  | rustcEntry (k kid : Nat) (c : EChain)            -- map.rustc_entry(K(k,kid)) + chain
  | rawEntry (mode : RawMode) (ph k : Nat) (c : RawChain)  -- raw_entry_mut().from_*(..) + chain
  | rawGet (mode : RawMode) (ph k : Nat)             -- raw_entry().from_*(..)
  | tryInsert (e : Elem)
  | extend (items : List Elem)
  | getManyMut (ks : List Nat)                       -- get_many_mut / get_many_key_value_mut
  | index (k : Nat)                                  -- map[&k]
deriving Repr

/-- What an extended call hands back. -/
inductive RetX where
  | base (r : Ret)
  | ent (occupied : Bool) (out : EOut)
  | elem (e : Option Elem)
  | many (l : List (Option Elem))
  | val (vid v : Nat)
  | unit
deriving Repr

namespace Map

/-- Outcome of one extended call. -/
def stepX (cfg : Cfg) (env : Env) (op : MapOpX) (w : World) : Res (RetX × World) :=
  match op with
  | .base op =>
    match step cfg env op w with
    | .ok (r, w') => .ok (.base r, w')
    | .panic c w' => .panic c w'
    | .abort => .abort
    | .fault f => .fault f
  | .entry k kid c =>
    match entry cfg env k kid c w with
    | .ok ((b, o), w') => .ok (.ent b o, w')
    | .panic c w' => .panic c w'
    | .abort => .abort
    | .fault f => .fault f
  | .entryRef k newkid c =>
    match entryRef cfg env k newkid c w with
    | .ok ((b, o), w') => .ok (.ent b o, w')
    | .panic c w' => .panic c w'
    | .abort => .abort
    | .fault f => .fault f
  | .rustcEntry k kid c =>
    match rustcEntry cfg env k kid c w with
    | .ok ((b, o), w') => .ok (.ent b o, w')
    | .panic c w' => .panic c w'
    | .abort => .abort
    | .fault f => .fault f
  | .rawEntry mode ph k c =>
    match rawEntry cfg env mode ph k c w with
    | .ok ((b, o), w') => .ok (.ent b o, w')
    | .panic c w' => .panic c w'
    | .abort => .abort
    | .fault f => .fault f
  | .rawGet mode ph k =>
    match rawGet cfg env mode ph k w with
    | .ok (r, w') => .ok (.elem r, w')
    | .panic c w' => .panic c w'
    | .abort => .abort
    | .fault f => .fault f
  | .tryInsert e =>
    match tryInsert cfg env e w with
    | .ok ((b, o), w') => .ok (.ent b o, w')
    | .panic c w' => .panic c w'
    | .abort => .abort
    | .fault f => .fault f
  | .extend items =>
    match extend cfg env items w with
    | .ok w' => .ok (.unit, w')
    | .panic c w' => .panic c w'
    | .abort => .abort
    | .fault f => .fault f
  | .getManyMut ks =>
    match getManyMut cfg env ks w with
    | .ok (l, w') => .ok (.many l, w')
    | .panic c w' => .panic c w'
    | .abort => .abort
    | .fault f => .fault f
  | .index k =>
    match index cfg env k w with
    | .ok ((vid, v), w') => .ok (.val vid v, w')
    | .panic c w' => .panic c w'
    | .abort => .abort
    | .fault f => .fault f

/-- What the client observes of one extended call (a panic is caught and the history goes on). -/
inductive ObsX where
  | ret (r : RetX)
  | panic (cls : String)
deriving Repr

/-- Run an extended history. `none` = undefined behaviour (`fault`) or abort. -/
def runX (cfg : Cfg) (env : Env) : List MapOpX → World → Option (List ObsX × World)
  | [], w => some ([], w)
  | op :: rest, w =>
    match stepX cfg env op w with
    | .ok (r, w') => (runX cfg env rest w').map fun (os, wf) => (.ret r :: os, wf)
    | .panic c w' => (runX cfg env rest w').map fun (os, wf) => (.panic c :: os, wf)
    | .abort => none
    | .fault _ => none

/-- The extended run hit a `fault` (undefined behaviour in the real code) somewhere. -/
def runXFaults (cfg : Cfg) (env : Env) : List MapOpX → World → Bool
  | [], _ => false
  | op :: rest, w =>
    match stepX cfg env op w with
    | .ok (_, w') => runXFaults cfg env rest w'
    | .panic _ w' => runXFaults cfg env rest w'
    | .abort => false
    | .fault _ => true

end Map
end Hb
