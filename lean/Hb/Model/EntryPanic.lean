/-
A user closure that panics inside `OccupiedEntry::replace_entry_with` (map.rs:3982 →
`RawTable::replace_bucket_with`, raw/mod.rs:1113). The element is erased from the table BEFORE the
closure runs (`self.remove(bucket)`), so when the closure unwinds the key and value it was given are
dropped exactly once by the unwinding and the table is left without the element.
-/
import Hb.Model.Entry
namespace Hb.Map

/-- `map.entry(K(k, kid))` then, if occupied, `replace_entry_with(|_, _| panic!())`; a vacant entry
    is dropped unused. `true` = was occupied (never returned: that path unwinds). -/
def entryReplacePanic (cfg : Cfg) (env : Env) (k kid : Nat) (w : World) : Res (Bool × World) :=
  (entryLook cfg env k kid w).bind fun ((_, r), w1) =>
    match r with
    | some idx =>
      match removeAt cfg w1.t idx with
      | .error f => .fault f
      | .ok (x, t') => .panic "pred" (({ w1 with t := t' } : World).dropElemQuiet cfg x)
    | none => (dropKeyR cfg env kid w1).bind fun w2 => .ok (false, w2)

end Hb.Map
