/-
A user closure that panics inside `OccupiedEntry::replace_entry_with` (map.rs:3982 →
`RawTable::replace_bucket_with`, raw/mod.rs:1113). The element is erased from the table BEFORE the
closure runs (`self.remove(bucket)`), so when the closure unwinds the key and value it was given are
dropped exactly once by the unwinding and the table is left without the element.
-/
import Hb.Model.Entry
namespace Hb.Map

/-- `map.entry(K(k, kid))` then, if occupied, `replace_entry_with(|_, _| panic!())`; a vacant entry
    is dropped unused. `true` = was occupied (never returned: that path unwinds). -/
def entryReplacePanic (cfg : Cfg) (env : Env) (k kid : Nat) (w : World) : Res (Bool × World) :=
  (entryLook cfg env k kid w).bind fun ((_, r), w1) =>
    match r with
    | some idx =>
      match removeAt cfg w1.t idx with
      | .error f => .fault f
      | .ok (x, t') => .panic "pred" (({ w1 with t := t' } : World).dropElemQuiet cfg x)
    | none => (dropKeyR cfg env kid w1).bind fun w2 => .ok (false, w2)

/-- `raw_entry_mut().from_*(..)` then, if occupied, `replace_entry_with(|_, _| panic!())` (raw_entry.rs →
    `RawTable::replace_bucket_with`): the element is out of the table when the closure runs and is dropped
    by the unwinding. The same for `RawEntryMut::and_replace_entry_with`. -/
def rawReplacePanic (cfg : Cfg) (env : Env) (mode : RawMode) (ph k : Nat) (w : World) : Res (Bool × World) :=
  (rawLook cfg env mode ph k w).bind fun (r, w1) =>
    match r with
    | some idx =>
      match removeAt cfg w1.t idx with
      | .error f => .fault f
      | .ok (x, t') => .panic "pred" (({ w1 with t := t' } : World).dropElemQuiet cfg x)
    | none => .ok (false, w1)

/-- `map.entry(K(k, kid)).or_insert_with(|| panic!())`: occupied — the closure is not called; vacant — the
    closure unwinds, nothing was inserted, the `VacantEntry` (and the key it owns) is dropped. -/
def entryOrInsertWithPanic (cfg : Cfg) (env : Env) (k kid : Nat) (w : World) : Res (Bool × World) :=
  (entryLook cfg env k kid w).bind fun ((_, r), w1) =>
    match r with
    | some _ => .ok (true, w1)
    | none => .panic "pred" (w1.dropKeyQuiet cfg kid)

/-- `map.entry(K(k, kid)).and_modify(|_| panic!())`: occupied — the closure unwinds with the table as it
    was; vacant — the closure is not called and the unused entry (with its key) is dropped. -/
def entryAndModifyPanic (cfg : Cfg) (env : Env) (k kid : Nat) (w : World) : Res (Bool × World) :=
  (entryLook cfg env k kid w).bind fun ((_, r), w1) =>
    match r with
    | some _ => .panic "pred" w1
    | none => (dropKeyR cfg env kid w1).bind fun w2 => .ok (false, w2)

end Hb.Map
