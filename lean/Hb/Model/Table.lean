/-
Layer 2 — public API of `HashTable<T>` (`src/table.rs`) over Layer 1.

The caller supplies the hash of every probe / new element (`hash` below, it does not consume the
hash oracle); the `hasher` closure handed to `insert_unique` / `entry` / `reserve` / `shrink_to*` is
`env.hash` applied to the stored element's key (consumes the oracle, may panic); equality closures
are `env.eq probe stored`.

Elements of a table are `Elem`s with `vid := 0`. A zero-sized `T` (`cfg.size = 0`) has no fields:
every element is `⟨0, 0, 0, 0⟩` and writes to the payload are no-ops.

Operations whose code path is the same `RawTable` call as in `HashMap` reuse `Hb.Map.*`
(`retain`, `extract_if`, `drain`, `into_iter`, `clone`) and Layer 1 (`clear`, `reserve`,
`try_reserve`, `shrink_to`) — with the environment adapted by `envFor`.
-/
import Hb.Model.Api
namespace Hb.Table

/-- The oracles as seen by a table of `T`: a clone has no value object; a zero-sized element has no
    identity and no payload (the predicate's `v += 7` writes nothing). -/
def envFor (cfg : Cfg) (env : Env) : Env :=
  { env with
    clone := fun c e => (env.clone c e).map fun (kid, _) => (if cfg.size = 0 then 0 else kid, 0)
    pred := fun c e => (env.pred c e).map fun (a, nv) => (a, if cfg.size = 0 then e.v else nv) }

/-- The element `T::new(k, id, v)`. -/
def mkElem (cfg : Cfg) (k id v : Nat) : Elem :=
  if cfg.size = 0 then ⟨0, 0, 0, 0⟩ else ⟨k, id, 0, v⟩

/-- `e.v = nv` through a `&mut T`. -/
def setV (cfg : Cfg) (e : Elem) (nv : Nat) : Elem :=
  if cfg.size = 0 then e else { e with v := nv }

/-- Drop of an element owned by the running operation (not unwinding): a panicking destructor unwinds. -/
def dropElemR (cfg : Cfg) (env : Env) (e : Elem) (w : World) : Res World :=
  let (p, w') := dropElem cfg env e w
  if p then .panic "drop" w' else .ok w'

/-- `HashTable::insert_unique(hash, value, hasher)` (table.rs:404) = `RawTable::insert`. `value` is owned by
    the call: dropped if the hasher unwinds during `reserve(1)`. -/
def insertUnique (cfg : Cfg) (env : Env) (hash : Nat) (e : Elem) (w : World) : Res World :=
  match (rawInsert cfg env hash e w).onPanic (·.dropElemQuiet cfg e) with
  | .ok (_, w') => .ok w'
  | .panic c w' => .panic c w'
  | .abort => .abort
  | .fault f => .fault f

/-- `HashTable::find(hash, eq)` (table.rs:223) = `RawTable::get` = `find` + `as_ref`. No `is_empty`
    short cut: the static singleton is probed like any table. -/
def findElem (cfg : Cfg) (env : Env) (hash q : Nat) (w : World) : Res (Option Elem × World) := do
  let (r, w1) ← find cfg env hash q w
  match r with
  | none => pure (none, w1)
  | some idx =>
    let e ← liftE (slotGet w1.t idx)
    pure (some e, w1)

/-- `find_mut(hash, eq).map(|e| e.v = nv)` (table.rs:261). -/
def findMut (cfg : Cfg) (env : Env) (hash q nv : Nat) (w : World) : Res (Option Elem × World) := do
  let (r, w1) ← find cfg env hash q w
  match r with
  | none => pure (none, w1)
  | some idx =>
    let e ← liftE (slotGet w1.t idx)
    let e' := setV cfg e nv
    pure (some e', { w1 with t := { w1.t with slots := w1.t.slots.setIfInBounds idx (some e') } })

/-- `find_entry(hash, eq)` (table.rs:299, `RawTable::find`), then on `Ok(occ)`: `occ.remove()`
    (table.rs:1619: `RawTable::remove(bucket)` = `erase_no_drop` + `read`, returning the bucket as
    `InsertSlot`), and — if `re = some new` — `VacantEntry::insert(new)` (table.rs:1863:
    `insert_in_slot(hash, slot, new)`; the slot's control byte is whatever `erase` left, EMPTY or
    DELETED, which decides whether `growth_left` is charged). `new` is owned by the operation: dropped
    when `eq` unwinds, and dropped (not unwinding) when the entry is absent. -/
def findEntryRemove (cfg : Cfg) (env : Env) (hash q : Nat) (re : Option Elem) (w : World) :
    Res (Option Elem × World) :=
  let dropRe (w : World) : World := match re with | some ne => w.dropElemQuiet cfg ne | none => w
  match (find cfg env hash q w).onPanic dropRe with
  | .panic c w' => .panic c w'
  | .abort => .abort
  | .fault f => .fault f
  | .ok (none, w1) =>
    match re with
    | none => .ok (none, w1)
    | some ne =>
      match dropElemR cfg env ne w1 with
      | .ok w2 => .ok (none, w2)
      | .panic c w' => .panic c w'
      | .abort => .abort
      | .fault f => .fault f
  | .ok (some idx, w1) =>
    match removeAt cfg w1.t idx with
    | .error f => .fault f
    | .ok (old, t1) =>
      match re with
      | none => .ok (some old, { w1 with t := t1 })
      | some ne =>
        match insertInSlot cfg t1 hash idx ne with
        | .error f => .fault f
        | .ok t2 => .ok (some old, { w1 with t := t2 })

/-- `HashTable::entry(hash, eq, hasher)` (table.rs:359) = `find_or_find_insert_slot`: `reserve(1)` BEFORE
    the search. `ok idx` = `Entry::Occupied`, `error slot` = `Entry::Vacant`. -/
def entry (cfg : Cfg) (env : Env) (hash q : Nat) (w : World) : Res (Except Nat Nat × World) :=
  findOrFindInsertSlot cfg env hash q w

/-- `entry(..).insert(new)` (table.rs:1349): Occupied ⇒ `*occ.get_mut() = new` (the old element is
    dropped in place; the assignment completes even if that destructor panics), Vacant ⇒
    `insert_in_slot`. Returns `true` for Occupied. -/
def entryInsert (cfg : Cfg) (env : Env) (hash q : Nat) (ne : Elem) (w : World) : Res (Bool × World) :=
  match (entry cfg env hash q w).onPanic (·.dropElemQuiet cfg ne) with
  | .panic c w' => .panic c w'
  | .abort => .abort
  | .fault f => .fault f
  | .ok (.ok idx, w1) =>
    match slotGet w1.t idx with
    | .error f => .fault f
    | .ok old =>
      let t' := { w1.t with slots := w1.t.slots.setIfInBounds idx (some ne) }
      let (p, w2) := dropElem cfg env old { w1 with t := t' }
      if p then .panic "drop" w2 else .ok (true, w2)
  | .ok (.error slot, w1) =>
    match insertInSlot cfg w1.t hash slot ne with
    | .error f => .fault f
    | .ok t' => .ok (false, { w1 with t := t' })

/-- `entry(..).or_insert(new)` (table.rs:1397): Occupied ⇒ `new` is dropped by `or_insert`. -/
def entryOrInsert (cfg : Cfg) (env : Env) (hash q : Nat) (ne : Elem) (w : World) : Res (Bool × World) :=
  match (entry cfg env hash q w).onPanic (·.dropElemQuiet cfg ne) with
  | .panic c w' => .panic c w'
  | .abort => .abort
  | .fault f => .fault f
  | .ok (.ok _, w1) =>
    match dropElemR cfg env ne w1 with
    | .ok w2 => .ok (true, w2)
    | .panic c w' => .panic c w'
    | .abort => .abort
    | .fault f => .fault f
  | .ok (.error slot, w1) =>
    match insertInSlot cfg w1.t hash slot ne with
    | .error f => .fault f
    | .ok t' => .ok (false, { w1 with t := t' })

/-- `entry(..).and_modify(|e| e.v = nv)` (table.rs:1486); the entry is then dropped (a vacant entry
    leaves the table as `reserve(1)` left it). -/
def entryAndModify (cfg : Cfg) (env : Env) (hash q nv : Nat) (w : World) : Res (Bool × World) := do
  let (r, w1) ← entry cfg env hash q w
  match r with
  | .ok idx =>
    let e ← liftE (slotGet w1.t idx)
    pure (true, { w1 with t := { w1.t with slots := w1.t.slots.setIfInBounds idx (some (setV cfg e nv)) } })
  | .error _ => pure (false, w1)

/-- `iter_hash(hash)` / `iter_hash_mut(hash)` (table.rs:776, :829) run to the end: bucket indices in
    yield order. -/
def iterHash (cfg : Cfg) (t : Raw) (hash : Nat) : Except String (List Nat) :=
  match RawIterHash.new cfg t hash with
  | .error f => .error f
  | .ok it => RawIterHash.all cfg t (2 * t.ctrl.size + 2) it []

/-- `get_many_mut_pointers` (raw/mod.rs:1268): `find` per request, in request order. With `any` the
    closure is `|_, _| true` (no oracle consulted). -/
def getManyLoop (cfg : Cfg) (env : Env) (any : Bool) :
    List (Nat × Nat) → World → List (Option Nat) → Res (List (Option Nat) × World)
  | [], w, acc => .ok (acc.reverse, w)
  | (hash, q) :: rest, w, acc =>
    let r :=
      if any then
        match find cfg { env with eq := fun _ _ _ => some true } hash q w with
        | .ok (r, w') => Res.ok (r, { w' with ec := w.ec })
        | .panic c w' => .panic c { w' with ec := w.ec }
        | .abort => .abort
        | .fault f => .fault f
      else find cfg env hash q w
    match r with
    | .ok (r, w') => getManyLoop cfg env any rest w' (r :: acc)
    | .panic c w' => .panic c w'
    | .abort => .abort
    | .fault f => .fault f

/-- The duplicate check of `RawTable::get_many_mut` (raw/mod.rs:1246): `ptrs[..i].contains(cur)` on
    `Option<NonNull<T>>` obtained from `Bucket::as_non_null()`. For `size_of::<T>() ≠ 0` two
    pointers are equal iff the buckets are; for a zero-sized `T` `Bucket::as_ptr` returns the same
    dangling pointer for every bucket, so any two found requests compared equal in 0.15.2 (defect F2,
    `cfg.zstDupFixed = false`); the repaired code compares buckets (`cfg.zstDupFixed = true`). -/
def hasDup (cfg : Cfg) : List (Option Nat) → Bool
  | [] => false
  | none :: rest => hasDup cfg rest
  | some i :: rest =>
    rest.any (fun o => match o with | some j => (cfg.size == 0 && !cfg.zstDupFixed) || i == j | none => false) || hasDup cfg rest

/-- `get_many_mut(hashes, eq)` (table.rs:1041), then `v += 1000 * (i + 1)` through every returned
    reference. Result: the elements as returned (before the writes). -/
def getManyMut (cfg : Cfg) (env : Env) (any : Bool) (reqs : List (Nat × Nat)) (w : World) :
    Res (List (Option Elem) × World) :=
  match getManyLoop cfg env any reqs w [] with
  | .panic c w' => .panic c w'
  | .abort => .abort
  | .fault f => .fault f
  | .ok (idxs, w1) =>
    if hasDup cfg idxs then .panic "dup" w1
    else
      let rec go (l : List (Option Nat)) (i : Nat) (t : Raw) (acc : List (Option Elem)) :
          Except String (List (Option Elem) × Raw) :=
        match l with
        | [] => .ok (acc.reverse, t)
        | none :: rest => go rest (i + 1) t (none :: acc)
        | some idx :: rest =>
          match slotGet t idx with
          | .error f => .error f
          | .ok e =>
            let t' := { t with slots := t.slots.setIfInBounds idx (some (setV cfg e (e.v + 1000 * (i + 1)))) }
            go rest (i + 1) t' (some e :: acc)
      match go idxs 0 w1.t [] with
      | .error f => .fault f
      | .ok (out, t') => .ok (out, { w1 with t := t' })

/-- `HashTable` implements `Clone::clone` only (table.rs:1173); `clone_from` is the default
    `*self = source.clone()`: clone first (the target is untouched if that unwinds), then drop the
    old target (`drop_inner_table`), then move the clone in — also when a destructor of the old
    target panics (the assignment completes on the unwind path; the old allocation leaks). -/
def cloneFrom (cfg : Cfg) (env : Env) (src : Raw) (w : World) : Res World :=
  let old := w.t
  match Map.cloneTable cfg env { w with t := src } with
  | .ok (nt, w1) => dropInnerTable cfg env old { w1 with t := nt }
  | .panic c w' => .panic c { w' with t := old }
  | .abort => .abort
  | .fault f => .fault f

end Hb.Table
