/-
Layer 2 — the rayon CONSUMER side (external_trait_impls/rayon/{helpers,map,set}.rs).

`Hb/Model/Par.lean` models the producers (`RawIterRange::split` along a decision tree). This file
models what hashbrown does with the items once rayon hands them over:

* `helpers::collect` — every leaf of rayon's split tree folds its items into a `Vec`
  (`fold(Vec::new, push)`), wraps it into a one-element `LinkedList<Vec<T>>` (`map`), and `reduce`
  joins two neighbouring results with `list1.append(&mut list2)` (left operand first). The result is
  the list of per-leaf `Vec`s plus the total length.
* `ParallelExtend::par_extend` (`extend` in map.rs:444 / set.rs:373): `collect`, one up-front
  `reserve`, then ONE SEQUENTIAL `HashMap::extend(vec)` PER CHUNK in list order (each with its own
  reserve heuristic — that is `Hb.Map.extend` of `Entry.lean`).
* `FromParallelIterator::from_par_iter`: `HashMap::default()` + `par_extend`.
* the parallel set predicates / set operations of set.rs (`par_is_subset`, `par_is_disjoint`,
  `par_is_superset`, `par_eq`, `par_difference`, `par_intersection`, `par_union`,
  `par_symmetric_difference`) and `HashMap::par_eq` (map.rs:345): `all` / `filter` / `chain` over
  `par_iter()` with `contains` / `get` on the other collection.

What is modelled of rayon: the split tree (for an arbitrary *sequence* source such as a `Vec`:
`CTree`, split positions are arbitrary; for a hash-table source: `Par.Tree` and the real
`RawIterRange::split`), that every leaf is folded separately, that reducers combine neighbouring
results left-before-right (`collect`, `chain`), and the early exit of `all` (= `find_any`): a leaf
stops pulling items as soon as it sees the shared "found" flag (`stops`). Not modelled: threads,
work stealing, timing — leaves are evaluated one after the other in leaf order (the callbacks of a
lawful environment do not depend on the call number, which is all the theorems use).
-/
import Hb.Model.Par
import Hb.Model.Entry
import Hb.Model.Set
namespace Hb.ParCollect
open Hb

/-! ### `helpers::collect` -/

/-- Split tree of an indexed / sequence source: `node k l r` splits the current slice at position
    `min k len` (left part to `l`, right part to `r`), `leaf` folds the slice sequentially. -/
inductive CTree where
  | leaf
  | node (k : Nat) (l r : CTree)
deriving Repr, DecidableEq, Inhabited

/-- `helpers::collect(..).0`: one `Vec` per leaf; `reduce` appends the RIGHT list to the LEFT one
    (`list1.append(&mut list2); list1`). -/
def collectTree {α : Type} : CTree → List α → List (List α)
  | .leaf, xs => [xs]
  | .node k l r, xs => collectTree l (xs.take k) ++ collectTree r (xs.drop k)

/-- The bug "`list2.append(&mut list1); list2`": left appended after right. -/
def collectTree' {α : Type} : CTree → List α → List (List α)
  | .leaf, xs => [xs]
  | .node k l r, xs => collectTree' r (xs.drop k) ++ collectTree' l (xs.take k)

/-- `list.iter().map(Vec::len).sum()`. -/
def collectLen {α : Type} (list : List (List α)) : Nat := (list.map List.length).sum

/-- `helpers::collect`. -/
def collect {α : Type} (tr : CTree) (xs : List α) : List (List α) × Nat :=
  (collectTree tr xs, collectLen (collectTree tr xs))

/-! ### `par_extend` / `from_par_iter` (map.rs:444, set.rs:373) -/

/-- `for vec in list { map.extend(vec); }` — `HashMap::extend` per chunk (own `reserve`, then
    `insert` per pair). If a chunk unwinds, `vec::IntoIter` has dropped the rest of that chunk
    (inside `Map.extend`), then the `linked_list::IntoIter` drops the chunks not yet started. -/
def extendChunks (cfg : Cfg) (env : Env) : List (List Elem) → World → Res World
  | [], w => .ok w
  | c :: rest, w =>
    match Map.extend cfg env c w with
    | .ok w1 => extendChunks cfg env rest w1
    | .panic cl w' => .panic cl (Map.dropAllQuiet cfg rest.flatten w')
    | .abort => .abort
    | .fault f => .fault f

/-- The up-front reservation of the parallel `extend`:
    `if map.is_empty() { len } else { (len + 1) / 2 }`. -/
def parReserve (t : Raw) (len : Nat) : Nat := if t.items = 0 then len else (len + 1) / 2

/-- `extend(map, par_iter)` after `helpers::collect` returned `list`. -/
def parExtendList (cfg : Cfg) (env : Env) (list : List (List Elem)) (w : World) : Res World :=
  ((Hb.reserve cfg env (parReserve w.t (collectLen list)) w).onPanic
      (Map.dropAllQuiet cfg list.flatten)).bind fun w1 => extendChunks cfg env list w1

/-- `map.par_extend(items.into_par_iter())` when rayon splits the source along `tr`. -/
def parExtend (cfg : Cfg) (env : Env) (tr : CTree) (items : List Elem) (w : World) : Res World :=
  parExtendList cfg env (collectTree tr items) w

/-- `*m = HashMap::from_par_iter(..)` (same conventions as `Map.fromIter`: the previous map is
    dropped first; if a callback unwinds the map under construction is dropped and the target stays
    `new()`). `HashMap::default()` does not allocate; all capacity comes from `par_extend`. -/
def fromParIterList (cfg : Cfg) (env : Env) (list : List (List Elem)) (w : World) : Res World :=
  let old := w.t
  ((dropInnerTable cfg env old { w with t := Raw.new cfg.W }).onPanic
      (Map.dropAllQuiet cfg list.flatten)).bind fun w1 =>
    match parExtendList cfg env list w1 with
    | .panic c w' =>
      match dropInnerTable cfg (Map.quietEnv env) w'.t { w' with t := Raw.new cfg.W } with
      | .ok w'' => .panic c w''
      | r => r
    | r => r

def fromParIter (cfg : Cfg) (env : Env) (tr : CTree) (items : List Elem) (w : World) : Res World :=
  fromParIterList cfg env (collectTree tr items) w

/-- `set.par_extend(..)`: `HashSet::extend(vec)` = `map.extend(vec.map(|k| (k, ())))`. -/
def setParExtend (cfg : Cfg) (env : Env) (tr : CTree) (ks : List (Nat × Nat)) (w : World) : Res World :=
  parExtend cfg env tr (ks.map fun p => Set.elemOf p.1 p.2) w

/-! ### a hash table as the parallel source -/

/-- `bucket.as_ref()` for every bucket a leaf yields. -/
def leafElems (t : Raw) : List Nat → Except String (List Elem)
  | [] => .ok []
  | i :: rest =>
    match slotGet t i with
    | .error f => .error f
    | .ok e =>
      match leafElems t rest with
      | .error f => .error f
      | .ok es => .ok (e :: es)

def elemLeaves (t : Raw) : List (List Nat) → Except String (List (List Elem))
  | [] => .ok []
  | l :: rest =>
    match leafElems t l with
    | .error f => .error f
    | .ok es =>
      match elemLeaves t rest with
      | .error f => .error f
      | .ok ess => .ok (es :: ess)

/-- `t.par_iter()` / `set.par_iter()` driven along `tr`: the elements every leaf yields. -/
def parLeaves (cfg : Cfg) (t : Raw) (tr : Par.Tree) : Except String (List (List Elem)) :=
  match Par.splitLeaves cfg t tr with
  | .error f => .error f
  | .ok ls => elemLeaves t ls

/-- `map.par_extend(&src)` (items are copies of the source's pairs): producer tree `tr` over `src`,
    consumer = `collect` + chunk-wise `extend`. -/
def parExtendFrom (cfg : Cfg) (env : Env) (src : Raw) (tr : Par.Tree) (w : World) : Res World :=
  match parLeaves cfg src tr with
  | .error f => .fault f
  | .ok ls => parExtendList cfg env ls w

/-! ### `all` with its early exit -/

/-- What every leaf gets to examine: leaf `i` pulls at most `stops[i]` items before it sees
    `full()` (no entry = it never does). -/
def prefixes {α : Type} : List (List α) → List Nat → List (List α)
  | [], _ => []
  | l :: ls, stops => l.take (stops.headD l.length) :: prefixes ls stops.tail

/-- One leaf of `.all(|x| b.contains(x) == want)`: stops at the first counterexample. -/
def allProbe (cfg : Cfg) (env : Env) (b : Raw) (want : Bool) : List Elem → World → Res (Bool × World)
  | [], w => .ok (true, w)
  | e :: rest, w =>
    match Set.containsIn cfg env b e.k w with
    | .ok (r, w') => if r == want then allProbe cfg env b want rest w' else .ok (false, w')
    | .panic c w' => .panic c w'
    | .abort => .abort
    | .fault f => .fault f

/-- All leaves; the reducer of `find_any` is "either side found one". -/
def parAll (cfg : Cfg) (env : Env) (b : Raw) (want : Bool) : List (List Elem) → World → Res (Bool × World)
  | [], w => .ok (true, w)
  | l :: ls, w =>
    match allProbe cfg env b want l w with
    | .ok (r, w1) =>
      match parAll cfg env b want ls w1 with
      | .ok (r2, w2) => .ok (r && r2, w2)
      | .panic c w' => .panic c w'
      | .abort => .abort
      | .fault f => .fault f
    | .panic c w' => .panic c w'
    | .abort => .abort
    | .fault f => .fault f

/-- A stop pattern rayon can produce for `all(p)`: a leaf is cut short only after the shared flag
    was set, and the flag is set only by a leaf that found a counterexample among the items it
    examined. -/
def StopsOk {α : Type} (p : α → Bool) (ls : List (List α)) (stops : List Nat) : Prop :=
  prefixes ls stops ≠ ls → ∃ pre ∈ prefixes ls stops, pre.any (fun e => !p e) = true

/-! ### set predicates (set.rs:252–286); `w.t` is `self` -/

/-- `a.par_is_subset(b)`. -/
def parIsSubsetOf (cfg : Cfg) (env : Env) (a b : Raw) (tr : Par.Tree) (stops : List Nat) (w : World) :
    Res (Bool × World) :=
  if a.items ≤ b.items then
    match parLeaves cfg a tr with
    | .error f => .fault f
    | .ok ls => parAll cfg env b true (prefixes ls stops) w
  else .ok (false, w)

def parIsSubset (cfg : Cfg) (env : Env) (other : Raw) (tr : Par.Tree) (stops : List Nat) (w : World) :
    Res (Bool × World) :=
  parIsSubsetOf cfg env w.t other tr stops w

/-- `par_is_superset` = `other.par_is_subset(self)`. -/
def parIsSuperset (cfg : Cfg) (env : Env) (other : Raw) (tr : Par.Tree) (stops : List Nat) (w : World) :
    Res (Bool × World) :=
  parIsSubsetOf cfg env other w.t tr stops w

/-- `par_is_disjoint` = `self.into_par_iter().all(|x| !other.contains(x))` (always iterates `self`,
    unlike the sequential `is_disjoint`, which iterates the smaller set). -/
def parIsDisjoint (cfg : Cfg) (env : Env) (other : Raw) (tr : Par.Tree) (stops : List Nat) (w : World) :
    Res (Bool × World) :=
  match parLeaves cfg w.t tr with
  | .error f => .fault f
  | .ok ls => parAll cfg env other false (prefixes ls stops) w

/-- `HashSet::par_eq` = `self.len() == other.len() && self.par_is_subset(other)`. -/
def parSetEq (cfg : Cfg) (env : Env) (other : Raw) (tr : Par.Tree) (stops : List Nat) (w : World) :
    Res (Bool × World) :=
  if w.t.items = other.items then parIsSubset cfg env other tr stops w else .ok (false, w)

/-! ### set operations (set.rs:56–205): what every leaf hands to the consumer -/

/-- `.filter(|x| b.contains(x) == want)` leaf by leaf (no early exit). -/
def parFilter (cfg : Cfg) (env : Env) (b : Raw) (want : Bool) :
    List (List Elem) → World → Res (List (List Elem) × World)
  | [], w => .ok ([], w)
  | l :: ls, w =>
    match Set.yieldAll cfg env (Set.filtered l b want) w [] with
    | .ok (ys, w1) =>
      match parFilter cfg env b want ls w1 with
      | .ok (yss, w2) => .ok (ys :: yss, w2)
      | .panic c w' => .panic c w'
      | .abort => .abort
      | .fault f => .fault f
    | .panic c w' => .panic c w'
    | .abort => .abort
    | .fault f => .fault f

/-- `a.par_difference(b)` / `a.par_intersection(b)`: `a.par_iter().filter(..)`. -/
def parFilterOf (cfg : Cfg) (env : Env) (a b : Raw) (want : Bool) (tr : Par.Tree) (w : World) :
    Res (List (List Elem) × World) :=
  match parLeaves cfg a tr with
  | .error f => .fault f
  | .ok ls => parFilter cfg env b want ls w

def parDifference (cfg : Cfg) (env : Env) (other : Raw) (tr : Par.Tree) (w : World) :
    Res (List (List Elem) × World) :=
  parFilterOf cfg env w.t other false tr w

/-- Always iterates `self` (the sequential `intersection` iterates the smaller set). -/
def parIntersection (cfg : Cfg) (env : Env) (other : Raw) (tr : Par.Tree) (w : World) :
    Res (List (List Elem) × World) :=
  parFilterOf cfg env w.t other true tr w

/-- `larger.into_par_iter().chain(smaller.par_difference(larger))`: `chain` drives both halves and
    reduces left-before-right; each half has its own split tree. -/
def parUnion (cfg : Cfg) (env : Env) (other : Raw) (tr1 tr2 : Par.Tree) (w : World) :
    Res (List (List Elem) × World) :=
  let (s, l) := Set.smallerLarger w.t other
  match parLeaves cfg l tr1 with
  | .error f => .fault f
  | .ok xs =>
    match parFilterOf cfg env s l false tr2 w with
    | .ok (ys, w') => .ok (xs ++ ys, w')
    | r => r

/-- `a.par_difference(b).chain(b.par_difference(a))`. -/
def parSymmetricDifference (cfg : Cfg) (env : Env) (other : Raw) (tr1 tr2 : Par.Tree) (w : World) :
    Res (List (List Elem) × World) :=
  match parFilterOf cfg env w.t other false tr1 w with
  | .ok (xs, w1) =>
    match parFilterOf cfg env other w.t false tr2 w1 with
    | .ok (ys, w2) => .ok (xs ++ ys, w2)
    | r => r
  | r => r

/-! ### `HashMap::par_eq` (map.rs:345) -/

/-- All leaves of `.all(|(k, v)| other.get(k).map_or(false, |v2| *v == *v2))`; a leaf is
    `Map.eqLoop` (the loop of the sequential `PartialEq`) over the buckets it examines. -/
def parEqLeaves (cfg : Cfg) (env : Env) (a b : Raw) : List (List Nat) → World → Res (Bool × World)
  | [], w => .ok (true, w)
  | l :: ls, w =>
    match Map.eqLoop cfg env a b l w with
    | .ok (r, w1) =>
      match parEqLeaves cfg env a b ls w1 with
      | .ok (r2, w2) => .ok (r && r2, w2)
      | .panic c w' => .panic c w'
      | .abort => .abort
      | .fault f => .fault f
    | .panic c w' => .panic c w'
    | .abort => .abort
    | .fault f => .fault f

/-- `self.len() == other.len() && self.into_par_iter().all(..)`; `w.t = self`. -/
def parMapEq (cfg : Cfg) (env : Env) (b : Raw) (tr : Par.Tree) (stops : List Nat) (w : World) :
    Res (Bool × World) :=
  let a := w.t
  if a.items ≠ b.items then .ok (false, w)
  else
    match Par.splitLeaves cfg a tr with
    | .error f => .fault f
    | .ok ls =>
      match parEqLeaves cfg env a b (prefixes ls stops) w with
      | .ok (r, w') => .ok (r, { w' with t := a })
      | .panic c w' => .panic c { w' with t := a }
      | .abort => .abort
      | .fault f => .fault f

end Hb.ParCollect
